(* DurableW.v — appends under the SyncEach protocol: an invariant between the protocol monitor
   (events only) and the durability state, preserved along every accepted trace, and the
   consequence: an acknowledged write is reflected in every power-loss outcome. *)
From W Require Import model.Base model.Durable proofs.DurableP.
From Coq Require Import ZArith ZifyBool ZifyN ZifyNat.

Definition known (m : dmstate) (g : N) : Prop := In g (map w_name (m_wal m)) \/ is_idx_name m g = true.

Definition idx_names (m : dmstate) : list (N * N) := map (fun i => (i_tmp i, i_fin i)) (m_idx m).
Lemma is_idx_name_names m f :
  is_idx_name m f = existsb (fun p => (fst p =? f) || (snd p =? f)) (idx_names m).
Proof.
  unfold is_idx_name, idx_names. induction (m_idx m) as [|i l IH]; cbn; [reflexivity|]. now rewrite IH.
Qed.
Lemma idx_names_map (g : ist -> ist) (l : list ist) :
  (forall i, i_tmp (g i) = i_tmp i /\ i_fin (g i) = i_fin i) ->
  map (fun i => (i_tmp i, i_fin i)) (map g l) = map (fun i => (i_tmp i, i_fin i)) l.
Proof. intros H. rewrite map_map. apply map_ext. intros i. destruct (H i) as (-> & ->). reflexivity. Qed.

(* the monitor never changes the set of pair names *)
Lemma mstep_idx_names fixed m e m' : mstep fixed m e = Some m' -> idx_names m' = idx_names m.
Proof.
  unfold idx_names. destruct e; cbn [mstep]; intros H;
    repeat match type of H with
           | (if ?c then _ else _) = Some _ => destruct c; try discriminate
           | match ?c with Some _ => _ | None => _ end = Some _ => destruct c; try discriminate
           end; inversion H; subst; cbn; try reflexivity;
    unfold upd_idx; apply idx_names_map; intros r0; try destruct (i_tmp r0 =? _); split; reflexivity.
Qed.
Lemma mstep_is_idx_name fixed m e m' g : mstep fixed m e = Some m' -> is_idx_name m' g = is_idx_name m g.
Proof. intros H. rewrite !is_idx_name_names. now rewrite (mstep_idx_names _ _ _ _ H). Qed.

Lemma find_wal_some m f w : find_wal m f = Some w -> In w (m_wal m) /\ w_name w = f.
Proof. unfold find_wal. intros H. apply find_some in H. destruct H as (H1 & H2). split; [assumption|lia]. Qed.
Lemma find_wal_none m f w : find_wal m f = None -> In w (m_wal m) -> w_name w <> f.
Proof. unfold find_wal. intros H Hin E. eapply find_none in H; eauto. cbn in H. lia. Qed.

Lemma in_upd_wal m g f w' : In w' (upd_wal m g f) -> exists w, In w (m_wal m) /\ w' = (if w_name w =? f then g w else w).
Proof. unfold upd_wal. intros H. apply in_map_iff in H. destruct H as (w & <- & H). now exists w. Qed.
Lemma upd_wal_in m g f w : In w (m_wal m) -> In (if w_name w =? f then g w else w) (upd_wal m g f).
Proof. intros H. unfold upd_wal. apply in_map_iff. now exists w. Qed.
Lemma upd_wal_names m g f : (forall w, w_name (g w) = w_name w) -> map w_name (upd_wal m g f) = map w_name (m_wal m).
Proof. intros H. unfold upd_wal. rewrite map_map. apply map_ext. intros w. destruct (w_name w =? f); [apply H|reflexivity]. Qed.

Lemma nodup_names_eq (l : list wst) w1 w2 : NoDup (map w_name l) -> In w1 l -> In w2 l -> w_name w1 = w_name w2 -> w1 = w2.
Proof.
  induction l as [|w l IH]; intros Hn H1 H2 E; [destruct H1|]. cbn in Hn. inversion Hn as [|? ? Hnot Hn']; subst.
  destruct H1 as [<-|H1], H2 as [<-|H2]; try reflexivity.
  - exfalso. apply Hnot. rewrite E. now apply in_map.
  - exfalso. apply Hnot. rewrite <- E. now apply in_map.
  - now apply IH.
Qed.

Lemma overlaps_sym a b c d : overlaps a b c d = overlaps c d a b.
Proof. unfold overlaps. apply andb_comm. Qed.

Record WInv (m : dmstate) (s : dstate) : Prop := {
  wi_g : GInv s;
  wi_v1 : forall g i, vlook (d_vdir s) g = Some i -> known m g;
  wi_v2 : forall b d g, In (b, d) (d_dops s) -> touches d g -> known m g;
  wi_nodup : NoDup (map w_name (m_wal m));
  wi_disj : forall w, In w (m_wal m) -> is_idx_name m (w_name w) = false;
  wi_m1 : forall f off len id, In (f, (off, len, id)) (m_writes m) ->
          exists w, In w (m_wal m) /\ w_name w = f /\ w_dsync w = true /\ w_written w = true /\ off + len <= w_len w;
  wi_m2 : forall w, In w (m_wal m) -> w_written w = false -> forall x, ~ In (w_name w, x) (m_writes m);
  wi_m3 : forall f o1 l1 i1 o2 l2 i2, In (f, (o1, l1, i1)) (m_writes m) -> In (f, (o2, l2, i2)) (m_writes m) ->
          overlaps o1 l1 o2 l2 = true -> (o2, l2, i2) = (o1, l1, i1);
  wi_m5 : forall id, In id (m_acked m) -> exists f off len, In (f, (off, len, id)) (m_writes m);
  wi_m6 : forall id f, In id (m_acked m) -> ~ In (f, id) (m_pend m);
  wi_w1 : forall w, In w (m_wal m) -> exists i,
          vlook (d_vdir s) (w_name w) = Some i /\ In (w_dsync w, DLink (w_name w) i) (d_dops s) /\
          (forall b d, In (b, d) (d_dops s) -> touches d (w_name w) -> d = DLink (w_name w) i) /\
          (forall b o, In (b, (i, o)) (d_fops s) ->
             (o = FSetLen (w_len w) /\ 0 < w_len w) \/
             exists off len id, o = FWrite off len id /\ In (w_name w, (off, len, id)) (m_writes m));
  wi_w5 : forall f off len id i, In (f, (off, len, id)) (m_writes m) -> vlook (d_vdir s) f = Some i ->
          exists b, In (b, (i, FWrite off len id)) (d_fops s) /\ (b = true \/ In (f, id) (m_pend m)) }.

Lemma winv_init pairs : WInv (dm_init pairs) d_init.
Proof.
  constructor; cbn; try (intros; contradiction); try (intros; discriminate).
  - apply ginv_init.
  - constructor.
Qed.

Lemma known_wal m w : In w (m_wal m) -> known m (w_name w).
Proof. intros H. left. now apply in_map. Qed.

Lemma not_known_fresh m s f : WInv m s -> is_idx_name m f = false -> find_wal m f = None ->
  vlook (d_vdir s) f = None /\ forall b d, In (b, d) (d_dops s) -> ~ touches d f.
Proof.
  intros I Hi Hf.
  assert (Hk : ~ known m f).
  { intros [H|H]; [|congruence]. apply in_map_iff in H. destruct H as (w & E & H). eapply find_wal_none; eauto. }
  split.
  - destruct (vlook (d_vdir s) f) eqn:E; [|reflexivity]. exfalso. apply Hk. eapply wi_v1; eauto.
  - intros b d H Ht. apply Hk. eapply wi_v2; eauto.
Qed.

(* a dstep that leaves the WAL-side monitor fields alone, does not move WAL names, adds directory
   operations only on pair names and file operations only on inodes that are not WAL inodes *)
Lemma winv_frame m s m' s' :
  WInv m s -> GInv s' ->
  m_wal m' = m_wal m -> m_writes m' = m_writes m -> m_pend m' = m_pend m -> m_acked m' = m_acked m ->
  (forall g, is_idx_name m' g = is_idx_name m g) ->
  (forall g i, vlook (d_vdir s') g = Some i -> vlook (d_vdir s) g = Some i \/ is_idx_name m g = true) ->
  (forall g, is_idx_name m g = false -> vlook (d_vdir s') g = vlook (d_vdir s) g) ->
  (forall b d, In (b, d) (d_dops s') -> In (b, d) (d_dops s) \/ forall g, touches d g -> is_idx_name m g = true) ->
  (forall b d, In (b, d) (d_dops s) -> In (b, d) (d_dops s')) ->
  (forall b y, In (b, y) (d_fops s') ->
     (exists b', In (b', y) (d_fops s) /\ (b' = true -> b = true)) \/
     exists g, is_idx_name m g = true /\ vlook (d_vdir s') g = Some (fst y)) ->
  (forall b y, In (b, y) (d_fops s) -> exists b', In (b', y) (d_fops s') /\ (b = true -> b' = true)) ->
  WInv m' s'.
Proof.
  intros I G' Ewal Ewr Epe Eac Hidx Hv1 Hv2 Hd1 Hd2 Hf1 Hf2.
  assert (Hk : forall g, known m g -> known m' g).
  { intros g [H|H]; [left; now rewrite Ewal|right; now rewrite Hidx]. }
  constructor; try rewrite Ewal; try rewrite Ewr; try rewrite Epe; try rewrite Eac.
  - assumption.
  - intros g i H. apply Hk. destruct (Hv1 _ _ H) as [H'|H']; [eapply wi_v1; eauto|now right].
  - intros b d g H Ht. apply Hk. destruct (Hd1 _ _ H) as [H'|H']; [eapply wi_v2; eauto|right; auto].
  - apply (wi_nodup _ _ I).
  - intros w H. rewrite Hidx. now apply (wi_disj _ _ I).
  - apply (wi_m1 _ _ I).
  - apply (wi_m2 _ _ I).
  - apply (wi_m3 _ _ I).
  - apply (wi_m5 _ _ I).
  - apply (wi_m6 _ _ I).
  - intros w Hw. destruct (wi_w1 _ _ I w Hw) as (i & A & B & C & D).
    pose proof (wi_disj _ _ I w Hw) as Hni.
    exists i. split; [rewrite Hv2; assumption|]. split; [now apply Hd2|]. split.
    + intros b d H Ht. destruct (Hd1 _ _ H) as [H'|H']; [eauto|]. specialize (H' _ Ht). congruence.
    + intros b o H. destruct (Hf1 _ _ H) as [(b' & H' & _)|(g & Hg & Hgv)]; [eauto|]. cbn in Hgv.
      exfalso. rewrite <- (Hv2 _ Hni) in A. pose proof (g_inj _ G' _ _ _ A Hgv). congruence.
  - intros f off len id i Hw Hv.
    destruct (wi_m1 _ _ I _ _ _ _ Hw) as (w & Hin & <- & _).
    pose proof (wi_disj _ _ I w Hin) as Hni. rewrite (Hv2 _ Hni) in Hv.
    destruct (wi_w5 _ _ I _ _ _ _ _ Hw Hv) as (b & Hb & Hor).
    destruct (Hf2 _ _ Hb) as (b' & Hb' & Himp). exists b'. split; [assumption|].
    destruct Hor as [->|Hp]; [left; auto|now right].
Qed.

Ltac mstep_inv H :=
  repeat match type of H with
         | match ?c with Some _ => _ | None => _ end = Some _ => let E := fresh "Ef" in destruct c eqn:E; try discriminate
         | (if ?c then _ else _) = Some _ => let E := fresh "Ec" in destruct c eqn:E; try discriminate
         end; inversion H; subst; clear H.

Lemma find_tmp_idx m t r : find (fun i => i_tmp i =? t) (m_idx m) = Some r -> is_idx_name m t = true.
Proof.
  intros H. apply find_some in H. destruct H as (H1 & H2). unfold is_idx_name. apply existsb_exists.
  exists r. split; [assumption|]. rewrite H2. reflexivity.
Qed.
Lemma find_tmp_fin m t r : find (fun i => i_tmp i =? t) (m_idx m) = Some r -> is_idx_name m (i_fin r) = true.
Proof.
  intros H. apply find_some in H. destruct H as (H1 & H2). unfold is_idx_name. apply existsb_exists.
  exists r. split; [assumption|]. rewrite N.eqb_refl. apply orb_true_r.
Qed.

Lemma winv_step fixed m s e m' : WInv m s -> mstep fixed m e = Some m' -> WInv m' (dstep s e).
Proof.
  intros I H. pose proof (ginv_step s e (wi_g _ _ I)) as G'.
  assert (Hidx : forall g, is_idx_name m' g = is_idx_name m g) by (intros g; eapply mstep_is_idx_name; eauto).
  destruct e; cbn [mstep] in H.
  - (* ECreate *)
    mstep_inv H. destruct (not_known_fresh _ _ _ I Ec Ef) as (Hv & Hd).
    cbn [dstep] in *. unfold do_create in *. rewrite Hv in *. set (n := d_next s) in *.
    assert (Hk : forall g, known m g -> known (with_wal m (mkW f false 0 false :: m_wal m)) g).
    { intros g [Hg|Hg]; [left; cbn; now right|now right]. }
    assert (Hnf : forall w, In w (m_wal m) -> w_name w <> f) by (intros; eapply find_wal_none; eauto).
    constructor; cbn [d_next d_vdir d_fops d_dops m_wal m_writes m_pend m_acked with_wal].
    + assumption.
    + intros g i. cbn. destruct (N.eqb_spec f g) as [->|]; intros Hg; [left; cbn; now left|]. apply Hk. eapply wi_v1; eauto.
    + intros b d g [E|Hin] Ht; [inversion E; subst; cbn in Ht; subst; left; cbn; now left|]. apply Hk. eapply wi_v2; eauto.
    + cbn. constructor; [|apply (wi_nodup _ _ I)]. intros Hin. apply in_map_iff in Hin. destruct Hin as (w & E & Hin). eapply Hnf; eauto.
    + intros w [<-|Hin]; cbn; [exact Ec|now apply (wi_disj _ _ I)].
    + intros f0 off len id Hw. destruct (wi_m1 _ _ I _ _ _ _ Hw) as (w & Hin & R). exists w. split; [now right|exact R].
    + intros w [<-|Hin] Hu x Hx; cbn in *.
      * destruct x as [[o l] d]. destruct (wi_m1 _ _ I _ _ _ _ Hx) as (w & Hin & E & _). eapply Hnf; eauto.
      * eapply (wi_m2 _ _ I); eauto.
    + apply (wi_m3 _ _ I).
    + apply (wi_m5 _ _ I).
    + apply (wi_m6 _ _ I).
    + intros w [<-|Hin]; cbn [w_name w_dsync w_len].
      * exists n. cbn. rewrite N.eqb_refl. split; [reflexivity|]. split; [now left|]. split.
        -- intros b d [E|Hin] Ht; [now inversion E|]. exfalso. eapply Hd; eauto.
        -- intros b o Hin. exfalso. pose proof (g_flt _ (wi_g _ _ I) _ _ _ Hin). unfold n in *. lia.
      * destruct (wi_w1 _ _ I w Hin) as (i & A & B & C & D). exists i. cbn.
        destruct (N.eqb_spec f (w_name w)) as [E|_]; [exfalso; eapply Hnf; eauto|].
        split; [assumption|]. split; [now right|]. split; [|exact D].
        intros b d [E|Hd'] Ht; [inversion E; subst; cbn in Ht; exfalso; eapply Hnf; eauto|eauto].
    + intros f0 off len id i Hw. cbn. destruct (N.eqb_spec f f0) as [<-|_].
      * destruct (wi_m1 _ _ I _ _ _ _ Hw) as (w & Hin & E & _). exfalso. eapply Hnf; eauto.
      * intros Hv'. eapply (wi_w5 _ _ I); eauto.
  - (* ESetLen *)
    mstep_inv H. apply andb_prop in Ec. destruct Ec as (Ec & Hn). apply andb_prop in Ec. destruct Ec as (Hu & Hl0).
    destruct (find_wal_some _ _ _ Ef) as (Hin0 & Hname0).
    destruct (wi_w1 _ _ I _ Hin0) as (i0 & A0 & B0 & C0 & D0). rewrite Hname0 in *.
    cbn [dstep] in *. rewrite A0 in *.
    set (g := fun w0 : wst => mkW (w_name w0) (w_dsync w0) n false) in *.
    assert (Hnm : map w_name (upd_wal m g f) = map w_name (m_wal m)) by (apply upd_wal_names; reflexivity).
    assert (Huniq : forall w', In w' (m_wal m) -> w_name w' = f -> w' = w).
    { intros w' Hin' E'. eapply nodup_names_eq; [apply (wi_nodup _ _ I)| | |]; eauto. congruence. }
    assert (Hk : forall x, known m x -> known (with_wal m (upd_wal m g f)) x).
    { intros x [Hx|Hx]; [left; cbn; now rewrite Hnm|now right]. }
    constructor; cbn [add_fop d_next d_vdir d_fops d_dops m_wal m_writes m_pend m_acked with_wal].
    + assumption.
    + intros x i Hx. apply Hk. eapply wi_v1; eauto.
    + intros b d x Hin Ht. apply Hk. eapply wi_v2; eauto.
    + rewrite Hnm. apply (wi_nodup _ _ I).
    + intros w' Hin'. apply in_upd_wal in Hin'. destruct Hin' as (w0 & Hin0' & ->).
      replace (w_name (if w_name w0 =? f then g w0 else w0)) with (w_name w0) by (destruct (w_name w0 =? f); reflexivity).
      now apply (wi_disj _ _ I).
    + intros f0 off len id Hw. destruct (wi_m1 _ _ I _ _ _ _ Hw) as (w0 & Hin' & E & R).
      exists w0. split; [|split; assumption].
      pose proof (upd_wal_in m g f w0 Hin') as Hu'. destruct (N.eqb_spec (w_name w0) f) as [Ef'|_]; [|exact Hu'].
      exfalso. rewrite (Huniq _ Hin' Ef') in R. destruct R as (_ & R & _). cbn in Hu. destruct (w_written w); discriminate.
    + intros w' Hin' Hu' x Hx. apply in_upd_wal in Hin'. destruct Hin' as (w0 & Hin0' & ->).
      destruct (N.eqb_spec (w_name w0) f) as [Ef'|_]; cbn in *.
      * rewrite (Huniq _ Hin0' Ef') in *. eapply (wi_m2 _ _ I w); eauto. destruct (w_written w); [discriminate|reflexivity].
      * eapply (wi_m2 _ _ I w0); eauto.
    + apply (wi_m3 _ _ I).
    + apply (wi_m5 _ _ I).
    + apply (wi_m6 _ _ I).
    + intros w' Hin'. apply in_upd_wal in Hin'. destruct Hin' as (w0 & Hin0' & ->).
      destruct (N.eqb_spec (w_name w0) f) as [Ef'|Hne].
      * rewrite (Huniq _ Hin0' Ef') in *. cbn [g w_name w_dsync w_len]. rewrite Hname0. exists i0.
        split; [assumption|]. split; [assumption|]. split; [assumption|].
        intros b o [E|Hin']; [inversion E; subst; left; split; [reflexivity|lia]|].
        destruct (D0 _ _ Hin') as [(-> & Hpos)|(off & len & id & -> & Hw)]; [lia|].
        exfalso. eapply (wi_m2 _ _ I w); [assumption| |rewrite Hname0; exact Hw]. destruct (w_written w); [discriminate|reflexivity].
      * destruct (wi_w1 _ _ I w0 Hin0') as (i & A & B & C & D). exists i.
        split; [assumption|]. split; [assumption|]. split; [assumption|].
        intros b o [E|Hin']; [|eauto]. inversion E; subst. exfalso. apply Hne.
        eapply (g_inj _ (wi_g _ _ I)); eauto.
    + intros f0 off len id i Hw Hv. destruct (wi_w5 _ _ I _ _ _ _ _ Hw Hv) as (b & Hb & Hor). exists b. split; [now right|assumption].
  - (* EWrite *)
    mstep_inv H. apply andb_prop in Ec. destruct Ec as (Ec & Hfresh). apply andb_prop in Ec. destruct Ec as (Ec & Hno).
    apply andb_prop in Ec. destruct Ec as (Hds & Hfit).
    apply negb_true_iff in Hfresh, Hno.
    destruct (find_wal_some _ _ _ Ef) as (Hin0 & Hname0).
    destruct (wi_w1 _ _ I _ Hin0) as (i0 & A0 & B0 & C0 & D0). rewrite Hname0 in *.
    cbn [dstep] in *. unfold do_write in *. rewrite A0 in *.
    set (g := fun w0 : wst => mkW (w_name w0) (w_dsync w0) (w_len w0) true) in *.
    assert (Hnm : map w_name (upd_wal m g f) = map w_name (m_wal m)) by (apply upd_wal_names; reflexivity).
    assert (Huniq : forall w', In w' (m_wal m) -> w_name w' = f -> w' = w).
    { intros w' Hin' E'. eapply nodup_names_eq; [apply (wi_nodup _ _ I)| | |]; eauto. congruence. }
    assert (Hnoover : forall o2 l2 i2, In (f, (o2, l2, i2)) (m_writes m) -> overlaps off len o2 l2 = false).
    { intros o2 l2 i2 Hw. destruct (overlaps off len o2 l2) eqn:Eo; [|reflexivity]. exfalso.
      assert (existsb (fun p : N * (N * N * N) => (fst p =? f) && overlaps off len (fst (fst (snd p))) (snd (fst (snd p)))) (m_writes m) = true).
      { apply existsb_exists. eexists; split; [exact Hw|]. cbn. rewrite N.eqb_refl. exact Eo. }
      congruence. }
    assert (Hidfresh : forall f2 o2 l2, ~ In (f2, (o2, l2, id)) (m_writes m)).
    { intros f2 o2 l2 Hw.
      assert (existsb (fun p : N * (N * N * N) => snd (snd p) =? id) (m_writes m) = true).
      { apply existsb_exists. eexists; split; [exact Hw|]. cbn. apply N.eqb_refl. }
      congruence. }
    constructor; cbn [add_fop d_next d_vdir d_fops d_dops m_wal m_writes m_pend m_acked].
    + assumption.
    + intros x i Hx. destruct (wi_v1 _ _ I _ _ Hx) as [Hk|Hk]; [left; cbn; now rewrite Hnm|now right].
    + intros b d x Hin Ht. destruct (wi_v2 _ _ I _ _ _ Hin Ht) as [Hk|Hk]; [left; cbn; now rewrite Hnm|now right].
    + rewrite Hnm. apply (wi_nodup _ _ I).
    + intros w' Hin'. apply in_upd_wal in Hin'. destruct Hin' as (w0 & Hin0' & ->).
      replace (w_name (if w_name w0 =? f then g w0 else w0)) with (w_name w0) by (destruct (w_name w0 =? f); reflexivity).
      now apply (wi_disj _ _ I).
    + intros f0 off0 len0 id0 [E|Hw].
      * inversion E; subst. exists (g w). split; [|cbn; repeat split; try assumption; lia].
        pose proof (upd_wal_in m g (w_name w) w Hin0) as Hu. now rewrite N.eqb_refl in Hu.
      * destruct (wi_m1 _ _ I _ _ _ _ Hw) as (w0 & Hin' & E & R1 & R2 & R3).
        exists (if w_name w0 =? f then g w0 else w0). split; [now apply upd_wal_in|].
        destruct (w_name w0 =? f); cbn; repeat split; assumption.
    + intros w' Hin' Hu' x Hx. apply in_upd_wal in Hin'. destruct Hin' as (w0 & Hin0' & ->).
      destruct (N.eqb_spec (w_name w0) f) as [Ef'|Hne]; cbn in Hu'; [discriminate|].
      destruct Hx as [E|Hx]; [inversion E; congruence|]. eapply (wi_m2 _ _ I w0); eauto.
    + intros f0 o1 l1 i1 o2 l2 i2 [E1|H1] [E2|H2] Ho.
      * inversion E1; inversion E2; subst. reflexivity.
      * inversion E1; subst. rewrite (Hnoover _ _ _ H2) in Ho. discriminate.
      * inversion E2; subst. rewrite overlaps_sym, (Hnoover _ _ _ H1) in Ho. discriminate.
      * eapply (wi_m3 _ _ I); eauto.
    + intros id0 Ha. destruct (wi_m5 _ _ I _ Ha) as (f2 & o2 & l2 & Hw). exists f2, o2, l2. now right.
    + intros id0 f0 Ha Hp. destruct osync.
      * eapply (wi_m6 _ _ I); eauto.
      * destruct Hp as [E|Hp]; [|eapply (wi_m6 _ _ I); eauto]. inversion E; subst.
        destruct (wi_m5 _ _ I _ Ha) as (f2 & o2 & l2 & Hw). eapply Hidfresh; eauto.
    + intros w' Hin'. apply in_upd_wal in Hin'. destruct Hin' as (w0 & Hin0' & ->).
      destruct (N.eqb_spec (w_name w0) f) as [Ef'|Hne].
      * rewrite (Huniq _ Hin0' Ef') in *. cbn [g w_name w_dsync w_len]. rewrite Hname0. exists i0.
        split; [assumption|]. split; [assumption|]. split; [assumption|].
        intros b o [E|Hin']; [inversion E; subst; right; exists off, len, id; split; [reflexivity|now left]|].
        destruct (D0 _ _ Hin') as [Hl|(off' & len' & id' & -> & Hw)]; [now left|].
        right. exists off', len', id'. split; [reflexivity|now right].
      * destruct (wi_w1 _ _ I w0 Hin0') as (i & A & B & C & D). exists i.
        split; [assumption|]. split; [assumption|]. split; [assumption|].
        intros b o [E|Hin'].
        -- inversion E; subst. exfalso. apply Hne. eapply (g_inj _ (wi_g _ _ I)); eauto.
        -- destruct (D _ _ Hin') as [Hl|(off' & len' & id' & -> & Hw)]; [now left|].
           right. exists off', len', id'. split; [reflexivity|now right].
    + intros f0 off0 len0 id0 i [E|Hw] Hv.
      * inversion E; subst. assert (i = i0) by congruence. subst i. exists osync. split; [now left|].
        destruct osync; [now left|right; now left].
      * destruct (wi_w5 _ _ I _ _ _ _ _ Hw Hv) as (b & Hb & Hor). exists b. split; [now right|].
        destruct Hor as [->|Hp]; [now left|right]. destruct osync; [assumption|now right].
  - (* ESyncFile *)
    assert (Hsync : forall i, m_wal m' = m_wal m -> m_writes m' = m_writes m -> m_acked m' = m_acked m ->
              (forall f0 id, In (f0, id) (m_pend m') -> In (f0, id) (m_pend m)) ->
              (forall f0 id j, In (f0, id) (m_pend m) -> vlook (d_vdir s) f0 = Some j -> j <> i -> In (f0, id) (m_pend m')) ->
              WInv m' (mkD (d_next s) (d_vdir s) (sync_ino i (d_fops s)) (d_dops s))).
    { intros i Ewal Ewr Eac Hp1 Hp2.
      assert (Hk : forall g, known m g -> known m' g) by (intros g [Hg|Hg]; [left; now rewrite Ewal|right; now rewrite Hidx]).
      constructor; cbn [d_next d_vdir d_fops d_dops]; try rewrite Ewal; try rewrite Ewr; try rewrite Eac.
      - destruct (wi_g _ _ I) as [G1 G2 G3 G4]. constructor; cbn; auto.
        intros b j o Hin. apply in_sync_ino in Hin. destruct Hin as (b' & Hin & _). eauto.
      - intros g j Hg. apply Hk. eapply wi_v1; eauto.
      - intros b d g Hin Ht. apply Hk. eapply wi_v2; eauto.
      - apply (wi_nodup _ _ I).
      - intros w Hin. rewrite Hidx. now apply (wi_disj _ _ I).
      - apply (wi_m1 _ _ I).
      - apply (wi_m2 _ _ I).
      - apply (wi_m3 _ _ I).
      - apply (wi_m5 _ _ I).
      - intros id f0 Ha Hp. eapply (wi_m6 _ _ I); eauto.
      - intros w Hin. destruct (wi_w1 _ _ I w Hin) as (j & A & B & C & D). exists j.
        split; [assumption|]. split; [assumption|]. split; [assumption|].
        intros b o Hin'. apply in_sync_ino in Hin'. destruct Hin' as (b' & Hin' & _). eauto.
      - intros f0 off len id j Hw Hv. destruct (wi_w5 _ _ I _ _ _ _ _ Hw Hv) as (b & Hb & Hor).
        exists (b || (j =? i)). split; [apply (sync_ino_in i) in Hb; exact Hb|].
        destruct Hor as [->|Hp]; [now left|]. destruct (N.eqb_spec j i) as [->|Hne]; [left; apply orb_true_r|].
        right. eapply Hp2; eauto. }
    cbn [dstep]. destruct (find_wal m f) as [w|] eqn:Ef.
    + inversion H; subst; clear H. destruct (find_wal_some _ _ _ Ef) as (Hin0 & Hname0).
      destruct (wi_w1 _ _ I _ Hin0) as (i0 & A0 & _). rewrite Hname0 in A0. rewrite A0.
      apply Hsync; cbn; try reflexivity.
      * intros f0 id Hp. apply filter_In in Hp. tauto.
      * intros f0 id j Hp Hv Hne. apply filter_In. split; [assumption|]. cbn.
        destruct (N.eqb_spec f0 f) as [->|]; [congruence|reflexivity].
    + mstep_inv H. destruct (vlook (d_vdir s) f) as [j|] eqn:Ev.
      * apply Hsync; cbn; try reflexivity; auto.
      * eapply winv_frame; try exact I; cbn; try reflexivity; auto.
        -- apply (wi_g _ _ I).
        -- intros b y Hin. left. exists b. split; [assumption|auto].
        -- intros b y Hin. exists b. split; [assumption|auto].
  - (* ESyncDir *)
    inversion H; subst; clear H. cbn [dstep].
    set (gw := fun w : wst => mkW (w_name w) true (w_len w) (w_written w)) in *.
    assert (Hnm : map w_name (map gw (m_wal m)) = map w_name (m_wal m)) by (rewrite map_map; reflexivity).
    constructor; cbn [d_next d_vdir d_fops d_dops m_wal m_writes m_pend m_acked].
    + assumption.
    + intros g i Hg. destruct (wi_v1 _ _ I _ _ Hg) as [Hk|Hk]; [left; cbn; now rewrite Hnm|right; now rewrite Hidx].
    + intros b d g Hin Ht. apply in_sync_all in Hin. destruct Hin as (_ & b' & Hin).
      destruct (wi_v2 _ _ I _ _ _ Hin Ht) as [Hk|Hk]; [left; cbn; now rewrite Hnm|right; now rewrite Hidx].
    + rewrite Hnm. apply (wi_nodup _ _ I).
    + intros w Hin. apply in_map_iff in Hin. destruct Hin as (w0 & <- & Hin). rewrite Hidx. cbn. now apply (wi_disj _ _ I).
    + intros f off len id Hw. destruct (wi_m1 _ _ I _ _ _ _ Hw) as (w0 & Hin & E & R1 & R2 & R3).
      exists (gw w0). split; [now apply in_map|]. cbn. repeat split; assumption.
    + intros w Hin Hu x Hx. apply in_map_iff in Hin. destruct Hin as (w0 & <- & Hin). cbn in *. eapply (wi_m2 _ _ I w0); eauto.
    + apply (wi_m3 _ _ I).
    + apply (wi_m5 _ _ I).
    + apply (wi_m6 _ _ I).
    + intros w Hin. apply in_map_iff in Hin. destruct Hin as (w0 & <- & Hin). cbn [gw w_name w_dsync w_len].
      destruct (wi_w1 _ _ I w0 Hin) as (i & A & B & C & D). exists i.
      split; [assumption|]. split; [eapply sync_all_in; eauto|]. split; [|exact D].
      intros b d Hin' Ht. apply in_sync_all in Hin'. destruct Hin' as (_ & b' & Hin'). eauto.
    + apply (wi_w5 _ _ I).
  - (* ETmpWrite *)
    mstep_inv H. pose proof (find_tmp_idx _ _ _ Ef) as Hti.
    eapply winv_frame; try exact I; try assumption; cbn; try reflexivity.
    + intros g j0. unfold do_write, do_create. destruct (vlook (d_vdir s) f) as [j|] eqn:Ev; cbn; rewrite ?Ev; cbn; rewrite ?N.eqb_refl; cbn.
      * auto.
      * destruct (N.eqb_spec f g) as [<-|]; auto.
    + intros g Hg. unfold do_write, do_create. destruct (vlook (d_vdir s) f) as [j|] eqn:Ev; cbn; rewrite ?Ev; cbn; rewrite ?N.eqb_refl; cbn.
      * reflexivity.
      * destruct (N.eqb_spec f g) as [<-|]; [congruence|reflexivity].
    + intros b d. unfold do_write, do_create. destruct (vlook (d_vdir s) f) as [j|] eqn:Ev; cbn; rewrite ?Ev; cbn; rewrite ?N.eqb_refl; cbn.
      * auto.
      * intros [E|Hin]; [right; inversion E; subst; cbn; intros g <-; assumption|now left].
    + intros b d. unfold do_write, do_create. destruct (vlook (d_vdir s) f) as [j|] eqn:Ev; cbn; rewrite ?Ev; cbn; rewrite ?N.eqb_refl; cbn; auto.
    + intros b y. unfold do_write, do_create. destruct (vlook (d_vdir s) f) as [j|] eqn:Ev; cbn; rewrite ?Ev; cbn; rewrite ?N.eqb_refl; cbn.
      * intros [E|[E|Hin]]; [right|right|left].
        -- inversion E; subst. exists f. split; [assumption|]. cbn. assumption.
        -- inversion E; subst. exists f. split; [assumption|]. cbn. assumption.
        -- exists b. split; [assumption|auto].
      * intros [E|Hin]; [right|left].
        -- inversion E; subst. exists f. split; [assumption|]. cbn. now rewrite N.eqb_refl.
        -- exists b. split; [assumption|auto].
    + intros b y Hin. exists b. split; [|auto].
      unfold do_write, do_create. destruct (vlook (d_vdir s) f) as [j|] eqn:Ev; cbn; rewrite ?Ev; cbn; rewrite ?N.eqb_refl; cbn; auto.
  - (* ERename *)
    mstep_inv H. apply andb_prop in Ec. destruct Ec as (_ & Hb). apply N.eqb_eq in Hb. subst b.
    pose proof (find_tmp_idx _ _ _ Ef) as Hai. pose proof (find_tmp_fin _ _ _ Ef) as Hbi.
    cbn [dstep] in *. destruct (vlook (d_vdir s) a) as [j|] eqn:Ev.
    + eapply winv_frame; try exact I; try assumption; cbn; try reflexivity.
      * intros g i0. destruct (N.eqb_spec (i_fin i) g) as [<-|]; [auto|]. rewrite !vlook_vdel.
        destruct (i_fin i =? g), (a =? g); try discriminate. auto.
      * intros g Hg. destruct (N.eqb_spec (i_fin i) g) as [<-|]; [congruence|]. rewrite !vlook_vdel.
        destruct (N.eqb_spec (i_fin i) g); [congruence|]. destruct (N.eqb_spec a g) as [<-|]; [congruence|reflexivity].
      * intros b d [E|Hin]; [right|now left]. inversion E; subst. cbn. intros g [<-|<-]; assumption.
      * auto.
      * intros b y Hin. left. exists b. auto.
      * intros b y Hin. exists b. auto.
    + destruct s as [n v fo dd]. cbn in *.
      eapply winv_frame; try exact I; try assumption; cbn; try reflexivity; auto.
      * intros b y Hin. left. exists b. auto.
      * intros b y Hin. exists b. auto.
  - discriminate.
  - (* EAck *)
    mstep_inv H. apply andb_prop in Ec. destruct Ec as (Hex & Hnp). apply negb_true_iff in Hnp. cbn [dstep].
    apply existsb_exists in Hex. destruct Hex as ([f0 [[o0 l0] id0]] & Hw & E). cbn in E. apply N.eqb_eq in E. subst id0.
    constructor; try (first [exact (wi_g _ _ I)|exact (wi_v1 _ _ I)|exact (wi_v2 _ _ I)|exact (wi_nodup _ _ I)|exact (wi_disj _ _ I)
                             |exact (wi_m1 _ _ I)|exact (wi_m2 _ _ I)|exact (wi_m3 _ _ I)|exact (wi_w1 _ _ I)|exact (wi_w5 _ _ I)]);
      cbn [m_wal m_writes m_pend m_acked].
    + intros id0 [<-|Ha]; [exists f0, o0, l0; assumption|now apply (wi_m5 _ _ I)].
    + intros id0 f1 [<-|Ha] Hp; [|eapply (wi_m6 _ _ I); eauto].
      assert (existsb (fun p : N * N => snd p =? id) (m_pend m) = true) by (apply existsb_exists; eexists; split; [exact Hp|cbn; apply N.eqb_refl]).
      congruence.
  - (* EAckRead *)
    mstep_inv H. cbn [dstep].
    constructor; first [exact (wi_g _ _ I)|exact (wi_v1 _ _ I)|exact (wi_v2 _ _ I)|exact (wi_nodup _ _ I)|exact (wi_disj _ _ I)
                       |exact (wi_m1 _ _ I)|exact (wi_m2 _ _ I)|exact (wi_m3 _ _ I)|exact (wi_m5 _ _ I)|exact (wi_m6 _ _ I)
                       |exact (wi_w1 _ _ I)|exact (wi_w5 _ _ I)].
Qed.

Lemma mrun_winv fixed tr : forall m s m', WInv m s -> dmrun fixed m tr = Some m' -> WInv m' (drun_from s tr).
Proof.
  induction tr as [|e tr IH]; intros m s m' I H; cbn in *.
  - inversion H; subst. assumption.
  - destruct (mstep fixed m e) as [m1|] eqn:E; [|discriminate]. eapply IH; [|exact H]. eapply winv_step; eauto.
Qed.

(* the monitor's record of writes and acknowledgements is the trace's *)
Lemma mstep_mono fixed m e m' : mstep fixed m e = Some m' ->
  (forall x, In x (m_writes m) -> In x (m_writes m')) /\ (forall x, In x (m_acked m) -> In x (m_acked m')) /\
  (forall x, In x (m_racked m) -> In x (m_racked m')) /\
  (forall f off len id os, e = EWrite f off len id os -> In (f, (off, len, id)) (m_writes m')) /\
  (forall id, e = EAck id -> In id (m_acked m')) /\
  (forall x id, e = EAckRead x id -> In (x, id) (m_racked m')).
Proof.
  intros H. destruct e; cbn [mstep] in H; mstep_inv H; cbn;
    repeat split; intros; try discriminate; auto;
    match goal with E : _ = _ |- _ => inversion E; subst; now left end.
Qed.

Lemma mrun_record fixed tr : forall m m', dmrun fixed m tr = Some m' ->
  (forall x, In x (m_writes m) -> In x (m_writes m')) /\ (forall x, In x (m_acked m) -> In x (m_acked m')) /\
  (forall x, In x (m_racked m) -> In x (m_racked m')) /\
  (forall f off len id os, In (EWrite f off len id os) tr -> In (f, (off, len, id)) (m_writes m')) /\
  (forall id, In (EAck id) tr -> In id (m_acked m')) /\
  (forall x id, In (EAckRead x id) tr -> In (x, id) (m_racked m')).
Proof.
  induction tr as [|e tr IH]; intros m m' H; cbn in H.
  - inversion H; subst. repeat split; auto; intros; contradiction.
  - destruct (mstep fixed m e) as [m1|] eqn:E; [|discriminate].
    destruct (mstep_mono _ _ _ _ E) as (A1 & A2 & A3 & A4 & A5 & A6).
    destruct (IH _ _ H) as (B1 & B2 & B3 & B4 & B5 & B6).
    repeat split; auto.
    + intros f off len id os [->|Hin]; [apply B1; eapply A4; eauto|eauto].
    + intros id [->|Hin]; [apply B2; eapply A5; eauto|eauto].
    + intros x id [->|Hin]; [apply B3; eapply A6; eauto|eauto].
Qed.

Lemma mrun_firstn fixed tr : forall k m m', dmrun fixed m tr = Some m' -> exists m'', dmrun fixed m (firstn k tr) = Some m''.
Proof.
  induction tr as [|e tr IH]; intros k m m' H.
  - rewrite firstn_nil. now exists m.
  - destruct k; [now exists m|]. cbn in *. destruct (mstep fixed m e) as [m1|]; [|discriminate]. eauto.
Qed.

Lemma proto_ok_firstn fixed pairs tr k : proto_ok fixed pairs tr = true -> proto_ok fixed pairs (firstn k tr) = true.
Proof.
  unfold proto_ok. intros H. apply andb_prop in H. destruct H as (-> & H). cbn.
  destruct (dmrun fixed (dm_init pairs) tr) as [m'|] eqn:E; [|discriminate].
  destruct (mrun_firstn _ _ k _ _ E) as (m'' & ->). reflexivity.
Qed.

(* the invariant at the end of an accepted trace: an acknowledged write is reflected in every outcome *)
Lemma winv_reflected m s f off len id o :
  WInv m s -> In (f, (off, len, id)) (m_writes m) -> In id (m_acked m) -> admissible s o -> reflected o f off len id.
Proof.
  intros I Hw Ha (Af & Ad).
  destruct (wi_m1 _ _ I _ _ _ _ Hw) as (w & Hin & Hname & Hds & _ & Hfit). subst f.
  destruct (wi_w1 _ _ I w Hin) as (i & A & B & C & D). rewrite Hds in B.
  destruct (wi_w5 _ _ I _ _ _ _ _ Hw A) as (b & Hb & Hor).
  assert (b = true) by (destruct Hor as [->|Hp]; [reflexivity|exfalso; eapply (wi_m6 _ _ I); eauto]). subst b.
  exists i. split; [|split].
  - apply dlook_only_link.
    + intros d Hd Ht. destruct (adm_sub _ _ _ Ad Hd) as (b & Hd'). eauto.
    + eapply adm_keeps; eauto.
  - eapply (flen_kept _ i (w_len w) off len id (map snd (filter (fun p => fst p =? w_name w) (m_writes m)))).
    + intros o' Ho. destruct (adm_sub _ _ _ Af Ho) as (b & Ho'). destruct (D _ _ Ho') as [(-> & _)|(off' & len' & id' & -> & Hw')]; [now left|].
      right. exists off', len', id'. split; [reflexivity|]. apply in_map_iff. exists (w_name w, (off', len', id')). split; [reflexivity|].
      apply filter_In. split; [assumption|]. cbn. apply N.eqb_refl.
    + intros off' len' id' Hin'. apply in_map_iff in Hin'. destruct Hin' as ([f' t] & E & Hin'). cbn in E. subst t.
      apply filter_In in Hin'. destruct Hin' as (Hin' & E). cbn in E. apply N.eqb_eq in E. subst f'.
      destruct (wi_m1 _ _ I _ _ _ _ Hin') as (w' & Hin2 & Hname2 & _ & _ & Hfit').
      rewrite (nodup_names_eq _ _ _ (wi_nodup _ _ I) Hin2 Hin Hname2) in Hfit'. exact Hfit'.
    + apply in_map_iff. exists (w_name w, (off, len, id)). split; [reflexivity|]. apply filter_In. split; [assumption|]. cbn. apply N.eqb_refl.
    + eapply adm_keeps; eauto.
  - eapply (owner_kept _ i (w_len w) off len id (map snd (filter (fun p => fst p =? w_name w) (m_writes m)))).
    + intros o' Ho. destruct (adm_sub _ _ _ Af Ho) as (b & Ho'). destruct (D _ _ Ho') as [(-> & _)|(off' & len' & id' & -> & Hw')]; [now left|].
      right. exists off', len', id'. split; [reflexivity|]. apply in_map_iff. exists (w_name w, (off', len', id')). split; [reflexivity|].
      apply filter_In. split; [assumption|]. cbn. apply N.eqb_refl.
    + intros off' len' id' Hin'. apply in_map_iff in Hin'. destruct Hin' as ([f' t] & E & Hin'). cbn in E. subst t.
      apply filter_In in Hin'. destruct Hin' as (Hin' & E). cbn in E. apply N.eqb_eq in E. subst f'.
      destruct (wi_m1 _ _ I _ _ _ _ Hin') as (w' & Hin2 & Hname2 & _ & _ & Hfit').
      rewrite (nodup_names_eq _ _ _ (wi_nodup _ _ I) Hin2 Hin Hname2) in Hfit'. exact Hfit'.
    + intros off' len' id' Hin' Ho. apply in_map_iff in Hin'. destruct Hin' as ([f' t] & E & Hin'). cbn in E. subst t.
      apply filter_In in Hin'. destruct Hin' as (Hin' & E). cbn in E. apply N.eqb_eq in E. subst f'.
      eapply (wi_m3 _ _ I); eauto.
    + apply in_map_iff. exists (w_name w, (off, len, id)). split; [reflexivity|]. apply filter_In. split; [assumption|]. cbn. apply N.eqb_refl.
    + eapply adm_keeps; eauto.
Qed.

(* C10, appends: for EVERY trace that follows the protocol, EVERY prefix of it, EVERY power-loss
   outcome admissible for that prefix: a write whose acknowledgement lies in the prefix is reflected *)
Theorem appends_durable fixed pairs tr k :
  proto_ok fixed pairs tr = true ->
  forall f off len id os, In (EWrite f off len id os) (firstn k tr) -> In (EAck id) (firstn k tr) ->
  forall o, admissible (drun (firstn k tr)) o -> reflected o f off len id.
Proof.
  intros H f off len id os Hw Ha o Hadm.
  apply (proto_ok_firstn _ _ _ k) in H. unfold proto_ok in H. apply andb_prop in H. destruct H as (_ & H).
  destruct (dmrun fixed (dm_init pairs) (firstn k tr)) as [m'|] eqn:E; [|discriminate].
  pose proof (mrun_winv _ _ _ _ _ (winv_init pairs) E) as I.
  destruct (mrun_record _ _ _ _ E) as (_ & _ & _ & B4 & B5 & _).
  eapply winv_reflected; eauto.
Qed.
