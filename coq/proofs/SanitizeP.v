(* Proofs about model/Sanitize.v *)
From W Require Import model.Base model.Fnv model.Utf8 model.Sanitize.
From Coq Require Import ZArith ZifyBool ZifyN.
Ltac Zify.zify_post_hook ::= Z.div_mod_to_equations.

Definition okc (x : N) : bool := negb (x =? ch_slash) && negb (x =? 0).

Lemma san_char_ok c : okc (san_char c) = true.
Proof.
  unfold okc, san_char, is_ascii_alnum, is_digit, is_upper, is_lower,
    ch_0, ch_9, ch_A, ch_Z, ch_a, ch_z, ch_dash, ch_us, ch_dot, ch_slash.
  destruct (_ || _ || _ || _) eqn:E; lia.
Qed.

Lemma hex_digit_ok d : d < 16 -> okc (hex_digit d) = true.
Proof.
  intros H. unfold okc, hex_digit, ch_0, ch_a, ch_slash. destruct (d <? 10) eqn:E; lia.
Qed.

Lemma hex_aux_ok fuel : forall n acc, forallb okc acc = true -> forallb okc (hex_aux fuel n acc) = true.
Proof.
  induction fuel as [|f IH]; intros n acc Ha; cbn [hex_aux]; [exact Ha|].
  destruct (n <? 16) eqn:E.
  - cbn [forallb]. rewrite Ha, hex_digit_ok by lia. reflexivity.
  - apply IH. cbn [forallb]. rewrite Ha, hex_digit_ok by lia. reflexivity.
Qed.

Lemma safe_component_eq c : safe_component c =
  negb (match c with [] => true | _ => false end) && negb (is_dot_component c) && forallb okc c.
Proof. reflexivity. Qed.

Lemma fallback_safe key : safe_component (fallback key) = true.
Proof.
  rewrite safe_component_eq. unfold fallback, ns_prefix, hex. cbn [app].
  set (h := hex_aux _ _ _).
  assert (Hh : forallb okc h = true) by (apply hex_aux_ok; reflexivity).
  cbn [forallb]. rewrite Hh. reflexivity.
Qed.

Lemma map_san_ok key : forallb okc (map san_char key) = true.
Proof. induction key as [|c r IH]; cbn; [reflexivity|]. now rewrite san_char_ok, IH. Qed.

Theorem sanitize_safe key : safe_component (sanitize key) = true.
Proof.
  unfold sanitize. destruct (all_us (map san_char key) || is_dot_component (map san_char key)) eqn:E.
  - apply fallback_safe.
  - apply orb_false_elim in E. destruct E as [Eu Ed].
    rewrite safe_component_eq.
    rewrite Ed, map_san_ok. destruct (map san_char key); [discriminate Eu|reflexivity].
Qed.

(* the pinned-tree function: dot-only keys escape *)
Lemma sanitize_v0_refuted :
  safe_component (sanitize_v0 [ch_dot; ch_dot]) = false /\
  safe_component (sanitize_v0 [ch_dot]) = false /\
  sanitize_v0 [ch_dot; ch_dot] = [ch_dot; ch_dot].
Proof. vm_compute. auto. Qed.

(* the fix changes nothing else *)
Lemma sanitize_v0_agree key :
  is_dot_component (map san_char key) = false -> sanitize key = sanitize_v0 key.
Proof. unfold sanitize, sanitize_v0. intros ->. now rewrite orb_false_r. Qed.

(* distinct keys that sanitize differently give distinct roots: trivial; what matters for
   C14 is that the component is a function of the key only and is safe. *)
Example sanitize_examples :
  sanitize [116; 101; 110; 97; 110; 116; 45; 49] = [116; 101; 110; 97; 110; 116; 45; 49] /\
  sanitize [97; 47; 98] = [97; 95; 98] /\
  sanitize [] = [110; 115; 95; 99; 98; 102; 50; 57; 99; 101; 52; 56; 52; 50; 50; 50; 51; 50; 53].
Proof. vm_compute. auto. Qed.
