(* EngineALO2.v — the lagging position invariant along every restart-free history in ANY mode, and
   the crash-between-operations corollary: after the restart nothing is skipped. *)
From W Require Import model.Base model.Engine spec.Queue proofs.EngineBasic proofs.EngineWF proofs.EngineInv proofs.EngineBR proofs.EngineW
  proofs.EngineMain proofs.EngineRec proofs.EngineDisk proofs.EnginePos proofs.EngineGrow proofs.EngineP3 proofs.EngineIdx proofs.EngineBlk
  proofs.EngineNorm proofs.EngineNormW proofs.EngineRaw proofs.EngineRestart proofs.EngineReopen proofs.EngineC06 proofs.EngineP3L
  proofs.EngineIdxL proofs.EnginePWL proofs.EngineALO.
From Coq Require Import ZArith ZifyBool ZifyN ZifyNat.

Definition GL (c : Cfg) (s : st) (g : lg) (B Bb : N) : Prop :=
  Rel c s g B Bb /\ DIs c s /\ BIs c s /\ DLim c s /\ forall t, P3L c (a_next (s_alloc s)) (get_ts s t).

Lemma GL_init c : 0 < c_block c -> GL c init [] 0 0.
Proof.
  intros Hb. split; [apply Rel_init|]. split; [now apply DIs_init|]. split; [apply BIs_init|]. split; [apply DLim_init|].
  intros t. apply P3L_tstate0.
Qed.

Lemma P3L_set c s t ts' : (forall t0, P3L c (a_next (s_alloc s)) (get_ts s t0)) -> P3L c (a_next (s_alloc s)) ts' ->
  forall t0, P3L c (a_next (s_alloc (set_ts s t ts'))) (get_ts (set_ts s t ts') t0).
Proof.
  intros Hall Ht t0. cbn [set_ts s_alloc]. destruct (N.eq_dec t0 t) as [->|Hne]; [now rewrite get_set_same|].
  rewrite get_set_other by exact Hne. apply Hall.
Qed.

Lemma GL_step c m be s g B Bb o : cfg_ok c -> GL c s g B Bb -> op_ok c o ->
  B + N.of_nat (length (offered o)) <= u64_max -> Bb + sum_len (offered o) <= u64_max ->
  GL c (fst (step (env_of c m be) s o)) (ledger_step g o (snd (step (env_of c m be) s o)))
     (B + N.of_nat (length (offered o))) (Bb + sum_len (offered o)).
Proof.
  intros Hc (Hrel & Hd & Hb & Hl & Hp) Hok HB HBb. pose proof Hc as (Hh & Hb0 & _).
  pose proof (step_ok c m be s g B Bb o Hc Hrel Hok HB HBb) as Hstep.
  pose proof (DIs_step c m be s g B Bb o Hc Hrel Hd Hok HB) as Hd'.
  pose proof (BIs_step c m be s g B Bb o Hc Hrel Hd Hb Hok HB) as Hb'.
  pose proof (DLim_step c m be s o Hb0 Hl) as Hl'.
  destruct (step (env_of c m be) s o) as [s' r] eqn:Es. cbn [fst snd] in *.
  destruct Hstep as (_ & _ & _ & Hrel').
  split; [exact Hrel'|]. split; [exact Hd'|]. split; [exact Hb'|]. split; [exact Hl'|].
  pose proof Hrel as ((Hn & Hti) & _).
  destruct o as [t e | t es | t ck | t maxb ck start | t | ]; cbn [step env_of v_cfg v_mode v_backend] in Es.
  - (* append *)
    assert (s' = fst (append c s t e)) by (now rewrite Es). subst s'. intros t0.
    destruct (N.eq_dec t0 (t_id t)) as [->|Hne]; [apply append_P3L; [exact Hc|split; assumption|apply Hp]|].
    rewrite append_others by exact Hne. eapply P3L_mono; [apply append_next_mono|apply Hp].
  - assert (s' = fst (batch c be s t es)) by (now rewrite Es). subst s'. intros t0.
    destruct (N.eq_dec t0 (t_id t)) as [->|Hne]; [apply batch_P3L; [exact Hc|split; assumption|apply Hp]|].
    rewrite batch_others by exact Hne. eapply P3L_mono; [apply batch_next_mono|apply Hp].
  - (* read_next *)
    destruct (read_next_spec_idxL c m s t ck (a_next (s_alloc s)) Hc (Hti (t_id t))) as (ts' & res & Hr & Hinv' & Hst' & Hw' & Hch' & Hhy' & Hcase & Hidx).
    rewrite Hr in Es. inversion Es; subst s' r. apply P3L_set; [exact Hp|].
    destruct Hidx as [Hi|[(p & Hi & Hpos)|(w & Hck & Hw0 & Hi & Hri & Hun0 & Hne)]].
    + destruct (unread c (get_ts s (t_id t))) as [|e0 rest] eqn:Eu.
      * destruct Hcase as (_ & Hun'). apply (P3L_suffix c _ (get_ts s (t_id t)) ts' [] Hch' Hw' Hi); [now rewrite Eu, Hun'|apply Hp].
      * destruct Hcase as (_ & Hun'). destruct ck.
        -- apply (P3L_suffix c _ (get_ts s (t_id t)) ts' [e0] Hch' Hw' Hi); [now rewrite Eu, Hun'|apply Hp].
        -- apply (P3L_suffix c _ (get_ts s (t_id t)) ts' [] Hch' Hw' Hi); [now rewrite Eu, Hun'|apply Hp].
    + apply P3_P3L. eapply posis_P3; eauto. unfold CNE. rewrite Hch'. exact (proj1 (Hp (t_id t))).
    + (* AtLeastOnce: provisional position on the non-empty writer block, then an unpersisted read *)
      assert (Hcne : CNE ts') by (unfold CNE; rewrite Hch'; exact (proj1 (Hp (t_id t)))).
      split; [exact Hcne|]. rewrite Hi. left.
      assert (Hm : memne ts' = chain_of ts' ++ [w]).
      { rewrite (memne_cne ts' Hcne). unfold w_list. rewrite Hw', Hw0. cbn [filter].
        apply nonempty_b_true in Hne. now rewrite Hne. }
      destruct (unread c (get_ts s (t_id t))) as [|e0 rest] eqn:Eu; [congruence|].
      destruct Hcase as (_ & Hun'). rewrite Hck in Hun'.
      exists (length (chain_of ts')), w, [e0]. rewrite Hm. cbn [p_tail p_a p_off].
      split; [rewrite nth_error_app2 by lia; now rewrite Nat.sub_diag|]. split; [reflexivity|]. split; [apply okoff_0|].
      unfold from. rewrite skipn_app, skipn_all, Nat.sub_diag. cbn [app skipn chain_ents flat_map].
      rewrite app_nil_r, ents_from_0, <- Hun0, Hun'. reflexivity.
  - (* batch_read *)
    destruct start as [st0|].
    + destruct (batch_read_stateless c m s t maxb ck st0) as (os & Hr). rewrite Hr in Es. inversion Es; subst s' r.
      intros t0. cbn [set_ts s_alloc]. destruct (N.eq_dec t0 (t_id t)) as [->|Hne]; [rewrite get_set_same|rewrite get_set_other by exact Hne]; apply Hp.
    + destruct (batch_read_spec_idxL c m s t maxb ck (a_next (s_alloc s)) Hc (Hti (t_id t))) as (ts' & k & Hr & Hinv' & Hst' & Hw' & Hch' & Hhy' & Hk & Hk1 & Hun' & Hidx).
      rewrite Hr in Es. inversion Es; subst s' r. apply P3L_set; [exact Hp|].
      destruct Hidx as [Hi|(p & Hi & Hpos)].
      * destruct ck.
        -- apply (P3L_suffix c _ (get_ts s (t_id t)) ts' (firstn k (unread c (get_ts s (t_id t)))) Hch' Hw' Hi); [rewrite Hun'; symmetry; apply firstn_skipn|apply Hp].
        -- apply (P3L_suffix c _ (get_ts s (t_id t)) ts' [] Hch' Hw' Hi); [now rewrite Hun'|apply Hp].
      * apply P3_P3L. eapply posis_P3; eauto. unfold CNE. rewrite Hch'. exact (proj1 (Hp (t_id t))).
  - inversion Es; subst s' r. exact Hp.
  - contradiction.
Qed.

Theorem GL_reachable c m be : cfg_ok c -> forall ops s g B Bb,
  GL c s g B Bb -> Forall (op_ok c) ops ->
  B + N.of_nat (length (offered_all ops)) <= u64_max -> Bb + sum_len (offered_all ops) <= u64_max ->
  exists B' Bb', GL c (exec (env_of c m be) s ops) (ledger_run g (trace (env_of c m be) s ops)) B' Bb'.
Proof.
  intros Hc. induction ops as [|o r IH]; intros s g B Bb HG Hok HB HBb; [exists B, Bb; exact HG|].
  inversion Hok as [|x l Ho Hr]; subst.
  cbn [offered_all] in HB, HBb. rewrite app_length, Nat2N.inj_add in HB. rewrite sum_len_app in HBb.
  pose proof (GL_step c m be s g B Bb o Hc HG Ho ltac:(lia) ltac:(lia)) as Hstep.
  cbn [exec trace]. destruct (step (env_of c m be) s o) as [s' res]. cbn [fst snd ledger_run] in *.
  apply (IH s' _ _ _ Hstep Hr); lia.
Qed.

Lemma skipn_back {A} (l pre : list A) k d : (d <= length l)%nat -> skipn k l = pre ++ skipn d l ->
  exists k', (k' <= d)%nat /\ skipn k' l = skipn k l.
Proof.
  intros Hd H. destruct (Nat.le_gt_cases k d) as [Hle|Hgt]; [exists k; auto|].
  exists d. split; [lia|].
  assert (Hlen : length (skipn k l) = (length pre + length (skipn d l))%nat) by (rewrite H; apply app_length).
  rewrite !skipn_length in Hlen.
  assert (d = length l) by lia. subst d.
  rewrite skipn_all. rewrite skipn_all2 by lia. reflexivity.
Qed.

(* crash between two operations of a restart-free history, ANY mode (AtLeastOnce in particular),
   outside the known classes: the stream is intact and the consumer resumes at or BEFORE the first
   entry it had not been handed (k <= number of entries returned by consuming reads): never skips *)
Theorem crash_between_operations_never_skips c m be ops : cfg_ok c -> Forall (op_ok c) ops ->
  N.of_nat (length (offered_all ops)) <= u64_max -> sum_len (offered_all ops) <= u64_max ->
  restart_known c (exec (env_of c m be) init ops) = false ->
  let s := exec (env_of c m be) init ops in
  let g := ledger_run [] (trace (env_of c m be) init ops) in
  forall t x,
    stream (get_ts (reopen c s) t) = l_app (lget g t) /\
    exists k, (k <= l_del (lget g t))%nat /\
              unread c (nrm x (get_ts (reopen c s) t)) = skipn k (l_app (lget g t)).
Proof.
  intros Hc Hok HB HBb Hk. cbn zeta. pose proof Hc as (_ & Hb0 & _).
  destruct (GL_reachable c m be Hc ops init [] 0 0 (GL_init c Hb0) Hok ltac:(lia) ltac:(lia)) as (B' & Bb' & HG).
  destruct HG as (((Hn & Hti) & Hled) & Hd & Hb & Hl & Hp). intros t x.
  destruct (Hled t) as (Hdl & Hs & Hu & _).
  apply orb_false_iff in Hk. destruct Hk as (Hdrift & Hstale).
  assert (Hns : forall p, ts_index (get_ts (exec (env_of c m be) init ops) t) = Some p ->
                          stale_p (memne (get_ts (exec (env_of c m be) init ops) t)) p = false).
  { intros p Hpp. unfold get_ts in *.
    destruct (find (fun q => fst q =? t) (s_topics (exec (env_of c m be) init ops))) as [[k0 old]|] eqn:Ef; [|discriminate].
    pose proof (find_some _ _ Ef) as (Hin & Hk0). cbn in Hk0. assert (k0 = t) by lia. subst k0. cbn [snd] in *.
    eapply nostale; eauto. }
  destruct (reopen_unread_lag c _ t x _ Hc Hd Hb Hl (Hti t) (Hp t) Hdrift Hns) as (Hst & (pre & Hpre) & (k & Hsk)).
  split; [now rewrite Hst|].
  rewrite Hs in Hsk. rewrite Hu in Hpre.
  destruct (skipn_back (l_app (lget _ t)) pre k (l_del (lget _ t)) Hdl ltac:(rewrite <- Hsk; exact Hpre)) as (k' & Hk' & Heq).
  exists k'. split; [exact Hk'|]. now rewrite Hsk, Heq.
Qed.

(* ------------------------------------------------------------------ since the repair of the provisional persist: every
   persisted position is a (possibly lagging) GOOD one, in any mode — block-id drift is the only known class *)
Definition PL (c : Cfg) (s : st) : Prop := forall t p, ts_index (get_ts s t) = Some p -> PLag c (get_ts s t) p.

Lemma PL_init c : PL c init.
Proof. intros t p H. discriminate. Qed.

Lemma PL_write c s s' g g' B Bb B' Bb' t :
  cfg_ok c -> Rel c s g B Bb -> Rel c s' g' B' Bb' -> PL c s ->
  Grow (get_ts s t) (get_ts s' t) -> ts_index (get_ts s' t) = ts_index (get_ts s t) ->
  (forall t', t' <> t -> get_ts s' t' = get_ts s t') ->
  l_del (lget g' t) = l_del (lget g t) ->
  PL c s'.
Proof.
  intros Hc (_ & Hall) (_ & Hall') Hpl Hg Hi Hoth Hdel t0 p Hp. pose proof Hc as (Hh & _).
  destruct (N.eq_dec t0 t) as [->|Hne]; [|rewrite (Hoth t0 Hne) in *; now apply Hpl].
  rewrite Hi in Hp. specialize (Hpl t p Hp).
  destruct (Hall t) as (Hdl & Hs & Hu & _). destruct (Hall' t) as (Hdl' & Hs' & Hu' & _).
  pose proof Hg as (_ & (es & Hes & _)).
  eapply PLag_grow; [exact Hh|exact Hg|exact Hes| |exact Hpl].
  rewrite Hu', Hu, Hdel, <- Hs', Hes, Hs. now rewrite skipn_app_le by exact Hdl.
Qed.

Lemma CS_hydrated_world c nid ts bid : TInv c nid ts -> CS ts bid nid.
Proof. intros Hti Hh p Hp. rewrite (ti_hyd _ _ _ Hti Hh) in Hp. discriminate. Qed.

Lemma PL_set c s t ts' : PL c s -> (forall p, ts_index ts' = Some p -> PLag c ts' p) -> PL c (set_ts s t ts').
Proof.
  intros Hpl Ht t0 p Hp. destruct (N.eq_dec t0 t) as [->|Hne]; [rewrite get_set_same in *; now apply Ht|].
  rewrite get_set_other in * by exact Hne. now apply Hpl.
Qed.

Lemma PL_step c m be s g B Bb o : cfg_ok c -> GL c s g B Bb -> PL c s -> op_ok c o ->
  B + N.of_nat (length (offered o)) <= u64_max -> Bb + sum_len (offered o) <= u64_max ->
  PL c (fst (step (env_of c m be) s o)).
Proof.
  intros Hc HGL Hpl Hok HB HBb. pose proof Hc as (Hh & Hb0 & _).
  pose proof (GL_step c m be s g B Bb o Hc HGL Hok HB HBb) as (Hrel' & _).
  destruct HGL as (Hrel & Hd & Hb & Hl & Hp). pose proof Hrel as ((Hn & Hti) & _).
  destruct o as [t e | t es | t ck | t maxb ck start | t | ]; cbn [step env_of v_cfg v_mode v_backend] in *.
  - assert (Hcs : forall bid, (forall w, ts_writer (get_ts s (t_id t)) = Some w -> bid = b_id w) ->
                    (ts_writer (get_ts s (t_id t)) = None -> bid = a_next (s_alloc s)) -> CS (get_ts s (t_id t)) bid (a_next (s_alloc s))).
    { intros bid _ _. apply (CS_hydrated_world c). apply Hti. }
    destruct (proj2 (append_Nst false c s t e Hn Hcs)) as (_ & _ & K3 & _).
    eapply (PL_write c s _ g _ B Bb _ _ (t_id t) Hc Hrel Hrel' Hpl).
    + apply append_grow_nc; [exact Hc|split; assumption].
    + exact K3.
    + intros t' Hne. now apply append_others.
    + now apply ledger_step_write_del.
  - assert (Hcs : forall bid, (forall w, ts_writer (get_ts s (t_id t)) = Some w -> bid = b_id w) ->
                    (ts_writer (get_ts s (t_id t)) = None -> bid = a_next (s_alloc s)) -> CS (get_ts s (t_id t)) bid (a_next (s_alloc s))).
    { intros bid _ _. apply (CS_hydrated_world c). apply Hti. }
    destruct (proj2 (batch_Nst false c be s t es Hn Hcs)) as (_ & _ & K3 & _).
    eapply (PL_write c s _ g _ B Bb _ _ (t_id t) Hc Hrel Hrel' Hpl).
    + apply batch_grow_nc; [exact Hc|split; assumption].
    + exact K3.
    + intros t' Hne. now apply batch_others.
    + now apply ledger_step_write_del.
  - destruct (read_next_spec_idxL c m s t ck (a_next (s_alloc s)) Hc (Hti (t_id t))) as (ts' & res & Hr & Hinv' & Hst' & Hw' & Hch' & Hhy' & Hcase & Hidx).
    rewrite Hr. cbn [fst]. apply PL_set; [exact Hpl|]. intros p Hpp.
    assert (Hcne : CNE ts') by (unfold CNE; rewrite Hch'; exact (proj1 (Hp (t_id t)))).
    destruct Hidx as [Hi|[(p' & Hi & Hpos)|(w & Hck & Hw0 & Hi & Hri & Hun0 & Hne)]].
    + rewrite Hi in Hpp. pose proof (Hpl (t_id t) p Hpp) as Hlag.
      destruct (unread c (get_ts s (t_id t))) as [|e0 rest] eqn:Eu.
      * destruct Hcase as (_ & Hun'). apply (PLag_suffix c (get_ts s (t_id t)) ts' p [] Hch' Hw'); [now rewrite Eu, Hun'|exact Hlag].
      * destruct Hcase as (_ & Hun'). destruct ck.
        -- apply (PLag_suffix c (get_ts s (t_id t)) ts' p [e0] Hch' Hw'); [now rewrite Eu, Hun'|exact Hlag].
        -- apply (PLag_suffix c (get_ts s (t_id t)) ts' p [] Hch' Hw'); [now rewrite Eu, Hun'|exact Hlag].
    + rewrite Hi in Hpp. inversion Hpp; subst p'. apply PGood_PLag. eapply posis_PGood; eauto.
    + rewrite Hi in Hpp. inversion Hpp; subst p.
      assert (Hm : memne ts' = chain_of ts' ++ [w]).
      { rewrite (memne_cne ts' Hcne). unfold w_list. rewrite Hw', Hw0. cbn [filter].
        apply nonempty_b_true in Hne. now rewrite Hne. }
      destruct (unread c (get_ts s (t_id t))) as [|e0 rest] eqn:Eu; [congruence|].
      destruct Hcase as (_ & Hun'). rewrite Hck in Hun'.
      exists (length (chain_of ts')), w, [e0]. rewrite Hm. cbn [p_tail p_a p_off].
      split; [rewrite nth_error_app2 by lia; now rewrite Nat.sub_diag|]. split; [reflexivity|]. split; [apply okoff_0|].
      unfold from. rewrite skipn_app, skipn_all, Nat.sub_diag. cbn [app skipn chain_ents flat_map].
      rewrite app_nil_r, ents_from_0, <- Hun0, Hun'. reflexivity.
  - destruct start as [st0|].
    + destruct (batch_read_stateless c m s t maxb ck st0) as (os & Hr). rewrite Hr. cbn [fst].
      apply PL_set; [exact Hpl|]. intros p Hpp. now apply Hpl.
    + destruct (batch_read_spec_idxL c m s t maxb ck (a_next (s_alloc s)) Hc (Hti (t_id t))) as (ts' & k & Hr & Hinv' & Hst' & Hw' & Hch' & Hhy' & Hk & Hk1 & Hun' & Hidx).
      rewrite Hr. cbn [fst]. apply PL_set; [exact Hpl|]. intros p Hpp.
      assert (Hcne : CNE ts') by (unfold CNE; rewrite Hch'; exact (proj1 (Hp (t_id t)))).
      destruct Hidx as [Hi|(p' & Hi & Hpos)].
      * rewrite Hi in Hpp. pose proof (Hpl (t_id t) p Hpp) as Hlag. destruct ck.
        -- apply (PLag_suffix c (get_ts s (t_id t)) ts' p (firstn k (unread c (get_ts s (t_id t)))) Hch' Hw'); [rewrite Hun'; symmetry; apply firstn_skipn|exact Hlag].
        -- apply (PLag_suffix c (get_ts s (t_id t)) ts' p [] Hch' Hw'); [now rewrite Hun'|exact Hlag].
      * rewrite Hi in Hpp. inversion Hpp; subst p'. apply PGood_PLag. eapply posis_PGood; eauto.
  - exact Hpl.
  - contradiction.
Qed.

Theorem PL_reachable c m be : cfg_ok c -> forall ops s g B Bb,
  GL c s g B Bb -> PL c s -> Forall (op_ok c) ops ->
  B + N.of_nat (length (offered_all ops)) <= u64_max -> Bb + sum_len (offered_all ops) <= u64_max ->
  PL c (exec (env_of c m be) s ops).
Proof.
  intros Hc. induction ops as [|o r IH]; intros s g B Bb HG Hpl Hok HB HBb; [exact Hpl|].
  inversion Hok as [|x l Ho Hr]; subst.
  cbn [offered_all] in HB, HBb. rewrite app_length, Nat2N.inj_add in HB. rewrite sum_len_app in HBb.
  pose proof (GL_step c m be s g B Bb o Hc HG Ho ltac:(lia) ltac:(lia)) as Hstep.
  pose proof (PL_step c m be s g B Bb o Hc HG Hpl Ho ltac:(lia) ltac:(lia)) as Hpl'.
  cbn [exec]. destruct (step (env_of c m be) s o) as [s' res]. cbn [fst snd] in *.
  apply (IH s' _ _ _ Hstep Hpl' Hr); lia.
Qed.

(* the crash-between-operations theorem with block-id drift as the only hypothesis *)
Theorem crash_between_operations_never_skips_nd c m be ops : cfg_ok c -> Forall (op_ok c) ops ->
  N.of_nat (length (offered_all ops)) <= u64_max -> sum_len (offered_all ops) <= u64_max ->
  id_drift c (exec (env_of c m be) init ops) = false ->
  let s := exec (env_of c m be) init ops in
  let g := ledger_run [] (trace (env_of c m be) init ops) in
  forall t x,
    stream (get_ts (reopen c s) t) = l_app (lget g t) /\
    exists k, (k <= l_del (lget g t))%nat /\
              unread c (nrm x (get_ts (reopen c s) t)) = skipn k (l_app (lget g t)).
Proof.
  intros Hc Hok HB HBb Hdrift. cbn zeta. pose proof Hc as (_ & Hb0 & _).
  destruct (GL_reachable c m be Hc ops init [] 0 0 (GL_init c Hb0) Hok ltac:(lia) ltac:(lia)) as (B' & Bb' & HG).
  pose proof (PL_reachable c m be Hc ops init [] 0 0 (GL_init c Hb0) (PL_init c) Hok ltac:(lia) ltac:(lia)) as Hpl.
  destruct HG as (((Hn & Hti) & Hled) & Hd & Hb & Hl & Hp). intros t x.
  destruct (Hled t) as (Hdl & Hs & Hu & _).
  assert (Hns : forall p, ts_index (get_ts (exec (env_of c m be) init ops) t) = Some p ->
                          stale_p (memne (get_ts (exec (env_of c m be) init ops) t)) p = false).
  { intros p Hpp. eapply PLag_nonstale. now apply Hpl. }
  destruct (reopen_unread_lag c _ t x _ Hc Hd Hb Hl (Hti t) (Hp t) Hdrift Hns) as (Hst & (pre & Hpre) & (k & Hsk)).
  split; [now rewrite Hst|].
  rewrite Hs in Hsk. rewrite Hu in Hpre.
  destruct (skipn_back (l_app (lget _ t)) pre k (l_del (lget _ t)) Hdl ltac:(rewrite <- Hsk; exact Hpre)) as (k' & Hk' & Heq).
  exists k'. split; [exact Hk'|]. now rewrite Hsk, Heq.
Qed.
