(* ConcMainF.v — the code with the fix (fx = true): the invariant of proofs/ConcInvF.v holds along
   EVERY schedule (no hypothesis on the interleaving, any number of consumers per topic). *)
From W Require Import model.Base model.Engine model.Conc spec.ConcSpec proofs.EngineWF proofs.EngineInv proofs.EngineW proofs.EngineBR
  proofs.EngineMain proofs.ConcInv proofs.ConcStep proofs.ConcBridge proofs.ConcMain proofs.ConcInvF proofs.ConcStepF proofs.ConcBridgeF.
From Coq Require Import ZArith ZifyBool ZifyN ZifyNat.

Lemma stepF_inv c m be progs cs L tid cs' l :
  cfg_ok c -> NoDup (offered_pids progs) ->
  INVF c progs cs L ->
  cstep (env_of' c m be) true tid cs = OStep cs' l ->
  exists L', INVF c progs cs' L'.
Proof.
  intros Hc Hnd Hinv Hstep. pose proof Hinv as [Inext Its Ibf Ilock Ilen Ith Iwin Ilog Imine Iown Iowned].
  unfold cstep in Hstep. destruct (nth_error (cs_threads cs) tid) as [th|] eqn:Hth; [|discriminate].
  destruct (th_todo th) as [|cl rest] eqn:Htodo; [discriminate|].
  destruct (Ith tid th Hth) as (Hok & Hsimple & Hhist).
  rewrite Htodo in Hsimple. inversion Hsimple as [|x y Hs1 Hs2]; subst x y.
  destruct cl as [t e|t es|t ck|t mb ck]; cbn in Hs1; try discriminate.
  - (* ---------------- append *)
    unfold th_okP in Hok. rewrite Htodo in Hok.
    cbn [seg env_of' v_cfg v_mode] in Hstep. unfold seg_append in Hstep.
    destruct (th_pc th) eqn:Hpc; try contradiction.
    + destruct (ensure_writer c (sh_st (cs_sh cs)) t) as [s1 w0] eqn:Hens.
      rewrite Ibf, bf_mem_nil in Hstep.
      destruct (appendable c t (e_len e)) as [kk|] eqn:Hap; inversion Hstep; subst cs' l; rewrite upd_eq; exists L.
      * eapply (stepF_A1 c progs cs L tid th t e rest _ s1 w0 Hc Hinv Hth Htodo Hpc Hens). right. eexists. reflexivity.
      * eapply (stepF_A1 c progs cs L tid th t e rest _ s1 w0 Hc Hinv Hth Htodo Hpc Hens). left. split; [reflexivity|exact Hap].
    + destruct (wl_holder (sh_wl (cs_sh cs)) (t_id t)) as [x|] eqn:Hfree; [discriminate|].
      destruct (ts_writer (get_ts (sh_st (cs_sh cs)) (t_id t))) as [w|] eqn:Hw.
      * destruct (b_limit w <? b_used w + need c e) eqn:Erot; inversion Hstep; subst cs' l; rewrite upd_eq; exists L.
        -- apply (stepF_A2_take c progs cs L tid th t e rest w Hinv Hth Htodo Hpc Hfree Hw).
        -- apply (stepF_A2_write c progs cs L tid th t e rest w Hc Hnd Hinv Hth Htodo Hpc Hfree Hw Erot).
      * inversion Hstep; subst cs' l. rewrite upd_eq. exists L.
        apply (stepF_ret_noop c progs cs L tid th (CAppend t e) rest (RErr EOther) (t_id t) Hinv Hth Htodo eq_refl I).
        -- intros t'. unfold th_mid. now rewrite Htodo, Hpc.
        -- intros t'. unfold th_holds. now rewrite Htodo, Hpc.
        -- intros t'. unfold del_pending. now rewrite Htodo.
        -- intros t'. unfold wr_pending. now rewrite Htodo, Hpc.
    + inversion Hstep; subst cs' l. rewrite upd_eq. exists L.
      apply (stepF_A3 c progs cs L tid th t e rest sealed Hc Hinv Hth Htodo Hpc).
    + destruct (stepF_A4 c progs cs L tid th t e rest Hc Hnd Hinv Hth Htodo Hpc) as (s1 & nb & Ha & HI).
      rewrite Ha in Hstep. inversion Hstep; subst cs' l. rewrite upd_eq. exists L. exact HI.
    + inversion Hstep; subst cs' l. rewrite upd_eq. exists L.
      apply (stepF_A5 c progs cs L tid th t e rest Hc Hinv Hth Htodo Hpc).
  - (* ---------------- read_next, consuming or peeking *)
    pose proof Hok as Hok0.
    unfold th_okP in Hok. rewrite Htodo in Hok.
    destruct (readF_common c progs cs L tid th t ck rest Hinv Hth Htodo) as (Hhead & Hm & Hh & Hw).
    cbn [seg env_of' v_cfg v_mode] in Hstep. unfold seg_read in Hstep.
    destruct (th_pc th) eqn:Hpc; try contradiction.
    + inversion Hstep; subst cs' l. rewrite upd_eq. exists L.
      apply (stepF_R1 c progs cs L tid th t ck rest Hinv Hth Htodo Hpc).
    + (* loop top *)
      pose proof (stepF_rn_top c m progs cs L tid th t ck rest Hc Hinv Hth Htodo ltac:(now rewrite Hpc)) as HT.
      destruct (rn_top c m (cs_sh cs) t ck) as [sh' p' l'|sh' r'|]; inversion Hstep; subst cs' l; rewrite upd_eq; exact HT.
    + destruct Hok as (-> & Hok).
      destruct pers as [pp|]; inversion Hstep; subst cs' l; rewrite upd_eq; exists L.
      * destruct tl; apply (stepF_idx c progs cs L tid th t rest _ r pp Hinv Hth Htodo Hpc).
      * apply (stepF_ret c progs cs L tid th t rest r Hinv Hth Htodo). left. eexists. exact Hpc.
    + destruct Hok as (-> & Hok).
      inversion Hstep; subst cs' l. rewrite upd_eq. exists L.
      apply (stepF_ret c progs cs L tid th t rest r Hinv Hth Htodo). right. exact Hpc.
    + destruct (ts_writer (get_ts (sh_st (cs_sh cs)) (t_id t))) as [w|] eqn:Hw0.
      * destruct (wl_holder (sh_wl (cs_sh cs)) (t_id t)) as [x|] eqn:Hfree; [discriminate|].
        inversion Hstep; subst cs' l. rewrite upd_eq. exists L.
        apply (stepF_R5 c progs cs L tid th t ck rest sb so w Hinv Hth Htodo Hpc Hw0 Hfree).
      * inversion Hstep; subst cs' l. rewrite upd_eq. exists L.
        apply (stepF_ret_noop c progs cs L tid th (CRead t ck) rest RNone (t_id t) Hinv Hth Htodo eq_refl I Hm Hh).
        -- intros t'. unfold del_pending. rewrite Htodo, Hpc. cbn. now destruct ck.
        -- intros t'. now rewrite Hw.
    + (* after the writer snapshot *)
      cbn [andb] in Hstep.
      destruct (r_idx (reader_of (get_ts (sh_st (cs_sh cs)) (t_id t))) <? length (r_chain (reader_of (get_ts (sh_st (cs_sh cs)) (t_id t)))))%nat eqn:Eidx.
      * pose proof (stepF_rn_top c m progs cs L tid th t ck rest Hc Hinv Hth Htodo ltac:(now rewrite Hpc)) as HT.
        destruct (rn_top c m (cs_sh cs) t ck) as [sh' p' l'|sh' r'|]; inversion Hstep; subst cs' l; rewrite upd_eq; exact HT.
      * inversion Hstep; subst cs' l. rewrite upd_eq. exists L.
        apply (stepF_init c m progs cs L tid th t ck rest sb so a Hinv Hth Htodo Hpc).
    + (* the read from the snapshot *)
      assert (Hnone : INVF c progs (upd cs (cs_sh cs) tid {| th_todo := rest; th_pc := PStart; th_done := RNone :: th_done th |}) L).
      { apply (stepF_ret_noop c progs cs L tid th (CRead t ck) rest RNone (t_id t) Hinv Hth Htodo eq_refl I Hm Hh).
        - intros t'. unfold del_pending. rewrite Htodo, Hpc. cbn. now destruct ck.
        - intros t'. now rewrite Hw. }
      destruct (off <? b_used a) eqn:Elt.
      * destruct (block_read c a off) as [[e consumed]|] eqn:Hbr.
        -- cbn [andb] in Hstep.
           destruct ((r_idx (reader_of (get_ts (sh_st (cs_sh cs)) (t_id t))) <? length (r_chain (reader_of (get_ts (sh_st (cs_sh cs)) (t_id t)))))%nat
                     || sealed_since (r_chain (reader_of (get_ts (sh_st (cs_sh cs)) (t_id t)))) a
                     || negb ((if r_tail_bid (reader_of (get_ts (sh_st (cs_sh cs)) (t_id t))) =? b_id a
                               then r_tail_off (reader_of (get_ts (sh_st (cs_sh cs)) (t_id t))) else 0) =? off)) eqn:Eval.
           ++ pose proof (stepF_rn_top c m progs cs L tid th t ck rest Hc Hinv Hth Htodo ltac:(now rewrite Hpc)) as HT.
              destruct (rn_top c m (cs_sh cs) t ck) as [sh' p' l'|sh' r'|]; inversion Hstep; subst cs' l; rewrite upd_eq; exact HT.
           ++ destruct ck.
              ** destruct (should_persist m _ false) as [r6 p] eqn:Esp. inversion Hstep; subst cs' l. rewrite upd_eq. eexists.
                 apply (stepF_commit c m progs cs L tid th t rest a off e consumed Hc Hinv Hth Htodo Hpc ltac:(lia) Hbr Eval r6 p Esp).
              ** inversion Hstep; subst cs' l. rewrite upd_eq. exists L.
                 apply (stepF_ret_noop c progs cs L tid th (CRead t false) rest (REntry (out_of e)) (t_id t) Hinv Hth Htodo eq_refl I Hm Hh).
                 --- intros t'. unfold del_pending. now rewrite Htodo.
                 --- intros t'. now rewrite Hw.
        -- inversion Hstep; subst cs' l. rewrite upd_eq. exists L. exact Hnone.
      * inversion Hstep; subst cs' l. rewrite upd_eq. exists L. exact Hnone.
Qed.

(* ------------------------------------------------------------------ every schedule *)
Lemma runF_inv c m be progs : cfg_ok c -> NoDup (offered_pids progs) ->
  forall sched cs acc k L, INVF c progs cs L ->
  exists L', INVF c progs (ro_cs (crun_from (env_of' c m be) true cs sched acc k)) L'.
Proof.
  intros Hc Hnd. induction sched as [|tid rest IH]; intros cs acc k L Hinv; cbn [crun_from ro_cs]; [eauto|].
  destruct (cstep (env_of' c m be) true tid cs) as [cs' l| |] eqn:Es; cbn [ro_cs]; eauto.
  destruct (stepF_inv c m be progs cs L tid cs' l Hc Hnd Hinv Es) as (L' & HI). eapply IH; eauto.
Qed.

Definition simple_progsP (progs : list (list call)) : Prop :=
  Forall (Forall (fun cl => simple_callP cl = true)) progs.

Lemma INVF_init c progs : simple_progsP progs -> INVF c progs (cinit progs) (fun _ => []).
Proof.
  intros Hs.
  assert (Hnth : forall i th, nth_error (cs_threads (cinit progs)) i = Some th ->
            th = {| th_todo := nth i progs []; th_pc := PStart; th_done := [] |} /\ (i < length progs)%nat).
  { intros i th H. unfold cinit in H. cbn [cs_threads] in H. rewrite nth_error_map in H.
    destruct (nth_error progs i) as [p|] eqn:E; [|discriminate]. cbn in H. inversion H; subst.
    split; [f_equal; symmetry; now apply nth_error_nth|eapply nth_error_lt; eauto]. }
  assert (Hmid : forall t, mid (cinit progs) t = false).
  { intros t. unfold mid. destruct (existsb (th_mid t) (cs_threads (cinit progs))) eqn:E; [|reflexivity].
    apply existsb_exists in E. destruct E as (x & Hin & Hx). apply In_nth_error in Hin. destruct Hin as (i & Hi).
    destruct (Hnth i x Hi) as (-> & _). unfold th_mid in Hx. cbn in Hx. destruct (nth i progs []) as [|[| | |] ?]; discriminate. }
  assert (Heff : forall t, eff (cinit progs) t = tstate0) by (intros t; unfold eff; rewrite Hmid; reflexivity).
  constructor.
  - unfold nid_of. cbn. lia.
  - intros t. rewrite Heff. apply TInv_P, TInv0. unfold nid_of. cbn. lia.
  - reflexivity.
  - intros t. cbn. intros i th Hi. destruct (Hnth i th Hi) as (-> & _). unfold th_holds. cbn. now destruct (nth i progs []) as [|[| | |] ?].
  - unfold cinit. cbn. apply map_length.
  - intros i th Hi. destruct (Hnth i th Hi) as (-> & Hlt).
    assert (Hsi : Forall (fun cl => simple_callP cl = true) (nth i progs [])).
    { eapply Forall_forall in Hs; [exact Hs|]. apply nth_In. exact Hlt. }
    split; [apply th_okP_start; [reflexivity|exact Hsi]|]. split; [exact Hsi|]. exists []. split; [reflexivity|constructor].
  - intros i th Hi. destruct (Hnth i th Hi) as (-> & _). apply winF_start. reflexivity.
  - intros t. rewrite Heff. reflexivity.
  - intros t i th Hi. destruct (Hnth i th Hi) as (-> & _). unfold del_seq, del_pending, log_of. cbn.
    destruct (done_of _ _); cbn; now destruct (nth i progs []) as [|[| |? [|]|] ?].
  - intros t i th Hi. destruct (Hnth i th Hi) as (-> & _). rewrite Heff. unfold wr_seq, wr_pending. cbn.
    destruct (done_of _ _); cbn; now destruct (nth i progs []) as [|[| | |] ?].
  - intros t e Hin. rewrite Heff in Hin. destruct Hin.
Qed.

Theorem invF_every_schedule c m be progs sched :
  cfg_ok c -> simple_progsP progs -> NoDup (offered_pids progs) ->
  exists L, INVF c progs (ro_cs (run_schedule (env_of' c m be) true progs sched)) L.
Proof.
  intros Hc Hs Hnd. unfold run_schedule.
  apply (runF_inv c m be progs Hc Hnd sched (cinit progs) [] kflags0 (fun _ => []) (INVF_init c progs Hs)).
Qed.

(* C05 for the code with the fix: any number of producers and consumers, every schedule *)
Theorem fixed_every_schedule c m be progs sched :
  cfg_ok c -> simple_progsP progs -> NoDup (offered_pids progs) ->
  let ro := run_schedule (env_of' c m be) true progs sched in
  threads_done (ro_cs ro) = true ->
  c05_run_ok progs (cresults (ro_cs ro)) false = true.
Proof.
  intros Hc Hs Hnd ro Hdone.
  destruct (invF_every_schedule c m be progs sched Hc Hs Hnd) as (L & HI).
  apply (invF_accepts c progs (ro_cs ro) L Hs Hnd HI Hdone).
Qed.

Lemma simple_progs_P progs : simple_progs progs -> simple_progsP progs.
Proof.
  unfold simple_progs, simple_progsP. intros H. eapply Forall_impl; [|exact H]. intros p Hp.
  eapply Forall_impl; [|exact Hp]. intros cl Hc. destruct cl as [| |t ck|]; try discriminate; reflexivity.
Qed.
