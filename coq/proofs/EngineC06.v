(* EngineC06.v — histories WITH clean restarts (StrictlyAtOnce): as long as no restart happens in a
   state of one of the two known classes (block-id drift, stale provisional tail position), the
   model's trace is accepted by the queue-spec acceptors for C01 and C15 — restarts are
   invisible to consumers: nothing lost, nothing delivered twice, nothing reordered, counts exact. *)
From W Require Import model.Base model.Engine model.EngineKnown spec.Queue proofs.EngineBasic proofs.EngineWF proofs.EngineInv proofs.EngineBR proofs.EngineW
  proofs.EngineMain proofs.EngineRec proofs.EngineDisk proofs.EnginePos proofs.EngineGrow proofs.EngineP3 proofs.EngineIdx proofs.EngineBlk
  proofs.EngineNorm proofs.EngineNormW proofs.EngineRaw proofs.EngineRestart proofs.EngineRestartR proofs.EngineRestartW proofs.EngineReopen.
From Coq Require Import ZArith ZifyBool ZifyN ZifyNat.

(* checked along the run: no restart happens in a state with block-id drift — the only known
   class left since the provisional persist on an empty writer block was repaired *)
Fixpoint outside_known (v : env) (s : st) (ops : list op) : bool :=
  match ops with
  | [] => true
  | o :: r => (match o with OReopen => negb (id_drift (v_cfg v) s) | _ => true end)
              && outside_known v (fst (step v s o)) r
  end.

(* one step of a history with restarts *)
Lemma G_step_r c be s g B Bb o : cfg_ok c -> G c s g B Bb -> PG c s ->
  (match o with OReopen => id_drift c s = false | _ => True end) ->
  B + N.of_nat (length (offered o)) <= u64_max -> Bb + sum_len (offered o) <= u64_max ->
  c01_step_ok g o (snd (step (env_of c Strict be) s o)) = true /\
  c15_step_ok g o (snd (step (env_of c Strict be) s o)) = true /\
  G c (fst (step (env_of c Strict be) s o)) (ledger_step g o (snd (step (env_of c Strict be) s o)))
    (B + N.of_nat (length (offered o))) (Bb + sum_len (offered o)) /\
  PG c (fst (step (env_of c Strict be) s o)).
Proof.
  intros Hc HG Hpg Hk HB HBb.
  assert (Hnr : o <> OReopen -> op_ok c o) by (destruct o; intros H; try exact I; congruence).
  destruct o as [t e | t es | t ck | t maxb ck start | t | ].
  1-5: (pose proof (G_step c be s g B Bb _ Hc HG (Hnr ltac:(discriminate)) HB HBb) as Hs;
        pose proof (PG_step c be s g B Bb _ Hc HG Hpg (Hnr ltac:(discriminate)) HB HBb) as Hp;
        destruct (step (env_of c Strict be) s _) as [s' r]; cbn [fst snd] in *;
        destruct Hs as (A1 & A2 & A3); auto).
  cbn [step env_of v_cfg fst snd]. split; [reflexivity|]. split; [reflexivity|]. cbn [ledger_step offered length sum_len fold_right].
  replace (B + N.of_nat 0) with B by lia. replace (Bb + 0) with Bb by lia. now apply G_reopen_pg.
Qed.

Theorem restart_refines_queue c be : cfg_ok c -> forall ops s g B Bb,
  G c s g B Bb -> PG c s -> outside_known (env_of c Strict be) s ops = true ->
  B + N.of_nat (length (offered_all ops)) <= u64_max -> Bb + sum_len (offered_all ops) <= u64_max ->
  c01_ok_from g (trace (env_of c Strict be) s ops) = true /\
  c15_ok_from g (trace (env_of c Strict be) s ops) = true.
Proof.
  intros Hc. induction ops as [|o r IH]; intros s g B Bb HG Hpg Hout HB HBb; [cbn; auto|].
  cbn [outside_known] in Hout. apply andb_true_iff in Hout. destruct Hout as (Ho & Hout).
  cbn [offered_all] in HB, HBb. rewrite app_length, Nat2N.inj_add in HB. rewrite sum_len_app in HBb.
  assert (Hk : match o with OReopen => id_drift c s = false | _ => True end).
  { destruct o; try exact I. cbn [env_of v_cfg] in Ho. now apply negb_true_iff in Ho. }
  pose proof (G_step_r c be s g B Bb o Hc HG Hpg Hk ltac:(lia) ltac:(lia)) as Hstep.
  cbn [trace]. destruct (step (env_of c Strict be) s o) as [s' res]. cbn [fst snd] in *.
  destruct Hstep as (H1 & H2 & HG' & Hpg').
  destruct (IH s' _ _ _ HG' Hpg' Hout ltac:(lia) ltac:(lia)) as (I1 & I2).
  cbn [c01_ok_from c15_ok_from]. rewrite H1, H2, I1, I2. auto.
Qed.

Corollary restart_from_init c be ops : cfg_ok c ->
  outside_known (env_of c Strict be) init ops = true ->
  N.of_nat (length (offered_all ops)) <= u64_max -> sum_len (offered_all ops) <= u64_max ->
  c01_ok (trace (env_of c Strict be) init ops) = true /\ c15_ok (trace (env_of c Strict be) init ops) = true.
Proof.
  intros Hc Hout HB HBb. unfold c01_ok, c15_ok. pose proof Hc as (_ & Hb0 & _).
  apply (restart_refines_queue c be Hc ops init [] 0 0 (G_init c Hb0) (PG_init c) Hout); lia.
Qed.

(* the ledger the queue specification keeps along a trace *)
Fixpoint ledger_run (g : lg) (tr : list (op * result)) : lg :=
  match tr with [] => g | (o, r) :: rest => ledger_run (ledger_step g o r) rest end.

(* the invariant along the run: goal (1) (position invariant P3 inside G, every position good: PG) and goal (3) *)
Theorem G_reachable c be : cfg_ok c -> forall ops s g B Bb,
  G c s g B Bb -> PG c s -> outside_known (env_of c Strict be) s ops = true ->
  B + N.of_nat (length (offered_all ops)) <= u64_max -> Bb + sum_len (offered_all ops) <= u64_max ->
  exists B' Bb', G c (exec (env_of c Strict be) s ops) (ledger_run g (trace (env_of c Strict be) s ops)) B' Bb' /\
                 PG c (exec (env_of c Strict be) s ops).
Proof.
  intros Hc. induction ops as [|o r IH]; intros s g B Bb HG Hpg Hout HB HBb; [exists B, Bb; split; assumption|].
  cbn [outside_known] in Hout. apply andb_true_iff in Hout. destruct Hout as (Ho & Hout).
  cbn [offered_all] in HB, HBb. rewrite app_length, Nat2N.inj_add in HB. rewrite sum_len_app in HBb.
  assert (Hk : match o with OReopen => id_drift c s = false | _ => True end).
  { destruct o; try exact I. cbn [env_of v_cfg] in Ho. now apply negb_true_iff in Ho. }
  pose proof (G_step_r c be s g B Bb o Hc HG Hpg Hk ltac:(lia) ltac:(lia)) as Hstep.
  cbn [exec trace]. destruct (step (env_of c Strict be) s o) as [s' res]. cbn [fst snd ledger_run] in *.
  destruct Hstep as (_ & _ & HG' & Hpg'). apply (IH s' _ _ _ HG' Hpg' Hout); lia.
Qed.

Corollary G_from_init c be ops : cfg_ok c ->
  N.of_nat (length (offered_all ops)) <= u64_max -> sum_len (offered_all ops) <= u64_max ->
  outside_known (env_of c Strict be) init ops = true ->
  exists B' Bb', G c (exec (env_of c Strict be) init ops) (ledger_run [] (trace (env_of c Strict be) init ops)) B' Bb' /\
                 PG c (exec (env_of c Strict be) init ops).
Proof.
  intros Hc HB HBb Ho. pose proof Hc as (_ & Hb0 & _).
  apply (G_reachable c be Hc ops init [] 0 0 (G_init c Hb0) (PG_init c) Ho); lia.
Qed.

(* no reachable state has a stale persisted position: the class "stale provisional tail position"
   is empty since the repair (every history incl. restarts outside block-id drift) *)
Corollary stale_tail_never c be ops : cfg_ok c ->
  N.of_nat (length (offered_all ops)) <= u64_max -> sum_len (offered_all ops) <= u64_max ->
  outside_known (env_of c Strict be) init ops = true ->
  forall t p, ts_index (get_ts (exec (env_of c Strict be) init ops) t) = Some p ->
              stale_p (memne (get_ts (exec (env_of c Strict be) init ops) t)) p = false.
Proof.
  intros Hc HB HBb Ho. destruct (G_from_init c be ops Hc HB HBb Ho) as (B' & Bb' & _ & Hpg). now apply (PG_nonstale c).
Qed.

Lemma outside_known_split v : forall ops1 s0, outside_known v s0 (ops1 ++ [OReopen]) = true ->
  outside_known v s0 ops1 = true /\ id_drift (v_cfg v) (exec v s0 ops1) = false.
Proof.
  induction ops1 as [|o r IH]; intros s0 H; cbn [app outside_known exec] in *.
  - rewrite andb_true_r in H. split; [reflexivity|now apply negb_true_iff in H].
  - apply andb_true_iff in H. destruct H as (H1 & H2). destruct (IH _ H2) as (A & B0). rewrite H1, A. auto.
Qed.

(* goal (2) from init: a restart at the end of any history (with or without earlier restarts) *)
Corollary restart_preserves_cursor c be ops : cfg_ok c ->
  outside_known (env_of c Strict be) init (ops ++ [OReopen]) = true ->
  N.of_nat (length (offered_all ops)) <= u64_max -> sum_len (offered_all ops) <= u64_max ->
  let s := exec (env_of c Strict be) init ops in
  forall t x y,
    stream (get_ts (reopen c s) t) = stream (get_ts s t) /\
    unread c (nrm x (get_ts (reopen c s) t)) = unread c (nrm y (get_ts s t)) /\
    cnt (get_ts (reopen c s) t) = cnt (get_ts s t) /\
    cnt (get_ts (reopen c s) t) = N.of_nat (length (unread c (nrm x (get_ts (reopen c s) t)))).
Proof.
  intros Hc Hout HB HBb. cbn zeta.
  destruct (outside_known_split _ ops init Hout) as (Hout1 & Hk). cbn [env_of v_cfg] in Hk.
  destruct (G_from_init c be ops Hc HB HBb Hout1) as (B' & Bb' & HG & Hpg).
  intros t x y. exact (reopen_cursor_pg c _ _ B' Bb' Hc HG Hpg Hk t x y).
Qed.

(* C09 between operations: a crash between two operations leaves the disk image and the persisted
   positions of that moment; the fresh process is [reopen].  In StrictlyAtOnce mode, outside
   block-id drift, the consumer of every topic resumes exactly behind the entries whose consuming
   reads had returned: what is unread after the restart is the acknowledged stream minus its first
   [l_del] entries, where [l_del] counts the entries returned by consuming reads so far. *)
Theorem crash_between_operations_strict c be ops : cfg_ok c ->
  outside_known (env_of c Strict be) init (ops ++ [OReopen]) = true ->
  N.of_nat (length (offered_all ops)) <= u64_max -> sum_len (offered_all ops) <= u64_max ->
  let s := exec (env_of c Strict be) init ops in
  let g := ledger_run [] (trace (env_of c Strict be) init ops) in
  forall t x,
    (l_del (lget g t) <= length (l_app (lget g t)))%nat /\
    stream (get_ts (reopen c s) t) = l_app (lget g t) /\
    unread c (nrm x (get_ts (reopen c s) t)) = skipn (l_del (lget g t)) (l_app (lget g t)) /\
    cnt (get_ts (reopen c s) t) = N.of_nat (length (l_app (lget g t)) - l_del (lget g t)).
Proof.
  intros Hc Hout HB HBb. cbn zeta.
  destruct (outside_known_split _ ops init Hout) as (Hout1 & Hk). cbn [env_of v_cfg] in Hk.
  destruct (G_from_init c be ops Hc HB HBb Hout1) as (B' & Bb' & HG & Hpg).
  destruct (G_reopen_pg c _ _ B' Bb' Hc HG Hpg Hk) as ((_ & _ & _ & _ & Hall') & _).
  intros t x. destruct (Hall' t) as (_ & Hx). destruct (Hx x) as (Hti & _ & Hdl & Hs & Hu & _).
  rewrite nrm_stream in Hs. split; [exact Hdl|]. split; [exact Hs|]. split; [exact Hu|].
  pose proof (ti_cnt _ _ _ Hti) as C. unfold cnt in C. rewrite nrm_count in C. unfold cnt. rewrite C, Hu, skipn_length. reflexivity.
Qed.

(* the same seen from the consumer: the history goes on after the crash and every later consuming
   read is judged by the SAME ledger (the acceptor ignores OReopen): nothing skipped, nothing twice *)
Corollary crash_then_continue_strict c be ops1 ops2 : cfg_ok c ->
  outside_known (env_of c Strict be) init (ops1 ++ OReopen :: ops2) = true ->
  N.of_nat (length (offered_all (ops1 ++ OReopen :: ops2))) <= u64_max -> sum_len (offered_all (ops1 ++ OReopen :: ops2)) <= u64_max ->
  c01_ok (trace (env_of c Strict be) init (ops1 ++ OReopen :: ops2)) = true /\
  c15_ok (trace (env_of c Strict be) init (ops1 ++ OReopen :: ops2)) = true.
Proof. intros Hc Ho HB HBb. now apply restart_from_init. Qed.

(* the extracted predicates are the ones the theorems speak about *)
Lemma stale_tail_b_eq s : stale_tail_b s = stale_tail s.
Proof.
  unfold stale_tail_b, stale_tail, stale_p. induction (s_topics s) as [|q l IH]; cbn [existsb]; [reflexivity|].
  rewrite IH. f_equal. destruct (ts_index (snd q)) as [p|]; [|reflexivity].
  unfold mem_blocks. now rewrite memne_raw.
Qed.
Lemma restart_known_b_eq c s : restart_known_b c s = restart_known c s.
Proof. unfold restart_known_b, restart_known. now rewrite stale_tail_b_eq. Qed.
