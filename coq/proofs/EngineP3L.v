(* EngineP3L.v — the position invariant for AtLeastOnce mode (and any mode): the persisted position
   may LAG behind the consumer — what lies behind it is what is unread, preceded by entries already
   delivered ([pre]) — but is never AHEAD of it. *)
From W Require Import model.Base model.Engine proofs.EngineWF proofs.EngineInv proofs.EngineW proofs.EnginePos proofs.EngineP3.
From Coq Require Import ZArith ZifyBool ZifyN ZifyNat.

Definition PLag (c : Cfg) (T : tstate) (p : ppos) : Prop :=
  exists j b pre, nth_error (memne T) j = Some b /\
    (if p_tail p then b_id b = p_a p else p_a p = N.of_nat j /\ (j < length (chain_of T))%nat) /\
    okoff c (b_ents b) (p_off p) /\
    from c (memne T) j (p_off p) = pre ++ unread c T.

Definition P3L (c : Cfg) (nid : N) (T : tstate) : Prop :=
  CNE T /\
  match ts_index T with
  | None => exists pre, stream T = pre ++ unread c T
  | Some p => PLag c T p \/ PProv c T p \/ PDead nid T p
  end.

Lemma P3L_mono c nid nid' T : nid <= nid' -> P3L c nid T -> P3L c nid' T.
Proof.
  intros Hn (Hc & H). split; [exact Hc|]. destruct (ts_index T) as [p|]; [|exact H].
  destruct H as [H|[H|(A & B & C)]]; [left; exact H|right; left; exact H|right; right]. repeat split; auto. lia.
Qed.

Lemma P3L_tstate0 c nid : P3L c nid tstate0.
Proof. split; [constructor|exists []; reflexivity]. Qed.

(* a lagging position stays one when the topic grows *)
Lemma PLag_grow c (Hh : 0 < c_hdr c) T T' p es :
  Grow T T' -> stream T' = stream T ++ es -> unread c T' = unread c T ++ es ->
  PLag c T p -> PLag c T' p.
Proof.
  intros ((q & Hq & _) & (es' & Hs' & HMG)) Hs Hu (j & b & pre & Hb & Hpos & Hok & Hun).
  assert (es' = es) by (rewrite Hs in Hs'; now apply app_inv_head in Hs'). subst es'.
  pose proof HMG as (_ & Hp & _). destruct (Hp j b Hb) as (b' & e1 & Hb' & Hid & He & _).
  exists j, b', pre. split; [exact Hb'|]. split.
  - destruct (p_tail p); [congruence|]. destruct Hpos as (A & B). split; [exact A|]. rewrite Hq, app_length. lia.
  - split; [rewrite He; now apply okoff_app|].
    rewrite (from_MG c Hh _ _ _ _ _ _ HMG Hb Hok), Hun, Hu. now rewrite app_assoc.
Qed.
