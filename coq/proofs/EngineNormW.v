(* EngineNormW.v — appends and batches commute with the eager hydration of EngineNorm.v, and
   they leave the hydration flag, the in-memory tail id and the persisted position untouched. *)
From W Require Import model.Base model.Engine proofs.EngineWF proofs.EngineInv proofs.EngineW proofs.EnginePos proofs.EngineNorm.
From Coq Require Import ZArith ZifyBool ZifyN ZifyNat.

(* fields of a topic state that the write side never changes *)
Definition keep (ts ts' : tstate) : Prop :=
  r_hydrated (reader_of ts') = r_hydrated (reader_of ts) /\
  r_tail_bid (reader_of ts') = r_tail_bid (reader_of ts) /\
  ts_index ts' = ts_index ts /\
  r_since (reader_of ts') = r_since (reader_of ts).

Lemma keep_refl ts : keep ts ts. Proof. repeat split. Qed.
Lemma keep_trans a b d : keep a b -> keep b d -> keep a d.
Proof. intros (A1 & A2 & A3 & A4) (B1 & B2 & B3 & B4). repeat split; congruence. Qed.
Lemma keep_with_writer ts w : keep ts (with_writer ts w). Proof. repeat split. Qed.
Lemma keep_count_add ts d : keep ts (count_add ts d).
Proof. unfold count_add. destruct (d =? 0); repeat split. Qed.
Lemma keep_seal ts b : keep ts (seal ts b).
Proof.
  destruct (chain_push_flags (reader_of ts) b) as (A & B). repeat split; try assumption.
  rewrite reader_of_seal. unfold chain_push. destruct (b_used b =? 0); [reflexivity|]. destruct (r_tail_bid (reader_of ts) =? b_id b); reflexivity.
Qed.

(* [CS] is stable along the write side *)
Lemma chain_of_seal_app ts b : exists q, chain_of (seal ts b) = chain_of ts ++ q.
Proof.
  unfold chain_of. rewrite reader_of_seal. unfold chain_push. destruct (b_used b =? 0); [exists []; now rewrite app_nil_r|].
  destruct (r_tail_bid (reader_of ts) =? b_id b); exists [b]; reflexivity.
Qed.

Lemma CS_grow ts ts' bid nid bid' nid' :
  CS ts bid nid -> keep ts ts' -> (exists q, chain_of ts' = chain_of ts ++ q) ->
  nid <= nid' -> 0 < bid' -> (nid <= bid' \/ bid' = bid) -> CS ts' bid' nid'.
Proof.
  intros Hcs (K1 & K2 & K3 & _) (q & Hq) Hn Hb Hbb Hh p Hp. rewrite K1 in Hh. rewrite K3 in Hp.
  destruct (Hcs Hh p Hp) as (A & B & C). rewrite K2. split; [exact A|]. split; [exact Hb|].
  rewrite Hq. destruct (p_tail p).
  - destruct C as ((j & Hj) & C2 & C3). split; [exists j; now apply find_id_app_some|]. split; [lia|].
    destruct Hbb as [Hbb|Hbb]; [lia|congruence].
  - rewrite app_length. lia.
Qed.

(* ------------------------------------------------------------------ ensure_writer *)
Lemma ensure_writer_keep c s t :
  keep (get_ts s (t_id t)) (get_ts (fst (ensure_writer c s t)) (t_id t)) /\
  chain_of (get_ts (fst (ensure_writer c s t)) (t_id t)) = chain_of (get_ts s (t_id t)) /\
  ts_writer (get_ts (fst (ensure_writer c s t)) (t_id t)) = Some (snd (ensure_writer c s t)) /\
  a_next (s_alloc s) <= a_next (s_alloc (fst (ensure_writer c s t))) /\
  (ts_writer (get_ts s (t_id t)) = None -> b_id (snd (ensure_writer c s t)) = a_next (s_alloc s) /\
                                          a_next (s_alloc (fst (ensure_writer c s t))) = a_next (s_alloc s) + 1) /\
  (forall w, ts_writer (get_ts s (t_id t)) = Some w -> snd (ensure_writer c s t) = w /\ fst (ensure_writer c s t) = s).
Proof.
  unfold ensure_writer. destruct (ts_writer (get_ts s (t_id t))) as [w|] eqn:Ew.
  - cbn [fst snd]. split; [apply keep_refl|]. split; [reflexivity|]. split; [exact Ew|]. split; [lia|].
    split; [discriminate|]. intros w' Hw'. inversion Hw'; subst. auto.
  - unfold alloc_first. destruct (c_file c <=? a_off (s_alloc s)); cbn [fst snd]; rewrite get_set_same;
      (split; [apply keep_with_writer|]); (split; [reflexivity|]); (split; [reflexivity|]);
      cbn [set_ts s_alloc a_next b_id]; (split; [lia|]); (split; [intros _; split; reflexivity|]); intros w' Hw'; discriminate.
Qed.

(* ------------------------------------------------------------------ append *)
Lemma append_Nst x c s t e :
  0 < a_next (s_alloc s) ->
  (forall bid, (forall w, ts_writer (get_ts s (t_id t)) = Some w -> bid = b_id w) ->
               (ts_writer (get_ts s (t_id t)) = None -> bid = a_next (s_alloc s)) ->
               CS (get_ts s (t_id t)) bid (a_next (s_alloc s))) ->
  append c (Nst x s) t e = (Nst x (fst (append c s t e)), snd (append c s t e)) /\
  keep (get_ts s (t_id t)) (get_ts (fst (append c s t e)) (t_id t)).
Proof.
  intros Hn Hcs. unfold append. rewrite ensure_writer_Nst.
  destruct (ensure_writer_keep c s t) as (K1 & Kc & Kw & Kn & Knone & Ksome).
  destruct (ensure_writer c s t) as [s1 w]. cbn [fst snd] in *.
  destruct (appendable c t (e_len e)); [split; [reflexivity|exact K1]|].
  rewrite get_Nst, nrm_poisoned. set (ts1 := get_ts s1 (t_id t)) in *.
  destruct (ts_poisoned ts1); [split; [reflexivity|exact K1]|].
  (* commutation condition for sealing the writer block *)
  assert (Hcs1 : CS ts1 (b_id w) (a_next (s_alloc s1))).
  { destruct (ts_writer (get_ts s (t_id t))) as [w0|] eqn:Ew0.
    - destruct (Ksome w0 eq_refl) as (-> & ->). apply Hcs; [intros w' Hw'; congruence|discriminate].
    - destruct (Knone eq_refl) as (Hid & Hnx).
      eapply CS_grow; [apply (Hcs (a_next (s_alloc s))); [discriminate|reflexivity]|exact K1|exists []; now rewrite app_nil_r, Kc|lia|lia|left; lia]. }
  destruct (b_limit w <? b_used w + need c e).
  - rewrite <- (nrm_seal x ts1 w _ Hcs1), <- Nst_set_ts, alloc_sized_Nst.
    destruct (alloc_sized c (set_ts s1 (t_id t) (seal ts1 w)) (need c e)) as [[s1'' nb]|] eqn:Ea.
    + rewrite get_Nst, <- nrm_with_writer, <- Nst_set_ts.
      assert (Hg : get_ts s1'' (t_id t) = seal ts1 w).
      { unfold alloc_sized in Ea. destruct ((need c e =? 0) || (c_max_alloc c <? need c e)); [discriminate|].
        destruct (c_file c <? _); inversion Ea; subst; unfold get_ts; cbn [s_topics set_ts]; apply get_set_same. }
      destruct (negb (name_ok c t)).
      * cbn [fst snd]. split; [reflexivity|]. rewrite get_set_same, Hg.
        eapply keep_trans; [exact K1|]. eapply keep_trans; [apply keep_seal|apply keep_with_writer].
      * rewrite st_disk_write_Nst, get_Nst, <- nrm_with_writer, <- nrm_count_add, <- Nst_set_ts. cbn [fst snd].
        split; [reflexivity|]. rewrite get_set_same, get_ts_disk_write, get_set_same, Hg.
        eapply keep_trans; [exact K1|]. eapply keep_trans; [apply keep_seal|].
        eapply keep_trans; [apply keep_with_writer|]. eapply keep_trans; [apply keep_with_writer|apply keep_count_add].
    + cbn [fst snd]. split; [reflexivity|]. rewrite get_set_same. eapply keep_trans; [exact K1|apply keep_seal].
  - destruct (negb (name_ok c t)); [split; [reflexivity|exact K1]|].
    rewrite st_disk_write_Nst, get_Nst, <- nrm_with_writer, <- nrm_count_add, <- Nst_set_ts. cbn [fst snd].
    split; [reflexivity|]. rewrite get_set_same, get_ts_disk_write. fold ts1.
    eapply keep_trans; [exact K1|]. eapply keep_trans; [apply keep_with_writer|apply keep_count_add].
Qed.

(* ------------------------------------------------------------------ batch *)
Lemma alloc_sized_facts c s want s1 b : alloc_sized c s want = Some (s1, b) ->
  b_id b = a_next (s_alloc s) /\ a_next (s_alloc s1) = a_next (s_alloc s) + 1 /\ s_topics s1 = s_topics s.
Proof.
  unfold alloc_sized. destruct ((want =? 0) || (c_max_alloc c <? want)); [discriminate|].
  destruct (c_file c <? _); intros H; inversion H; subst; cbn; auto.
Qed.

Lemma keep_mark s t : keep (get_ts s t) (get_ts (mark_unmodelled s t) t).
Proof. unfold mark_unmodelled. rewrite get_set_same. repeat split. Qed.
Lemma keep_with_poison ts : keep ts (with_poison ts). Proof. repeat split. Qed.
Lemma chain_mark s t : chain_of (get_ts (mark_unmodelled s t) t) = chain_of (get_ts s t).
Proof. unfold mark_unmodelled. rewrite get_set_same. reflexivity. Qed.

Lemma batch_plan_Nst x c t : forall es s cur rot,
  0 < a_next (s_alloc s) -> CS (get_ts s (t_id t)) (b_id cur) (a_next (s_alloc s)) ->
  let '(s', cur', ok, rot') := batch_plan c s t cur rot es in
  batch_plan c (Nst x s) t cur rot es = (Nst x s', cur', ok, rot') /\
  keep (get_ts s (t_id t)) (get_ts s' (t_id t)) /\
  (exists q, chain_of (get_ts s' (t_id t)) = chain_of (get_ts s (t_id t)) ++ q).
Proof.
  induction es as [|e r IH]; intros s cur rot Hn Hcs; cbn [batch_plan].
  - split; [reflexivity|]. split; [apply keep_refl|]. exists []. now rewrite app_nil_r.
  - destruct (need c e <=? b_limit cur - b_used cur).
    + rewrite st_disk_write_Nst.
      exact (IH (st_disk_write s cur t [e]) (blk_add cur c [e]) rot Hn Hcs).
    + rewrite get_Nst, <- (nrm_seal x (get_ts s (t_id t)) cur _ Hcs), <- Nst_set_ts, alloc_sized_Nst.
      set (s0 := set_ts s (t_id t) (seal (get_ts s (t_id t)) cur)).
      destruct (alloc_sized c s0 (N.max (need c e) (c_block c))) as [[s'' nb]|] eqn:Ea.
      * destruct (alloc_sized_facts _ _ _ _ _ Ea) as (Hid & Hnx & Htop).
        assert (Hg : get_ts s'' (t_id t) = seal (get_ts s (t_id t)) cur).
        { unfold get_ts at 1. rewrite Htop. apply get_set_same. }
        rewrite st_disk_write_Nst.
        assert (Hcs' : CS (get_ts (st_disk_write s'' nb t [e]) (t_id t)) (b_id (blk_add nb c [e])) (a_next (s_alloc (st_disk_write s'' nb t [e])))).
        { rewrite get_ts_disk_write, Hg. cbn [blk_add b_id st_disk_write s_alloc]. rewrite Hnx, Hid. cbn [s0 set_ts s_alloc].
          eapply CS_grow; [exact Hcs|apply keep_seal|apply chain_of_seal_app|lia|lia|left; lia]. }
        pose proof (IH (st_disk_write s'' nb t [e]) (blk_add nb c [e]) true ltac:(cbn [st_disk_write s_alloc]; rewrite Hnx; lia) Hcs') as IH'.
        destruct (batch_plan c (st_disk_write s'' nb t [e]) t (blk_add nb c [e]) true r) as [[[s' cur'] ok] rot'].
        destruct IH' as (I1 & I2 & (q & I3)). split; [exact I1|].
        rewrite get_ts_disk_write, Hg in I2, I3.
        split; [eapply keep_trans; [apply keep_seal|exact I2]|].
        destruct (chain_of_seal_app (get_ts s (t_id t)) cur) as (q0 & Hq0). exists (q0 ++ q). now rewrite I3, Hq0, app_assoc.
      * split; [reflexivity|]. unfold s0. rewrite get_set_same. split; [apply keep_seal|apply chain_of_seal_app].
Qed.

Lemma batch_Nst x c be s t es :
  0 < a_next (s_alloc s) ->
  (forall bid, (forall w, ts_writer (get_ts s (t_id t)) = Some w -> bid = b_id w) ->
               (ts_writer (get_ts s (t_id t)) = None -> bid = a_next (s_alloc s)) ->
               CS (get_ts s (t_id t)) bid (a_next (s_alloc s))) ->
  batch c be (Nst x s) t es = (Nst x (fst (batch c be s t es)), snd (batch c be s t es)) /\
  keep (get_ts s (t_id t)) (get_ts (fst (batch c be s t es)) (t_id t)).
Proof.
  intros Hn Hcs. unfold batch. rewrite ensure_writer_Nst.
  destruct (ensure_writer_keep c s t) as (K1 & Kc & Kw & Kn & Knone & Ksome).
  destruct (ensure_writer c s t) as [s1 w]. cbn [fst snd] in *.
  destruct (c_max_entries c <? N.of_nat (length es)); [split; [reflexivity|exact K1]|].
  destruct (c_max_bytes c <? sum_need c es); [split; [reflexivity|exact K1]|].
  destruct (appendable c t (max_len es)); [split; [reflexivity|exact K1]|].
  destruct es as [|e0 es0]; [split; [reflexivity|exact K1]|].
  rewrite get_Nst, nrm_poisoned. set (ts1 := get_ts s1 (t_id t)) in *.
  destruct (ts_poisoned ts1); [split; [reflexivity|exact K1]|].
  assert (Hcs1 : CS ts1 (b_id w) (a_next (s_alloc s1))).
  { destruct (ts_writer (get_ts s (t_id t))) as [w0|] eqn:Ew0.
    - destruct (Ksome w0 eq_refl) as (-> & ->). apply Hcs; [intros w' Hw'; congruence|discriminate].
    - destruct (Knone eq_refl) as (Hid & Hnx).
      eapply CS_grow; [apply (Hcs (a_next (s_alloc s))); [discriminate|reflexivity]|exact K1|exists []; now rewrite app_nil_r, Kc|lia|lia|left; lia]. }
  pose proof (batch_plan_Nst x c t (e0 :: es0) s1 w false ltac:(lia) Hcs1) as Hbp.
  destruct (batch_plan c s1 t w false (e0 :: es0)) as [[[s2 wfin] okp] rot].
  destruct Hbp as (B1 & B2 & _). rewrite B1. fold ts1 in B2.
  destruct (negb okp).
  { cbn [fst snd]. rewrite Nst_mark_unmodelled. split; [reflexivity|].
    eapply keep_trans; [exact K1|]. eapply keep_trans; [exact B2|apply keep_mark]. }
  destruct (negb (name_ok c t)).
  { destruct be.
    - destruct rot; cbn [fst snd].
      + rewrite <- Nst_mark_unmodelled, get_Nst, <- nrm_with_poison, <- Nst_set_ts. split; [reflexivity|].
        rewrite get_set_same. eapply keep_trans; [exact K1|]. eapply keep_trans; [exact B2|].
        eapply keep_trans; [apply keep_mark|apply keep_with_poison].
      + rewrite get_Nst, <- nrm_with_poison, <- Nst_set_ts. split; [reflexivity|].
        rewrite get_set_same. eapply keep_trans; [exact K1|apply keep_with_poison].
    - destruct rot; cbn [fst snd].
      + rewrite Nst_mark_unmodelled. split; [reflexivity|].
        eapply keep_trans; [exact K1|]. eapply keep_trans; [exact B2|apply keep_mark].
      + split; [reflexivity|exact K1]. }
  rewrite get_Nst, <- nrm_with_writer, <- nrm_count_add, <- Nst_set_ts. cbn [fst snd]. split; [reflexivity|].
  rewrite get_set_same. eapply keep_trans; [exact K1|]. eapply keep_trans; [exact B2|].
  eapply keep_trans; [apply keep_with_writer|apply keep_count_add].
Qed.
