(* DurableI.v — files replaced by write-temporary / fsync / rename (the read-offset index):
   an invariant between the protocol monitor and the durability state, and its consequences:
   in every power-loss outcome the final name holds one COMPLETE version that was renamed onto
   it (never a torn one), and — when a directory fsync follows the rename before the read is
   acknowledged — a version not older than the acknowledged one. *)
From W Require Import model.Base model.Durable proofs.DurableP proofs.DurableW.
From Coq Require Import ZArith ZifyBool ZifyN ZifyNat.

Definition onino (j : N) (y : bool * (N * fop)) : bool := fst (snd y) =? j.
Definition isver (fops : list (bool * (N * fop))) (j id : N) : Prop :=
  exists len, filter (onino j) fops = [(true, (j, FWrite 0 len id))].

Lemma isver_fun fops j id id' : isver fops j id -> isver fops j id' -> id = id'.
Proof. intros (l & H) (l' & H'). rewrite H in H'. now inversion H'. Qed.

Lemma onino_sync i j l : filter (onino j) (sync_ino i l) = sync_ino i (filter (onino j) l).
Proof. apply (sync_ino_filter (fun z => fst z =? j)). Qed.

Lemma filter_fresh (l : list (bool * (N * fop))) n : (forall b j o, In (b, (j, o)) l -> j < n) -> filter (onino n) l = [].
Proof.
  induction l as [|[b [j o]] l IH]; intros H; [reflexivity|]. cbn. unfold onino at 1. cbn.
  pose proof (H b j o (or_introl eq_refl)). destruct (N.eqb_spec j n); [lia|]. apply IH. intros; eapply H; right; eauto.
Qed.

(* what the directory log says about final name x (fed by renames of t), given the newest
   renamed version [ren] and the newest version whose rename was followed by a directory fsync [dur] *)
Record IStat (s : dstate) (t x ren dur : N) : Prop := {
  is_x : forall b d, In (b, d) (d_dops s) -> touches d x -> exists j, d = DRename t x j;
  is_ren : forall b j, In (b, DRename t x j) (d_dops s) ->
           (exists id, isver (d_fops s) j id /\ 0 < id /\ id <= ren) /\
           (forall g, vlook (d_vdir s) g = Some j -> g = x);
  is_last : 0 < ren -> exists newer older b j,
          d_dops s = newer ++ (b, DRename t x j) :: older /\ isver (d_fops s) j ren /\
          (forall b' d, In (b', d) newer -> ~ touches d x);
  is_dur : 0 < dur -> exists newer older j,
          d_dops s = newer ++ (true, DRename t x j) :: older /\ isver (d_fops s) j dur /\
          (forall b' a j', In (b', DRename a x j') newer -> exists id, isver (d_fops s) j' id /\ dur <= id) }.
(* the temporary name: absent when idle, else a private inode holding exactly the version being written *)
Record ITmp (s : dstate) (t ph cur : N) : Prop := {
  it_ph0 : ph = 0 -> vlook (d_vdir s) t = None;
  it_ph : ph <> 0 -> exists j len b, vlook (d_vdir s) t = Some j /\
          filter (onino j) (d_fops s) = [(b, (j, FWrite 0 len cur))] /\ (ph = 2 -> b = true) /\ 0 < cur }.
Record IOne (s : dstate) (r : ist) : Prop := {
  io_ord : i_dur r <= i_ren r /\ i_ren r <= i_cur r;
  io_stat : IStat s (i_tmp r) (i_fin r) (i_ren r) (i_dur r);
  io_tmp : ITmp s (i_tmp r) (i_phase r) (i_cur r) }.

Record IInv (fixed : bool) (m : dmstate) (s : dstate) : Prop := {
  ii_g : GInv s;
  ii_names : NoDup (map i_tmp (m_idx m) ++ map i_fin (m_idx m));
  ii_disj : forall w, In w (m_wal m) -> is_idx_name m (w_name w) = false;
  ii_each : forall r, In r (m_idx m) -> IOne s r;
  ii_rack : forall x id, In (x, id) (m_racked m) ->
            exists r, In r (m_idx m) /\ i_fin r = x /\ 0 < id /\ id <= (if fixed then i_dur r else i_ren r) }.

(* ---------- names ---------- *)
Lemma nodup_n_NoDup l : nodup_n l = true -> NoDup l.
Proof.
  induction l as [|x l IH]; intros H; [constructor|]. cbn in H. apply andb_prop in H. destruct H as (H1 & H2).
  constructor; [|auto]. intros Hin. apply negb_true_iff in H1.
  assert (existsb (N.eqb x) l = true) by (apply existsb_exists; exists x; split; [assumption|apply N.eqb_refl]). congruence.
Qed.

Lemma nodup_app_parts (a b : list N) : NoDup (a ++ b) -> NoDup a /\ NoDup b /\ forall x, In x a -> In x b -> False.
Proof.
  induction a as [|y a IH]; cbn; intros H.
  - split; [constructor|]. split; [assumption|]. intros x [].
  - inversion H as [|? ? Hnot H']; subst. destruct (IH H') as (A & B & C). split; [|split; [assumption|]].
    + constructor; [|assumption]. intros Hin. apply Hnot. apply in_or_app. now left.
    + intros x [<-|Hx] Hb; [apply Hnot; apply in_or_app; now right|eauto].
Qed.
Lemma nodup_map_inj {A} (f : A -> N) (l : list A) r1 r2 : NoDup (map f l) -> In r1 l -> In r2 l -> f r1 = f r2 -> r1 = r2.
Proof.
  induction l as [|r l IH]; intros Hn H1 H2 E; [destruct H1|]. cbn in Hn. inversion Hn as [|? ? Hnot Hn']; subst.
  destruct H1 as [<-|H1], H2 as [<-|H2]; try reflexivity.
  - exfalso. apply Hnot. rewrite E. now apply in_map.
  - exfalso. apply Hnot. rewrite <- E. now apply in_map.
  - now apply IH.
Qed.

Section Names.
  Context (l : list ist) (Hn : NoDup (map i_tmp l ++ map i_fin l)).
  Lemma names_tmp_fin r1 r2 : In r1 l -> In r2 l -> i_tmp r1 <> i_fin r2.
  Proof.
    intros H1 H2 E. destruct (nodup_app_parts _ _ Hn) as (_ & _ & C). apply (C (i_tmp r1)); [now apply in_map|rewrite E; now apply in_map].
  Qed.
  Lemma names_tmp_inj r1 r2 : In r1 l -> In r2 l -> i_tmp r1 = i_tmp r2 -> r1 = r2.
  Proof. destruct (nodup_app_parts _ _ Hn) as (A & _ & _). now apply nodup_map_inj. Qed.
  Lemma names_fin_inj r1 r2 : In r1 l -> In r2 l -> i_fin r1 = i_fin r2 -> r1 = r2.
  Proof. destruct (nodup_app_parts _ _ Hn) as (_ & B & _). now apply nodup_map_inj. Qed.
End Names.

Lemma in_upd_idx m g t r' : In r' (upd_idx m g t) -> exists r, In r (m_idx m) /\ r' = (if i_tmp r =? t then g r else r).
Proof. unfold upd_idx. intros H. apply in_map_iff in H. destruct H as (r & <- & H). now exists r. Qed.
Lemma upd_idx_in m g t r : In r (m_idx m) -> In (if i_tmp r =? t then g r else r) (upd_idx m g t).
Proof. intros H. unfold upd_idx. apply in_map_iff. now exists r. Qed.
Lemma upd_idx_names m g t : (forall r, i_tmp (g r) = i_tmp r /\ i_fin (g r) = i_fin r) ->
  map i_tmp (upd_idx m g t) = map i_tmp (m_idx m) /\ map i_fin (upd_idx m g t) = map i_fin (m_idx m).
Proof.
  intros H. unfold upd_idx. rewrite !map_map. split; apply map_ext; intros r; destruct (i_tmp r =? t); try reflexivity; apply H.
Qed.

Lemma is_idx_in m r : In r (m_idx m) -> is_idx_name m (i_tmp r) = true /\ is_idx_name m (i_fin r) = true.
Proof.
  intros H. unfold is_idx_name. split; apply existsb_exists; exists r; (split; [assumption|]); rewrite N.eqb_refl; [reflexivity|apply orb_true_r].
Qed.

(* ---------- frames ---------- *)
Lemma isver_keep fops fops' j id :
  isver fops j id ->
  (filter (onino j) fops' = filter (onino j) fops \/ exists i, filter (onino j) fops' = sync_ino i (filter (onino j) fops)) ->
  isver fops' j id.
Proof. intros (len & H) [E|(i & E)]; exists len; rewrite E, H; reflexivity. Qed.

Lemma filter_add_other (l : list (bool * (N * fop))) b i o j : i <> j -> filter (onino j) ((b, (i, o)) :: l) = filter (onino j) l.
Proof. intros H. cbn. unfold onino at 1. cbn. destruct (N.eqb_spec i j); [contradiction|reflexivity]. Qed.

(* the directory-side facts of a pair survive a dstep that prepends directory operations not
   touching x, keeps the renamed inodes' file operations (up to raised flags), and binds names
   only to old inodes reachable before, to fresh inodes, or by moving an inode from a name other than x *)
Lemma istat_frame s s' t x ren dur extra :
  IStat s t x ren dur -> GInv s ->
  (forall g j, vlook (d_vdir s') g = Some j ->
     vlook (d_vdir s) g = Some j \/ d_next s <= j \/ exists a, a <> x /\ vlook (d_vdir s) a = Some j) ->
  d_dops s' = extra ++ d_dops s ->
  (forall b d, In (b, d) extra -> ~ touches d x) ->
  (forall j b, In (b, DRename t x j) (d_dops s) ->
     filter (onino j) (d_fops s') = filter (onino j) (d_fops s) \/
     exists i, filter (onino j) (d_fops s') = sync_ino i (filter (onino j) (d_fops s))) ->
  IStat s' t x ren dur.
Proof.
  intros [Ix Iren Ilast Idur] G Hv Ed Hex Hf.
  assert (Hin : forall b d, In (b, d) (d_dops s') -> touches d x -> In (b, d) (d_dops s)).
  { intros b d H Ht. rewrite Ed in H. apply in_app_or in H. destruct H as [H|H]; [exfalso; eapply Hex; eauto|assumption]. }
  constructor.
  - intros b d H Ht. eauto.
  - intros b j H. assert (H' : In (b, DRename t x j) (d_dops s)) by (apply Hin; [assumption|cbn; now right]).
    destruct (Iren _ _ H') as ((id & Hver & Hid) & Hvd). split.
    + exists id. split; [|assumption]. eapply isver_keep; eauto.
    + intros g Hg. destruct (Hv _ _ Hg) as [Hg'|[Hg'|(a & Ha & Hg')]]; [eauto| |].
      * pose proof (g_dlt _ G _ _ j H' eq_refl). lia.
      * exfalso. apply Ha. eauto.
  - intros H. destruct (Ilast H) as (newer & older & b & j & E & Hver & Hun).
    exists (extra ++ newer), older, b, j. split; [rewrite Ed, E; now rewrite app_assoc|]. split.
    + eapply isver_keep; eauto. eapply (Hf j b). rewrite E. apply in_or_app. right. now left.
    + intros b' d Hd. apply in_app_or in Hd. destruct Hd; eauto.
  - intros H. destruct (Idur H) as (newer & older & j & E & Hver & Hnew).
    exists (extra ++ newer), older, j. split; [rewrite Ed, E; now rewrite app_assoc|]. split.
    + eapply isver_keep; eauto. eapply (Hf j true). rewrite E. apply in_or_app. right. now left.
    + intros b' a j' Hd. apply in_app_or in Hd. destruct Hd as [Hd|Hd]; [exfalso; eapply Hex; eauto; cbn; now right|].
      destruct (Hnew _ _ _ Hd) as (id & Hv' & Hle). exists id. split; [|assumption].
      assert (Hd' : In (b', DRename a x j') (d_dops s)) by (rewrite E; apply in_or_app; now left).
      destruct (Ix _ _ Hd' (or_intror eq_refl)) as (j2 & Ej). inversion Ej; subst a j2.
      eapply isver_keep; eauto.
Qed.

Lemma itmp_frame s s' t ph cur :
  ITmp s t ph cur -> vlook (d_vdir s') t = vlook (d_vdir s) t ->
  (forall j, vlook (d_vdir s) t = Some j ->
     filter (onino j) (d_fops s') = filter (onino j) (d_fops s) \/
     exists i, filter (onino j) (d_fops s') = sync_ino i (filter (onino j) (d_fops s))) ->
  ITmp s' t ph cur.
Proof.
  intros [Ip0 Ip] Ev Hf. constructor.
  - intros H. rewrite Ev. auto.
  - intros H. destruct (Ip H) as (j & len & b & A & B & C & C'). exists j, len.
    destruct (Hf j A) as [E|(i & E)].
    + exists b. rewrite Ev, E. auto.
    + exists (b || (j =? i)). rewrite Ev, E, B. split; [assumption|]. split; [reflexivity|]. split; [|assumption].
      intros H2. rewrite (C H2). reflexivity.
Qed.

Lemma ione_frame s s' r extra :
  IOne s r -> GInv s ->
  vlook (d_vdir s') (i_tmp r) = vlook (d_vdir s) (i_tmp r) ->
  (forall g j, vlook (d_vdir s') g = Some j ->
     vlook (d_vdir s) g = Some j \/ d_next s <= j \/ exists a, a <> i_fin r /\ vlook (d_vdir s) a = Some j) ->
  d_dops s' = extra ++ d_dops s ->
  (forall b d, In (b, d) extra -> ~ touches d (i_fin r)) ->
  (forall j, (vlook (d_vdir s) (i_tmp r) = Some j \/ exists b, In (b, DRename (i_tmp r) (i_fin r) j) (d_dops s)) ->
     filter (onino j) (d_fops s') = filter (onino j) (d_fops s) \/
     exists i, filter (onino j) (d_fops s') = sync_ino i (filter (onino j) (d_fops s))) ->
  IOne s' r.
Proof.
  intros [Iord Is It] G Ev Hv Ed Hex Hf. constructor; [assumption| |].
  - eapply istat_frame; eauto.
  - eapply itmp_frame; eauto.
Qed.

(* a pair's inodes are not reachable through a name that is not one of its names *)
Lemma ione_not_reach s r f i j : IOne s r -> GInv s -> vlook (d_vdir s) f = Some i -> f <> i_tmp r -> f <> i_fin r ->
  (vlook (d_vdir s) (i_tmp r) = Some j \/ exists b, In (b, DRename (i_tmp r) (i_fin r) j) (d_dops s)) -> i <> j.
Proof.
  intros I G Hf Ht Hx [Hj|(b & Hj)] E; subst i.
  - apply Ht. eapply (g_inj _ G); eauto.
  - destruct (is_ren _ _ _ _ _ (io_stat _ _ I) _ _ Hj) as (_ & Hv). apply Hx. eauto.
Qed.

Lemma fresh_not_pair s r j : GInv s ->
  (vlook (d_vdir s) (i_tmp r) = Some j \/ exists b, In (b, DRename (i_tmp r) (i_fin r) j) (d_dops s)) -> d_next s <> j.
Proof.
  intros G [Hj|(b & Hj)] E; subst j.
  - pose proof (g_lt _ G _ _ Hj). lia.
  - pose proof (g_dlt _ G _ _ (d_next s) Hj eq_refl). lia.
Qed.

Ltac mstep_inv H :=
  repeat match type of H with
         | match ?c with Some _ => _ | None => _ end = Some _ => let E := fresh "Ef" in destruct c eqn:E; try discriminate
         | (if ?c then _ else _) = Some _ => let E := fresh "Ec" in destruct c eqn:E; try discriminate
         end; inversion H; subst; clear H.

Lemma iinv_step fixed m s e m' : IInv fixed m s -> mstep fixed m e = Some m' -> IInv fixed m' (dstep s e).
Proof.
  intros I H. pose proof (ginv_step s e (ii_g _ _ _ I)) as G'. pose proof (ii_g _ _ _ I) as G.
  pose proof (ii_names _ _ _ I) as Hnames.
  assert (Hidx : forall g, is_idx_name m' g = is_idx_name m g) by (intros g; eapply mstep_is_idx_name; eauto).
  (* steps that leave m_idx and m_racked alone *)
  assert (Hwalstep : forall s', GInv s' -> m_idx m' = m_idx m -> m_racked m' = m_racked m ->
            (forall w, In w (m_wal m') -> is_idx_name m (w_name w) = false) ->
            (forall r, In r (m_idx m) -> IOne s' r) -> IInv fixed m' s').
  { intros s' Gs Ei Er Hd Hall. constructor; try rewrite Ei; try rewrite Er; auto.
    - intros w Hw. rewrite Hidx. auto.
    - apply (ii_rack _ _ _ I). }
  destruct e; cbn [mstep] in H.
  - (* ECreate *)
    mstep_inv H. apply Hwalstep; auto.
    + intros w [<-|Hw]; [assumption|now apply (ii_disj _ _ _ I)].
    + intros r Hr. pose proof (ii_each _ _ _ I r Hr) as Ir. destruct (is_idx_in _ _ Hr) as (Ht & Hx).
      assert (f <> i_tmp r) by congruence. assert (f <> i_fin r) by congruence.
      cbn [dstep]. unfold do_create. destruct (vlook (d_vdir s) f) as [i|] eqn:Ev.
      * eapply (ione_frame s _ r []); eauto; cbn; auto.
        intros j Hj. left. apply filter_add_other. eapply ione_not_reach; eauto.
      * eapply (ione_frame s _ r [(false, DLink f (d_next s))]); eauto; cbn.
        -- destruct (N.eqb_spec f (i_tmp r)); [contradiction|reflexivity].
        -- intros g j. destruct (N.eqb_spec f g); intros Hg; [inversion Hg; subst; right; left; lia|now left].
        -- intros b d [E|[]]. inversion E; subst. cbn. auto.
  - (* ESetLen *)
    mstep_inv H. destruct (find_wal_some _ _ _ Ef) as (Hin0 & Hname0). pose proof (ii_disj _ _ _ I _ Hin0) as Hni. rewrite Hname0 in Hni.
    apply Hwalstep; auto.
    + cbn. intros w' Hw'. apply in_upd_wal in Hw'. destruct Hw' as (w0 & Hw0 & ->).
      replace (w_name (if w_name w0 =? f then mkW (w_name w0) (w_dsync w0) n false else w0)) with (w_name w0) by (destruct (w_name w0 =? f); reflexivity).
      now apply (ii_disj _ _ _ I).
    + intros r Hr. pose proof (ii_each _ _ _ I r Hr) as Ir. destruct (is_idx_in _ _ Hr) as (Ht & Hx).
      assert (f <> i_tmp r) by congruence. assert (f <> i_fin r) by congruence.
      cbn [dstep]. destruct (vlook (d_vdir s) f) as [i|] eqn:Ev; [|assumption].
      eapply (ione_frame s _ r []); eauto; cbn; auto.
      intros j Hj. left. apply filter_add_other. eapply ione_not_reach; eauto.
  - (* EWrite *)
    mstep_inv H. destruct (find_wal_some _ _ _ Ef) as (Hin0 & Hname0). pose proof (ii_disj _ _ _ I _ Hin0) as Hni. rewrite Hname0 in Hni.
    apply Hwalstep; auto.
    + cbn. intros w' Hw'. apply in_upd_wal in Hw'. destruct Hw' as (w0 & Hw0 & ->).
      replace (w_name (if w_name w0 =? f then mkW (w_name w0) (w_dsync w0) (w_len w0) true else w0)) with (w_name w0) by (destruct (w_name w0 =? f); reflexivity).
      now apply (ii_disj _ _ _ I).
    + intros r Hr. pose proof (ii_each _ _ _ I r Hr) as Ir. destruct (is_idx_in _ _ Hr) as (Ht & Hx).
      assert (f <> i_tmp r) by congruence. assert (f <> i_fin r) by congruence.
      cbn [dstep]. unfold do_write. destruct (vlook (d_vdir s) f) as [i|] eqn:Ev; [|assumption].
      eapply (ione_frame s _ r []); eauto; cbn; auto.
      intros j Hj. left. apply filter_add_other. eapply ione_not_reach; eauto.
  - (* ESyncFile *)
    assert (Hsync : forall i r, IOne s r -> IOne (mkD (d_next s) (d_vdir s) (sync_ino i (d_fops s)) (d_dops s)) r).
    { intros i r Ir. eapply (ione_frame s _ r []); eauto; cbn; auto. intros j _. right. exists i. apply onino_sync. }
    destruct (find_wal m f) as [w|] eqn:Ef.
    + inversion H; subst; clear H. apply Hwalstep; auto.
      * apply (ii_disj _ _ _ I).
      * intros r Hr. cbn [dstep]. destruct (vlook (d_vdir s) f); [apply Hsync|]; now apply (ii_each _ _ _ I).
    + mstep_inv H. apply N.eqb_neq in Ec. pose proof (find_some _ _ Ef0) as (Hin0 & Et). cbn in Et. apply N.eqb_eq in Et.
      set (g := fun i0 : ist => mkI (i_tmp i0) (i_fin i0) 2 (i_cur i0) (i_ren i0) (i_dur i0)) in *.
      destruct (upd_idx_names m g f) as (Nt & Nf); [intros; split; reflexivity|].
      pose proof (ii_each _ _ _ I i Hin0) as I0. destruct (it_ph _ _ _ _ (io_tmp _ _ I0) Ec) as (j & len & b & A & B & C & C').
      rewrite Et in A. cbn [dstep] in *. rewrite A in *.
      constructor; cbn [m_idx m_wal m_racked with_idx].
      * assumption.
      * rewrite Nt, Nf. assumption.
      * intros w Hw. rewrite Hidx. now apply (ii_disj _ _ _ I).
      * intros r' Hr'. apply in_upd_idx in Hr'. destruct Hr' as (r & Hr & ->).
        destruct (N.eqb_spec (i_tmp r) f) as [E|Hne]; [|apply Hsync; now apply (ii_each _ _ _ I)].
        assert (r = i) by (eapply names_tmp_inj; eauto; congruence). subst r.
        destruct (Hsync j i I0) as [Jord Jstat Jtmp].
        constructor; cbn [g i_tmp i_fin i_phase i_cur i_ren i_dur]; auto.
        constructor; [intros; discriminate|].
        intros _. exists j, len, true. cbn [d_vdir d_fops]. rewrite Et. split; [assumption|]. split; [|split; [reflexivity|assumption]].
        rewrite onino_sync, B. cbn. rewrite N.eqb_refl. now rewrite orb_true_r.
      * intros x id Hx. destruct (ii_rack _ _ _ I _ _ Hx) as (r & Hr & Ex & Hpos & Hle).
        exists (if i_tmp r =? f then g r else r). split; [now apply upd_idx_in|]. destruct (i_tmp r =? f); cbn; auto.
  - (* ESyncDir *)
    inversion H; subst; clear H. cbn [dstep].
    set (g := fun i0 : ist => mkI (i_tmp i0) (i_fin i0) (i_phase i0) (i_cur i0) (i_ren i0) (i_ren i0)) in *.
    constructor; cbn [m_idx m_wal m_racked].
    + assumption.
    + rewrite !map_map. cbn. assumption.
    + intros w Hw. apply in_map_iff in Hw. destruct Hw as (w0 & <- & Hw0). rewrite Hidx. cbn. now apply (ii_disj _ _ _ I).
    + intros r' Hr'. apply in_map_iff in Hr'. destruct Hr' as (r & <- & Hr).
      destruct (ii_each _ _ _ I r Hr) as [Iord [Ix Iren Ilast Idur] [Ip0 Ip]].
      constructor; cbn [g i_tmp i_fin i_phase i_cur i_ren i_dur]; [lia| |constructor; assumption].
      constructor; cbn [d_vdir d_fops d_dops].
      * intros b d Hd Ht. apply in_sync_all in Hd. destruct Hd as (_ & b' & Hd). eauto.
      * intros b j Hd. apply in_sync_all in Hd. destruct Hd as (_ & b' & Hd). eauto.
      * intros Hpos. destruct (Ilast Hpos) as (newer & older & b & j & E & Hver & Hun).
        exists (sync_all newer), (sync_all older), true, j. split; [rewrite E, sync_all_app; reflexivity|]. split; [assumption|].
        intros b' d Hd. apply in_sync_all in Hd. destruct Hd as (_ & b2 & Hd). eauto.
      * intros Hpos. destruct (Ilast Hpos) as (newer & older & b & j & E & Hver & Hun).
        exists (sync_all newer), (sync_all older), j. split; [rewrite E, sync_all_app; reflexivity|]. split; [assumption|].
        intros b' a j' Hd. apply in_sync_all in Hd. destruct Hd as (_ & b2 & Hd). exfalso. eapply Hun; eauto. cbn. now right.
    + intros x id Hx. destruct (ii_rack _ _ _ I _ _ Hx) as (r & Hr & Ex & Hpos & Hle).
      exists (g r). split; [now apply in_map|]. cbn. split; [assumption|]. split; [assumption|].
      pose proof (io_ord _ _ (ii_each _ _ _ I r Hr)). destruct fixed; lia.
  - (* ETmpWrite *)
    mstep_inv H. apply andb_prop in Ec. destruct Ec as (Eph & Hlt). apply N.eqb_eq in Eph.
    pose proof (find_some _ _ Ef) as (Hin0 & Et). cbn in Et. apply N.eqb_eq in Et.
    set (g := fun i0 : ist => mkI (i_tmp i0) (i_fin i0) 1 id (i_ren i0) (i_dur i0)) in *.
    destruct (upd_idx_names m g f) as (Nt & Nf); [intros; split; reflexivity|].
    pose proof (ii_each _ _ _ I i Hin0) as I0. pose proof (it_ph0 _ _ _ _ (io_tmp _ _ I0) Eph) as A. rewrite Et in A.
    cbn [dstep] in *. unfold do_write, do_create in *. rewrite A in *. cbn [d_vdir vlook] in *. rewrite N.eqb_refl in *.
    cbn [add_fop d_next d_vdir d_fops d_dops] in *.
    set (n := d_next s) in *.
    constructor; cbn [m_idx m_wal m_racked with_idx].
    + assumption.
    + rewrite Nt, Nf. assumption.
    + intros w Hw. rewrite Hidx. now apply (ii_disj _ _ _ I).
    + intros r' Hr'. apply in_upd_idx in Hr'. destruct Hr' as (r & Hr & ->).
      pose proof (ii_each _ _ _ I r Hr) as Ir.
      assert (Hfx : f <> i_fin r) by (rewrite <- Et; eapply names_tmp_fin; eauto).
      assert (Hstat : IStat (mkD (n + 1) ((f, n) :: d_vdir s) ((false, (n, FWrite 0 len id)) :: d_fops s) ((false, DLink f n) :: d_dops s))
                            (i_tmp r) (i_fin r) (i_ren r) (i_dur r)).
      { eapply (istat_frame s _ _ _ _ _ [(false, DLink f n)]); eauto; cbn [d_vdir d_fops d_dops d_next vlook].
        - apply (io_stat _ _ Ir).
        - intros g0 j. destruct (N.eqb_spec f g0); intros Hg; [inversion Hg; subst; right; left; unfold n; lia|now left].
        - intros b d [E|[]]. inversion E; subst. cbn. auto.
        - intros j b Hj. left. apply filter_add_other. apply (fresh_not_pair s r j G). right; eauto. }
      destruct (N.eqb_spec (i_tmp r) f) as [E|Hne].
      * assert (r = i) by (eapply names_tmp_inj; eauto; congruence). subst r.
        constructor; cbn [g i_tmp i_fin i_phase i_cur i_ren i_dur]; [pose proof (io_ord _ _ Ir); lia|assumption|].
        constructor; [intros; discriminate|]. intros _. exists n, len, false. cbn [add_fop d_next d_vdir d_fops d_dops vlook].
        rewrite Et, N.eqb_refl. split; [reflexivity|]. split; [|split; [intros; discriminate|lia]].
        cbn. unfold onino at 1. cbn. rewrite N.eqb_refl. f_equal. apply filter_fresh. intros b j o Hin. apply (g_flt _ G _ _ _ Hin).
      * constructor; [apply (io_ord _ _ Ir)|assumption|].
        eapply itmp_frame; [apply (io_tmp _ _ Ir)| |]; cbn [add_fop d_next d_vdir d_fops d_dops vlook].
        -- destruct (N.eqb_spec f (i_tmp r)); [congruence|reflexivity].
        -- intros j Hj. left. apply filter_add_other. apply (fresh_not_pair s r j G). now left.
    + intros x id0 Hx. destruct (ii_rack _ _ _ I _ _ Hx) as (r & Hr & Ex & Hpos & Hle).
      exists (if i_tmp r =? f then g r else r). split; [now apply upd_idx_in|]. destruct (i_tmp r =? f); cbn; auto.
  - (* ERename *)
    mstep_inv H. apply andb_prop in Ec. destruct Ec as (Eph & Hb). apply N.eqb_eq in Eph, Hb. subst b.
    pose proof (find_some _ _ Ef) as (Hin0 & Et). cbn in Et. apply N.eqb_eq in Et.
    set (g := fun i0 : ist => mkI (i_tmp i0) (i_fin i0) 0 (i_cur i0) (i_cur i0) (i_dur i0)) in *.
    destruct (upd_idx_names m g a) as (Nt & Nf); [intros; split; reflexivity|].
    pose proof (ii_each _ _ _ I i Hin0) as I0.
    assert (Eph2 : i_phase i <> 0) by lia.
    destruct (it_ph _ _ _ _ (io_tmp _ _ I0) Eph2) as (j & len & b & A & B & C & C'). specialize (C Eph). subst b.
    rewrite Et in A. cbn [dstep] in *. rewrite A in *.
    assert (Hax : a <> i_fin i) by (rewrite <- Et; eapply names_tmp_fin; eauto).
    assert (Hverj : isver (d_fops s) j (i_cur i)) by (exists len; exact B).
    constructor; cbn [m_idx m_wal m_racked with_idx].
    + assumption.
    + rewrite Nt, Nf. assumption.
    + intros w Hw. rewrite Hidx. now apply (ii_disj _ _ _ I).
    + intros r' Hr'. apply in_upd_idx in Hr'. destruct Hr' as (r & Hr & ->).
      pose proof (ii_each _ _ _ I r Hr) as Ir.
      destruct (N.eqb_spec (i_tmp r) a) as [E|Hne].
      * assert (r = i) by (eapply names_tmp_inj; eauto; congruence). subst r.
        destruct Ir as [Iord [Ix Iren Ilast Idur] [Ip0 Ip]]. rewrite Et in *.
        constructor; cbn [g i_tmp i_fin i_phase i_cur i_ren i_dur]; [lia| |].
        -- constructor; cbn [d_vdir d_fops d_dops]; rewrite ?Et.
           ++ intros b d [Ed|Hd] Ht; [inversion Ed; subst; eauto|eauto].
           ++ intros b j' [Ed|Hd].
              ** inversion Ed; subst j'. split; [exists (i_cur i); split; [assumption|lia]|].
                 intros g0. cbn. destruct (N.eqb_spec (i_fin i) g0) as [<-|Hn0]; [reflexivity|]. rewrite !vlook_vdel.
                 destruct (N.eqb_spec (i_fin i) g0); [congruence|]. destruct (N.eqb_spec a g0) as [|Hna]; [discriminate|].
                 intros Hg. exfalso. apply Hna. eapply (g_inj _ G); eauto.
              ** destruct (Iren _ _ Hd) as ((id & Hv & Hp & Hle) & Hvd). split; [exists id; split; [assumption|lia]|].
                 intros g0. cbn. destruct (N.eqb_spec (i_fin i) g0) as [<-|Hn0]; [reflexivity|]. rewrite !vlook_vdel.
                 destruct (N.eqb_spec (i_fin i) g0); [congruence|]. destruct (N.eqb_spec a g0); [discriminate|]. auto.
           ++ intros _. exists [], (d_dops s), false, j. split; [reflexivity|]. split; [assumption|]. intros b' d [].
           ++ intros Hpos. destruct (Idur Hpos) as (newer & older & jD & Edd & Hver & Hnew).
              exists ((false, DRename a (i_fin i) j) :: newer), older, jD. split; [rewrite Edd; reflexivity|]. split; [assumption|].
              intros b' a' j' [Ed|Hd]; [inversion Ed; subst; exists (i_cur i); split; [assumption|lia]|eauto].
        -- constructor; [|intros; contradiction]. intros _. cbn [d_vdir vlook]. rewrite !vlook_vdel, Et.
           destruct (N.eqb_spec (i_fin i) a); [congruence|]. now rewrite N.eqb_refl.
      * assert (Hxx : i_fin i <> i_fin r) by (intros E; apply Hne; rewrite <- Et; f_equal; eapply names_fin_inj; eauto).
        assert (Hax' : a <> i_fin r) by (rewrite <- Et; eapply names_tmp_fin; eauto).
        assert (Hxt : i_fin i <> i_tmp r) by (intros E; eapply (names_tmp_fin _ Hnames r i); eauto).
        eapply (ione_frame s _ r [(false, DRename a (i_fin i) j)]); eauto; cbn [d_vdir d_fops d_dops vlook].
        -- destruct (N.eqb_spec (i_fin i) (i_tmp r)); [congruence|]. rewrite !vlook_vdel.
           destruct (N.eqb_spec (i_fin i) (i_tmp r)); [congruence|]. destruct (N.eqb_spec a (i_tmp r)); [congruence|reflexivity].
        -- intros g0 j0. destruct (N.eqb_spec (i_fin i) g0) as [<-|Hn0].
           ++ intros Hg. inversion Hg; subst j0. right. right. exists a. split; assumption.
           ++ rewrite !vlook_vdel. destruct (i_fin i =? g0), (a =? g0); try discriminate. auto.
        -- intros b d [Ed|[]]. inversion Ed; subst. cbn. intros [E|E]; congruence.
    + intros x id0 Hx. destruct (ii_rack _ _ _ I _ _ Hx) as (r & Hr & Ex & Hpos & Hle).
      exists (if i_tmp r =? a then g r else r). split; [now apply upd_idx_in|].
      pose proof (io_ord _ _ (ii_each _ _ _ I r Hr)). destruct (i_tmp r =? a); cbn; repeat split; auto. destruct fixed; lia.
  - discriminate.
  - (* EAck *)
    mstep_inv H. cbn [dstep]. constructor; first [exact G|exact Hnames|exact (ii_disj _ _ _ I)|exact (ii_each _ _ _ I)|exact (ii_rack _ _ _ I)].
  - (* EAckRead *)
    mstep_inv H. apply andb_prop in Ec. destruct Ec as (Hpos & Hle).
    pose proof (find_some _ _ Ef) as (Hin0 & Ex). cbn in Ex. apply N.eqb_eq in Ex.
    cbn [dstep]. constructor; try first [exact G|exact Hnames|exact (ii_disj _ _ _ I)|exact (ii_each _ _ _ I)].
    cbn [m_racked m_idx]. intros x0 id0 [E|Hx]; [|now apply (ii_rack _ _ _ I)].
    inversion E; subst x0 id0. exists i. repeat split; auto; lia.
Qed.

Lemma iinv_init fixed pairs : pairs_ok pairs = true -> IInv fixed (dm_init pairs) d_init.
Proof.
  intros Hp. constructor; cbn.
  - apply ginv_init.
  - rewrite !map_map. cbn. apply nodup_n_NoDup. exact Hp.
  - intros w [].
  - intros r Hr. apply in_map_iff in Hr. destruct Hr as ([t x] & <- & _). cbn.
    constructor; cbn; [lia| |].
    + constructor; cbn; try (intros; contradiction); intros; lia.
    + constructor; cbn; [reflexivity|intros; contradiction].
  - intros x id [].
Qed.

Lemma mrun_iinv fixed tr : forall m s m', IInv fixed m s -> dmrun fixed m tr = Some m' -> IInv fixed m' (drun_from s tr).
Proof.
  induction tr as [|e tr IH]; intros m s m' I H; cbn in *.
  - inversion H; subst. assumption.
  - destruct (mstep fixed m e) as [m1|] eqn:E; [|discriminate]. eapply IH; [|exact H]. eapply iinv_step; eauto.
Qed.

(* ---------- reading the final name in an outcome ---------- *)
Lemma dlook_renames l t x : t <> x -> (forall d, In d l -> touches d x -> exists j, d = DRename t x j) ->
  dlook l x = None \/ exists j, dlook l x = Some j /\ In (DRename t x j) l.
Proof.
  intros Htx. induction l as [|d l IH]; intros H; [now left|].
  assert (Hl : forall d', In d' l -> touches d' x -> exists j, d' = DRename t x j) by (intros; apply H; [now right|assumption]).
  specialize (IH Hl). pose proof (H d (or_introl eq_refl)) as Hd. cbn.
  destruct d as [g i|a b i|g]; cbn in Hd.
  - destruct (N.eqb_spec g x) as [E|_]; [destruct (Hd E) as (j & Ej); discriminate|].
    destruct IH as [IH|(j & A & B)]; [now left|right; exists j; split; [assumption|now right]].
  - destruct (N.eqb_spec b x) as [E|Hb].
    + destruct (Hd (or_intror E)) as (j & Ej). inversion Ej; subst. right. exists j. split; [reflexivity|now left].
    + destruct (N.eqb_spec a x) as [E|_]; [destruct (Hd (or_introl E)) as (j & Ej); inversion Ej; subst; contradiction|].
      destruct IH as [IH|(j & A & B)]; [now left|right; exists j; split; [assumption|now right]].
  - destruct (N.eqb_spec g x) as [E|_]; [destruct (Hd E) as (j & Ej); discriminate|].
    destruct IH as [IH|(j & A & B)]; [now left|right; exists j; split; [assumption|now right]].
Qed.

Lemma dlook_app_rename o1 o2 t x jD : t <> x -> (forall d, In d o1 -> touches d x -> exists j, d = DRename t x j) ->
  exists j', dlook (o1 ++ DRename t x jD :: o2) x = Some j' /\ (j' = jD \/ In (DRename t x j') o1).
Proof.
  intros Htx. induction o1 as [|d l IH]; intros H; cbn.
  - rewrite N.eqb_refl. exists jD. split; [reflexivity|now left].
  - assert (Hl : forall d', In d' l -> touches d' x -> exists j, d' = DRename t x j) by (intros; apply H; [now right|assumption]).
    specialize (IH Hl). pose proof (H d (or_introl eq_refl)) as Hd.
    assert (Hrec : exists j', dlook (l ++ DRename t x jD :: o2) x = Some j' /\ (j' = jD \/ In (DRename t x j') (d :: l))).
    { destruct IH as (j' & A & [B|B]); exists j'; (split; [assumption|]); [now left|right; now right]. }
    destruct d as [g i|a b i|g]; cbn in Hd.
    + destruct (N.eqb_spec g x) as [E|_]; [destruct (Hd E) as (j & Ej); discriminate|exact Hrec].
    + destruct (N.eqb_spec b x) as [E|Hb].
      * destruct (Hd (or_intror E)) as (j & Ej). inversion Ej; subst. exists j. split; [reflexivity|right; now left].
      * destruct (N.eqb_spec a x) as [E|_]; [destruct (Hd (or_introl E)) as (j & Ej); inversion Ej; subst; contradiction|exact Hrec].
    + destruct (N.eqb_spec g x) as [E|_]; [destruct (Hd E) as (j & Ej); discriminate|exact Hrec].
Qed.

Lemma outcome_version fops ofo j id : isver fops j id -> adm fops ofo -> exists len, ino_ops ofo j = [FWrite 0 len id].
Proof.
  intros (len & H) Ha. exists len.
  assert (Hf : adm (filter (onino j) fops) (filter (fun z : N * fop => fst z =? j) ofo))
    by exact (adm_filter (fun z : N * fop => fst z =? j) _ _ Ha).
  rewrite H in Hf. apply adm_single_true in Hf. unfold ino_ops. rewrite Hf. reflexivity.
Qed.

(* old or new, never torn *)
Lemma iinv_old_or_new fixed m s r o : IInv fixed m s -> In r (m_idx m) -> admissible s o ->
  dlook (o_dops o) (i_fin r) = None \/ exists id, holds_version o (i_fin r) id /\ 0 < id /\ id <= i_ren r.
Proof.
  intros I Hr (Af & Ad). pose proof (io_stat _ _ (ii_each _ _ _ I r Hr)) as [Ix Iren _ _].
  assert (Htx : i_tmp r <> i_fin r) by (eapply names_tmp_fin; [apply (ii_names _ _ _ I)| |]; eauto).
  destruct (dlook_renames (o_dops o) _ _ Htx) as [Hn|(j & Hj & Hin)].
  - intros d Hd Ht. destruct (adm_sub _ _ _ Ad Hd) as (b & Hd'). eauto.
  - now left.
  - right. destruct (adm_sub _ _ _ Ad Hin) as (b & Hd'). destruct (Iren _ _ Hd') as ((id & Hv & Hp & Hle) & _).
    exists id. split; [|split; assumption]. destruct (outcome_version _ _ _ _ Hv Af) as (len & Hl). exists j, len. split; assumption.
Qed.

(* with a directory fsync between rename and acknowledgement: not older than any acknowledged version *)
Lemma iinv_durable m s x id o : IInv true m s -> In (x, id) (m_racked m) -> admissible s o ->
  exists id', holds_version o x id' /\ id <= id'.
Proof.
  intros I Hx (Af & Ad). destruct (ii_rack _ _ _ I _ _ Hx) as (r & Hr & <- & Hpos & Hle).
  pose proof (io_stat _ _ (ii_each _ _ _ I r Hr)) as [Ix Iren _ Idur].
  assert (Htx : i_tmp r <> i_fin r) by (eapply names_tmp_fin; [apply (ii_names _ _ _ I)| |]; eauto).
  assert (Hd : 0 < i_dur r) by lia. destruct (Idur Hd) as (newer & older & jD & E & Hver & Hnew).
  rewrite E in Ad. apply adm_app_inv in Ad. destruct Ad as (o1 & o2' & Eo & A1 & A2).
  inversion A2 as [|b' x' l' o2 A2'|]; subst.
  assert (Hsub : forall d, In d o1 -> exists b, In (b, d) (d_dops s)).
  { intros d Hd'. destruct (adm_sub _ _ _ A1 Hd') as (b & Hb). exists b. rewrite E. apply in_or_app. now left. }
  destruct (dlook_app_rename o1 o2 _ _ jD Htx) as (j' & Hj & Hor).
  - intros d Hd' Ht. destruct (Hsub _ Hd') as (b & Hb). eauto.
  - rewrite <- Eo in Hj. destruct Hor as [->|Hin].
    + exists (i_dur r). split; [|lia]. destruct (outcome_version _ _ _ _ Hver Af) as (len & Hl). exists jD, len. split; assumption.
    + destruct (adm_sub _ _ _ A1 Hin) as (b & Hb). destruct (Hnew _ _ _ Hb) as (id' & Hv' & Hle').
      exists id'. split; [|lia]. destruct (outcome_version _ _ _ _ Hv' Af) as (len & Hl). exists j', len. split; assumption.
Qed.

(* ---------- trace-level statements ---------- *)
(* newest version of final name x renamed so far, read off the protocol monitor (0: none) *)
Definition newest_renamed (fixed : bool) (pairs : list (N * N)) (tr : list ev) (x : N) : N :=
  match dmrun fixed (dm_init pairs) tr with
  | Some m => match find (fun i => i_fin i =? x) (m_idx m) with Some r => i_ren r | None => 0 end
  | None => 0
  end.

Lemma m_init_idx_fin fixed pairs tr m t x : dmrun fixed (dm_init pairs) tr = Some m -> In (t, x) pairs ->
  exists r, In r (m_idx m) /\ i_tmp r = t /\ i_fin r = x.
Proof.
  intros H Hin.
  assert (Hn : idx_names m = idx_names (dm_init pairs)).
  { clear Hin. revert H. generalize (dm_init pairs). induction tr as [|e tr IH]; intros m0 H; cbn in H.
    - now inversion H.
    - destruct (mstep fixed m0 e) as [m1|] eqn:E; [|discriminate]. rewrite (IH _ H). eapply mstep_idx_names; eauto. }
  assert (Hp : In (t, x) (idx_names m)).
  { rewrite Hn. unfold idx_names, dm_init. cbn. rewrite map_map. cbn. apply in_map_iff. exists (t, x). split; [reflexivity|assumption]. }
  unfold idx_names in Hp. apply in_map_iff in Hp. destruct Hp as (r & E & Hr). inversion E. eauto.
Qed.

Theorem index_never_torn fixed pairs tr k :
  proto_ok fixed pairs tr = true -> forall t x, In (t, x) pairs ->
  forall o, admissible (drun (firstn k tr)) o ->
  dlook (o_dops o) x = None \/
  exists id, holds_version o x id /\ 0 < id /\ id <= newest_renamed fixed pairs (firstn k tr) x.
Proof.
  intros H t x Hin o Hadm.
  apply (proto_ok_firstn _ _ _ k) in H. unfold proto_ok in H. apply andb_prop in H. destruct H as (Hp & H).
  unfold newest_renamed. destruct (dmrun fixed (dm_init pairs) (firstn k tr)) as [m'|] eqn:E; [|discriminate].
  pose proof (mrun_iinv _ _ _ _ _ (iinv_init fixed pairs Hp) E) as I.
  destruct (m_init_idx_fin _ _ _ _ _ _ E Hin) as (r & Hr & Et & Ex).
  destruct (find (fun i => i_fin i =? x) (m_idx m')) as [r'|] eqn:Ef.
  - apply find_some in Ef. destruct Ef as (Hr' & Ex'). cbn in Ex'. apply N.eqb_eq in Ex'.
    assert (r' = r) by (eapply names_fin_inj; [apply (ii_names _ _ _ I)| | |]; eauto; congruence). subst r' x.
    eapply iinv_old_or_new; eauto.
  - exfalso. eapply find_none in Ef; eauto. cbn in Ef. rewrite Ex, N.eqb_refl in Ef. discriminate.
Qed.

Theorem consumption_durable pairs tr k :
  proto_ok true pairs tr = true ->
  forall x id, In (EAckRead x id) (firstn k tr) ->
  forall o, admissible (drun (firstn k tr)) o -> exists id', holds_version o x id' /\ id <= id'.
Proof.
  intros H x id Ha o Hadm.
  apply (proto_ok_firstn _ _ _ k) in H. unfold proto_ok in H. apply andb_prop in H. destruct H as (Hp & H).
  destruct (dmrun true (dm_init pairs) (firstn k tr)) as [m'|] eqn:E; [|discriminate].
  pose proof (mrun_iinv _ _ _ _ _ (iinv_init true pairs Hp) E) as I.
  destruct (mrun_record _ _ _ _ E) as (_ & _ & _ & _ & _ & B6).
  eapply iinv_durable; eauto.
Qed.

(* the code as it is (no directory fsync after the rename): the read is acknowledged, the
   rename is lost, the OLD index survives — a StrictlyAtOnce consumer reads the entry again *)
Definition refute_pairs : list (N * N) := [(100, 101)].
Definition refute_trace : list ev :=
  [ETmpWrite 100 44 1; ESyncFile 100; ERename 100 101; EAckRead 101 1;
   ETmpWrite 100 44 2; ESyncFile 100; ERename 100 101; EAckRead 101 2].
(* directory log, newest first: rename#2, link#2, rename#1, link#1 — keep only link#1 and rename#1 *)
Definition refute_outcome : outcome := pick_outcome [] [false; false; true; true] (drun refute_trace).

Theorem index_rename_not_synced :
  exists pairs tr x id o,
    proto_ok false pairs tr = true /\ In (EAckRead x id) tr /\ admissible (drun tr) o /\
    version_of o x = Some (Some 1) /\ 1 < id /\ proto_ok true pairs tr = false.
Proof.
  exists refute_pairs, refute_trace, 101, 2, refute_outcome.
  split; [vm_compute; reflexivity|]. split; [cbn; auto 10|]. split; [apply pick_outcome_admissible|].
  split; [vm_compute; reflexivity|]. split; [lia|vm_compute; reflexivity].
Qed.

(* and it can vanish altogether when no rename ever reached the disk *)
Lemma index_can_be_absent :
  exists o, admissible (drun refute_trace) o /\ version_of o 101 = None.
Proof. exists (pick_outcome [] [] (drun refute_trace)). split; [apply pick_outcome_admissible|vm_compute; reflexivity]. Qed.
