(* FrameP.v — lemmas about model/Frame.v: frame synchronisation of the connection loop
   (by induction on the list of frames), truncated final frames, the PUT/GET round trip. *)
From W Require Import gen.Consts model.Base model.Utf8 model.Frame spec.FrameSpec proofs.Utf8P.
From Coq Require Import ZArith ZifyBool ZifyN ZifyNat.
Ltac Zify.zify_post_hook ::= Z.div_mod_to_equations.

(* ------------------------------------------------------------------ basics *)
Lemma str_eqb_refl a : str_eqb a a = true.
Proof. induction a as [|x a IH]; cbn [str_eqb]; [reflexivity|]. now rewrite N.eqb_refl. Qed.

Lemma str_eqb_eq a : forall b, str_eqb a b = true <-> a = b.
Proof.
  induction a as [|x a IH]; intros [|y b]; cbn [str_eqb]; split; intros H; try reflexivity; try discriminate.
  - apply andb_true_iff in H. destruct H as [H1 H2]. apply N.eqb_eq in H1. apply IH in H2. now subst.
  - inversion H; subst. now rewrite N.eqb_refl, str_eqb_refl.
Qed.

Lemma str_eqb_neq a b : str_eqb a b = false <-> a <> b.
Proof.
  split; intros H.
  - intros E. apply str_eqb_eq in E. congruence.
  - destruct (str_eqb a b) eqn:E; [|reflexivity]. apply str_eqb_eq in E. contradiction.
Qed.

Lemma blen_app a b : blen (a ++ b) = blen a + blen b.
Proof. unfold blen. rewrite app_length. lia. Qed.

Lemma blen_cons x a : blen (x :: a) = 1 + blen a.
Proof. unfold blen. cbn [length]. lia. Qed.

Lemma blen_nil : blen [] = 0.
Proof. reflexivity. Qed.

Lemma blen_0 a : blen a = 0 -> a = [].
Proof. destruct a; [reflexivity|]. rewrite blen_cons. lia. Qed.

Lemma un_le32_le32 n : n < two32 ->
  un_le32 (n mod 256) ((n / 256) mod 256) ((n / 65536) mod 256) ((n / 16777216) mod 256) = n.
Proof. unfold un_le32, two32. intros H. lia. Qed.

(* ------------------------------------------------------------------ read_exact *)
Lemma read_exact_0 l : read_exact 0 l = Some ([], l).
Proof. destruct l; reflexivity. Qed.

Lemma read_exact_nil n : n <> 0 -> read_exact n [] = None.
Proof. intros H. cbn [read_exact]. destruct (n =? 0) eqn:E; [lia|reflexivity]. Qed.

Lemma read_exact_cons n b r : n <> 0 ->
  read_exact n (b :: r) = match read_exact (n - 1) r with
                          | Some (a, rest) => Some (b :: a, rest)
                          | None => None
                          end.
Proof. intros H. cbn [read_exact]. destruct (n =? 0) eqn:E; [lia|reflexivity]. Qed.

Lemma read_exact_app b : forall r, read_exact (blen b) (b ++ r) = Some (b, r).
Proof.
  induction b as [|x b IH]; intros r.
  - apply read_exact_0.
  - cbn [app]. rewrite read_exact_cons by (rewrite blen_cons; lia).
    replace (blen (x :: b) - 1) with (blen b) by (rewrite blen_cons; lia).
    now rewrite IH.
Qed.

Lemma read_exact_sound l : forall n a r, read_exact n l = Some (a, r) -> l = a ++ r /\ blen a = n.
Proof.
  induction l as [|x l IH]; intros n a r H.
  - destruct (N.eq_dec n 0) as [->|Hn].
    + inversion H; subst. split; reflexivity.
    + rewrite read_exact_nil in H by exact Hn. discriminate.
  - destruct (N.eq_dec n 0) as [->|Hn].
    + rewrite read_exact_0 in H. inversion H; subst. split; reflexivity.
    + rewrite read_exact_cons in H by exact Hn.
      destruct (read_exact (n - 1) l) as [[a' r']|] eqn:E; [|discriminate].
      inversion H; subst. apply IH in E. destruct E as [E1 E2]. subst l.
      split; [reflexivity|]. rewrite blen_cons. lia.
Qed.

Lemma read_exact_short l : forall n, blen l < n -> read_exact n l = None.
Proof.
  induction l as [|x l IH]; intros n H.
  - apply read_exact_nil. rewrite blen_nil in H. lia.
  - rewrite blen_cons in H. rewrite read_exact_cons by lia. rewrite IH by lia. reflexivity.
Qed.

Lemma read_exact_none l n : read_exact n l = None -> blen l < n.
Proof.
  intros H. destruct (N.ltb_spec (blen l) n) as [Hlt|Hge]; [exact Hlt|]. exfalso.
  assert (E : exists a r, l = a ++ r /\ blen a = n).
  { exists (firstn (N.to_nat n) l), (skipn (N.to_nat n) l). split; [now rewrite firstn_skipn|].
    unfold blen in *. rewrite firstn_length. lia. }
  destruct E as (a & r & -> & <-). rewrite read_exact_app in H. discriminate.
Qed.

(* ------------------------------------------------------------------ fuel *)
Lemma serve_fuel_mono d : forall fuel c inp fuel',
  (length inp < fuel)%nat -> (fuel <= fuel')%nat ->
  serve_fuel d fuel' c inp = serve_fuel d fuel c inp.
Proof.
  induction fuel as [|f IH]; intros c inp fuel' H1 H2; [lia|].
  destruct fuel' as [|f']; [lia|].
  destruct inp as [|b0 [|b1 [|b2 [|b3 rest]]]]; cbn [serve_fuel]; try reflexivity.
  cbn [length] in H1.
  destruct (bad_len (un_le32 b0 b1 b2 b3)).
  - f_equal. destruct d.
    + destruct (read_exact (un_le32 b0 b1 b2 b3) rest) as [[a r]|] eqn:E; [|reflexivity].
      apply read_exact_sound in E. destruct E as [-> _]. rewrite app_length in H1.
      apply IH; lia.
    + apply IH; lia.
  - destruct (read_exact (un_le32 b0 b1 b2 b3) rest) as [[a r]|] eqn:E; [|reflexivity].
    apply read_exact_sound in E. destruct E as [-> _]. rewrite app_length in H1.
    destruct (handle_body c a). f_equal. apply IH; lia.
Qed.

Lemma serve_fuel_S d f c b0 b1 b2 b3 rest :
  serve_fuel d (S f) c (b0 :: b1 :: b2 :: b3 :: rest) =
  let n := un_le32 b0 b1 b2 b3 in
  if bad_len n then
    enc_resp (FErr m_len) ++
    (if d then match read_exact n rest with
               | Some (_, rest') => serve_fuel d f c rest'
               | None => []
               end
     else serve_fuel d f c rest)
  else match read_exact n rest with
       | None => []
       | Some (body, rest') => let (c', r) := handle_body c body in enc_resp r ++ serve_fuel d f c' rest'
       end.
Proof. reflexivity. Qed.

Lemma serve_fuel_enough d fuel c inp : (length inp < fuel)%nat ->
  serve_fuel d fuel c inp = serve_from d c inp.
Proof. intros H. unfold serve_from. apply serve_fuel_mono; lia. Qed.

Lemma serve_from_nil d c : serve_from d c [] = [].
Proof. reflexivity. Qed.

(* ------------------------------------------------------------------ one frame *)
Definition wf (f : frame) : Prop := f_len f < two32 /\ blen (f_body f) = f_len f.

Lemma frame_wfb_wf f : frame_wfb f = true <-> wf f.
Proof. unfold frame_wfb, wf. lia. Qed.

Lemma forallb_wf fs : forallb frame_wfb fs = true <-> Forall wf fs.
Proof.
  rewrite forallb_forall, Forall_forall. split; intros H x Hx; apply frame_wfb_wf, H, Hx.
Qed.

Lemma respond_bad c f : bad_len (f_len f) = true -> respond c f = (c, FErr m_len).
Proof. unfold respond. now intros ->. Qed.

Lemma respond_good c f : bad_len (f_len f) = false -> respond c f = handle_body c (f_body f).
Proof. unfold respond. now intros ->. Qed.

(* the loop consumes exactly one well-formed frame and answers it; with the code as it
   stands this needs the announced length to be within the limit *)
Lemma serve_from_frame d c f tl : wf f -> (d = false -> f_len f <= max_frame_len) ->
  serve_from d c (enc_frame f ++ tl) =
  enc_resp (snd (respond c f)) ++ serve_from d (fst (respond c f)) tl.
Proof.
  intros [Hlt Hlen] Hd. destruct f as [n body]. cbn [f_len f_body] in *.
  unfold serve_from at 1. unfold enc_frame, le32. cbn [f_len f_body app length].
  rewrite serve_fuel_S. cbv zeta. rewrite un_le32_le32 by exact Hlt.
  destruct (bad_len n) eqn:Eb.
  - rewrite respond_bad by exact Eb. cbn [fst snd]. f_equal.
    destruct d.
    + rewrite <- Hlen, read_exact_app. apply serve_fuel_enough. rewrite app_length. lia.
    + assert (n = 0) as -> by (specialize (Hd eq_refl); unfold bad_len in Eb; lia).
      apply blen_0 in Hlen. subst body. cbn [app]. apply serve_fuel_enough. lia.
  - rewrite respond_good by exact Eb. cbn [f_body].
    rewrite <- Hlen, read_exact_app.
    destruct (handle_body c body) as [c' r]. cbn [fst snd]. f_equal.
    apply serve_fuel_enough. rewrite app_length. lia.
Qed.

(* ------------------------------------------------------------------ all frames *)
Lemma responses_from_cons c f fs :
  responses_from c (f :: fs) = snd (respond c f) :: responses_from (fst (respond c f)) fs.
Proof. cbn [responses_from]. now destruct (respond c f). Qed.

Lemma responses_from_length fs : forall c, length (responses_from c fs) = length fs.
Proof.
  induction fs as [|f fs IH]; intros c; [reflexivity|].
  rewrite responses_from_cons. cbn [length]. now rewrite IH.
Qed.

Lemma serve_from_frames d fs : forall c tl,
  Forall wf fs -> (d = false -> Forall (fun f => f_len f <= max_frame_len) fs) ->
  serve_from d c (enc_frames fs ++ tl) =
  enc_resps (responses_from c fs) ++ serve_from d (ctl_after c fs) tl.
Proof.
  induction fs as [|f fs IH]; intros c tl Hwf Hin; [reflexivity|].
  inversion Hwf as [|x l Hf Hfs]; subst.
  unfold enc_frames. cbn [map concat]. fold (enc_frames fs). rewrite <- app_assoc.
  rewrite serve_from_frame; [|exact Hf|intros E; specialize (Hin E); now inversion Hin].
  rewrite IH; [|exact Hfs|intros E; specialize (Hin E); now inversion Hin].
  rewrite responses_from_cons. unfold enc_resps. cbn [map concat ctl_after].
  now rewrite <- app_assoc.
Qed.

Lemma forallb_in_range fs : forallb in_range fs = true <-> Forall (fun f => f_len f <= max_frame_len) fs.
Proof.
  rewrite forallb_forall, Forall_forall. unfold in_range.
  split; intros H x Hx; specialize (H x Hx); lia.
Qed.

(* frame synchronisation, code as it stands: no announced length above the limit *)
Theorem sync_v0 fs : forallb frame_wfb fs = true -> forallb in_range fs = true ->
  serve_v0 (enc_frames fs) = enc_resps (responses fs).
Proof.
  intros Hwf Hin. unfold serve_v0, serve_gen, responses.
  rewrite <- (app_nil_r (enc_frames fs)).
  rewrite serve_from_frames; [|now apply forallb_wf|intros _; now apply forallb_in_range].
  now rewrite serve_from_nil, app_nil_r.
Qed.

(* frame synchronisation with the body of a refused frame discarded: every frame list *)
Theorem sync_fixed fs : forallb frame_wfb fs = true ->
  serve_fixed (enc_frames fs) = enc_resps (responses fs).
Proof.
  intros Hwf. unfold serve_fixed, serve_gen, responses.
  rewrite <- (app_nil_r (enc_frames fs)).
  rewrite serve_from_frames; [|now apply forallb_wf|discriminate].
  now rewrite serve_from_nil, app_nil_r.
Qed.

Theorem one_response_per_frame fs : length (responses fs) = length fs.
Proof. apply responses_from_length. Qed.

(* ------------------------------------------------------------------ truncated tail *)
(* what is left of a stream after its last complete frame *)
Definition incomplete (tl : list N) : Prop :=
  match tl with
  | b0 :: b1 :: b2 :: b3 :: rest => read_exact (un_le32 b0 b1 b2 b3) rest = None
  | _ => True
  end.

Lemma serve_from_incomplete_fixed c tl : incomplete tl ->
  serve_from true c tl = if tail_oversize tl then enc_resp (FErr m_len) else [].
Proof.
  intros H. destruct tl as [|b0 [|b1 [|b2 [|b3 rest]]]]; try reflexivity.
  cbn [incomplete tail_oversize] in *. unfold serve_from. cbn [length]. rewrite serve_fuel_S. cbv zeta.
  rewrite H. unfold bad_len.
  assert (un_le32 b0 b1 b2 b3 <> 0) by (intros E; rewrite E, read_exact_0 in H; discriminate).
  destruct (max_frame_len <? un_le32 b0 b1 b2 b3) eqn:E.
  - rewrite orb_true_r. now rewrite app_nil_r.
  - destruct (un_le32 b0 b1 b2 b3 =? 0) eqn:E0; [lia|]. reflexivity.
Qed.

Lemma serve_from_incomplete_v0 c tl : incomplete tl -> tail_oversize tl = false ->
  serve_from false c tl = [].
Proof.
  intros H Ho. destruct tl as [|b0 [|b1 [|b2 [|b3 rest]]]]; try reflexivity.
  cbn [incomplete tail_oversize] in *. unfold serve_from. cbn [length]. rewrite serve_fuel_S. cbv zeta.
  rewrite H. unfold bad_len.
  assert (un_le32 b0 b1 b2 b3 <> 0) by (intros E; rewrite E, read_exact_0 in H; discriminate).
  rewrite Ho. destruct (un_le32 b0 b1 b2 b3 =? 0) eqn:E0; [lia|]. reflexivity.
Qed.

(* a final frame cut short (header incomplete, or a body shorter than a within-limit
   announcement) adds nothing to the output: the responses are those of the complete frames *)
Theorem truncated_final d fs tl :
  forallb frame_wfb fs = true -> (d = false -> forallb in_range fs = true) ->
  incomplete tl -> tail_oversize tl = false ->
  serve_gen d (enc_frames fs ++ tl) = enc_resps (responses fs).
Proof.
  intros Hwf Hin Hinc Hov. unfold serve_gen, responses.
  rewrite serve_from_frames; [|now apply forallb_wf|intros E; now apply forallb_in_range, Hin].
  destruct d.
  - rewrite serve_from_incomplete_fixed by exact Hinc. rewrite Hov. now rewrite app_nil_r.
  - rewrite serve_from_incomplete_v0 by assumption. now rewrite app_nil_r.
Qed.

(* ------------------------------------------------------------------ the constant *)
(* responses are at most a few bytes longer than a frame body: `len as u32` never wraps *)
Lemma max_frame_small : max_frame_len + 16 < two32.
Proof. vm_compute. reflexivity. Qed.

(* ------------------------------------------------------------------ trim_end, split_sp *)
Lemma trim_end_app a b : trim_end b <> [] -> trim_end (a ++ b) = a ++ trim_end b.
Proof.
  intros H. induction a as [|x a IH]; [reflexivity|].
  cbn [app trim_end]. rewrite IH.
  destruct (a ++ trim_end b) eqn:E; [|reflexivity].
  apply app_eq_nil in E. destruct E as [_ E]. contradiction.
Qed.

Lemma trim_end_prefix s : exists w, s = trim_end s ++ w.
Proof.
  induction s as [|c r [w IH]]; [now exists []|].
  cbn [trim_end]. destruct (trim_end r) as [|y l] eqn:E.
  - destruct (is_ws c).
    + now exists (c :: r).
    + exists r. reflexivity.
  - exists w. rewrite IH at 1. reflexivity.
Qed.

Lemma split_sp_app a b : no_space a = true -> split_sp (a ++ ch_sp :: b) = (a, Some b).
Proof.
  induction a as [|x a IH]; intros H.
  - cbn [app split_sp]. now rewrite N.eqb_refl.
  - cbn [no_space forallb] in H. apply andb_true_iff in H. destruct H as [H1 H2].
    cbn [app split_sp]. destruct (x =? ch_sp); [discriminate|]. now rewrite (IH H2).
Qed.

Lemma split_sp_nosp a : no_space a = true -> split_sp a = (a, None).
Proof.
  induction a as [|x a IH]; intros H; [reflexivity|].
  cbn [no_space forallb] in H. apply andb_true_iff in H. destruct H as [H1 H2].
  cbn [split_sp]. destruct (x =? ch_sp); [discriminate|]. now rewrite (IH H2).
Qed.

Lemma split_sp_sound s : forall a r, split_sp s = (a, r) ->
  match r with Some b => s = a ++ ch_sp :: b | None => s = a end.
Proof.
  induction s as [|x s IH]; intros a r H; cbn [split_sp] in H.
  - inversion H; subst. reflexivity.
  - destruct (x =? ch_sp) eqn:E.
    + apply N.eqb_eq in E. inversion H; subst. reflexivity.
    + destruct (split_sp s) as [a' r'] eqn:E'. inversion H; subst.
      specialize (IH a' r eq_refl). destruct r; cbn [app]; now rewrite IH.
Qed.

(* ------------------------------------------------------------------ controller map *)
Lemma ctl_get_set_same c t q : ctl_get (ctl_set c t q) t = Some q.
Proof.
  induction c as [|[k q0] c IH]; cbn [ctl_set ctl_get].
  - now rewrite str_eqb_refl.
  - destruct (str_eqb k t) eqn:E; cbn [ctl_get]; rewrite E; [reflexivity|exact IH].
Qed.

Lemma ctl_get_set_other c t t' q : str_eqb t t' = false ->
  ctl_get (ctl_set c t q) t' = ctl_get c t'.
Proof.
  intros H. induction c as [|[k q0] c IH]; cbn [ctl_set ctl_get].
  - now rewrite H.
  - destruct (str_eqb k t) eqn:E; cbn [ctl_get].
    + apply str_eqb_eq in E. subst k. now rewrite H.
    + destruct (str_eqb k t'); [reflexivity|exact IH].
Qed.

Lemma ctl_queue_set c t t' q :
  ctl_queue (ctl_set c t q) t' = if str_eqb t t' then q else ctl_queue c t'.
Proof.
  unfold ctl_queue. destruct (str_eqb t t') eqn:E.
  - apply str_eqb_eq in E. subst t'. now rewrite ctl_get_set_same.
  - now rewrite ctl_get_set_other.
Qed.

(* ------------------------------------------------------------------ lines *)
Lemma parse_put t p : no_space t = true -> parse_cmd (put_line t p) = FPut t p.
Proof.
  intros H. unfold parse_cmd, put_line. rewrite split_sp_app by reflexivity.
  change (str_eqb s_PUT s_REGISTER) with false. change (str_eqb s_PUT s_PUT) with true. cbv iota.
  now rewrite split_sp_app.
Qed.

Lemma parse_get t : no_space t = true -> parse_cmd (get_line t) = FGet t.
Proof.
  intros H. unfold parse_cmd, get_line. rewrite split_sp_app by reflexivity.
  change (str_eqb s_GET s_REGISTER) with false. change (str_eqb s_GET s_PUT) with false.
  change (str_eqb s_GET s_GET) with true. cbv iota.
  now rewrite split_sp_nosp.
Qed.

Lemma put_line_split t p : put_line t p = (s_PUT ++ ch_sp :: t ++ [ch_sp]) ++ p.
Proof. unfold put_line. rewrite <- !app_assoc. cbn [app]. now rewrite <- app_assoc. Qed.

Lemma get_line_split t : get_line t = (s_GET ++ [ch_sp]) ++ t.
Proof. unfold get_line. now rewrite <- app_assoc. Qed.

Lemma trim_put t p : trim_end p <> [] -> trim_end (put_line t p) = put_line t (trim_end p).
Proof. intros H. rewrite !put_line_split. now apply trim_end_app. Qed.

Lemma trim_get t : t <> [] -> trim_end t = t -> trim_end (get_line t) = get_line t.
Proof. intros H E. rewrite get_line_split. rewrite trim_end_app; rewrite E; [reflexivity|exact H]. Qed.

Lemma scalars_forallb s : forallb is_scalar s = true <-> scalars s.
Proof. unfold scalars. now rewrite forallb_forall, Forall_forall. Qed.

Lemma scalars_app a b : scalars (a ++ b) <-> scalars a /\ scalars b.
Proof. apply Forall_app. Qed.

Lemma scalars_put t p : scalars t -> scalars p -> scalars (put_line t p).
Proof.
  intros Ht Hp. unfold put_line. apply scalars_app. split; [apply scalars_forallb; reflexivity|].
  constructor; [reflexivity|]. apply scalars_app. split; [exact Ht|]. constructor; [reflexivity|exact Hp].
Qed.

Lemma scalars_get t : scalars t -> scalars (get_line t).
Proof.
  intros Ht. unfold get_line. apply scalars_app. split; [apply scalars_forallb; reflexivity|].
  constructor; [reflexivity|exact Ht].
Qed.

Lemma handle_body_text c line : scalars line ->
  handle_body c (utf8_encode line) = exec c (parse_cmd (trim_end line)).
Proof. intros H. unfold handle_body. now rewrite utf8_decode_encode. Qed.

Lemma blen_encode_cons x s : 1 <= blen (utf8_encode (x :: s)).
Proof.
  cbn [utf8_encode]. rewrite blen_app. pose proof (utf8_enc1_length x). unfold blen. lia.
Qed.

Lemma blen_get_le_put t p : blen (utf8_encode (get_line t)) <= blen (utf8_encode (put_line t p)).
Proof.
  rewrite get_line_split, put_line_split. unfold put_line.
  replace (s_PUT ++ ch_sp :: t ++ [ch_sp]) with ((s_PUT ++ [ch_sp]) ++ t ++ [ch_sp]) by (now rewrite <- app_assoc).
  assert (E1 : blen (utf8_encode (s_GET ++ [ch_sp])) = 4) by reflexivity.
  assert (E2 : blen (utf8_encode (s_PUT ++ [ch_sp])) = 4) by reflexivity.
  set (g := s_GET ++ [ch_sp]) in *. set (u := s_PUT ++ [ch_sp]) in *. clearbody g u.
  rewrite !utf8_encode_app, !blen_app. lia.
Qed.

Lemma text_frame_wf line : blen (utf8_encode line) <= max_frame_len -> wf (text_frame line).
Proof.
  intros H. unfold wf, text_frame. cbn [f_len f_body]. split; [|reflexivity].
  pose proof max_frame_small. lia.
Qed.

Lemma respond_text c x line : scalars (x :: line) -> blen (utf8_encode (x :: line)) <= max_frame_len ->
  respond c (text_frame (x :: line)) = exec c (parse_cmd (trim_end (x :: line))).
Proof.
  intros Hs Hl. rewrite respond_good.
  - unfold text_frame. cbn [f_body]. now apply handle_body_text.
  - unfold text_frame, bad_len. cbn [f_len]. pose proof (blen_encode_cons x line). lia.
Qed.

(* ------------------------------------------------------------------ round trip *)
Record rt_side (t p : str) : Prop := {
  rt_st : scalars t; rt_sp : scalars p; rt_nosp : no_space t = true; rt_tne : t <> [];
  rt_ttrim : trim_end t = t; rt_nofail : is_fail t = false; rt_pne : trim_end p <> [];
  rt_fit : blen (utf8_encode (put_line t p)) <= max_frame_len }.

Lemma rt_ok_side t p : c24_rt_ok t p = true -> rt_side t p.
Proof.
  unfold c24_rt_ok. rewrite !andb_true_iff. intros [[[[[[[H1 H2] H3] H4] H5] H6] H7] H8].
  constructor.
  - now apply scalars_forallb.
  - now apply scalars_forallb.
  - exact H3.
  - destruct t; [discriminate|discriminate].
  - now apply str_eqb_eq.
  - now destruct (is_fail t).
  - destruct (trim_end p); [discriminate|discriminate].
  - lia.
Qed.

Theorem roundtrip_state c t p : c24_rt_ok t p = true -> ctl_queue c t = [] ->
  let f1 := text_frame (put_line t p) in
  let f2 := text_frame (get_line t) in
  snd (respond c f1) = FOk /\
  snd (respond (fst (respond c f1)) f2) = FData (trim_end p) /\
  ctl_queue (fst (respond (fst (respond c f1)) f2)) t = [] /\
  wf f1 /\ wf f2 /\ in_range f1 = true /\ in_range f2 = true.
Proof.
  intros Hok Hq. apply rt_ok_side in Hok. destruct Hok.
  pose proof (blen_get_le_put t p) as Hle.
  assert (Hp' : scalars (trim_end p)).
  { destruct (trim_end_prefix p) as [w Hw]. rewrite Hw in rt_sp0. now apply scalars_app in rt_sp0. }
  cbv zeta.
  assert (R1 : respond c (text_frame (put_line t p)) =
               (ctl_set c t [utf8_encode (trim_end p)], FOk)).
  { unfold put_line at 1. cbn [app s_PUT]. rewrite respond_text.
    - change (80 :: 85 :: 84 :: ch_sp :: t ++ ch_sp :: p) with (put_line t p).
      rewrite trim_put, parse_put by assumption. cbn [exec]. now rewrite rt_nofail0, Hq.
    - now apply scalars_put.
    - exact rt_fit0. }
  assert (R2 : respond (ctl_set c t [utf8_encode (trim_end p)]) (text_frame (get_line t)) =
               (ctl_set (ctl_set c t [utf8_encode (trim_end p)]) t [], FData (trim_end p))).
  { unfold get_line at 1. cbn [app s_GET]. rewrite respond_text.
    - change (71 :: 69 :: 84 :: ch_sp :: t) with (get_line t).
      rewrite trim_get, parse_get by assumption. cbn [exec].
      rewrite rt_nofail0, ctl_get_set_same. unfold lossy. now rewrite utf8_decode_encode.
    - now apply scalars_get.
    - change (71 :: 69 :: 84 :: ch_sp :: t) with (get_line t). lia. }
  rewrite R1. cbn [fst snd]. rewrite R2. cbn [fst snd].
  repeat split.
  - rewrite ctl_queue_set. now rewrite str_eqb_refl.
  - now apply text_frame_wf.
  - apply text_frame_wf. lia.
  - unfold in_range, text_frame. cbn [f_len]. lia.
  - unfold in_range, text_frame. cbn [f_len]. lia.
Qed.
