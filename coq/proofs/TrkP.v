(* Proofs about model/Trk.v: the tracker invariant under the contract, the safety core of
   C12 for both variants of set_checkpointed_true, agreement of the variants on
   contract-abiding runs, reflection of the boolean acceptor. *)
From W Require Import model.Base model.Trk.
From Coq Require Import ZArith ZifyBool ZifyN ZifyNat.
Ltac Zify.zify_post_hook ::= Z.div_mod_to_equations.

(* ---------- association lists ---------- *)
Lemma tlookup_app {A} q k (v : A) l :
  tlookup q (l ++ [(k, v)]) =
  match tlookup q l with Some x => Some x | None => if k =? q then Some v else None end.
Proof.
  induction l as [|[k' v'] r IH]; cbn [tlookup app]; [reflexivity|].
  destruct (k' =? q); [reflexivity|exact IH].
Qed.

Lemma tlookup_tset {A} q k (v : A) l :
  tlookup q (tset k v l) =
  if k =? q then match tlookup k l with Some _ => Some v | None => None end else tlookup q l.
Proof.
  induction l as [|[k' v'] r IH]; cbn [tlookup tset].
  - destruct (k =? q); reflexivity.
  - destruct (k' =? k) eqn:E1.
    + apply N.eqb_eq in E1; subst k'. cbn [tlookup]. destruct (k =? q); reflexivity.
    + cbn [tlookup]. rewrite IH. destruct (k' =? q) eqn:E2; [|reflexivity].
      apply N.eqb_eq in E2; subst k'. rewrite N.eqb_sym in E1. now rewrite E1.
Qed.

Lemma tlookup_in {A} k (v : A) l : tlookup k l = Some v -> In (k, v) l.
Proof.
  induction l as [|[k' v'] r IH]; cbn [tlookup]; [discriminate|].
  destruct (k' =? k) eqn:E; intro H.
  - apply N.eqb_eq in E; subst k'. inversion H; subst. now left.
  - right. now apply IH.
Qed.

Lemma countN_app {A} (p : A -> bool) l x :
  countN p (l ++ [x]) = countN p l + (if p x then 1 else 0).
Proof. induction l as [|y r IH]; cbn [countN app]; [lia|]. rewrite IH. lia. Qed.

Lemma countN_tset {A} (p : N * A -> bool) k (v v0 : A) l :
  tlookup k l = Some v0 ->
  countN p (tset k v l) + (if p (k, v0) then 1 else 0) = countN p l + (if p (k, v) then 1 else 0).
Proof.
  induction l as [|[k' v'] r IH]; cbn [tlookup tset countN]; [discriminate|].
  destruct (k' =? k) eqn:E; intro H.
  - apply N.eqb_eq in E; subst k'. inversion H; subst. cbn [countN]. lia.
  - cbn [countN]. specialize (IH H). lia.
Qed.

Lemma countN_ext {A} (p q : A -> bool) l :
  (forall x, In x l -> p x = q x) -> countN p l = countN q l.
Proof.
  induction l as [|y r IH]; intro H; cbn [countN]; [reflexivity|].
  rewrite (H y (or_introl eq_refl)), IH; [reflexivity|]. intros x Hx. apply H. now right.
Qed.

Lemma countN_zero {A} (p : A -> bool) l : countN p l = 0 -> forall x, In x l -> p x = false.
Proof.
  induction l as [|y r IH]; cbn [countN]; intros H x Hx; [destruct Hx|].
  destruct Hx as [->|Hx].
  - destruct (p x); [lia|reflexivity].
  - apply IH; [|exact Hx]. destruct (p y); lia.
Qed.

Lemma countN_pos {A} (p : A -> bool) l x : In x l -> p x = true -> 1 <= countN p l.
Proof.
  induction l as [|y r IH]; cbn [countN]; intros Hx Hp; [destruct Hx|].
  destruct Hx as [->|Hx]; [rewrite Hp; lia|]. specialize (IH Hx Hp). lia.
Qed.

Lemma memN_in x l : memN x l = true <-> In x l.
Proof.
  induction l as [|y r IH]; cbn [memN In]; [split; [discriminate|tauto]|].
  rewrite orb_true_iff, N.eqb_eq, IH. tauto.
Qed.

Lemma in_remove_one x y l : In y (remove_one x l) -> In y l.
Proof.
  induction l as [|z r IH]; cbn [remove_one]; [tauto|].
  destruct (z =? x); cbn [In]; [tauto|]. intros [->|H]; [now left|right; now apply IH].
Qed.

Lemma countN_remove_one (p : N -> bool) x l :
  In x l -> countN p (remove_one x l) + (if p x then 1 else 0) = countN p l.
Proof.
  induction l as [|z r IH]; cbn [remove_one countN]; [intros []|].
  destruct (z =? x) eqn:E.
  - apply N.eqb_eq in E; subst z. intros _. lia.
  - intros [->|H]; [rewrite N.eqb_refl in E; discriminate|]. cbn [countN]. specialize (IH H). lia.
Qed.

(* ---------- file map ---------- *)
Lemma blocks_reg_file t f : t_blocks (reg_file t f) = t_blocks t.
Proof. unfold reg_file. destruct (known t f); reflexivity. Qed.

Lemma fget_reg_file t f f' : fget (reg_file t f) f' = fget t f'.
Proof.
  unfold reg_file. destruct (known t f) eqn:K; [reflexivity|].
  unfold fget, known in *. cbn [t_files]. rewrite tlookup_app.
  destruct (tlookup f' (t_files t)) eqn:L; [reflexivity|].
  destruct (f =? f'); reflexivity.
Qed.

Lemma known_reg_file t f f' : known (reg_file t f) f' = known t f' || (f =? f').
Proof.
  unfold reg_file. destruct (known t f) eqn:K.
  - destruct (f =? f') eqn:E; [|now rewrite orb_false_r].
    apply N.eqb_eq in E; subst f'. now rewrite K.
  - unfold known in *. cbn [t_files]. rewrite tlookup_app.
    destruct (tlookup f' (t_files t)); [reflexivity|]. destruct (f =? f'); reflexivity.
Qed.

Lemma blocks_upd_file t f u : t_blocks (upd_file t f u) = t_blocks t.
Proof. unfold upd_file. destruct (tlookup f (t_files t)); reflexivity. Qed.

Lemma fget_upd_file t f u f' :
  fget (upd_file t f u) f' = if (f =? f') && known t f then u (fget t f) else fget t f'.
Proof.
  unfold upd_file, fget, known. destruct (tlookup f (t_files t)) eqn:L; cbn [t_files].
  - rewrite tlookup_tset, L. destruct (f =? f'); reflexivity.
  - now rewrite andb_false_r.
Qed.

Lemma known_upd_file t f u f' : known (upd_file t f u) f' = known t f'.
Proof.
  unfold upd_file, known. destruct (tlookup f (t_files t)) eqn:L; cbn [t_files]; [|reflexivity].
  rewrite tlookup_tset, L. destruct (f =? f') eqn:E; [|reflexivity].
  apply N.eqb_eq in E; subst f'. now rewrite L.
Qed.

Lemma flush_check_ready t f : flush_check t f = if ready (fget t f) then [f] else [].
Proof. unfold flush_check, fget. destruct (tlookup f (t_files t)); reflexivity. Qed.

Lemma known_fget_nonzero t f : known t f = false -> fget t f = fstate0.
Proof. unfold known, fget. destruct (tlookup f (t_files t)); [discriminate|reflexivity]. Qed.

(* ---------- counting over blocks ---------- *)
Lemma marked_le_regs t f : marked_in t f <= regs_in t f.
Proof.
  unfold marked_in, regs_in. induction (t_blocks t) as [|x r IH]; cbn [countN]; [lia|].
  unfold marked_in_file, in_file in *. destruct (bs_file (snd x) =? f), (bs_flag (snd x)); cbn; lia.
Qed.

Lemma all_flagged l f :
  countN (marked_in_file f) l = countN (in_file f) l ->
  forall x, In x l -> in_file f x = true -> bs_flag (snd x) = true.
Proof.
  induction l as [|y r IH]; cbn [countN]; intros H x Hx Hf; [destruct Hx|].
  assert (Hle : countN (marked_in_file f) r <= countN (in_file f) r).
  { clear. induction r as [|z r IH]; cbn [countN]; [lia|].
    unfold marked_in_file, in_file in *. destruct (bs_file (snd z) =? f), (bs_flag (snd z)); cbn; lia. }
  unfold marked_in_file at 1, in_file at 1 in H. unfold in_file in Hf.
  destruct Hx as [->|Hx].
  - rewrite Hf in H. cbn [andb] in H. destruct (bs_flag (snd x)); [reflexivity|lia].
  - apply IH; [|exact Hx|exact Hf].
    destruct (bs_file (snd y) =? f), (bs_flag (snd y)); cbn [andb] in H; lia.
Qed.

(* ---------- the invariant ---------- *)
Record Inv (t : trk) (g : list N) (h : list kcall) : Prop := {
  I_ckpt : forall f, f_ckpt (fget t f) = marked_in t f;
  I_lock : forall f, f_locked (fget t f) = locked_in t g f;
  I_bnd : forall f, f_total (fget t f) < u16_mod /\ f_locked (fget t f) < u16_mod;
  I_greg : forall id, In id g -> tlookup id (t_blocks t) <> None;
  I_reg : forall id f, In (CRegister id f) h ->
          exists b, tlookup id (t_blocks t) = Some b /\ bs_file b = f;
  I_flag : forall id b, tlookup id (t_blocks t) = Some b -> bs_flag b = true -> In (CMark id) h;
  I_full : forall f, f_full (fget t f) = true -> In (CFull f) h
}.

Lemma inv0 : Inv trk0 [] [].
Proof.
  split; cbn; intros; try tauto; try discriminate.
  - unfold u16_mod. lia.
Qed.

Lemma locked_in_ext t t' g f :
  (forall id, In id g -> tlookup id (t_blocks t') = tlookup id (t_blocks t)) ->
  locked_in t' g f = locked_in t g f.
Proof.
  intro H. unfold locked_in. apply countN_ext. intros x Hx. unfold id_in_file. now rewrite H.
Qed.

Ltac inb := apply in_or_app; left.

(* preservation, one call *)
Lemma step_inv fixed t g h c :
  Inv t g h -> pre fixed t g c = true -> Inv (fst (trk_step fixed t c)) (lk g c) (h ++ [c]).
Proof.
  intros [Ick Ilk Ibnd Igreg Ireg Iflag Ifull] P.
  destruct c as [id f|f|f|id|id|id|f|f]; cbn [trk_step pre lk fst] in *.
  - (* CRegister *)
    destruct (tlookup id (t_blocks t)) eqn:L; [discriminate|].
    split; cbn [t_blocks t_files].
    + intro f'. unfold fget, marked_in in *. cbn [t_files t_blocks]. rewrite countN_app.
      unfold marked_in_file at 2. cbn [snd bs_flag]. rewrite andb_false_r. rewrite (Ick f'). lia.
    + intro f'. change (fget {| t_blocks := t_blocks t ++ [(id, {| bs_file := f; bs_flag := false |})]; t_files := t_files t |} f') with (fget t f').
      rewrite Ilk. symmetry. apply locked_in_ext. intros x Hx. cbn [t_blocks]. rewrite tlookup_app.
      destruct (tlookup x (t_blocks t)) eqn:Lx; [reflexivity|]. exfalso. now apply (Igreg x Hx).
    + exact Ibnd.
    + intros x Hx. cbn [t_blocks]. rewrite tlookup_app. specialize (Igreg x Hx).
      destruct (tlookup x (t_blocks t)); [discriminate|contradiction].
    + intros id' f' Hin. apply in_app_or in Hin. destruct Hin as [Hin|[Heq|[]]].
      * destruct (Ireg _ _ Hin) as [b [Lb Fb]]. exists b. cbn [t_blocks]. rewrite tlookup_app, Lb. auto.
      * inversion Heq; subst. eexists. cbn [t_blocks]. rewrite tlookup_app, L, N.eqb_refl. split; reflexivity.
    + intros id' b. cbn [t_blocks]. rewrite tlookup_app.
      destruct (tlookup id' (t_blocks t)) eqn:L'.
      * intros E Fl. inversion E; subst. inb. eapply Iflag; eauto.
      * destruct (id =? id'); [|discriminate]. intros E Fl. inversion E; subst. discriminate.
    + intros f' Hf. inb. now apply Ifull.
  - (* CRegFile *)
    split.
    + intro f'. rewrite fget_reg_file. unfold marked_in. rewrite blocks_reg_file. apply Ick.
    + intro f'. rewrite fget_reg_file, Ilk. symmetry. apply locked_in_ext. intros. now rewrite blocks_reg_file.
    + intro f'. rewrite fget_reg_file. apply Ibnd.
    + intros x Hx. rewrite blocks_reg_file. now apply Igreg.
    + intros id' f' Hin. apply in_app_or in Hin. destruct Hin as [Hin|[Heq|[]]]; [|discriminate].
      rewrite blocks_reg_file. now apply Ireg.
    + intros id' b. rewrite blocks_reg_file. intros. inb. eapply Iflag; eauto.
    + intros f'. rewrite fget_reg_file. intro. inb. now apply Ifull.
  - (* CAddBlock *)
    split.
    + intro f'. rewrite fget_upd_file, !fget_reg_file. unfold marked_in. rewrite blocks_upd_file, blocks_reg_file. fold (marked_in t f').
      destruct ((f =? f') && known (reg_file t f) f) eqn:E; [|apply Ick].
      apply andb_true_iff in E. destruct E as [E _]. apply N.eqb_eq in E; subst f'. cbn [add_total f_ckpt]. apply Ick.
    + intro f'. rewrite fget_upd_file, !fget_reg_file.
      replace (locked_in (upd_file (reg_file t f) f add_total) g f') with (locked_in t g f')
        by (symmetry; apply locked_in_ext; intros; now rewrite blocks_upd_file, blocks_reg_file).
      destruct ((f =? f') && known (reg_file t f) f) eqn:E; [|apply Ilk].
      apply andb_true_iff in E. destruct E as [E _]. apply N.eqb_eq in E; subst f'. cbn [add_locked f_locked add_total]. apply Ilk.
    + intro f'. rewrite fget_upd_file, !fget_reg_file.
      destruct ((f =? f') && known (reg_file t f) f) eqn:E; [|apply Ibnd].
      apply andb_true_iff in E. destruct E as [E _]. apply N.eqb_eq in E; subst f'.
      cbn [add_total f_total f_locked]. destruct (Ibnd f) as [B1 B2]. split; [|exact B2].
      unfold inc16, u16_mod in *. lia.
    + intros x Hx. rewrite blocks_upd_file, blocks_reg_file. now apply Igreg.
    + intros id' f' Hin. apply in_app_or in Hin. destruct Hin as [Hin|[Heq|[]]]; [|discriminate].
      rewrite blocks_upd_file, blocks_reg_file. now apply Ireg.
    + intros id' b. rewrite blocks_upd_file, blocks_reg_file. intros. inb. eapply Iflag; eauto.
    + intros f'. rewrite fget_upd_file, !fget_reg_file.
      destruct ((f =? f') && known (reg_file t f) f) eqn:E.
      * apply andb_true_iff in E. destruct E as [E _]. apply N.eqb_eq in E; subst f'. cbn [add_total f_full]. intro. inb. now apply Ifull.
      * intro. inb. now apply Ifull.
  - (* CLock *)
    destruct (tlookup id (t_blocks t)) as [b|] eqn:L; [|discriminate].
    apply andb_true_iff in P. destruct P as [K Bd]. cbn [fst].
    split.
    + intro f'. rewrite fget_upd_file. unfold marked_in. rewrite blocks_upd_file. fold (marked_in t f').
      destruct ((bs_file b =? f') && known t (bs_file b)) eqn:E; [|apply Ick].
      apply andb_true_iff in E. destruct E as [E _]. apply N.eqb_eq in E; subst f'. cbn [add_locked f_ckpt]. apply Ick.
    + intro f'. rewrite fget_upd_file, K, andb_true_r.
      unfold locked_in. cbn [countN].
      replace (countN (id_in_file (upd_file t (bs_file b) add_locked) f') g) with (locked_in t g f')
        by (symmetry; apply locked_in_ext; intros; now rewrite blocks_upd_file).
      unfold id_in_file at 1. rewrite blocks_upd_file, L.
      destruct (bs_file b =? f') eqn:E.
      * apply N.eqb_eq in E; subst f'. cbn [add_locked f_locked]. rewrite <- Ilk.
        unfold inc16, u16_mod in *. lia.
      * rewrite Ilk. lia.
    + intro f'. rewrite fget_upd_file.
      destruct ((bs_file b =? f') && known t (bs_file b)) eqn:E; [|apply Ibnd].
      apply andb_true_iff in E. destruct E as [E _]. apply N.eqb_eq in E; subst f'.
      cbn [add_locked f_total f_locked]. destruct (Ibnd (bs_file b)) as [B1 B2]. split; [exact B1|].
      unfold inc16, u16_mod in *. lia.
    + intros x [<-|Hx]; rewrite blocks_upd_file; [rewrite L; discriminate|now apply Igreg].
    + intros id' f' Hin. apply in_app_or in Hin. destruct Hin as [Hin|[Heq|[]]]; [|discriminate].
      rewrite blocks_upd_file. now apply Ireg.
    + intros id' b'. rewrite blocks_upd_file. intros. inb. eapply Iflag; eauto.
    + intros f'. rewrite fget_upd_file.
      destruct ((bs_file b =? f') && known t (bs_file b)) eqn:E.
      * apply andb_true_iff in E. destruct E as [E _]. apply N.eqb_eq in E; subst f'. cbn [add_locked f_full]. intro. inb. now apply Ifull.
      * intro. inb. now apply Ifull.
  - (* CUnlock *)
    destruct (tlookup id (t_blocks t)) as [b|] eqn:L; [|discriminate].
    apply andb_true_iff in P. destruct P as [M _]. apply memN_in in M. cbn [fst].
    assert (Hpos : 1 <= locked_in t g (bs_file b)).
    { unfold locked_in. eapply countN_pos; [exact M|]. unfold id_in_file. rewrite L. apply N.eqb_refl. }
    assert (K : known t (bs_file b) = true).
    { destruct (known t (bs_file b)) eqn:K; [reflexivity|]. exfalso.
      pose proof (Ilk (bs_file b)) as E. rewrite (known_fget_nonzero _ _ K) in E. cbn in E. lia. }
    split.
    + intro f'. rewrite fget_upd_file. unfold marked_in. rewrite blocks_upd_file. fold (marked_in t f').
      destruct ((bs_file b =? f') && known t (bs_file b)) eqn:E; [|apply Ick].
      apply andb_true_iff in E. destruct E as [E _]. apply N.eqb_eq in E; subst f'. cbn [sub_locked f_ckpt]. apply Ick.
    + intro f'. rewrite fget_upd_file, K, andb_true_r.
      replace (locked_in (upd_file t (bs_file b) sub_locked) (remove_one id g) f')
        with (locked_in t (remove_one id g) f')
        by (symmetry; apply locked_in_ext; intros; now rewrite blocks_upd_file).
      pose proof (countN_remove_one (id_in_file t f') id g M) as C.
      unfold id_in_file at 2 in C. rewrite L in C. fold (locked_in t (remove_one id g) f') in C. fold (locked_in t g f') in C.
      destruct (bs_file b =? f') eqn:E.
      * apply N.eqb_eq in E; subst f'. cbn [sub_locked f_locked]. rewrite Ilk.
        destruct (Ibnd (bs_file b)) as [_ B2]. rewrite Ilk in B2. unfold dec16, u16_mod in *. lia.
      * rewrite Ilk. lia.
    + intro f'. rewrite fget_upd_file.
      destruct ((bs_file b =? f') && known t (bs_file b)) eqn:E; [|apply Ibnd].
      apply andb_true_iff in E. destruct E as [E _]. apply N.eqb_eq in E; subst f'.
      cbn [sub_locked f_total f_locked]. destruct (Ibnd (bs_file b)) as [B1 B2]. split; [exact B1|].
      unfold dec16, u16_mod in *. lia.
    + intros x Hx. rewrite blocks_upd_file. apply Igreg. eapply in_remove_one; eauto.
    + intros id' f' Hin. apply in_app_or in Hin. destruct Hin as [Hin|[Heq|[]]]; [|discriminate].
      rewrite blocks_upd_file. now apply Ireg.
    + intros id' b'. rewrite blocks_upd_file. intros. inb. eapply Iflag; eauto.
    + intros f'. rewrite fget_upd_file.
      destruct ((bs_file b =? f') && known t (bs_file b)) eqn:E.
      * apply andb_true_iff in E. destruct E as [E _]. apply N.eqb_eq in E; subst f'. cbn [sub_locked f_full]. intro. inb. now apply Ifull.
      * intro. inb. now apply Ifull.
  - (* CMark *)
    destruct (tlookup id (t_blocks t)) as [b|] eqn:L.
    2:{ cbn [fst]. split; intros; try (inb); eauto.
        apply in_app_or in H. destruct H as [H|[H|[]]]; [eauto|discriminate]. }
    destruct (bs_flag b) eqn:Fl.
    + (* repeated mark: only the idempotent variant is allowed here, and it does nothing *)
      subst fixed. cbn [andb fst].
      split; intros; try (inb); eauto.
      apply in_app_or in H. destruct H as [H|[H|[]]]; [eauto|discriminate].
    + rewrite andb_false_r. cbn [fst].
      apply andb_true_iff in P. destruct P as [K Pd].
      assert (Hlk : forall x, tlookup x (t_blocks (upd_file (set_flag t id b) (bs_file b) add_ckpt)) =
                    if id =? x then Some {| bs_file := bs_file b; bs_flag := true |} else tlookup x (t_blocks t)).
      { intro x. rewrite blocks_upd_file. unfold set_flag. cbn [t_blocks]. rewrite tlookup_tset, L. reflexivity. }
      assert (Kf : known (set_flag t id b) (bs_file b) = true) by exact K.
      assert (Hcnt : forall f', marked_in (upd_file (set_flag t id b) (bs_file b) add_ckpt) f' =
                     marked_in t f' + (if bs_file b =? f' then 1 else 0)).
      { intro f'. unfold marked_in. rewrite blocks_upd_file. unfold set_flag. cbn [t_blocks].
        pose proof (countN_tset (marked_in_file f') id {| bs_file := bs_file b; bs_flag := true |} b (t_blocks t) L) as C.
        change (marked_in_file f' (id, b)) with ((bs_file b =? f') && bs_flag b) in C.
        change (marked_in_file f' (id, {| bs_file := bs_file b; bs_flag := true |})) with ((bs_file b =? f') && true) in C.
        rewrite Fl in C. rewrite andb_false_r, andb_true_r in C. lia. }
      assert (Hregs : regs_in t (bs_file b) <= f_total (fget t (bs_file b))) by (unfold paired in Pd; lia).
      assert (Hone : marked_in t (bs_file b) + 1 <= regs_in t (bs_file b)).
      { unfold marked_in, regs_in. clear - L Fl. revert L.
        induction (t_blocks t) as [|[k v] r IH]; cbn [tlookup countN]; [discriminate|].
        destruct (k =? id) eqn:E; intro H.
        - inversion H; subst v. unfold marked_in_file at 1, in_file at 1. cbn [snd]. rewrite Fl, N.eqb_refl. cbn [andb].
          assert (countN (marked_in_file (bs_file b)) r <= countN (in_file (bs_file b)) r).
          { clear. induction r as [|z r IH]; cbn [countN]; [lia|].
            unfold marked_in_file, in_file in *. destruct (bs_file (snd z) =? bs_file b), (bs_flag (snd z)); cbn; lia. }
          lia.
        - specialize (IH H). unfold marked_in_file at 1, in_file at 1.
          destruct (bs_file (snd (k, v)) =? bs_file b), (bs_flag (snd (k, v))); cbn [andb]; lia. }
      split.
      * intro f'. rewrite fget_upd_file, Kf, andb_true_r, Hcnt.
        change (fget (set_flag t id b)) with (fget t).
        destruct (bs_file b =? f') eqn:E.
        -- apply N.eqb_eq in E; subst f'. cbn [add_ckpt f_ckpt]. rewrite Ick.
           destruct (Ibnd (bs_file b)) as [B1 _]. unfold inc16, u16_mod in *. lia.
        -- rewrite Ick. lia.
      * intro f'. rewrite fget_upd_file, Kf, andb_true_r.
        change (fget (set_flag t id b)) with (fget t).
        replace (locked_in (upd_file (set_flag t id b) (bs_file b) add_ckpt) g f') with (locked_in t g f').
        2:{ unfold locked_in. apply countN_ext. intros x _. unfold id_in_file. rewrite Hlk.
            destruct (id =? x) eqn:E; [|reflexivity]. apply N.eqb_eq in E; subst x. now rewrite L. }
        destruct (bs_file b =? f') eqn:E; [|apply Ilk].
        apply N.eqb_eq in E; subst f'. cbn [add_ckpt f_locked]. apply Ilk.
      * intro f'. rewrite fget_upd_file, Kf, andb_true_r.
        change (fget (set_flag t id b)) with (fget t).
        destruct (bs_file b =? f') eqn:E; [|apply Ibnd].
        apply N.eqb_eq in E; subst f'. cbn [add_ckpt f_total f_locked]. apply Ibnd.
      * intros x Hx. rewrite Hlk. destruct (id =? x); [discriminate|now apply Igreg].
      * intros id' f' Hin. apply in_app_or in Hin. destruct Hin as [Hin|[Heq|[]]]; [|discriminate].
        rewrite Hlk. destruct (Ireg _ _ Hin) as [b' [Lb Fb]].
        destruct (id =? id') eqn:E; [|eauto].
        apply N.eqb_eq in E; subst id'. rewrite L in Lb. inversion Lb; subst b'. eexists; split; [reflexivity|exact Fb].
      * intros id' b'. rewrite Hlk. destruct (id =? id') eqn:E.
        -- apply N.eqb_eq in E; subst id'. intros _ _. apply in_or_app. right. now left.
        -- intros. inb. eapply Iflag; eauto.
      * intros f'. rewrite fget_upd_file, Kf, andb_true_r.
        change (fget (set_flag t id b)) with (fget t).
        destruct (bs_file b =? f') eqn:E.
        -- apply N.eqb_eq in E; subst f'. cbn [add_ckpt f_full]. intro. inb. now apply Ifull.
        -- intro. inb. now apply Ifull.
  - (* CFull *)
    split.
    + intro f'. rewrite fget_upd_file, !fget_reg_file. unfold marked_in. rewrite blocks_upd_file, blocks_reg_file. fold (marked_in t f').
      destruct ((f =? f') && known (reg_file t f) f) eqn:E; [|apply Ick].
      apply andb_true_iff in E. destruct E as [E _]. apply N.eqb_eq in E; subst f'. cbn [set_full f_ckpt]. apply Ick.
    + intro f'. rewrite fget_upd_file, !fget_reg_file.
      replace (locked_in (upd_file (reg_file t f) f set_full) g f') with (locked_in t g f')
        by (symmetry; apply locked_in_ext; intros; now rewrite blocks_upd_file, blocks_reg_file).
      destruct ((f =? f') && known (reg_file t f) f) eqn:E; [|apply Ilk].
      apply andb_true_iff in E. destruct E as [E _]. apply N.eqb_eq in E; subst f'. cbn [set_full f_locked]. apply Ilk.
    + intro f'. rewrite fget_upd_file, !fget_reg_file.
      destruct ((f =? f') && known (reg_file t f) f) eqn:E; [|apply Ibnd].
      apply andb_true_iff in E. destruct E as [E _]. apply N.eqb_eq in E; subst f'. cbn [set_full f_total f_locked]. apply Ibnd.
    + intros x Hx. rewrite blocks_upd_file, blocks_reg_file. now apply Igreg.
    + intros id' f' Hin. apply in_app_or in Hin. destruct Hin as [Hin|[Heq|[]]]; [|discriminate].
      rewrite blocks_upd_file, blocks_reg_file. now apply Ireg.
    + intros id' b. rewrite blocks_upd_file, blocks_reg_file. intros. inb. eapply Iflag; eauto.
    + intros f'. rewrite fget_upd_file, !fget_reg_file.
      destruct ((f =? f') && known (reg_file t f) f) eqn:E.
      * apply andb_true_iff in E. destruct E as [E _]. apply N.eqb_eq in E; subst f'. intros _. apply in_or_app. right. now left.
      * intro. inb. now apply Ifull.
  - (* CFlush *)
    split; intros; try (inb); eauto.
    apply in_app_or in H. destruct H as [H|[H|[]]]; [eauto|discriminate].
Qed.

(* ---------- along a call sequence ---------- *)
Lemma st_snoc fixed h c : trk_st fixed (h ++ [c]) = fst (trk_step fixed (trk_st fixed h) c).
Proof. unfold trk_st. now rewrite fold_left_app. Qed.

Lemma locked_ids_snoc h c : locked_ids (h ++ [c]) = lk (locked_ids h) c.
Proof. unfold locked_ids. now rewrite fold_left_app. Qed.

Definition st_from (fixed : bool) (t : trk) (p : list kcall) : trk :=
  fold_left (fun t c => fst (trk_step fixed t c)) p t.
Definition lk_from (g : list N) (p : list kcall) : list N := fold_left lk p g.

Lemma contract_from_split fixed : forall p t g c rest,
  contract_from fixed t g (p ++ c :: rest) = true ->
  contract_from fixed t g p = true /\ pre fixed (st_from fixed t p) (lk_from g p) c = true.
Proof.
  induction p as [|x p IH]; intros t g c rest H; cbn [app contract_from st_from lk_from fold_left] in *.
  - apply andb_true_iff in H. tauto.
  - apply andb_true_iff in H. destruct H as [H1 H2]. destruct (IH _ _ _ _ H2) as [A B].
    rewrite H1, A. split; [reflexivity|exact B].
Qed.

Lemma contract_split fixed p c rest :
  contract fixed (p ++ c :: rest) ->
  contract fixed p /\ pre fixed (trk_st fixed p) (locked_ids p) c = true.
Proof. intro H. exact (contract_from_split fixed p trk0 [] c rest H). Qed.

Lemma inv_of_contract fixed h : contract fixed h -> Inv (trk_st fixed h) (locked_ids h) h.
Proof.
  induction h as [|c h IH] using rev_ind; intro C.
  - exact inv0.
  - destruct (contract_split fixed h c [] C) as [Ch P].
    rewrite st_snoc, locked_ids_snoc. apply step_inv; [now apply IH|exact P].
Qed.

(* what a ready file means under the invariant *)
Lemma ready_safe t g h f :
  Inv t g h -> paired t f = true -> ready (fget t f) = true ->
  In (CFull f) h /\ forall id, In (CRegister id f) h -> In (CMark id) h /\ ~ In id g.
Proof.
  intros [Ick Ilk Ibnd Igreg Ireg Iflag Ifull] Pd R.
  unfold ready in R. repeat (apply andb_true_iff in R; destruct R as [R ?]).
  split; [now apply Ifull|]. intros id Hreg.
  destruct (Ireg _ _ Hreg) as [b [Lb Fb]].
  assert (Heq : marked_in t f = regs_in t f).
  { pose proof (marked_le_regs t f). pose proof (Ick f). unfold paired in Pd. lia. }
  assert (Fl : bs_flag b = true).
  { apply (all_flagged (t_blocks t) f Heq (id, b)); [now apply tlookup_in|].
    unfold in_file. cbn [snd]. subst f. apply N.eqb_refl. }
  split; [eapply Iflag; eauto|].
  intro Hin. assert (Z : locked_in t g f = 0) by (rewrite <- Ilk; lia).
  pose proof (countN_zero _ _ Z id Hin) as Hf. unfold id_in_file in Hf. rewrite Lb in Hf.
  subst f. rewrite N.eqb_refl in Hf. discriminate.
Qed.

Lemma regs_in_set_flag t id b f : tlookup id (t_blocks t) = Some b ->
  regs_in (set_flag t id b) f = regs_in t f.
Proof.
  intro L. unfold regs_in, set_flag. cbn [t_blocks].
  pose proof (countN_tset (in_file f) id {| bs_file := bs_file b; bs_flag := true |} b (t_blocks t) L) as C.
  change (in_file f (id, b)) with (bs_file b =? f) in C.
  change (in_file f (id, {| bs_file := bs_file b; bs_flag := true |})) with (bs_file b =? f) in C. lia.
Qed.

Lemma total_upd_file t f u f' : (forall fs, f_total (u fs) = f_total fs) ->
  f_total (fget (upd_file t f u) f') = f_total (fget t f').
Proof.
  intro H. rewrite fget_upd_file. destruct ((f =? f') && known t f) eqn:E; [|reflexivity].
  apply andb_true_iff in E. destruct E as [E _]. apply N.eqb_eq in E; subst f'. apply H.
Qed.

Lemma step_req fixed t g c f :
  pre fixed t g c = true -> In f (snd (trk_step fixed t c)) ->
  ready (fget (fst (trk_step fixed t c)) f) = true /\ paired (fst (trk_step fixed t c)) f = true.
Proof.
  intros P Hin.
  destruct c as [id f0|f0|f0|id|id|id|f0|f0]; cbn [trk_step pre snd fst] in *; try (destruct Hin; fail).
  - destruct (tlookup id (t_blocks t)); destruct Hin.
  - destruct (tlookup id (t_blocks t)) as [b|] eqn:L; [|destruct Hin]. cbn [snd fst] in *.
    apply andb_true_iff in P. destruct P as [_ Pd].
    rewrite flush_check_ready in Hin.
    destruct (ready (fget (upd_file t (bs_file b) sub_locked) (bs_file b))) eqn:R; [|destruct Hin].
    destruct Hin as [<-|[]]. split; [exact R|].
    unfold paired, regs_in in *. rewrite blocks_upd_file, total_upd_file; [exact Pd|reflexivity].
  - destruct (tlookup id (t_blocks t)) as [b|] eqn:L; [|destruct Hin].
    destruct (fixed && bs_flag b) eqn:FB; [destruct Hin|]. cbn [snd fst] in *.
    destruct (bs_flag b) eqn:Fl; [rewrite andb_true_r in FB; subst fixed; discriminate|].
    apply andb_true_iff in P. destruct P as [_ Pd].
    rewrite flush_check_ready in Hin.
    destruct (ready (fget (upd_file (set_flag t id b) (bs_file b) add_ckpt) (bs_file b))) eqn:R; [|destruct Hin].
    destruct Hin as [<-|[]]. split; [exact R|].
    unfold paired in *. unfold regs_in at 1. rewrite blocks_upd_file. fold (regs_in (set_flag t id b) (bs_file b)).
    rewrite regs_in_set_flag by exact L. rewrite total_upd_file; [exact Pd|reflexivity].
  - rewrite flush_check_ready in Hin.
    destruct (ready (fget (upd_file (reg_file t f0) f0 set_full) f0)) eqn:R; [|destruct Hin].
    destruct Hin as [<-|[]]. split; [exact R|].
    unfold paired, regs_in in *. rewrite blocks_upd_file, blocks_reg_file, total_upd_file, fget_reg_file; [exact P|reflexivity].
  - rewrite flush_check_ready in Hin. destruct (ready (fget t f0)) eqn:R; [|destruct Hin].
    destruct Hin as [<-|[]]. split; [exact R|exact P].
Qed.

(* the history-level reading of "safe to delete" *)
Definition safe_hist (h : list kcall) (f : N) : Prop :=
  In (CFull f) h /\
  forall id, In (CRegister id f) h -> In (CMark id) h /\ ~ In id (locked_ids h).

Theorem trk_safety fixed cs : contract fixed cs ->
  forall p c rest, cs = p ++ c :: rest ->
  forall f, In f (snd (trk_step fixed (trk_st fixed p) c)) -> safe_hist (p ++ [c]) f.
Proof.
  intros C p c rest -> f Hin.
  destruct (contract_split fixed p c rest C) as [Cp P].
  pose proof (inv_of_contract fixed p Cp) as I0.
  pose proof (step_inv fixed _ _ _ c I0 P) as I1.
  destruct (step_req fixed _ _ c f P Hin) as [R Pd].
  unfold safe_hist. rewrite locked_ids_snoc. eapply ready_safe; eauto.
Qed.

(* every request of a run is the output of one step *)
Lemma run_from_app fixed : forall p t r,
  trk_run_from fixed t (p ++ r) =
  (fst (trk_run_from fixed (st_from fixed t p) r), snd (trk_run_from fixed t p) ++ snd (trk_run_from fixed (st_from fixed t p) r)).
Proof.
  induction p as [|c p IH]; intros t r; cbn [app trk_run_from st_from fold_left].
  - destruct (trk_run_from fixed t r); reflexivity.
  - destruct (trk_step fixed t c) as [t1 o1] eqn:S. cbn [fst].
    specialize (IH t1 r). unfold st_from in IH. rewrite IH.
    destruct (trk_run_from fixed t1 p) as [t2 o2]. cbn [fst snd]. now rewrite app_assoc.
Qed.

Lemma requests_split_from fixed : forall cs t f, In f (snd (trk_run_from fixed t cs)) ->
  exists p c rest, cs = p ++ c :: rest /\ In f (snd (trk_step fixed (st_from fixed t p) c)).
Proof.
  induction cs as [|c cs IH]; intros t f Hin; cbn [trk_run_from] in Hin; [destruct Hin|].
  destruct (trk_step fixed t c) as [t1 o1] eqn:S. destruct (trk_run_from fixed t1 cs) as [t2 o2] eqn:R.
  cbn [snd] in Hin. apply in_app_or in Hin. destruct Hin as [Hin|Hin].
  - exists [], c, cs. split; [reflexivity|]. cbn [st_from fold_left]. now rewrite S.
  - assert (H2 : In f (snd (trk_run_from fixed t1 cs))) by now rewrite R.
    destruct (IH _ _ H2) as [p [c' [rest [-> H]]]].
    exists (c :: p), c', rest. split; [reflexivity|]. cbn [st_from fold_left]. now rewrite S.
Qed.

Lemma requests_split fixed cs f : In f (trk_requests fixed cs) ->
  exists p c rest, cs = p ++ c :: rest /\ In f (snd (trk_step fixed (trk_st fixed p) c)).
Proof. apply requests_split_from. Qed.

Lemma safe_hist_mono p c rest f : safe_hist (p ++ [c]) f ->
  In (CFull f) (p ++ c :: rest) /\
  forall id, In (CRegister id f) (p ++ [c]) -> In (CMark id) (p ++ c :: rest).
Proof.
  intros [F H]. replace (p ++ c :: rest) with ((p ++ [c]) ++ rest) by now rewrite <- app_assoc.
  split; [apply in_or_app; now left|]. intros id Hr. apply in_or_app. left. now apply H.
Qed.

(* the contract clause about the engine, as a hypothesis: marked only when consumed *)
Theorem trk_deleted_file_consumed fixed cs (consumed : N -> Prop) :
  contract fixed cs -> (forall id, In (CMark id) cs -> consumed id) ->
  forall p c rest, cs = p ++ c :: rest ->
  forall f, In f (snd (trk_step fixed (trk_st fixed p) c)) ->
  forall id, In (CRegister id f) (p ++ [c]) -> consumed id /\ ~ In id (locked_ids (p ++ [c])).
Proof.
  intros C Hc p c rest E f Hin id Hr.
  destruct (trk_safety fixed cs C p c rest E f Hin) as [_ H]. destruct (H id Hr) as [M L].
  split; [|exact L]. apply Hc. subst cs.
  replace (p ++ c :: rest) with ((p ++ [c]) ++ rest) by now rewrite <- app_assoc.
  apply in_or_app. now left.
Qed.

(* ---------- the two variants agree on runs that mark each block at most once ---------- *)
Lemma step_variants t g c : pre false t g c = true -> trk_step false t c = trk_step true t c.
Proof.
  destruct c; cbn [trk_step pre]; try reflexivity.
  destruct (tlookup id (t_blocks t)) as [b|]; [|reflexivity].
  destruct (bs_flag b); [discriminate|reflexivity].
Qed.

Lemma pre_mono t g c : pre false t g c = true -> pre true t g c = true.
Proof.
  destruct c; cbn [pre]; try tauto.
  destruct (tlookup id (t_blocks t)) as [b|]; [|tauto]. destruct (bs_flag b); [discriminate|tauto].
Qed.

Lemma variants_agree_from : forall cs t g, contract_from false t g cs = true ->
  trk_run_from false t cs = trk_run_from true t cs /\ contract_from true t g cs = true.
Proof.
  induction cs as [|c cs IH]; intros t g H; cbn [contract_from trk_run_from] in *; [split; reflexivity|].
  apply andb_true_iff in H. destruct H as [P H].
  rewrite <- (step_variants t g c P). rewrite (pre_mono _ _ _ P).
  destruct (trk_step false t c) as [t1 o1]. cbn [fst] in *.
  destruct (IH _ _ H) as [A B]. rewrite A, B. split; reflexivity.
Qed.

Theorem variants_agree cs : contract false cs -> trk_run false cs = trk_run true cs /\ contract true cs.
Proof. apply variants_agree_from. Qed.

(* ---------- the boolean acceptor ---------- *)
Lemma trace_safe_of_contract fixed : forall cs t g h,
  Inv t g h -> contract_from fixed t g cs = true -> trace_safe_from fixed t g cs = true.
Proof.
  induction cs as [|c cs IH]; intros t g h I C; cbn [contract_from trace_safe_from] in *; [reflexivity|].
  apply andb_true_iff in C. destruct C as [P C].
  pose proof (step_inv fixed t g h c I P) as I1.
  destruct (trk_step fixed t c) as [t1 o] eqn:S. cbn [fst] in *.
  apply andb_true_iff. split; [|eapply IH; eauto].
  apply forallb_forall. intros f Hf.
  assert (Hin : In f (snd (trk_step fixed t c))) by now rewrite S.
  destruct (step_req fixed t g c f P Hin) as [R Pd]. rewrite S in R, Pd. cbn [fst] in R, Pd.
  destruct I1 as [Ick Ilk Ibnd _ _ _ _].
  unfold ready in R. repeat (apply andb_true_iff in R; destruct R as [R ?]).
  unfold file_safe. pose proof (marked_le_regs t1 f). pose proof (Ick f). pose proof (Ilk f).
  unfold paired in Pd. rewrite R. cbn [andb]. apply andb_true_iff. split; lia.
Qed.

Theorem contract_accepted fixed cs : contract fixed cs -> c12_trace_ok fixed cs = true.
Proof. intro C. exact (trace_safe_of_contract fixed cs trk0 [] [] inv0 C). Qed.

Lemma trace_ok_split fixed : forall p t g c rest,
  trace_safe_from fixed t g (p ++ c :: rest) = true ->
  forall f, In f (snd (trk_step fixed (st_from fixed t p) c)) ->
  file_safe (fst (trk_step fixed (st_from fixed t p) c)) (lk (lk_from g p) c) f = true.
Proof.
  induction p as [|x p IH]; intros t g c rest H f Hin; cbn [app trace_safe_from st_from lk_from fold_left] in *.
  - destruct (trk_step fixed t c) as [t1 o]. cbn [fst snd] in *.
    apply andb_true_iff in H. destruct H as [H _]. rewrite forallb_forall in H. now apply H.
  - destruct (trk_step fixed t x) as [t1 o] eqn:S. cbn [fst].
    apply andb_true_iff in H. destruct H as [_ H]. eapply IH; eauto.
Qed.

(* the acceptor means: at every request, in the model state reached, the file is full, all
   its registered blocks are flagged and none of them is locked *)
Theorem trace_ok_means fixed cs : c12_trace_ok fixed cs = true ->
  forall p c rest, cs = p ++ c :: rest ->
  forall f, In f (snd (trk_step fixed (trk_st fixed p) c)) ->
  file_safe (trk_st fixed (p ++ [c])) (locked_ids (p ++ [c])) f = true.
Proof.
  intros H p c rest -> f Hin. rewrite st_snoc, locked_ids_snoc.
  exact (trace_ok_split fixed p trk0 [] c rest H f Hin).
Qed.

(* ---------- the contract of the code as it is = remaining contract + "no block marked twice" ---------- *)
Lemma contract_of_no_repeat_from : forall cs t g,
  contract_from true t g cs = true -> marks_repeated_from t cs = false ->
  contract_from false t g cs = true.
Proof.
  induction cs as [|c cs IH]; intros t g C M; cbn [contract_from marks_repeated_from] in *; [reflexivity|].
  apply andb_true_iff in C. destruct C as [P C]. apply orb_false_iff in M. destruct M as [M1 M].
  assert (P0 : pre false t g c = true).
  { destruct c; cbn [pre] in *; try exact P.
    destruct (tlookup id (t_blocks t)) as [b|]; [|reflexivity]. rewrite M1 in *. exact P. }
  rewrite P0. cbn [andb]. apply IH; [|exact M].
  now rewrite (step_variants t g c P0).
Qed.

Lemma contract_of_no_repeat cs :
  contract true cs -> marks_repeated cs = false -> contract false cs.
Proof. apply contract_of_no_repeat_from. Qed.

Lemma no_repeat_of_contract_from : forall cs t g,
  contract_from false t g cs = true -> marks_repeated_from t cs = false.
Proof.
  induction cs as [|c cs IH]; intros t g C; cbn [contract_from marks_repeated_from] in *; [reflexivity|].
  apply andb_true_iff in C. destruct C as [P C]. apply orb_false_iff. split; [|eapply IH; eauto].
  destruct c; cbn [pre] in *; try reflexivity.
  destruct (tlookup id (t_blocks t)) as [b|]; [|reflexivity]. destruct (bs_flag b); [discriminate|reflexivity].
Qed.

(* ---------- witnesses ---------- *)
Lemma refuted_repeated_mark : exists cs f id,
  contract true cs /\ marks_repeated cs = true /\
  In f (trk_requests false cs) /\ In (CRegister id f) cs /\ ~ In (CMark id) cs /\
  trk_requests true cs = [].
Proof.
  exists c12_witness_repeated_mark, 7, 2.
  split; [vm_compute; reflexivity|]. split; [vm_compute; reflexivity|].
  split; [vm_compute; now left|]. split; [cbn; tauto|].
  split; [|vm_compute; reflexivity].
  cbn. intuition discriminate.
Qed.


Lemma refuted_u16_wrap : exists cs f id,
  reregistered cs = false /\ marks_repeated cs = false /\
  In f (trk_requests false cs) /\ In (CRegister id f) cs /\ ~ In (CMark id) cs.
Proof.
  exists c12_witness_wrap, 7, 2.
  split; [vm_compute; reflexivity|]. split; [vm_compute; reflexivity|].
  split; [vm_compute; now left|]. split; [unfold c12_witness_wrap; apply in_or_app; left; cbn; tauto|].
  unfold c12_witness_wrap. intro H. apply in_app_or in H. destruct H as [H|H].
  - cbn in H. intuition discriminate.
  - apply in_app_or in H. destruct H as [H|H].
    + apply repeat_spec in H. discriminate.
    + cbn in H. intuition discriminate.
Qed.

