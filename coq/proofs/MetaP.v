(* Proofs about model/Meta.v (C18): the segment-history invariant, immutability of sealed
   segments, absence of panics outside the sum-overflow class. *)
From W Require Import model.Base model.Utf8 model.Map model.Bincode model.Meta proofs.MapP.
From Coq Require Import ZArith ZifyBool ZifyN ZifyNat.

(* ---------- lists whose keys are a range of consecutive numbers ---------- *)
Lemma is_range_app from a b :
  is_range from (a ++ b) = is_range from a && is_range (from + N.of_nat (length a)) b.
Proof.
  revert from. induction a as [|x a IH]; intros from; cbn [app is_range length].
  - now rewrite N.add_0_r.
  - rewrite IH. replace (from + 1 + N.of_nat (length a)) with (from + N.of_nat (S (length a))) by lia.
    now rewrite andb_assoc.
Qed.

Lemma is_range_bounds from l k :
  is_range from l = true -> In k l -> from <= k < from + N.of_nat (length l).
Proof.
  revert from. induction l as [|x l IH]; intros from H Hin; [destruct Hin|].
  cbn [is_range] in H. apply andb_prop in H. destruct H as [H1 H2]. cbn [length].
  destruct Hin as [Hin|Hin].
  - subst. lia.
  - specialize (IH _ H2 Hin). lia.
Qed.

Lemma is_range_in from l k :
  is_range from l = true -> from <= k < from + N.of_nat (length l) -> In k l.
Proof.
  revert from. induction l as [|x l IH]; intros from H Hb; cbn [length] in Hb; [lia|].
  cbn [is_range] in H. apply andb_prop in H. destruct H as [H1 H2].
  destruct (N.eq_dec k from) as [E|E].
  - left. lia.
  - right. apply (IH (from + 1)); [exact H2|lia].
Qed.

Lemma keys_length {K V} (l : list (K * V)) : length (keys l) = length l.
Proof. unfold keys. apply map_length. Qed.

Lemma keys_app {K V} (a b : list (K * V)) : keys (a ++ b) = keys a ++ keys b.
Proof. unfold keys. apply map_app. Qed.

Lemma range_sorted {V} from (l : list (N * V)) : is_range from (keys l) = true -> sortedb N.compare l = true.
Proof.
  revert from. induction l as [|[k v] r IH]; intros from H; [reflexivity|].
  cbn [keys map is_range fst] in H. apply andb_prop in H. destruct H as [H1 H2].
  destruct r as [|[k' v'] r]; [reflexivity|].
  change (match N.compare k k' with Lt => sortedb N.compare ((k', v') :: r) | _ => false end = true).
  pose proof H2 as H3. cbn [keys map is_range fst] in H3. apply andb_prop in H3. destruct H3 as [H3 _].
  assert (E : N.compare k k' = Lt) by (apply N.compare_lt_iff; lia).
  rewrite E. apply (IH (from + 1)). exact H2.
Qed.

Lemma in_keys {K V} (k : K) (v : V) l : In (k, v) l -> In k (keys l).
Proof. intros H. unfold keys. apply in_map_iff. now exists (k, v). Qed.

Lemma lookup_some_in_keys {V} k (v : V) l : lookup N.compare k l = Some v -> In k (keys l).
Proof. intros H. eapply in_keys. apply (lookup_In N_cmp_ok). exact H. Qed.

Lemma in_keys_lookup {V} from k (l : list (N * V)) :
  is_range from (keys l) = true -> In k (keys l) -> exists v, lookup N.compare k l = Some v.
Proof.
  intros Hr Hin. unfold keys in Hin. apply in_map_iff in Hin. destruct Hin as [[k0 v] [E Hin]]. cbn in E. subst k0.
  exists v. apply (In_lookup N_cmp_ok); [now apply (range_sorted from)|exact Hin].
Qed.

(* appending the next key *)
Lemma ins_range_next {V} from k (v : V) l :
  is_range from (keys l) = true -> k = from + N.of_nat (length l) -> ins N.compare k v l = l ++ [(k, v)].
Proof.
  intros Hr Hk. apply (ins_last N_cmp_ok). apply Forall_forall. intros [k0 v0] Hin. cbn [fst].
  apply N.compare_lt_iff. pose proof (is_range_bounds _ _ k0 Hr (in_keys _ _ _ Hin)) as B.
  rewrite keys_length in B. lia.
Qed.

(* re-inserting what is already there *)
Lemma ins_range_same {V} from k (v : V) l :
  is_range from (keys l) = true -> lookup N.compare k l = Some v -> ins N.compare k v l = l.
Proof.
  revert from. induction l as [|[k' v'] r IH]; intros from Hr Hl; [discriminate|].
  cbn [keys map is_range fst] in Hr. apply andb_prop in Hr. destruct Hr as [H1 H2].
  cbn [lookup] in Hl. cbn [ins]. destruct (N.compare_spec k k') as [E|E|E].
  - subst. now inversion Hl.
  - exfalso. pose proof (is_range_bounds _ _ k H2 (lookup_some_in_keys _ _ _ Hl)). lia.
  - f_equal. eapply IH; eauto.
Qed.

Lemma keys_are_spec {V} from count (l : list (N * V)) :
  keys_are from count l = true <-> is_range from (keys l) = true /\ N.of_nat (length l) = count.
Proof. unfold keys_are. rewrite andb_true_iff, N.eqb_eq. tauto. Qed.

Lemma keys_are_snoc {V} from count (l : list (N * V)) v :
  keys_are from count l = true -> keys_are from (count + 1) (l ++ [(from + count, v)]) = true.
Proof.
  rewrite !keys_are_spec. intros [H1 H2]. split.
  - rewrite keys_app, is_range_app, H1, keys_length. cbn [keys map fst is_range andb].
    rewrite andb_true_r. apply N.eqb_eq. lia.
  - rewrite app_length. cbn [length]. lia.
Qed.

(* ---------- sub_map (immutability of existing entries) ---------- *)
Lemma sub_map_spec a b :
  sub_map a b = true <-> forall k v, In (k, v) a -> lookup N.compare k b = Some v.
Proof.
  unfold sub_map. rewrite forallb_forall. split.
  - intros H k v Hin. specialize (H _ Hin). cbn [fst snd] in H.
    destruct (lookup N.compare k b) as [v0|]; [|discriminate]. apply N.eqb_eq in H. now subst.
  - intros H [k v] Hin. cbn [fst snd]. rewrite (H _ _ Hin). apply N.eqb_refl.
Qed.

Lemma sub_map_refl l : sortedb N.compare l = true -> sub_map l l = true.
Proof. intros Hs. apply sub_map_spec. intros k v Hin. now apply (In_lookup N_cmp_ok). Qed.

Lemma sub_map_trans a b c : sub_map a b = true -> sub_map b c = true -> sub_map a c = true.
Proof.
  rewrite !sub_map_spec. intros H1 H2 k v Hin. apply H2. apply (lookup_In N_cmp_ok). now apply H1.
Qed.

Lemma sub_map_ins l k v :
  sortedb N.compare l = true -> ~ In k (keys l) -> sub_map l (ins N.compare k v l) = true.
Proof.
  intros Hs Hn. apply sub_map_spec. intros k0 v0 Hin.
  rewrite (lookup_ins_other N_cmp_ok).
  - now apply (In_lookup N_cmp_ok).
  - intros E. subst. apply Hn. eapply in_keys; eauto.
Qed.

Lemma topic_ext_spec t t' :
  topic_ext t t' = true <->
  sub_map (t_sealed t) (t_sealed t') = true /\ sub_map (t_leaders t) (t_leaders t') = true /\ t_cur t <= t_cur t'.
Proof. unfold topic_ext. rewrite !andb_true_iff, N.leb_le. tauto. Qed.

Lemma topic_ext_trans a b c : topic_ext a b = true -> topic_ext b c = true -> topic_ext a c = true.
Proof.
  rewrite !topic_ext_spec. intros (A1 & A2 & A3) (B1 & B2 & B3).
  repeat split; [eapply sub_map_trans; eauto|eapply sub_map_trans; eauto|lia].
Qed.

(* ---------- the per-topic invariant ---------- *)
Record tinv (e : bool) (t : tstate) : Prop := {
  ti_pos : 1 <= t_cur t;
  ti_leaders : keys_are 1 (t_cur t) (t_leaders t) = true;
  ti_open : lookup N.compare (t_cur t) (t_leaders t) = Some (t_leader t);
  ti_sealed : keys_are 1 (t_cur t - 1) (t_sealed t) = true;
  ti_sum : if e then sum_vals (t_sealed t) = t_last t else (sum_vals (t_sealed t)) mod two64 = t_last t
}.

Lemma topic_ok_spec e t : topic_ok e t = true <-> tinv e t.
Proof.
  unfold topic_ok. rewrite !andb_true_iff. split.
  - intros ((((H1 & H2) & H3) & H4) & H5). split; auto.
    + now apply N.leb_le.
    + destruct (lookup N.compare (t_cur t) (t_leaders t)) as [l|]; [|discriminate]. apply N.eqb_eq in H3. now subst.
    + destruct e; now apply N.eqb_eq.
  - intros [H1 H2 H3 H4 H5]. repeat split; auto.
    + now apply N.leb_le.
    + rewrite H3. apply N.eqb_refl.
    + destruct e; now apply N.eqb_eq.
Qed.

Lemma tinv_sorted e t : tinv e t -> sortedb N.compare (t_sealed t) = true /\ sortedb N.compare (t_leaders t) = true.
Proof.
  intros [_ H2 _ H4 _]. apply keys_are_spec in H2. apply keys_are_spec in H4.
  split; eapply range_sorted; [apply H4|apply H2].
Qed.

Lemma topic_ext_refl e t : tinv e t -> topic_ext t t = true.
Proof.
  intros H. destruct (tinv_sorted e t H) as [S1 S2]. apply topic_ext_spec.
  repeat split; [now apply sub_map_refl|now apply sub_map_refl|lia].
Qed.

Lemma tinv_new e leader : tinv e (new_topic leader).
Proof.
  unfold new_topic. split; cbn; try reflexivity; try lia. destruct e; reflexivity.
Qed.

(* the exact invariant implies the one modulo 2^64 when the sum fits *)
Lemma tinv_weaken t : tinv true t -> t_last t < two64 -> tinv false t.
Proof. intros [H1 H2 H3 H4 H5] Hl. split; auto. cbn in *. rewrite H5. now apply N.mod_small. Qed.

(* the RolloverTopic arm without panic: the new topic state *)
Definition rolled (t : tstate) (new_leader count : N) : tstate :=
  mkTopic (t_cur t + 1) new_leader ((t_last t + count) mod two64)
          (t_sealed t ++ [(t_cur t, count)]) (t_leaders t ++ [(t_cur t + 1, new_leader)]).

Lemma rollover_no_wrap e oc t nl count :
  tinv e t -> t_cur t + 1 < two64 -> (oc = true -> t_last t + count < two64) ->
  rollover oc t nl count = (rolled t nl count, None).
Proof.
  intros [H1 H2 H3 H4 H5] Hc Ho. unfold rollover, rolled.
  pose proof H2 as H2'. apply keys_are_spec in H2'. destruct H2' as [R2 L2].
  pose proof H4 as H4'. apply keys_are_spec in H4'. destruct H4' as [R4 L4].
  assert (E1 : oc && (two64 <=? t_last t + count) = false).
  { destruct oc; cbn; [|reflexivity]. specialize (Ho eq_refl). lia. }
  rewrite E1.
  assert (E2 : oc && (two64 <=? t_cur t + 1) = false) by (destruct oc; cbn; [lia|reflexivity]).
  rewrite E2.
  rewrite (N.mod_small (t_cur t + 1)) by exact Hc.
  rewrite (ins_range_same 1 _ _ _ R2 H3).
  rewrite (ins_range_next 1 (t_cur t) count (t_sealed t) R4) by lia.
  rewrite (ins_range_next 1 (t_cur t + 1) nl (t_leaders t) R2) by lia.
  reflexivity.
Qed.

Lemma rolled_alt t nl count e :
  tinv e t ->
  t_sealed (rolled t nl count) = ins N.compare (t_cur t) count (t_sealed t) /\
  t_leaders (rolled t nl count) = ins N.compare (t_cur t + 1) nl (t_leaders t).
Proof.
  intros [H1 H2 H3 H4 H5].
  apply keys_are_spec in H2. destruct H2 as [R2 L2]. apply keys_are_spec in H4. destruct H4 as [R4 L4].
  cbn [rolled t_sealed t_leaders]. split.
  - rewrite (ins_range_next 1 (t_cur t) count (t_sealed t) R4) by lia. reflexivity.
  - rewrite (ins_range_next 1 (t_cur t + 1) nl (t_leaders t) R2) by lia. reflexivity.
Qed.

Lemma tinv_rolled e t nl count :
  tinv e t -> (e = true -> t_last t + count < two64) -> tinv e (rolled t nl count).
Proof.
  intros Ht Ho. destruct (rolled_alt t nl count e Ht) as [A1 A2].
  destruct Ht as [H1 H2 H3 H4 H5].
  split.
  - cbn [rolled t_cur]. lia.
  - cbn [rolled t_cur t_leaders]. replace (t_cur t + 1) with (1 + t_cur t) at 2 by lia.
    replace (t_cur t + 1) with (t_cur t + 1) at 1 by reflexivity.
    pose proof (keys_are_snoc 1 (t_cur t) (t_leaders t) nl H2) as K.
    replace (1 + t_cur t) with (t_cur t + 1) in * by lia. exact K.
  - rewrite A2. cbn [rolled t_cur t_leader]. apply (lookup_ins_same N_cmp_ok).
  - cbn [rolled t_cur t_sealed]. replace (t_cur t + 1 - 1) with (t_cur t - 1 + 1) by lia.
    pose proof (keys_are_snoc 1 (t_cur t - 1) (t_sealed t) count H4) as K.
    replace (1 + (t_cur t - 1)) with (t_cur t) in K by lia. exact K.
  - cbn [rolled t_sealed t_last]. rewrite sum_vals_app. rewrite (sum_vals_cons (t_cur t) count []).
    change (sum_vals (@nil (N * N))) with 0. rewrite N.add_0_r.
    destruct e.
    + rewrite H5. symmetry. apply N.mod_small. now apply Ho.
    + rewrite <- H5. rewrite N.add_mod_idemp_l; [reflexivity|unfold two64; lia].
Qed.

Lemma ext_rolled e t nl count : tinv e t -> topic_ext t (rolled t nl count) = true.
Proof.
  intros Ht. destruct (rolled_alt t nl count e Ht) as [A1 A2]. destruct (tinv_sorted e t Ht) as [S1 S2].
  destruct Ht as [H1 H2 H3 H4 H5].
  apply keys_are_spec in H2. destruct H2 as [R2 L2]. apply keys_are_spec in H4. destruct H4 as [R4 L4].
  apply topic_ext_spec. rewrite A1, A2. repeat split.
  - apply sub_map_ins; [exact S1|]. intros Hin. pose proof (is_range_bounds _ _ _ R4 Hin) as B. rewrite keys_length in B. lia.
  - apply sub_map_ins; [exact S2|]. intros Hin. pose proof (is_range_bounds _ _ _ R2 Hin) as B. rewrite keys_length in B. lia.
  - cbn [rolled t_cur]. lia.
Qed.

(* ---------- the cluster invariant ---------- *)
Definition tgood (e : bool) (n : N) (nt : str * tstate) : Prop := tinv e (snd nt) /\ t_cur (snd nt) <= n + 1.

Record inv (e : bool) (n : N) (s : mstate) : Prop := {
  iv_live : m_poisoned s = false;
  iv_sorted : sortedb str_cmp (c_topics (m_cl s)) = true;
  iv_topics : Forall (tgood e n) (c_topics (m_cl s))
}.

Lemma cluster_ok_spec e c :
  cluster_ok e c = true <-> sortedb str_cmp (c_topics c) = true /\ Forall (fun nt => tinv e (snd nt)) (c_topics c).
Proof.
  unfold cluster_ok. rewrite andb_true_iff, forallb_forall, Forall_forall.
  split; intros [H1 H2]; (split; [exact H1|]); intros x Hx; apply topic_ok_spec; auto.
Qed.

Lemma inv_cluster_ok e n s : inv e n s -> cluster_ok e (m_cl s) = true.
Proof.
  intros [H1 H2 H3]. apply cluster_ok_spec. split; [exact H2|]. eapply Forall_impl; [|exact H3]. now intros a [Ha _].
Qed.

Lemma inv_mono e n m s : n <= m -> inv e n s -> inv e m s.
Proof.
  intros Hle [H1 H2 H3]. split; auto. eapply Forall_impl; [|exact H3]. intros a [Ha Hb]. split; [exact Ha|lia].
Qed.

Lemma inv_init e : inv e 0 m_init.
Proof. split; cbn; auto. Qed.

Lemma cluster_ext_spec c c' :
  cluster_ext c c' = true <->
  forall nm t, In (nm, t) (c_topics c) -> exists t', lookup str_cmp nm (c_topics c') = Some t' /\ topic_ext t t' = true.
Proof.
  unfold cluster_ext. rewrite forallb_forall. split.
  - intros H nm t Hin. specialize (H _ Hin). cbn [fst snd] in H.
    destruct (lookup str_cmp nm (c_topics c')) as [t'|]; [|discriminate]. eauto.
  - intros H [nm t] Hin. cbn [fst snd]. destruct (H _ _ Hin) as [t' [E1 E2]]. now rewrite E1.
Qed.

Lemma cluster_ext_trans a b c : cluster_ext a b = true -> cluster_ext b c = true -> cluster_ext a c = true.
Proof.
  rewrite !cluster_ext_spec. intros H1 H2 nm t Hin.
  destruct (H1 _ _ Hin) as [tb [E1 X1]].
  destruct (H2 nm tb (lookup_In str_cmp_ok _ _ _ E1)) as [tc [E2 X2]].
  exists tc. split; [exact E2|]. eapply topic_ext_trans; eauto.
Qed.

Lemma cluster_ext_refl_gen e ts ns ns' :
  sortedb str_cmp ts = true -> Forall (fun nt => tinv e (snd nt)) ts ->
  cluster_ext (mkCluster ts ns) (mkCluster ts ns') = true.
Proof.
  intros Hs Hf. apply cluster_ext_spec. cbn [c_topics]. intros nm t Hin. exists t. split.
  - now apply (In_lookup str_cmp_ok).
  - rewrite Forall_forall in Hf. apply (topic_ext_refl e). apply (Hf _ Hin).
Qed.

Lemma cluster_ext_refl e n s : inv e n s -> cluster_ext (m_cl s) (m_cl s) = true.
Proof.
  intros [H1 H2 H3]. destruct (m_cl s) as [ts ns]. apply (cluster_ext_refl_gen e); [exact H2|].
  eapply Forall_impl; [|exact H3]. now intros a [Ha _].
Qed.

(* replacing (or adding) one topic by an extension of it *)
Lemma cluster_ext_ins e ts ns name t' :
  sortedb str_cmp ts = true -> Forall (fun nt => tinv e (snd nt)) ts ->
  (forall t, lookup str_cmp name ts = Some t -> topic_ext t t' = true) ->
  cluster_ext (mkCluster ts ns) (mkCluster (ins str_cmp name t' ts) ns) = true.
Proof.
  intros Hs Hf Hx. apply cluster_ext_spec. cbn [c_topics]. intros nm t Hin.
  pose proof (In_lookup str_cmp_ok _ _ _ Hs Hin) as Hl.
  destruct (str_cmp nm name) eqn:E.
  - apply (cmp_eq str_cmp_ok) in E. subst nm. exists t'. split; [apply (lookup_ins_same str_cmp_ok)|auto].
  - exists t. split.
    + rewrite (lookup_ins_other str_cmp_ok); [exact Hl|]. intros X. subst. rewrite (cmp_refl str_cmp_ok) in E. discriminate.
    + rewrite Forall_forall in Hf. apply (topic_ext_refl e). apply (Hf _ Hin).
  - exists t. split.
    + rewrite (lookup_ins_other str_cmp_ok); [exact Hl|]. intros X. subst. rewrite (cmp_refl str_cmp_ok) in E. discriminate.
    + rewrite Forall_forall in Hf. apply (topic_ext_refl e). apply (Hf _ Hin).
Qed.

(* ---------- one command ---------- *)
(* no overflow of the cumulative count in this command *)
Definition no_ovf (s : mstate) (c : cmd) : Prop :=
  match c with
  | RolloverTopic name _ count =>
    match lookup str_cmp name (c_topics (m_cl s)) with
    | Some t => t_last t + count < two64
    | None => True
    end
  | _ => True
  end.

Lemma lookup_good e n ts name t :
  Forall (tgood e n) ts -> lookup str_cmp name ts = Some t -> tinv e t /\ t_cur t <= n + 1.
Proof.
  intros Hf Hl. rewrite Forall_forall in Hf. apply (Hf (name, t)). now apply (lookup_In str_cmp_ok).
Qed.

Lemma Forall_tgood_weak e n ts : Forall (tgood e n) ts -> Forall (fun nt => tinv e (snd nt)) ts.
Proof. intros H. eapply Forall_impl; [|exact H]. now intros a [Ha _]. Qed.

Lemma Forall_tgood_mono e n ts : Forall (tgood e n) ts -> Forall (tgood e (n + 1)) ts.
Proof. intros H. eapply Forall_impl; [|exact H]. intros a [Ha Hb]. split; [exact Ha|lia]. Qed.

Lemma step_cmd e oc n s c :
  inv e n s -> n + 2 < two64 -> (e = true \/ oc = true -> no_ovf s c) ->
  exists s' r, apply_cmd oc s c = (s', r) /\ apply_cmd false s c = (s', r) /\
               inv e (n + 1) s' /\ cluster_ext (m_cl s) (m_cl s') = true /\ is_panic r = false.
Proof.
  intros Hi Hn Ho. pose proof Hi as [H1 H2 H3]. destruct s as [[ts ns] p]. cbn [m_cl m_poisoned c_topics] in *. subst p.
  destruct c as [name leader|name nl count|id addr]; cbn [apply_cmd m_cl c_topics c_nodes set_topics].
  - (* CreateTopic *)
    destruct (lookup str_cmp name ts) as [t|] eqn:El.
    + do 2 eexists. repeat split; try reflexivity; cbn [m_cl m_poisoned c_topics]; auto.
      * now apply Forall_tgood_mono.
      * apply (cluster_ext_refl_gen e); [exact H2|now apply (Forall_tgood_weak e n)].
    + do 2 eexists. repeat split; try reflexivity; cbn [m_cl m_poisoned c_topics].
      * now apply (sorted_ins str_cmp_ok).
      * apply Forall_ins; [|now apply Forall_tgood_mono]. split; [apply tinv_new|cbn; lia].
      * apply (cluster_ext_ins e); [exact H2|now apply (Forall_tgood_weak e n)|]. intros t Ht. congruence.
  - (* RolloverTopic *)
    cbn [no_ovf m_cl c_topics] in Ho.
    destruct (lookup str_cmp name ts) as [t|] eqn:El.
    + destruct (lookup_good e n ts name t H3 El) as [Ht Hc].
      assert (R : forall oc', (oc' = true -> e = true \/ oc = true) -> rollover oc' t nl count = (rolled t nl count, None)).
      { intros oc' Hoc. apply (rollover_no_wrap e); [exact Ht|lia|]. intros E. apply Ho. auto. }
      rewrite (R oc) by auto. rewrite (R false) by discriminate.
      do 2 eexists. repeat split; try reflexivity; cbn [m_cl m_poisoned c_topics].
      * now apply (sorted_ins str_cmp_ok).
      * apply Forall_ins; [|now apply Forall_tgood_mono]. split; cbn [snd].
        -- apply tinv_rolled; [exact Ht|]. intros E. apply Ho. auto.
        -- cbn [rolled t_cur]. lia.
      * apply (cluster_ext_ins e); [exact H2|now apply (Forall_tgood_weak e n)|].
        intros t0 Ht0. assert (t0 = t) by congruence. subst t0. now apply (ext_rolled e).
    + do 2 eexists. repeat split; try reflexivity; cbn [m_cl m_poisoned c_topics]; auto.
      * now apply Forall_tgood_mono.
      * apply (cluster_ext_refl_gen e); [exact H2|now apply (Forall_tgood_weak e n)].
  - (* UpsertNode *)
    do 2 eexists. repeat split; try reflexivity; cbn [m_cl m_poisoned c_topics]; auto.
    + now apply Forall_tgood_mono.
    + apply (cluster_ext_refl_gen e); [exact H2|now apply (Forall_tgood_weak e n)].
Qed.

(* the checked build panics at the sum exactly when the sum does not fit *)
Lemma psum_iff_ovf e n s c :
  inv e n s -> n + 2 < two64 -> (is_psum (snd (apply_cmd true s c)) = false <-> no_ovf s c).
Proof.
  intros Hi Hn. pose proof Hi as [H1 H2 H3]. destruct s as [[ts ns] p]. cbn [m_cl m_poisoned c_topics] in *. subst p.
  destruct c as [name leader|name nl count|id addr]; cbn [apply_cmd no_ovf m_cl c_topics c_nodes set_topics].
  - destruct (lookup str_cmp name ts); cbn; tauto.
  - destruct (lookup str_cmp name ts) as [t|] eqn:El; [|cbn; tauto].
    destruct (lookup_good e n ts name t H3 El) as [Ht Hc].
    unfold rollover. cbn [andb].
    destruct (two64 <=? t_last t + count) eqn:E1.
    + cbn. split; [discriminate|lia].
    + replace (two64 <=? t_cur t + 1) with false by lia. cbn. split; [lia|reflexivity].
  - cbn. tauto.
Qed.

(* ---------- one input (bytes) ---------- *)
Definition no_ovf_in (s : mstate) (bs : list N) : Prop :=
  match dec_cmd bs with Some (c, _) => no_ovf s c | None => True end.

Lemma step_apply e oc n s bs :
  inv e n s -> n + 2 < two64 -> (e = true \/ oc = true -> no_ovf_in s bs) ->
  exists s' r, apply oc s bs = (s', r) /\ apply false s bs = (s', r) /\
               inv e (n + 1) s' /\ cluster_ext (m_cl s) (m_cl s') = true /\ is_panic r = false.
Proof.
  intros Hi Hn Ho. unfold apply, no_ovf_in in *.
  destruct (dec_cmd bs) as [[c rest]|].
  - rewrite (iv_live _ _ _ Hi). now apply step_cmd.
  - exists s, MErr. split; [reflexivity|]. split; [reflexivity|]. split; [|split; [|reflexivity]].
    + apply (inv_mono e n); [lia|exact Hi].
    + now apply (cluster_ext_refl e n).
Qed.

Lemma psum_iff_ovf_in e n s bs :
  inv e n s -> n + 2 < two64 -> (is_psum (snd (apply true s bs)) = false <-> no_ovf_in s bs).
Proof.
  intros Hi Hn. unfold apply, no_ovf_in. destruct (dec_cmd bs) as [[c rest]|]; [|cbn; tauto].
  rewrite (iv_live _ _ _ Hi). now apply (psum_iff_ovf e n).
Qed.

(* ---------- traces ---------- *)
(* every sequence, wrapping arithmetic: the structure and the immutability hold throughout,
   the sum equation holds modulo 2^64 *)
Lemma run_release n s inputs :
  inv false n s -> n + N.of_nat (length inputs) + 1 < two64 ->
  trace_okb false (m_cl s) (mrun false s inputs) = true /\ inv false (n + N.of_nat (length inputs)) (mexec false s inputs).
Proof.
  revert n s. induction inputs as [|b r IH]; intros n s Hi Hn; cbn [mrun mexec trace_okb length].
  - split; [reflexivity|]. now rewrite N.add_0_r.
  - cbn [length] in Hn.
    destruct (step_apply false false n s b Hi) as (s' & res & E1 & _ & Hi' & Hx & Hp); [lia|intros [X|X]; discriminate|].
    rewrite E1. cbn [fst]. destruct (IH (n + 1) s' Hi') as [T I]; [lia|].
    split.
    + rewrite Hp, (iv_live _ _ _ Hi'), (inv_cluster_ok _ _ _ Hi'), Hx, T. reflexivity.
    + replace (n + N.of_nat (S (length r))) with (n + 1 + N.of_nat (length r)) by lia. exact I.
Qed.


(* outside the known class: exact sum, no panic, and both build profiles behave alike *)
Lemma run_outside oc n s inputs :
  inv true n s -> n + N.of_nat (length inputs) + 1 < two64 ->
  any_psum (mrun true s inputs) = false ->
  mrun oc s inputs = mrun false s inputs /\
  trace_okb true (m_cl s) (mrun oc s inputs) = true /\
  inv true (n + N.of_nat (length inputs)) (mexec oc s inputs).
Proof.
  revert n s. induction inputs as [|b r IH]; intros n s Hi Hn Hk; cbn [mrun mexec trace_okb length].
  - split; [reflexivity|]. split; [reflexivity|]. now rewrite N.add_0_r.
  - cbn [length] in Hn. cbn [mrun any_psum existsb] in Hk. apply orb_false_elim in Hk. destruct Hk as [K1 K2].
    assert (Hov : no_ovf_in s b) by (apply (psum_iff_ovf_in true n); [exact Hi|lia|exact K1]).
    destruct (step_apply true true n s b Hi) as (s1 & r1 & E1 & E1f & Hi1 & Hx1 & Hp1); [lia|auto|].
    destruct (step_apply true oc n s b Hi) as (s2 & r2 & E2 & E2f & _); [lia|auto|].
    assert (s2 = s1 /\ r2 = r1) by (split; congruence). destruct H as [-> ->].
    rewrite E1 in K2. cbn [fst] in K2.
    rewrite E2, E1f. cbn [fst].
    destruct (IH (n + 1) s1 Hi1) as (A & T & I); [lia|exact K2|].
    split; [|split].
    + now rewrite A.
    + rewrite Hp1, (iv_live _ _ _ Hi1), (inv_cluster_ok _ _ _ Hi1), Hx1, T. reflexivity.
    + replace (n + N.of_nat (S (length r))) with (n + 1 + N.of_nat (length r)) by lia. exact I.
Qed.

(* immutability between any two points of a run *)
Lemma mexec_app oc s a b : mexec oc s (a ++ b) = mexec oc (mexec oc s a) b.
Proof. revert s. induction a as [|x a IH]; intros s; cbn [app mexec]; auto. Qed.

Lemma ext_release n s inputs :
  inv false n s -> n + N.of_nat (length inputs) + 1 < two64 ->
  cluster_ext (m_cl s) (m_cl (mexec false s inputs)) = true.
Proof.
  revert n s. induction inputs as [|b r IH]; intros n s Hi Hn; cbn [mexec length] in *.
  - now apply (cluster_ext_refl false n).
  - destruct (step_apply false false n s b Hi) as (s' & res & E1 & _ & Hi' & Hx & Hp); [lia|intros [X|X]; discriminate|].
    rewrite E1. cbn [fst]. eapply cluster_ext_trans; [exact Hx|]. apply (IH (n + 1)); [exact Hi'|lia].
Qed.

(* what the boolean acceptors mean *)
Lemma tinv_meaning t : tinv true t ->
  (forall k, (exists v, lookup N.compare k (t_leaders t) = Some v) <-> 1 <= k <= t_cur t) /\
  lookup N.compare (t_cur t) (t_leaders t) = Some (t_leader t) /\
  (forall k, (exists v, lookup N.compare k (t_sealed t) = Some v) <-> 1 <= k < t_cur t) /\
  NoDup (keys (t_leaders t)) /\ NoDup (keys (t_sealed t)) /\
  t_last t = sum_vals (t_sealed t).
Proof.
  intros Ht. destruct (tinv_sorted true t Ht) as [S1 S2]. destruct Ht as [H1 H2 H3 H4 H5].
  apply keys_are_spec in H2. destruct H2 as [R2 L2]. apply keys_are_spec in H4. destruct H4 as [R4 L4].
  assert (Q : forall (l : list (N * N)) c, is_range 1 (keys l) = true -> N.of_nat (length l) = c ->
              forall k, (exists v, lookup N.compare k l = Some v) <-> 1 <= k < 1 + c).
  { intros l c R L k. split.
    - intros [v Hv]. pose proof (is_range_bounds _ _ _ R (lookup_some_in_keys _ _ _ Hv)) as B. rewrite keys_length in B. lia.
    - intros B. apply (in_keys_lookup 1); [exact R|]. apply (is_range_in 1); [exact R|]. rewrite keys_length. lia. }
  split; [|split; [exact H3|split; [|split; [|split]]]].
  - intros k. rewrite (Q _ _ R2 L2 k). lia.
  - intros k. rewrite (Q _ _ R4 L4 k). lia.
  - apply (sorted_NoDup N_cmp_ok). exact S2.
  - apply (sorted_NoDup N_cmp_ok). exact S1.
  - cbn in H5. now symmetry.
Qed.

Lemma topic_ext_meaning t t' : topic_ext t t' = true ->
  (forall k v, In (k, v) (t_sealed t) -> lookup N.compare k (t_sealed t') = Some v) /\
  (forall k v, In (k, v) (t_leaders t) -> lookup N.compare k (t_leaders t') = Some v) /\
  t_cur t <= t_cur t'.
Proof. rewrite topic_ext_spec. rewrite !sub_map_spec. tauto. Qed.

(* ---------- statements over runs from the initial state ---------- *)
Lemma all_sequences inputs :
  N.of_nat (length inputs) + 1 < two64 ->
  trace_okb false empty_cluster (mrun false m_init inputs) = true.
Proof. intros H. apply (run_release 0 m_init inputs (inv_init false)). lia. Qed.

Lemma sealed_immutable pre suf :
  N.of_nat (length (pre ++ suf)) + 1 < two64 ->
  cluster_ext (m_cl (mexec false m_init pre)) (m_cl (mexec false m_init (pre ++ suf))) = true.
Proof.
  intros H. rewrite app_length in H. rewrite mexec_app.
  destruct (run_release 0 m_init pre (inv_init false)) as [_ I]; [lia|].
  apply (ext_release _ _ _ I). lia.
Qed.

Lemma outside_known oc inputs :
  N.of_nat (length inputs) + 1 < two64 -> sum_overflow inputs = false ->
  mrun oc m_init inputs = mrun false m_init inputs /\
  trace_okb true empty_cluster (mrun oc m_init inputs) = true.
Proof.
  intros H K. destruct (run_outside oc 0 m_init inputs (inv_init true)) as (A & T & _); [lia|exact K|]. auto.
Qed.

Lemma inv_meaning e n s : inv e n s -> m_poisoned s = false /\ cluster_ok e (m_cl s) = true.
Proof. intros H. split; [apply (iv_live _ _ _ H)|apply (inv_cluster_ok _ _ _ H)]. Qed.

Lemma topic_ok_meaning t : topic_ok true t = true ->
  (forall k, (exists v, lookup N.compare k (t_leaders t) = Some v) <-> 1 <= k <= t_cur t) /\
    lookup N.compare (t_cur t) (t_leaders t) = Some (t_leader t) /\
    (forall k, (exists v, lookup N.compare k (t_sealed t) = Some v) <-> 1 <= k < t_cur t) /\
    NoDup (keys (t_leaders t)) /\ NoDup (keys (t_sealed t)) /\
    t_last t = sum_vals (t_sealed t).
Proof. intros H. apply tinv_meaning. now apply topic_ok_spec. Qed.

(* the witness of the known class *)
Definition c18_witness : list (list N) :=
  [enc_cmd (CreateTopic [116] 1); enc_cmd (RolloverTopic [116] 2 u64_max); enc_cmd (RolloverTopic [116] 3 1)].

Lemma refuted_sum_overflow :
  exists inputs,
    N.of_nat (length inputs) + 1 < two64 /\ sum_overflow inputs = true /\
    (* overflow checks on: the last command panics, the lock is poisoned, nothing is visible any more *)
    map snd (mrun true m_init inputs) = [MOk b_created; MOk b_rolled; MPanic PSum] /\
    m_poisoned (mexec true m_init inputs) = true /\
    visible (mexec true m_init inputs) = empty_cluster /\
    (* wrapping: no panic, but the cumulative offset is no longer the sum of the sealed counts *)
    map snd (mrun false m_init inputs) = [MOk b_created; MOk b_rolled; MOk b_rolled] /\
    cluster_ok true (m_cl (mexec false m_init inputs)) = false /\
    cluster_ok false (m_cl (mexec false m_init inputs)) = true.
Proof. exists c18_witness. vm_compute. repeat split; reflexivity. Qed.

Definition C18_full : Prop :=
  forall oc inputs, N.of_nat (length inputs) + 1 < two64 ->
    trace_okb true empty_cluster (mrun oc m_init inputs) = true.

Lemma full_refuted : ~ C18_full.
Proof.
  intros H. specialize (H false c18_witness). assert (X : N.of_nat (length c18_witness) + 1 < two64) by (vm_compute; reflexivity).
  specialize (H X). vm_compute in H. discriminate.
Qed.

(* ---------- with PROPOSED_FIX.diff applied: the property holds for every sequence ---------- *)
Record inv0 (s : mstate) : Prop := {
  i0_live : m_poisoned s = false;
  i0_sorted : sortedb str_cmp (c_topics (m_cl s)) = true;
  i0_topics : Forall (fun nt => tinv true (snd nt)) (c_topics (m_cl s))
}.

Lemma inv0_cluster_ok s : inv0 s -> cluster_ok true (m_cl s) = true.
Proof. intros [H1 H2 H3]. apply cluster_ok_spec. auto. Qed.

Lemma inv0_init : inv0 m_init.
Proof. split; cbn; auto. Qed.

Lemma rollover_fx_spec t nl count :
  tinv true t ->
  rollover_fx t nl count =
    if (two64 <=? t_last t + count) || (two64 <=? t_cur t + 1) then None else Some (rolled t nl count).
Proof.
  intros Ht. unfold rollover_fx.
  destruct (two64 <=? t_last t + count) eqn:E1; [reflexivity|].
  destruct (two64 <=? t_cur t + 1) eqn:E2; [reflexivity|]. cbn [orb].
  destruct Ht as [H1 H2 H3 H4 H5].
  pose proof H2 as H2'. apply keys_are_spec in H2'. destruct H2' as [R2 L2].
  pose proof H4 as H4'. apply keys_are_spec in H4'. destruct H4' as [R4 L4].
  unfold rolled.
  rewrite (ins_range_same 1 _ _ _ R2 H3).
  rewrite (ins_range_next 1 (t_cur t) count (t_sealed t) R4) by lia.
  rewrite (ins_range_next 1 (t_cur t + 1) nl (t_leaders t) R2) by lia.
  rewrite (N.mod_small (t_last t + count)) by lia. reflexivity.
Qed.

Lemma step_cmd_fx s c :
  inv0 s ->
  exists s' r, apply_cmd_fx s c = (s', r) /\ inv0 s' /\ cluster_ext (m_cl s) (m_cl s') = true /\ is_panic r = false.
Proof.
  intros Hi. pose proof Hi as [H1 H2 H3]. destruct s as [[ts ns] p]. cbn [m_cl m_poisoned c_topics] in *. subst p.
  destruct c as [name leader|name nl count|id addr]; cbn [apply_cmd_fx apply_cmd m_cl c_topics c_nodes set_topics].
  - destruct (lookup str_cmp name ts) as [t|] eqn:El.
    + do 2 eexists. split; [reflexivity|]. split; [exact Hi|]. split; [|reflexivity].
      apply (cluster_ext_refl_gen true); assumption.
    + do 2 eexists. split; [reflexivity|]. split; [|split; [|reflexivity]].
      * split; cbn [m_cl m_poisoned c_topics]; auto.
        -- now apply (sorted_ins str_cmp_ok).
        -- apply Forall_ins; [apply tinv_new|exact H3].
      * apply (cluster_ext_ins true); [exact H2|exact H3|]. intros t Ht. congruence.
  - destruct (lookup str_cmp name ts) as [t|] eqn:El.
    + assert (Ht : tinv true t).
      { rewrite Forall_forall in H3. apply (H3 (name, t)). now apply (lookup_In str_cmp_ok). }
      rewrite (rollover_fx_spec t nl count Ht).
      destruct ((two64 <=? t_last t + count) || (two64 <=? t_cur t + 1)) eqn:E.
      * do 2 eexists. split; [reflexivity|]. split; [exact Hi|]. split; [|reflexivity].
        apply (cluster_ext_refl_gen true); assumption.
      * apply orb_false_elim in E. destruct E as [E1 E2].
        do 2 eexists. split; [reflexivity|]. split; [|split; [|reflexivity]].
        -- split; cbn [m_cl m_poisoned c_topics]; auto.
           ++ now apply (sorted_ins str_cmp_ok).
           ++ apply Forall_ins; [|exact H3]. cbn [snd]. apply tinv_rolled; [exact Ht|]. intros _. lia.
        -- apply (cluster_ext_ins true); [exact H2|exact H3|].
           intros t0 Ht0. assert (t0 = t) by congruence. subst t0. now apply (ext_rolled true).
    + do 2 eexists. split; [reflexivity|]. split; [exact Hi|]. split; [|reflexivity].
      apply (cluster_ext_refl_gen true); assumption.
  - do 2 eexists. split; [reflexivity|]. split; [|split; [|reflexivity]].
    + split; cbn [m_cl m_poisoned c_topics]; auto.
    + apply (cluster_ext_refl_gen true); assumption.
Qed.

Lemma step_apply_fx s bs :
  inv0 s ->
  exists s' r, apply_fx s bs = (s', r) /\ inv0 s' /\ cluster_ext (m_cl s) (m_cl s') = true /\ is_panic r = false.
Proof.
  intros Hi. unfold apply_fx. destruct (dec_cmd bs) as [[c rest]|].
  - rewrite (i0_live _ Hi). now apply step_cmd_fx.
  - exists s, MErr. split; [reflexivity|]. split; [exact Hi|]. split; [|reflexivity].
    destruct Hi as [H1 H2 H3]. destruct (m_cl s) as [ts ns]. now apply (cluster_ext_refl_gen true).
Qed.

Lemma run_fx inputs : forall s, inv0 s -> trace_okb true (m_cl s) (mrun_fx s inputs) = true /\ inv0 (mexec_fx s inputs).
Proof.
  induction inputs as [|b r IH]; intros s Hi; cbn [mrun_fx mexec_fx trace_okb]; [auto|].
  destruct (step_apply_fx s b Hi) as (s' & res & E1 & Hi' & Hx & Hp).
  rewrite E1. cbn [fst]. destruct (IH s' Hi') as [T I]. split; [|exact I].
  rewrite Hp, (i0_live _ Hi'), (inv0_cluster_ok _ Hi'), Hx, T. reflexivity.
Qed.

(* full strength, no class excluded, no bound on the number of commands *)
Lemma fixed_all_sequences inputs : trace_okb true empty_cluster (mrun_fx m_init inputs) = true.
Proof. apply (run_fx inputs m_init inv0_init). Qed.

Lemma fixed_sealed_immutable pre : forall suf s, inv0 s ->
  cluster_ext (m_cl (mexec_fx s pre)) (m_cl (mexec_fx s (pre ++ suf))) = true.
Proof.
  induction pre as [|b r IH]; intros suf s Hi; cbn [app mexec_fx].
  - revert s Hi. induction suf as [|b r IH2]; intros s Hi; cbn [mexec_fx].
    + destruct Hi as [H1 H2 H3]. destruct (m_cl s) as [ts ns]. now apply (cluster_ext_refl_gen true).
    + destruct (step_apply_fx s b Hi) as (s' & res & E1 & Hi' & Hx & Hp). rewrite E1. cbn [fst].
      eapply cluster_ext_trans; [exact Hx|]. now apply IH2.
  - destruct (step_apply_fx s b Hi) as (s' & res & E1 & Hi' & Hx & Hp). rewrite E1. cbn [fst]. now apply IH.
Qed.

(* the fixed code differs from the unfixed one only on the commands of the known class *)
Lemma fixed_agrees oc n s bs :
  inv true n s -> n + 2 < two64 -> no_ovf_in s bs -> apply_fx s bs = apply oc s bs.
Proof.
  intros Hi Hn Ho. unfold apply_fx, apply, no_ovf_in in *. destruct (dec_cmd bs) as [[c rest]|]; [|reflexivity].
  rewrite (iv_live _ _ _ Hi).
  destruct (step_cmd true oc n s c Hi Hn (fun _ => Ho)) as (s' & r & E1 & E2 & _). rewrite E1, <- E2.
  destruct c as [name leader|name nl count|id addr]; try reflexivity.
  cbn [apply_cmd_fx apply_cmd no_ovf] in *.
  destruct (lookup str_cmp name (c_topics (m_cl s))) as [t|] eqn:El; [|reflexivity].
  destruct (lookup_good true n _ name t (iv_topics _ _ _ Hi) El) as [Ht Hc].
  rewrite (rollover_fx_spec t nl count Ht).
  replace ((two64 <=? t_last t + count) || (two64 <=? t_cur t + 1)) with false by lia.
  rewrite (rollover_no_wrap true false t nl count Ht) by (try discriminate; lia). reflexivity.
Qed.
