(* EngineSinceR.v — the AtLeastOnce{persist_every = n} re-delivery bound for histories WITH restarts.
   The numbered lag invariant LN of EngineSince.v is carried over raw (not yet hydrated) states through
   both normalisations ([LNM]); a restart outside block-id drift re-establishes it with the counter
   at 0 (the persisted position resolves exactly to the recovered cursor: PGood); the ledger is the
   one the GM machinery maintains, rolled back at every restart ([gm_ledger]). *)
From W Require Import model.Base model.Engine spec.Queue spec.Crash proofs.EngineBasic proofs.EngineWF proofs.EngineInv proofs.EngineBR proofs.EngineW
  proofs.EngineMain proofs.EngineRec proofs.EngineDisk proofs.EnginePos proofs.EngineGrow proofs.EngineP3 proofs.EngineIdx proofs.EngineBlk
  proofs.EngineNorm proofs.EngineNormW proofs.EngineRaw proofs.EngineRestart proofs.EngineRestartR proofs.EngineReopen proofs.EngineC06 proofs.EngineP3L
  proofs.EngineIdxL proofs.EnginePWL proofs.EngineALO proofs.EngineALO2 proofs.EngineIdxS proofs.EngineSince proofs.EngineSince2
  proofs.EngineGen proofs.EngineGenR proofs.CrashP proofs.AloAccP proofs.EngineCrash proofs.EngineErase proofs.EngineEraseD proofs.EngineEraseR proofs.EngineEraseG.
From Coq Require Import ZArith ZifyBool ZifyN ZifyNat.

(* ------------------------------------------------------------------ small facts *)
Lemma hyd_since x r idx : r_since (hyd x r idx) = r_since r.
Proof.
  unfold hyd, hydrate. destruct r as [ch i o tb tof sn hy]. cbn [r_hydrated r_chain].
  destruct hy; [reflexivity|]. destruct idx as [[tl a off]|]; [|reflexivity]. cbn [p_tail p_a p_off].
  destruct tl; [|reflexivity]. destruct x; cbn [fold_tail set_hydrated set_cur set_tail r_chain];
    destruct (find_id ch a 0); try reflexivity; destruct ch; reflexivity.
Qed.

Lemma nrm_since0 x ts : r_hydrated (reader_of ts) = false -> r_since (reader_of ts) = 0 -> r_since (reader_of (nrm x ts)) = 0.
Proof.
  intros Hh Hs. unfold nrm. rewrite Hh. destruct (ts_index ts); [|exact Hs].
  cbn [reader_of with_reader ts_reader]. now rewrite hyd_since.
Qed.

Lemma id_drift_Nst x c s : id_drift c (Nst x s) = id_drift c s.
Proof.
  unfold id_drift. cbn [Nst s_files s_disk s_topics]. destruct (scan_files _ _ _ _ _ _) as [rc nid].
  induction (s_topics s) as [|[k v] l IH]; cbn [map existsb fst snd]; [reflexivity|]. rewrite IH. f_equal.
  assert (Hw : ts_writer (nrm x v) = ts_writer v) by apply nrm_writer. rewrite Hw.
  assert (Hc : match ts_reader (nrm x v) with Some r => r_chain r | None => [] end = match ts_reader v with Some r => r_chain r | None => [] end).
  { unfold nrm. destruct (r_hydrated (reader_of v)); [reflexivity|]. destruct (ts_index v); [|reflexivity].
    cbn [with_reader ts_reader]. rewrite hyd_chain. unfold reader_of. destruct (ts_reader v); reflexivity. }
  now rewrite Hc.
Qed.

(* ------------------------------------------------------------------ a restart makes the position good *)
Lemma TGM_reopen_PG c nid ts ts' l B Bb rch p :
  cfg_ok c -> TGM c nid ts l B Bb ->
  chain_of ts' = rch -> reader_of ts' = mk_reader rch (startup_cursor rch (ts_index ts)) ->
  ts_index ts' = ts_index ts -> ts_writer ts' = None ->
  map b_ents rch = map b_ents (memne ts) -> map b_id rch = map b_id (memne ts) ->
  Forall (bwf c) rch -> NoDup (map b_id rch) ->
  ts_index ts = Some p -> forall x, PGood c (nrm x ts') p.
Proof.
  intros Hc (Hsc & Hx) Hch Hrd Hix Hwr Hents Hids Hbwf Hnd Eidx. pose proof Hc as (Hh & _).
  assert (Hcne : Forall (fun b => b_ents b <> []) rch).
  { apply Forall_forall. intros b Hin.
    assert (Hi2 : In (b_ents b) (map b_ents (memne ts))) by (rewrite <- Hents; now apply in_map).
    apply in_map_iff in Hi2. destruct Hi2 as (b0 & He0 & Hin0). unfold memne in Hin0. apply filter_In in Hin0.
    destruct Hin0 as (_ & Hne). apply nonempty_b_true in Hne. congruence. }
  assert (Hhy' : r_hydrated (reader_of ts') = false) by (rewrite Hrd; reflexivity).
  rewrite Eidx in *.
  destruct (Hx false) as (_ & (_ & Hlag) & _).
  rewrite nrm_index, Eidx in Hlag. destruct Hlag as (j & bq & pre & Hbq & Hpos0 & Hok0 & Hfrom0). rewrite nrm_memne in Hbq, Hfrom0.
  destruct (nth_error_map_eq b_ents _ _ j bq (eq_sym Hents) Hbq) as (b' & Hb' & He').
  destruct (nth_error_map_eq b_id _ _ j bq (eq_sym Hids) Hbq) as (b'' & Hb'' & Hi').
  rewrite Hb' in Hb''. inversion Hb''; subst b''.
  assert (Hpos : if p_tail p then b_id b' = p_a p else p_a p = N.of_nat j) by (destruct (p_tail p); [congruence|exact (proj1 Hpos0)]).
  assert (Hok : okoff c (b_ents b') (p_off p)) by (now rewrite He').
  intros x.
  assert (Hj : (j < length rch)%nat) by (apply nth_error_Some; congruence).
  assert (Hbw : bwf c b') by (eapply Forall_forall in Hbwf; [exact Hbwf|eapply nth_error_In; eauto]).
  destruct (hyd_mk c x rch (startup_cursor rch (Some p)) p j b' Hb' Hok (proj1 Hbw) Hnd Hpos) as (R1 & R2 & R3 & R4 & R5).
  set (R := hyd x (mk_reader rch (startup_cursor rch (Some p))) (Some p)) in *.
  assert (Hnrm : nrm x ts' = with_reader ts' R) by (unfold nrm; rewrite Hhy', Hix, Hrd; reflexivity).
  rewrite Hnrm. exists j, b'.
  assert (Hm2 : memne (with_reader ts' R) = rch).
  { unfold memne, chain_of, w_list. cbn [reader_of with_reader ts_reader ts_writer]. rewrite R1, Hwr, app_nil_r.
    apply filter_all. eapply Forall_impl; [|exact Hcne]. intros b Hb. now apply nonempty_b_true. }
  rewrite Hm2. split; [exact Hb'|]. split.
  - destruct (p_tail p); [exact Hpos|]. split; [exact Hpos|]. unfold chain_of. cbn [reader_of with_reader ts_reader]. now rewrite R1.
  - split; [exact Hok|]. eapply unread_reopened; eauto.
Qed.

(* after a restart outside block-id drift: nothing lies between the persisted position and the cursor *)
Lemma reopen_LN0 c s g B Bb t x : cfg_ok c -> GM c s g B Bb -> id_drift c s = false ->
  LN c (nrm x (get_ts (reopen c s) t)) /\ r_since (reader_of (nrm x (get_ts (reopen c s) t))) = 0.
Proof.
  intros Hc (Hn & Hd & Hb & Hl & Hall) Hdrift. pose proof Hc as (Hh & Hb0 & _).
  pose proof (di_wf _ _ _ _ _ _ Hd) as Hwf.
  destruct (reopen_shape c s t Hh Hb0 Hwf) as (S1 & S2 & S3 & S4 & S5 & S6 & Hcase). cbn zeta in *.
  set (ts := get_ts s t) in *. set (ts' := get_ts (reopen c s) t) in *.
  destruct Hcase as [(old & Hin & Hold & Hrch)|(H0 & H0')].
  2:{ rewrite H0', nrm_tstate0. split; [exists []; split; reflexivity|reflexivity]. }
  assert (Hhy' : r_hydrated (reader_of ts') = false) by (rewrite S1; reflexivity).
  assert (Hs0 : r_since (reader_of ts') = 0) by (rewrite S1; reflexivity).
  split; [|now apply nrm_since0].
  destruct (reopen_chain c s t Hc Hd Hb Hl) as (C1 & C2 & C3 & C4 & _). cbn zeta in *. fold ts ts' in C1, C2, C3, C4.
  set (rch := chain_of ts') in *.
  destruct (ts_index ts) as [p|] eqn:Eidx.
  - apply (LN_good c _ p); [now rewrite nrm_index, S2| |now apply nrm_since0].
    apply (TGM_reopen_PG c _ ts ts' (lget g t) B Bb rch p Hc (Hall t) eq_refl); auto.
    + now rewrite Eidx.
    + now rewrite Eidx.
    + rewrite C1. apply mblocks_memne.
    + fold rch. rewrite Hrch, Hold. now apply nodrift_ids.
  - assert (Hnrm : nrm x ts' = ts') by (unfold nrm; now rewrite Hhy', S2).
    assert (Hwe : w_ents ts' = []) by (unfold w_ents; now rewrite S3).
    assert (Hun' : unread c ts' = chain_ents rch).
    { unfold unread. rewrite S1. cbn [mk_reader r_idx r_off r_chain startup_cursor fst snd skipn]. rewrite S3.
      fold rch. destruct rch as [|b0 r0]; [reflexivity|]. rewrite Hwe, app_nil_r, ents_from_0. reflexivity. }
    rewrite Hnrm. unfold LN. rewrite S2. exists []. split; [|now rewrite Hs0].
    unfold stream. fold rch. now rewrite Hwe, app_nil_r, Hun'.
Qed.

(* ------------------------------------------------------------------ the numbered lag on raw states *)
Definition LNM (c : Cfg) (n : N) (s : st) : Prop :=
  forall t x, LN c (nrm x (get_ts s t)) /\ r_since (reader_of (nrm x (get_ts s t))) < N.max n 1.

Lemma LNM_init c n : LNM c n init.
Proof. intros t x. change (get_ts init t) with tstate0. rewrite nrm_tstate0. split; [exists []; split; reflexivity|cbn; lia]. Qed.

Lemma GM_GL x c s g B Bb : GM c s g B Bb -> GL c (Nst x s) g B Bb.
Proof.
  intros HG. pose proof (GM_Rel x c s g B Bb HG) as Hrel. destruct HG as (Hn & Hd & Hb & Hl & Hall).
  split; [exact Hrel|]. split; [now apply DIs_Nst|]. split; [now apply BIs_Nst|]. split; [exact Hl|].
  intros t. rewrite get_Nst. destruct (proj2 (Hall t) x) as (_ & (Hcne & Hlg) & _). split; [exact Hcne|].
  destruct (ts_index (nrm x (get_ts s t))); [left; exact Hlg|exact Hlg].
Qed.

Lemma LNM_LNs x c n s : LNM c n s -> LNs c n (Nst x s).
Proof. intros H t. rewrite get_Nst. apply H. Qed.

(* one flavour at a time *)
Lemma LNM_inst x c n be s g B Bb o : cfg_ok c -> n <= u32_max -> GM c s g B Bb -> LNM c n s ->
  rn_only o = true -> api_ok x o = true ->
  match o with OReopen | OBatchRead _ _ _ (Some _) => False | _ => True end ->
  B + N.of_nat (length (offered o)) <= u64_max -> Bb + sum_len (offered o) <= u64_max ->
  forall t, LN c (nrm x (get_ts (fst (step (env_of c (ALO n) be) s o)) t)) /\
            r_since (reader_of (nrm x (get_ts (fst (step (env_of c (ALO n) be) s o)) t))) < N.max n 1.
Proof.
  intros Hc Hn32 HG Hln Hrn Hapi Hsh HB HBb t.
  assert (Hok : op_ok c o) by (destruct o; try exact I; contradiction).
  pose proof (LNs_step c n be (Nst x s) g B Bb o Hc Hn32 (GM_GL x c s g B Bb HG) (LNM_LNs x c n s Hln) Hok Hrn HB HBb) as H.
  rewrite (step_Nst c (ALO n) be x s g B Bb o Hc HG Hapi Hsh) in H. cbn [fst] in H.
  specialize (H t). now rewrite get_Nst in H.
Qed.

Lemma LNM_step c n be s g B Bb o : cfg_ok c -> n <= u32_max -> GM c s g B Bb -> LNM c n s ->
  rn_only o = true -> o <> OReopen ->
  B + N.of_nat (length (offered o)) <= u64_max -> Bb + sum_len (offered o) <= u64_max ->
  LNM c n (fst (step (env_of c (ALO n) be) s o)).
Proof.
  intros Hc Hn32 HG Hln Hrn Hne HB HBb.
  assert (Hread : forall f t, rd f t o -> LNM c n (fst (step (env_of c (ALO n) be) s o))).
  { intros f t Hrd u x. destruct (rd_api f t o Hrd) as (Hapi & Hsh).
    pose proof (LNM_inst f c n be s g B Bb o Hc Hn32 HG Hln Hrn Hapi Hsh HB HBb u) as Hf.
    destruct (read_shape c (ALO n) be f t s g B Bb o Hc HG Hrd) as (A & EA & HA). rewrite EA in *.
    destruct (N.eq_dec u (t_id t)) as [->|Hu].
    - rewrite get_set_same in *. rewrite (nrm_reader_hydrated f A HA) in Hf. now rewrite (nrm_reader_hydrated x A HA).
    - rewrite get_set_other by exact Hu. apply Hln. }
  destruct o as [t e | t es | t ck | t maxb ck [st0|] | t | ]; try congruence.
  - intros u x. apply (LNM_inst x c n be s g B Bb); auto; exact I.
  - intros u x. apply (LNM_inst x c n be s g B Bb); auto; exact I.
  - apply (Hread false t). split; reflexivity.
  - cbn [step env_of v_cfg v_mode v_backend].
    destruct (batch_read_stateless c (ALO n) s t maxb ck st0) as (os & E). rewrite E. cbn [fst].
    intros u x. replace (get_ts (set_ts s (t_id t) (get_ts s (t_id t))) u) with (get_ts s u); [apply Hln|].
    destruct (N.eq_dec u (t_id t)) as [->|Hu]; [now rewrite get_set_same|now rewrite get_set_other].
  - apply (Hread true t). split; reflexivity.
  - intros u x. apply (LNM_inst x c n be s g B Bb); auto; exact I.
Qed.

Lemma LNM_reopen c n s g B Bb : cfg_ok c -> GM c s g B Bb -> id_drift c s = false -> LNM c n (reopen c s).
Proof. intros Hc HG Hd t x. destruct (reopen_LN0 c s g B Bb t x Hc HG Hd) as (A & B0). split; [exact A|]. rewrite B0. lia. Qed.

(* ------------------------------------------------------------------ the ledger of a history with restarts *)
(* the ledger the GM machinery maintains: ledger_step at every operation, rolled back to the recovered
   position ([rbl], proofs/EngineGenR.v) at every restart *)
Fixpoint gm_ledger (v : env) (s : st) (g : lg) (ops : list op) : lg :=
  match ops with
  | [] => g
  | o :: r => gm_ledger v (fst (step v s o))
                (match o with OReopen => map (rbl (v_cfg v) s) g | _ => ledger_step g o (snd (step v s o)) end) r
  end.

Theorem GM_LNM_reachable c n be : cfg_ok c -> n <= u32_max -> forall ops s g B Bb,
  GM c s g B Bb -> LNM c n s -> forallb rn_only ops = true ->
  outside_known (env_of c (ALO n) be) s ops = true ->
  B + N.of_nat (length (offered_all ops)) <= u64_max -> Bb + sum_len (offered_all ops) <= u64_max ->
  GM c (exec (env_of c (ALO n) be) s ops) (gm_ledger (env_of c (ALO n) be) s g ops)
     (B + N.of_nat (length (offered_all ops))) (Bb + sum_len (offered_all ops)) /\
  LNM c n (exec (env_of c (ALO n) be) s ops).
Proof.
  intros Hc Hn32. induction ops as [|o r IH]; intros s g B Bb HG Hln Hrn Hout HB HBb.
  { cbn [exec gm_ledger offered_all length sum_len fold_right]. replace (B + N.of_nat 0) with B by lia. replace (Bb + 0) with Bb by lia. auto. }
  cbn [forallb] in Hrn. apply andb_true_iff in Hrn. destruct Hrn as (Hrn1 & Hrn2).
  cbn [outside_known] in Hout. apply andb_true_iff in Hout. destruct Hout as (Ho & Hout).
  cbn [offered_all] in *. rewrite app_length, Nat2N.inj_add in *. rewrite sum_len_app in *. cbn [exec gm_ledger].
  assert (Hnext : GM c (fst (step (env_of c (ALO n) be) s o))
                    (match o with OReopen => map (rbl c s) g | _ => ledger_step g o (snd (step (env_of c (ALO n) be) s o)) end)
                    (B + N.of_nat (length (offered o))) (Bb + sum_len (offered o)) /\
                  LNM c n (fst (step (env_of c (ALO n) be) s o))).
  { destruct o as [t e | t es | t ck | t maxb ck start | t | ].
    1-5: (match goal with |- context [step _ _ ?o] =>
            split; [apply (GM_step c (ALO n) be s g B Bb o Hc HG I); lia|
                    apply (LNM_step c n be s g B Bb o Hc Hn32 HG Hln Hrn1 ltac:(discriminate)); lia] end).
    cbn [step env_of v_cfg fst offered length sum_len fold_right] in *. apply negb_true_iff in Ho.
    replace (B + N.of_nat 0) with B by lia. replace (Bb + 0) with Bb by lia.
    split; [exact (proj1 (GM_reopen c s g B Bb Hc HG Ho))|exact (LNM_reopen c n s g B Bb Hc HG Ho)]. }
  destruct Hnext as (HG1 & Hln1). cbn [env_of v_cfg] in *.
  destruct (IH _ _ _ _ HG1 Hln1 Hrn2 Hout ltac:(lia) ltac:(lia)) as (HG' & Hln').
  replace (B + (N.of_nat (length (offered o)) + N.of_nat (length (offered_all r)))) with (B + N.of_nat (length (offered o)) + N.of_nat (length (offered_all r))) by lia.
  replace (Bb + (sum_len (offered o) + sum_len (offered_all r))) with (Bb + sum_len (offered o) + sum_len (offered_all r)) by lia.
  auto.
Qed.

(* ------------------------------------------------------------------ the bound *)
(* AtLeastOnce{persist_every = n}; a history with any number of restarts outside block-id drift whose
   consuming reads are read_next calls; then a crash between two operations (= one more restart,
   outside drift): per topic the recovered stream is the appended one, the consumer resumes at a
   position k with k <= l_del (nothing skipped) and l_del - k <= n (at most persist_every entries
   delivered again, l_del counted from the last roll-back), and the entry count the restart rebuilds
   is appended - k (at most n above what truly remains) *)
Theorem crash_after_restarts_alo_bound c n be ops : cfg_ok c -> n <= u32_max ->
  forallb rn_only ops = true ->
  outside_known (env_of c (ALO n) be) init (ops ++ [OReopen]) = true ->
  N.of_nat (length (offered_all ops)) <= u64_max -> sum_len (offered_all ops) <= u64_max ->
  let s := exec (env_of c (ALO n) be) init ops in
  let g := gm_ledger (env_of c (ALO n) be) init [] ops in
  forall t x,
    stream (get_ts (reopen c s) t) = l_app (lget g t) /\
    (l_del (lget g t) <= length (l_app (lget g t)))%nat /\
    unread c (nrm x (get_ts s t)) = skipn (l_del (lget g t)) (l_app (lget g t)) /\
    exists k, (k <= l_del (lget g t))%nat /\ N.of_nat (l_del (lget g t) - k) <= n /\
              N.of_nat (l_del (lget g t) - k) < N.max n 1 /\
              unread c (nrm x (get_ts (reopen c s) t)) = skipn k (l_app (lget g t)) /\
              cnt (get_ts (reopen c s) t) = N.of_nat (length (l_app (lget g t)) - k).
Proof.
  intros Hc Hn32 Hrn Hout HB HBb. cbn zeta. pose proof Hc as (_ & Hb0 & _).
  destruct (outside_known_split (env_of c (ALO n) be) ops init Hout) as (Hout1 & Hdrift). cbn [env_of v_cfg] in Hdrift.
  destruct (GM_LNM_reachable c n be Hc Hn32 ops init [] 0 0 (GM_init c Hb0) (LNM_init c n) Hrn Hout1 ltac:(lia) ltac:(lia)) as (HG & Hln).
  set (s := exec (env_of c (ALO n) be) init ops) in *. set (g := gm_ledger (env_of c (ALO n) be) init [] ops) in *.
  intros t x.
  pose proof HG as (Hn & Hd & Hb & Hl & Hall).
  destruct (proj2 (Hall t) x) as (Hti & _ & Hdl & Hs & Hu & _).
  destruct (Hln t x) as (L1 & L2).
  assert (Hdr : id_drift c (Nst x s) = false) by (now rewrite id_drift_Nst).
  pose proof (reopen_unread_LN c (Nst x s) t x (a_next (s_alloc s)) Hc (proj2 (DIs_Nst x c s) Hd) (proj2 (BIs_Nst x c s) Hb) Hl) as R.
  rewrite get_Nst, reopen_Nst in R. destruct (R Hti L1 Hdr) as (Hst & pre & Hlen & Hpre & (k & Hsk)).
  split; [now rewrite Hst|]. split; [exact Hdl|]. split; [exact Hu|].
  rewrite Hs in Hsk. rewrite Hu in Hpre.
  destruct (skipn_back2 (l_app (lget g t)) pre k (l_del (lget g t)) Hdl ltac:(rewrite <- Hsk; exact Hpre)) as (k' & Hk' & Hdk & Heq).
  exists k'. split; [exact Hk'|]. split; [lia|]. split; [lia|]. split; [now rewrite Hsk, Heq|].
  destruct (GM_reopen c s g _ _ Hc HG Hdrift) as ((_ & _ & _ & _ & Hall') & _).
  destruct (proj2 (Hall' t) x) as (Hti' & _).
  pose proof (ti_cnt _ _ _ Hti') as Hcnt. unfold cnt in Hcnt |- *. rewrite nrm_count in Hcnt. rewrite Hcnt, Hsk.
  assert (E : skipn k (l_app (lget g t)) = skipn k' (l_app (lget g t))) by congruence.
  rewrite E, skipn_length. reflexivity.
Qed.

(* the count query right after that restart (C15's restart clause, AtLeastOnce): appended minus the
   persisted position, i.e. at most persist_every above what the consumer truly has left *)
Corollary count_after_restarts_alo c n be ops (t : topic) : cfg_ok c -> n <= u32_max ->
  forallb rn_only ops = true ->
  outside_known (env_of c (ALO n) be) init (ops ++ [OReopen]) = true ->
  N.of_nat (length (offered_all ops)) <= u64_max -> sum_len (offered_all ops) <= u64_max ->
  let s := exec (env_of c (ALO n) be) init ops in
  let l := lget (gm_ledger (env_of c (ALO n) be) init [] ops) (t_id t) in
  length (unread c (nrm false (get_ts s (t_id t)))) = (length (l_app l) - l_del l)%nat /\
  exists k, (k <= l_del l)%nat /\ N.of_nat (l_del l - k) <= n /\
    snd (step (env_of c (ALO n) be) (reopen c s) (OCount t)) = RNum (N.of_nat (length (l_app l) - k)).
Proof.
  intros Hc Hn32 Hrn Hout HB HBb. cbn zeta.
  destruct (crash_after_restarts_alo_bound c n be ops Hc Hn32 Hrn Hout HB HBb (t_id t) false) as (_ & Hdl & Hu & k & Hk & Hb1 & _ & _ & Hcnt).
  split; [now rewrite Hu, skipn_length|]. exists k. split; [exact Hk|]. split; [exact Hb1|].
  cbn [step snd]. unfold cnt in Hcnt. now rewrite Hcnt.
Qed.
