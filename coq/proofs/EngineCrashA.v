(* Crash points inside a CONSUMING read (read_next or batch read), ANY mode (AtLeastOnce{n} in
   particular), after any admissible restart-free history outside block-id drift.  The only durable
   effect of a read is the index persist (temp file, fsync, atomic rename, directory fsync), so the
   crash image is [reopen] of the state before the read or of the state after it.  In both images the
   stream is the acknowledged stream and the consumer resumes at a position k that is at or before the
   first entry not yet handed out — counting what the in-flight read was about to hand out as handed
   out for the new image — : nothing behind the in-flight read is ever skipped. *)
From W Require Import model.Base model.Engine spec.Queue spec.Crash proofs.EngineBasic proofs.EngineWF proofs.EngineInv proofs.EngineBR proofs.EngineW
  proofs.EngineMain proofs.EngineRec proofs.EngineDisk proofs.EnginePos proofs.EngineBlk proofs.EngineNorm proofs.EngineRestart
  proofs.EngineReopen proofs.EngineC06 proofs.CrashP proofs.EngineNormW proofs.EngineRaw proofs.EngineP3L proofs.EngineIdxL proofs.EngineALO proofs.EngineALO2 proofs.AloAccP
  proofs.EngineGen proofs.EngineGenR proofs.EngineCrash.
From Coq Require Import ZArith ZifyBool ZifyN ZifyNat.
Local Open Scope N_scope.

Definition consuming_read (o : op) : bool :=
  match o with
  | ORead _ true => true
  | OBatchRead _ _ true None => true
  | _ => false
  end.

Lemma ledger_step_read_mono g o r t0 : consuming_read o = true ->
  l_app (lget (ledger_step g o r) t0) = l_app (lget g t0) /\
  (l_del (lget g t0) <= l_del (lget (ledger_step g o r) t0))%nat.
Proof.
  intros Hcr. destruct o as [t e | t es | t ck | t maxb ck start | t | ]; try discriminate Hcr.
  - destruct ck; [|discriminate]. destruct r; cbn [ledger_step]; try (split; [reflexivity|lia]).
    destruct (N.eq_dec t0 (t_id t)) as [->|Hne].
    + rewrite lget_lset_same. cbn. split; [reflexivity|lia].
    + rewrite lget_lset_other by (intro H; apply Hne; now rewrite H). split; [reflexivity|lia].
  - destruct ck; [|discriminate]. destruct start; [discriminate|]. destruct r; cbn [ledger_step]; try (split; [reflexivity|lia]).
    destruct (N.eq_dec t0 (t_id t)) as [->|Hne].
    + rewrite lget_lset_same. cbn. split; [reflexivity|lia].
    + rewrite lget_lset_other by (intro H; apply Hne; now rewrite H). split; [reflexivity|lia].
Qed.

Lemma id_drift_consuming_read c m be s o : cfg_ok c -> DIs c s -> BIs c s -> consuming_read o = true ->
  id_drift c (fst (step (env_of c m be) s o)) = id_drift c s.
Proof.
  intros Hc Hd Hb Hcr. destruct o as [t e | t es | t ck | t maxb ck start | t | ]; try discriminate Hcr;
    cbn [step env_of v_cfg v_mode]; [now apply id_drift_read|now apply id_drift_batch_read].
Qed.

Theorem crash_inside_consuming_read_any_mode c m be ops o : cfg_ok c -> Forall (op_ok c) ops ->
  consuming_read o = true ->
  N.of_nat (length (offered_all ops)) <= u64_max -> sum_len (offered_all ops) <= u64_max ->
  id_drift c (exec (env_of c m be) init ops) = false ->
  let v := env_of c m be in
  let s := exec v init ops in
  let s' := fst (step v s o) in
  let g := ledger_run [] (trace v init ops) in
  let g' := ledger_step g o (snd (step v s o)) in
  forall image, image = reopen c s \/ image = reopen c s' ->
  forall t0 x,
    stream (get_ts image t0) = l_app (lget g t0) /\
    exists k, (k <= l_del (lget g' t0))%nat /\
              unread c (nrm x (get_ts image t0)) = skipn k (l_app (lget g t0)).
Proof.
  intros Hc Hok Hcr HB HBb Hdrift. cbn zeta. pose proof Hc as (_ & Hb0 & _).
  intros image [->| ->] t0 x.
  - destruct (crash_between_operations_never_skips_nd c m be ops Hc Hok HB HBb Hdrift t0 x) as (Hs & k & Hk & Hu).
    split; [exact Hs|]. exists k. split; [|exact Hu].
    pose proof (proj2 (ledger_step_read_mono (ledger_run [] (trace (env_of c m be) init ops)) o
                  (snd (step (env_of c m be) (exec (env_of c m be) init ops) o)) t0 Hcr)). lia.
  - destruct (GL_reachable c m be Hc ops init [] 0 0 (GL_init c Hb0) Hok ltac:(lia) ltac:(lia)) as (B' & Bb' & (_ & Hd & Hb & _)).
    assert (Hoko : op_ok c o) by (destruct o; try discriminate Hcr; exact I).
    assert (Hoff : offered_all (ops ++ [o]) = offered_all ops).
    { rewrite offered_all_app. destruct o; try discriminate Hcr; cbn; apply app_nil_r. }
    assert (Hok2 : Forall (op_ok c) (ops ++ [o])) by (apply Forall_app; split; [exact Hok|repeat constructor; exact Hoko]).
    assert (Hdrift2 : id_drift c (exec (env_of c m be) init (ops ++ [o])) = false).
    { rewrite exec_app. cbn [exec]. rewrite id_drift_consuming_read by assumption. exact Hdrift. }
    pose proof (crash_between_operations_never_skips_nd c m be (ops ++ [o]) Hc Hok2
                  ltac:(rewrite Hoff; exact HB) ltac:(rewrite Hoff; exact HBb) Hdrift2 t0 x) as H2.
    cbn zeta in H2. rewrite exec_app, trace_app, ledger_run_app in H2. cbn [exec trace ledger_run] in H2.
    destruct (step (env_of c m be) (exec (env_of c m be) init ops) o) as [s1 r] eqn:Es. cbn [fst snd ledger_run] in *.
    destruct H2 as (Hs & k & Hk & Hu).
    rewrite (proj1 (ledger_step_read_mono (ledger_run [] (trace (env_of c m be) init ops)) o r t0 Hcr)) in Hs, Hu.
    split; [exact Hs|]. exists k. split; [exact Hk|exact Hu].
Qed.

(* ------------------------------------------------------------------ any mode, histories WITH restarts *)
(* GM along a history with restarts, with the explicit ledger [gm_ledger] (EngineSinceR.v): ledger_step at every
   operation, rolled back to the recovered position at every restart *)
From W Require Import proofs.EngineSinceR.

Theorem GM_ledger_reachable c m be : cfg_ok c -> forall ops s g B Bb,
  GM c s g B Bb -> outside_known (env_of c m be) s ops = true ->
  B + N.of_nat (length (offered_all ops)) <= u64_max -> Bb + sum_len (offered_all ops) <= u64_max ->
  GM c (exec (env_of c m be) s ops) (gm_ledger (env_of c m be) s g ops)
     (B + N.of_nat (length (offered_all ops))) (Bb + sum_len (offered_all ops)).
Proof.
  intros Hc. induction ops as [|o r IH]; intros s g B Bb HG Hout HB HBb.
  { cbn [exec gm_ledger offered_all length sum_len fold_right]. replace (B + N.of_nat 0) with B by lia. replace (Bb + 0) with Bb by lia. exact HG. }
  cbn [outside_known] in Hout. apply andb_true_iff in Hout. destruct Hout as (Ho & Hout).
  cbn [offered_all] in *. rewrite app_length, Nat2N.inj_add in *. rewrite sum_len_app in *. cbn [exec gm_ledger].
  assert (Hnext : GM c (fst (step (env_of c m be) s o))
                    (match o with OReopen => map (rbl (v_cfg (env_of c m be)) s) g | _ => ledger_step g o (snd (step (env_of c m be) s o)) end)
                    (B + N.of_nat (length (offered o))) (Bb + sum_len (offered o))).
  { destruct o as [t e | t es | t ck | t maxb ck start | t | ].
    1-5: (match goal with |- context [step _ _ ?o] =>
            apply (GM_step c m be s g B Bb o Hc HG I); lia end).
    cbn [step env_of v_cfg fst offered length sum_len fold_right] in *. apply negb_true_iff in Ho.
    replace (B + N.of_nat 0) with B by lia. replace (Bb + 0) with Bb by lia.
    exact (proj1 (GM_reopen c s g B Bb Hc HG Ho)). }
  pose proof (IH _ _ _ _ Hnext Hout ltac:(lia) ltac:(lia)) as HG'.
  replace (B + (N.of_nat (length (offered o)) + N.of_nat (length (offered_all r)))) with (B + N.of_nat (length (offered o)) + N.of_nat (length (offered_all r))) by lia.
  replace (Bb + (sum_len (offered o) + sum_len (offered_all r))) with (Bb + sum_len (offered o) + sum_len (offered_all r)) by lia.
  exact HG'.
Qed.

(* crash BETWEEN two operations of ANY history with restarts outside block-id drift, ANY mode: the fresh
   process holds the acknowledged stream and hands the consumer a suffix starting at or before its true
   position ([l_del] of the rolled-back ledger): entries may be delivered again, none is skipped *)
Theorem crash_between_operations_never_skips_with_restarts c m be ops : cfg_ok c ->
  outside_known (env_of c m be) init (ops ++ [OReopen]) = true ->
  N.of_nat (length (offered_all ops)) <= u64_max -> sum_len (offered_all ops) <= u64_max ->
  let s := exec (env_of c m be) init ops in
  let g := gm_ledger (env_of c m be) init [] ops in
  forall t x,
    stream (get_ts (reopen c s) t) = l_app (lget g t) /\
    (l_del (lget g t) <= length (l_app (lget g t)))%nat /\
    unread c (nrm x (get_ts s t)) = skipn (l_del (lget g t)) (l_app (lget g t)) /\
    exists k, (k <= l_del (lget g t))%nat /\
              unread c (nrm x (get_ts (reopen c s) t)) = skipn k (l_app (lget g t)).
Proof.
  intros Hc Hout HB HBb. cbn zeta. pose proof Hc as (_ & Hb0 & _).
  destruct (outside_known_split _ ops init Hout) as (Hout1 & Hk). cbn [env_of v_cfg] in Hk.
  pose proof (GM_ledger_reachable c m be Hc ops init [] 0 0 (GM_init c Hb0) Hout1 ltac:(lia) ltac:(lia)) as HG.
  set (s := exec (env_of c m be) init ops) in *. set (g := gm_ledger (env_of c m be) init [] ops) in *.
  destruct (GM_reopen c s g _ _ Hc HG Hk) as (HG' & Hrb).
  intros t x. destruct (Hrb t) as (Ha & Hdl).
  pose proof HG as (_ & _ & _ & _ & Hall). pose proof HG' as (_ & _ & _ & _ & Hall').
  destruct (proj2 (Hall t) x) as (_ & _ & Hle & _ & Hun & _).
  destruct (proj2 (Hall' t) x) as (_ & _ & _ & Hst' & Hun' & _).
  rewrite nrm_stream in Hst'. rewrite Ha in Hst', Hun'.
  repeat split; [exact Hst'|exact Hle|exact Hun|].
  exists (l_del (lget (map (rbl c s) g) t)). split; [exact Hdl|exact Hun'].
Qed.

Lemma gm_ledger_app v : forall a b s g, gm_ledger v s g (a ++ b) = gm_ledger v (exec v s a) (gm_ledger v s g a) b.
Proof. induction a as [|o r IH]; intros b s g; cbn [app gm_ledger exec]; [reflexivity|apply IH]. Qed.

(* crash points INSIDE a consuming read, ANY mode, after ANY history WITH restarts outside block-id drift *)
Theorem crash_inside_consuming_read_with_restarts c m be ops o : cfg_ok c ->
  consuming_read o = true ->
  outside_known (env_of c m be) init (ops ++ [OReopen]) = true ->
  N.of_nat (length (offered_all ops)) <= u64_max -> sum_len (offered_all ops) <= u64_max ->
  let v := env_of c m be in
  let s := exec v init ops in
  let s' := fst (step v s o) in
  let g := gm_ledger v init [] ops in
  let g' := ledger_step g o (snd (step v s o)) in
  forall image, image = reopen c s \/ image = reopen c s' ->
  forall t0 x,
    stream (get_ts image t0) = l_app (lget g t0) /\
    exists k, (k <= l_del (lget g' t0))%nat /\
              unread c (nrm x (get_ts image t0)) = skipn k (l_app (lget g t0)).
Proof.
  intros Hc Hcr Hout HB HBb. cbn zeta. pose proof Hc as (_ & Hb0 & _).
  intros image [->| ->] t0 x.
  - destruct (crash_between_operations_never_skips_with_restarts c m be ops Hc Hout HB HBb t0 x) as (Hs & _ & _ & k & Hk & Hu).
    split; [exact Hs|]. exists k. split; [|exact Hu].
    pose proof (proj2 (ledger_step_read_mono (gm_ledger (env_of c m be) init [] ops) o
                  (snd (step (env_of c m be) (exec (env_of c m be) init ops) o)) t0 Hcr)). lia.
  - destruct (outside_known_split _ ops init Hout) as (Hout1 & Hk). cbn [env_of v_cfg] in Hk.
    pose proof (GM_ledger_reachable c m be Hc ops init [] 0 0 (GM_init c Hb0) Hout1 ltac:(lia) ltac:(lia)) as (_ & Hd & Hb & _).
    assert (Hoff : offered_all (ops ++ [o]) = offered_all ops).
    { rewrite offered_all_app. destruct o; try discriminate Hcr; cbn; apply app_nil_r. }
    assert (Hout2 : outside_known (env_of c m be) init ((ops ++ [o]) ++ [OReopen]) = true).
    { rewrite outside_known_app. apply andb_true_iff. split.
      - rewrite outside_known_app, Hout1. destruct o; try discriminate Hcr; reflexivity.
      - cbn [outside_known]. rewrite exec_app. cbn [exec env_of v_cfg].
        rewrite id_drift_consuming_read by assumption. rewrite Hk. reflexivity. }
    pose proof (crash_between_operations_never_skips_with_restarts c m be (ops ++ [o]) Hc Hout2
                  ltac:(rewrite Hoff; exact HB) ltac:(rewrite Hoff; exact HBb) t0 x) as H2.
    cbn zeta in H2. rewrite exec_app, gm_ledger_app in H2. cbn [exec gm_ledger] in H2.
    assert (Hls : (match o with OReopen => map (rbl (v_cfg (env_of c m be)) (exec (env_of c m be) init ops)) (gm_ledger (env_of c m be) init [] ops)
                   | _ => ledger_step (gm_ledger (env_of c m be) init [] ops) o (snd (step (env_of c m be) (exec (env_of c m be) init ops) o)) end)
                  = ledger_step (gm_ledger (env_of c m be) init [] ops) o (snd (step (env_of c m be) (exec (env_of c m be) init ops) o)))
      by (destruct o; try discriminate Hcr; reflexivity).
    rewrite Hls in H2. clear Hls.
    destruct H2 as (Hs & _ & _ & k & Hk2 & Hu).
    rewrite (proj1 (ledger_step_read_mono (gm_ledger (env_of c m be) init [] ops) o _ t0 Hcr)) in Hs, Hu.
    split; [exact Hs|]. exists k. split; [exact Hk2|exact Hu].
Qed.
