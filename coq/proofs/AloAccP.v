(* AloAccP.v — spec-level soundness of the AtLeastOnce acceptor: a trace that is explained by
   ledgers whose consumer position only ever moves back at restarts is accepted by c06alo_ok. *)
From W Require Import model.Base model.Engine spec.Queue proofs.EngineMain.
From Coq Require Import ZArith ZifyBool ZifyN ZifyNat.

(* a restart may move consumer positions back, never forward, and keeps what was appended *)
Definition RB (g g' : lg) : Prop :=
  forall t, l_app (lget g' t) = l_app (lget g t) /\ (l_del (lget g' t) <= l_del (lget g t))%nat.

Definition WFg (g : lg) : Prop := forall t, (l_del (lget g t) <= length (l_app (lget g t)))%nat.

(* the trace is explained step by step: every non-restart step satisfies the exactly-once step
   condition c01_step_ok w.r.t. the current ledger (which then advances by ledger_step); at a restart
   the ledger is replaced by a rolled-back one *)
Fixpoint LedgerRun (g : lg) (tr : list (op * result)) : Prop :=
  match tr with
  | [] => True
  | (o, r) :: rest =>
    match o with
    | OReopen => exists g', RB g g' /\ WFg g' /\ LedgerRun g' rest
    | _ => c01_step_ok g o r = true /\ WFg (ledger_step g o r) /\ LedgerRun (ledger_step g o r) rest
    end
  end.

(* acceptor state vs ledger *)
Definition AI (g : lg) (ag : alg) (fresh : list N) : Prop :=
  forall t, al_app (aget ag t) = l_app (lget g t) /\
            (if existsb (N.eqb t) fresh then (l_del (lget g t) <= max_pos (al_pos (aget ag t)))%nat
             else In (l_del (lget g t)) (al_pos (aget ag t))) /\
            (existsb (N.eqb t) fresh = true -> In t (map fst ag)).

Lemma AI_init : AI [] [] [].
Proof. intros t. cbn. split; [reflexivity|]. split; [now left|discriminate]. Qed.

(* ------------------------------------------------------------------ assoc-list facts *)
Lemma aget_aset_same g t l : aget (aset g t l) t = l.
Proof.
  unfold aget, aset. induction g as [|[k v] g IH]; cbn.
  - now rewrite N.eqb_refl.
  - destruct (k =? t) eqn:E; cbn; [now rewrite N.eqb_refl|]. rewrite E. exact IH.
Qed.
Lemma aget_aset_other g t t' l : t' <> t -> aget (aset g t l) t' = aget g t'.
Proof.
  intros Hne. unfold aget, aset. induction g as [|[k v] g IH]; cbn.
  - replace (t =? t') with false by lia. reflexivity.
  - destruct (k =? t) eqn:E; cbn.
    + replace (t =? t') with false by lia. replace (k =? t') with false by lia. reflexivity.
    + destruct (k =? t'); [reflexivity|exact IH].
Qed.
Lemma in_fst_aset_same g t l : In t (map fst (aset g t l)).
Proof.
  unfold aset. induction g as [|[k v] g IH]; cbn.
  - now left.
  - destruct (k =? t); cbn; [now left|now right].
Qed.
Lemma in_fst_aset_mono g t l t' : In t' (map fst g) -> In t' (map fst (aset g t l)).
Proof.
  unfold aset. induction g as [|[k v] g IH]; cbn.
  - intros [].
  - destruct (k =? t) eqn:E; cbn.
    + intros [H|H]; [left; lia|now right].
    + intros [H|H]; [now left|right; auto].
Qed.
Lemma aget_notin g t : ~ In t (map fst g) -> aget g t = {| al_app := []; al_pos := [0%nat] |}.
Proof.
  unfold aget. induction g as [|[k v] g IH]; cbn; [reflexivity|].
  intros H. destruct (k =? t) eqn:E.
  - exfalso. apply H. left. lia.
  - apply IH. intros H'. apply H. now right.
Qed.

Lemma in_le_max_pos x l : In x l -> (x <= max_pos l)%nat.
Proof.
  unfold max_pos. induction l as [|a l IH]; cbn; [intros []|].
  intros [H|H]; [subst; lia|]. specialize (IH H). lia.
Qed.

Lemma existsb_eqb_in t l : existsb (N.eqb t) l = true <-> In t l.
Proof.
  rewrite existsb_exists. split.
  - intros (x & Hx & E). apply N.eqb_eq in E. now subst.
  - intros H. exists t. split; [exact H|apply N.eqb_refl].
Qed.
Lemma existsb_filter_other t t' f :
  t' <> t -> existsb (N.eqb t') (filter (fun x => negb (x =? t)) f) = existsb (N.eqb t') f.
Proof.
  intros Hne. induction f as [|a f IH]; cbn; [reflexivity|].
  destruct (a =? t) eqn:E; cbn.
  - replace (t' =? a) with false by lia. exact IH.
  - now rewrite IH.
Qed.
Lemma existsb_filter_same t f : existsb (N.eqb t) (filter (fun x => negb (x =? t)) f) = false.
Proof.
  induction f as [|a f IH]; cbn; [reflexivity|].
  destruct (a =? t) eqn:E; cbn; [exact IH|].
  replace (t =? a) with false by lia. exact IH.
Qed.

(* ------------------------------------------------------------------ appends *)
Lemma AI_app g ag fresh t es :
  AI g ag fresh ->
  AI (lset g t {| l_app := l_app (lget g t) ++ es; l_del := l_del (lget g t) |})
     (aset ag t {| al_app := al_app (aget ag t) ++ es; al_pos := al_pos (aget ag t) |}) fresh.
Proof.
  intros H t'. destruct (N.eq_dec t' t) as [->|Hne].
  - rewrite aget_aset_same, lget_lset_same. cbn [al_app al_pos l_app l_del].
    destruct (H t) as (A & B & C). split; [now rewrite A|]. split; [exact B|].
    intros _. apply in_fst_aset_same.
  - rewrite aget_aset_other, lget_lset_other by exact Hne.
    destruct (H t') as (A & B & C). split; [exact A|]. split; [exact B|].
    intros E. apply in_fst_aset_mono. auto.
Qed.

(* ------------------------------------------------------------------ consuming reads *)
Definition rd (ag : alg) (fresh : list N) (t : N) (os : list out) : option (alg * list N) :=
  let l := aget ag t in
  let cands := if existsb (N.eqb t) fresh then upto (max_pos (al_pos l)) else al_pos l in
  match filter (matches_at os (al_app l)) cands with
  | [] => None
  | ok => Some (aset ag t {| al_app := al_app l; al_pos := map (fun d => (d + length os)%nat) ok |},
                filter (fun x => negb (x =? t)) fresh)
  end.

Lemma step_read ag fresh t r os :
  outs_of_result r = Some os -> c06alo_step ag fresh (ORead t true) r = rd ag fresh (t_id t) os.
Proof. intros H. cbn [c06alo_step]. rewrite H. reflexivity. Qed.
Lemma step_bread ag fresh t m r os :
  outs_of_result r = Some os -> c06alo_step ag fresh (OBatchRead t m true None) r = rd ag fresh (t_id t) os.
Proof. intros H. cbn [c06alo_step]. rewrite H. reflexivity. Qed.

Lemma rd_ok g g' ag fresh t os :
  AI g ag fresh ->
  matches_at os (l_app (lget g t)) (l_del (lget g t)) = true ->
  (forall t', l_app (lget g' t') = l_app (lget g t') /\
              l_del (lget g' t') = (if t' =? t then (l_del (lget g t') + length os)%nat else l_del (lget g t'))) ->
  exists ag' f', rd ag fresh t os = Some (ag', f') /\ AI g' ag' f'.
Proof.
  intros H M G. destruct (H t) as (A & B & C). unfold rd.
  set (cands := if existsb (N.eqb t) fresh then upto (max_pos (al_pos (aget ag t))) else al_pos (aget ag t)).
  assert (Hin : In (l_del (lget g t)) cands).
  { subst cands. destruct (existsb (N.eqb t) fresh); [|exact B]. unfold upto. apply in_seq. lia. }
  assert (Hf : In (l_del (lget g t)) (filter (matches_at os (al_app (aget ag t))) cands)).
  { apply filter_In. split; [exact Hin|]. rewrite A. exact M. }
  destruct (filter (matches_at os (al_app (aget ag t))) cands) as [|a ok] eqn:F; [contradiction|].
  do 2 eexists. split; [reflexivity|].
  intros t'. destruct (G t') as (G1 & G2). destruct (N.eq_dec t' t) as [->|Hne].
  - rewrite aget_aset_same, existsb_filter_same. cbn [al_app al_pos].
    rewrite G1, G2, N.eqb_refl. split; [exact A|]. split; [|discriminate].
    apply (in_map (fun d => (d + length os)%nat)) in Hf. exact Hf.
  - rewrite aget_aset_other, existsb_filter_other by exact Hne.
    replace (t' =? t) with false in G2 by lia. rewrite G1, G2.
    destruct (H t') as (A' & B' & C'). split; [exact A'|]. split; [exact B'|].
    intros E. apply in_fst_aset_mono. auto.
Qed.

(* ledger after a consuming read, projection-wise *)
Lemma lset_proj g t a d t' :
  a = l_app (lget g t) ->
  l_app (lget (lset g t {| l_app := a; l_del := d |}) t') = l_app (lget g t') /\
  l_del (lget (lset g t {| l_app := a; l_del := d |}) t') = (if t' =? t then d else l_del (lget g t')).
Proof.
  intros ->. destruct (N.eq_dec t' t) as [->|Hne].
  - rewrite lget_lset_same, N.eqb_refl. cbn [l_app l_del]. auto.
  - rewrite lget_lset_other by exact Hne. replace (t' =? t) with false by lia. auto.
Qed.
Lemma same_proj (g : lg) t t' :
  l_app (lget g t') = l_app (lget g t') /\
  l_del (lget g t') = (if t' =? t then (l_del (lget g t') + @length out [])%nat else l_del (lget g t')).
Proof. split; [reflexivity|]. cbn [length]. destruct (t' =? t); lia. Qed.

Lemma lset_proj' g t n t' :
  l_app (lget (lset g t {| l_app := l_app (lget g t); l_del := l_del (lget g t) + n |}) t') = l_app (lget g t') /\
  l_del (lget (lset g t {| l_app := l_app (lget g t); l_del := l_del (lget g t) + n |}) t') =
    (if t' =? t then (l_del (lget g t') + n)%nat else l_del (lget g t')).
Proof.
  destruct (lset_proj g t (l_app (lget g t)) (l_del (lget g t) + n)%nat t' eq_refl) as (P & Q).
  split; [exact P|]. rewrite Q. destruct (t' =? t) eqn:E; [|reflexivity].
  replace t' with t by lia. reflexivity.
Qed.

Lemma c01_read_matches g t r :
  c01_step_ok g (ORead t true) r = true ->
  exists os, outs_of_result r = Some os /\
    matches_at os (l_app (lget g (t_id t))) (l_del (lget g (t_id t))) = true /\
    forall t', l_app (lget (ledger_step g (ORead t true) r) t') = l_app (lget g t') /\
      l_del (lget (ledger_step g (ORead t true) r) t') =
        (if t' =? t_id t then (l_del (lget g t') + length os)%nat else l_del (lget g t')).
Proof.
  cbn [c01_step_ok]. unfold remaining. destruct r; try discriminate.
  - intros H. exists []. split; [reflexivity|]. split.
    + cbn [matches_at]. destruct (skipn _ _); [reflexivity|discriminate].
    + intros t'. cbn [ledger_step]. apply same_proj.
  - intros H. exists [o]. split; [reflexivity|]. split.
    + cbn [matches_at length]. destruct (skipn _ _) as [|e rest]; [discriminate|].
      cbn. now rewrite H.
    + intros t'. cbn [ledger_step length].
      replace (S (l_del (lget g (t_id t)))) with (l_del (lget g (t_id t)) + 1)%nat by lia.
      apply lset_proj'.
Qed.

Lemma c01_bread_matches g t m r :
  c01_step_ok g (OBatchRead t m true None) r = true ->
  exists os, outs_of_result r = Some os /\
    matches_at os (l_app (lget g (t_id t))) (l_del (lget g (t_id t))) = true /\
    forall t', l_app (lget (ledger_step g (OBatchRead t m true None) r) t') = l_app (lget g t') /\
      l_del (lget (ledger_step g (OBatchRead t m true None) r) t') =
        (if t' =? t_id t then (l_del (lget g t') + length os)%nat else l_del (lget g t')).
Proof.
  cbn [c01_step_ok]. unfold remaining. destruct r; try discriminate.
  intros H. exists os. split; [reflexivity|]. split.
  - unfold matches_at. exact H.
  - intros t'. cbn [ledger_step]. apply lset_proj'.
Qed.

(* ------------------------------------------------------------------ restart *)
Lemma AI_reopen g g' ag fresh :
  WFg g' -> RB g g' -> AI g ag fresh -> AI g' ag (map fst ag).
Proof.
  intros W R H t. destruct (R t) as (R1 & R2). destruct (H t) as (A & B & C).
  split; [now rewrite R1|]. split; [|apply existsb_eqb_in].
  destruct (existsb (N.eqb t) (map fst ag)) eqn:E.
  - destruct (existsb (N.eqb t) fresh); [lia|]. apply in_le_max_pos in B. lia.
  - assert (N : ~ In t (map fst ag)).
    { intros N. apply existsb_eqb_in in N. congruence. }
    rewrite (aget_notin _ _ N) in *. cbn [al_app al_pos] in *.
    specialize (W t). rewrite R1, <- A in W. cbn [length] in W. left. lia.
Qed.

(* ------------------------------------------------------------------ main *)
Theorem alo_accepts : forall tr g ag fresh,
  WFg g -> AI g ag fresh -> LedgerRun g tr -> c06alo_ok_from ag fresh tr = true.
Proof.
  induction tr as [|[o r] rest IH]; intros g ag fresh W H L; [reflexivity|].
  cbn [c06alo_ok_from]. cbn [LedgerRun] in L.
  destruct o as [t e|t es|t ck|t m ck start|t|].
  - (* OAppend *)
    destruct L as (_ & W' & L). cbn [c06alo_step].
    destruct r; cbn [ledger_step] in *; try (eapply IH; eassumption).
    eapply IH; [exact W'| |exact L]. apply AI_app. exact H.
  - (* OBatch *)
    destruct L as (_ & W' & L). cbn [c06alo_step].
    destruct r; cbn [ledger_step] in *; try (eapply IH; eassumption).
    eapply IH; [exact W'| |exact L]. apply AI_app. exact H.
  - (* ORead *)
    destruct L as (Hc & W' & L). destruct ck.
    + destruct (c01_read_matches _ _ _ Hc) as (os & Ho & M & G).
      rewrite (step_read _ _ _ _ _ Ho).
      destruct (rd_ok _ _ _ _ _ _ H M G) as (ag' & f' & -> & H').
      eapply IH; eassumption.
    + cbn [c06alo_step]. destruct r; cbn [ledger_step] in *; eapply IH; eassumption.
  - (* OBatchRead *)
    destruct L as (Hc & W' & L). destruct ck, start as [s|].
    + cbn [c06alo_step]. destruct r; cbn [ledger_step] in *; eapply IH; eassumption.
    + destruct (c01_bread_matches _ _ _ _ Hc) as (os & Ho & M & G).
      rewrite (step_bread _ _ _ _ _ _ Ho).
      destruct (rd_ok _ _ _ _ _ _ H M G) as (ag' & f' & -> & H').
      eapply IH; eassumption.
    + cbn [c06alo_step]. destruct r; cbn [ledger_step] in *; eapply IH; eassumption.
    + cbn [c06alo_step]. destruct r; cbn [ledger_step] in *; eapply IH; eassumption.
  - (* OCount *)
    destruct L as (_ & W' & L). cbn [c06alo_step].
    destruct r; cbn [ledger_step] in *; eapply IH; eassumption.
  - (* OReopen *)
    destruct L as (g' & R & W' & L). cbn [c06alo_step].
    eapply IH; [exact W'| |exact L]. eapply AI_reopen; eassumption.
Qed.

Corollary alo_accepts_init tr : LedgerRun [] tr -> c06alo_ok tr = true.
Proof.
  intros L. unfold c06alo_ok. apply (alo_accepts tr [] [] []); [|exact AI_init|exact L].
  intros t. cbn. lia.
Qed.
