(* EngineALO.v — any consistency mode (AtLeastOnce in particular), restart-free history followed by a
   crash between two operations / a clean restart: the persisted position never runs AHEAD of the
   consumer, so after the restart the consumer is handed a suffix of the acknowledged stream that
   starts at or before the first entry it had not been handed yet: nothing is skipped. *)
From W Require Import model.Base model.Engine spec.Queue proofs.EngineBasic proofs.EngineWF proofs.EngineInv proofs.EngineBR proofs.EngineW
  proofs.EngineMain proofs.EngineRec proofs.EngineDisk proofs.EnginePos proofs.EngineGrow proofs.EngineP3 proofs.EngineIdx proofs.EngineBlk
  proofs.EngineNorm proofs.EngineNormW proofs.EngineRaw proofs.EngineRestart proofs.EngineReopen proofs.EngineC06 proofs.EngineP3L.
From Coq Require Import ZArith ZifyBool ZifyN ZifyNat.

(* ------------------------------------------------------------------ the lagging invariant: easy facts *)
Lemma P3_P3L c nid T : P3 c nid T -> P3L c nid T.
Proof.
  intros (Hc & H). split; [exact Hc|]. destruct (ts_index T) as [p|].
  - destruct H as [(j & b & A1 & A2 & A3 & A4)|[H|H]]; [left|right; left; exact H|right; right; exact H].
    exists j, b, []. rewrite <- A4. auto.
  - exists []. now rewrite H.
Qed.

(* reads: same chain, writer, position; what is unread shrinks at its front *)
Lemma P3L_suffix c nid T T' d : chain_of T' = chain_of T -> ts_writer T' = ts_writer T -> ts_index T' = ts_index T ->
  unread c T = d ++ unread c T' -> P3L c nid T -> P3L c nid T'.
Proof.
  intros Hc Hw Hi Hu (Hcne & H).
  assert (Hwl : w_list T' = w_list T) by (unfold w_list; now rewrite Hw).
  assert (Hm : memne T' = memne T) by (unfold memne; now rewrite Hc, Hwl).
  assert (Hs : stream T' = stream T) by (unfold stream, w_ents; now rewrite Hc, Hw).
  split; [unfold CNE; now rewrite Hc|]. rewrite Hi. destruct (ts_index T) as [p|].
  - destruct H as [(j & b & pre & A1 & A2 & A3 & A4)|[(A1 & w & A2 & A3 & A4 & A5 & A6)|(A1 & A2 & A3)]].
    + left. unfold PLag. exists j, b, (pre ++ d). rewrite Hm, Hc, A4, Hu, app_assoc. auto.
    + right. left. unfold PProv. split; [exact A1|]. exists w. rewrite Hw. repeat split; auto.
      rewrite A6 in Hu. symmetry in Hu. apply app_eq_nil in Hu. tauto.
    + right. right. unfold PDead. rewrite Hc, Hwl. auto.
  - destruct H as (pre & H). exists (pre ++ d). now rewrite Hs, H, Hu, app_assoc.
Qed.

(* what lies behind a boundary position is a suffix of everything *)
Lemma ents_from_suffix c (Hh : 0 < c_hdr c) : forall es off, okoff c es off ->
  exists k, (k <= length es)%nat /\ ents_from c es off = skipn k es.
Proof.
  induction es as [|e r IH]; intros off Hok; [exists 0%nat; split; [cbn; lia|reflexivity]|].
  unfold okoff in Hok. cbn [ents_from sum_need] in *. pose proof (need_pos c e Hh).
  destruct (off =? 0); [exists 0%nat; split; [lia|reflexivity]|].
  destruct (off <? need c e) eqn:E; [cbn [sum_need] in Hok; lia|].
  destruct (IH (off - need c e)) as (k & Hkl & Hk); [unfold okoff; lia|]. exists (S k). split; [cbn [length]; lia|exact Hk].
Qed.

Lemma from_suffix c (Hh : 0 < c_hdr c) M j b o : nth_error M j = Some b -> okoff c (b_ents b) o ->
  exists k, from c M j o = skipn k (chain_ents M).
Proof.
  intros Hb Hok. unfold from. rewrite (nth_error_split_skipn _ _ _ Hb).
  destruct (ents_from_suffix c Hh _ _ Hok) as (k & Hkl & Hk). rewrite Hk.
  rewrite (chain_ents_firstn_skipn M j), (nth_error_split_skipn _ _ _ Hb).
  change (chain_ents (b :: skipn (S j) M)) with (b_ents b ++ chain_ents (skipn (S j) M)).
  exists (length (chain_ents (firstn j M)) + k)%nat. rewrite skipn_app_len2.
  now rewrite skipn_app_le by exact Hkl.
Qed.

(* outside the stale class a persisted position is a (possibly lagging) good one *)
Lemma P3L_lag c nid T p : TInv c nid T -> P3L c nid T -> ts_index T = Some p -> stale_p (memne T) p = false -> PLag c T p.
Proof.
  intros Hinv (_ & H) Hi Hst. rewrite Hi in H. destruct H as [H|[(A1 & w & Hw & Hid & He & _)|(A1 & _ & A3)]]; [exact H| |]; exfalso.
  - unfold stale_p in Hst. rewrite A1 in Hst. cbn [andb] in Hst. apply negb_false_iff in Hst.
    apply existsb_exists in Hst. destruct Hst as (b & Hin & Hb). unfold memne in Hin. apply filter_In in Hin. destruct Hin as (Hin & Hne).
    pose proof (ti_nodup _ _ _ Hinv) as Hnd. unfold w_list in Hin, Hnd. rewrite Hw in Hin, Hnd.
    apply in_app_or in Hin. destruct Hin as [Hin|[Hin|[]]].
    + rewrite map_app in Hnd. cbn [map] in Hnd. apply NoDup_remove_2 in Hnd. apply Hnd. rewrite app_nil_r.
      replace (b_id w) with (b_id b) by lia. now apply in_map.
    + subst b. apply nonempty_b_true in Hne. congruence.
  - unfold stale_p in Hst. rewrite A1 in Hst. cbn [andb] in Hst. apply negb_false_iff in Hst.
    apply existsb_exists in Hst. destruct Hst as (b & Hin & Hb). unfold memne in Hin. apply filter_In in Hin. destruct Hin as (Hin & _).
    eapply Forall_forall in A3; [|exact Hin]. lia.
Qed.

(* one topic across a restart: what is unread afterwards is what was unread, preceded by entries
   that had been delivered already, and it is a suffix of the (unchanged) stream *)
Lemma reopen_unread_lag c s t x nid : cfg_ok c -> DIs c s -> BIs c s -> DLim c s ->
  TInv c nid (get_ts s t) -> P3L c nid (get_ts s t) -> id_drift c s = false ->
  (forall p, ts_index (get_ts s t) = Some p -> stale_p (memne (get_ts s t)) p = false) ->
  stream (get_ts (reopen c s) t) = stream (get_ts s t) /\
  (exists pre, unread c (nrm x (get_ts (reopen c s) t)) = pre ++ unread c (get_ts s t)) /\
  (exists k, unread c (nrm x (get_ts (reopen c s) t)) = skipn k (stream (get_ts s t))).
Proof.
  intros Hc Hd Hb Hl Hti Hp3 Hdrift Hstale. pose proof Hc as (Hh & Hb0 & _).
  pose proof (reopen_stream c s Hc Hd t) as Hst. split; [exact Hst|].
  pose proof (di_wf _ _ _ _ _ _ Hd) as Hwf.
  destruct (reopen_shape c s t Hh Hb0 Hwf) as (S1 & S2 & S3 & S4 & S5 & S6 & Hcase). cbn zeta in *.
  set (ts := get_ts s t) in *. set (ts' := get_ts (reopen c s) t) in *.
  destruct Hcase as [(old & Hin & Hold & Hrch)|(H0 & H0')].
  2:{ rewrite H0', H0. rewrite nrm_tstate0. split; [exists []; reflexivity|exists 0%nat; reflexivity]. }
  destruct (reopen_chain c s t Hc Hd Hb Hl) as (C1 & C2 & C3 & C4 & _). cbn zeta in *. fold ts ts' in C1, C2, C3, C4.
  set (rch := chain_of ts') in *.
  assert (Hents : map b_ents rch = map b_ents (memne ts)) by (rewrite C1; apply mblocks_memne).
  assert (Hids : map b_id rch = map b_id (memne ts)) by (rewrite Hrch, Hold; now apply nodrift_ids).
  assert (Hstream : chain_ents rch = stream ts) by (rewrite (chain_ents_map_eq _ _ Hents); apply chain_ents_memne).
  assert (Hhy' : r_hydrated (reader_of ts') = false) by (rewrite S1; reflexivity).
  assert (Hwe : w_ents ts' = []) by (unfold w_ents; now rewrite S3).
  destruct (ts_index ts) as [p|] eqn:Eidx.
  2:{ assert (Hnrm : nrm x ts' = ts') by (unfold nrm; now rewrite Hhy', S2).
      assert (Hun' : unread c ts' = chain_ents rch).
      { unfold unread. rewrite S1. cbn [mk_reader r_idx r_off r_chain startup_cursor fst snd skipn]. rewrite S3.
        destruct rch as [|b0 r0]; [reflexivity|]. rewrite Hwe, app_nil_r, ents_from_0. reflexivity. }
      rewrite Hnrm, Hun', Hstream. destruct Hp3 as (_ & Hp3). rewrite Eidx in Hp3. split; [exact Hp3|exists 0%nat; reflexivity]. }
  assert (Hns : stale_p (memne ts) p = false) by (apply Hstale; reflexivity).
  destruct (P3L_lag c nid ts p Hti Hp3 Eidx Hns) as (j & b & pre & Hbj & Hpos & Hok & Hfrom).
  destruct (nth_error_map_eq b_ents _ _ j b (eq_sym Hents) Hbj) as (b' & Hb' & He').
  destruct (nth_error_map_eq b_id _ _ j b (eq_sym Hids) Hbj) as (b'' & Hb'' & Hi').
  rewrite Hb' in Hb''. inversion Hb''; subst b''.
  assert (Hpos' : if p_tail p then b_id b' = p_a p else p_a p = N.of_nat j) by (destruct (p_tail p); [congruence|exact (proj1 Hpos)]).
  assert (Hok' : okoff c (b_ents b') (p_off p)) by (now rewrite He').
  assert (Hbw : bwf c b') by (eapply Forall_forall in C2; [exact C2|eapply nth_error_In; eauto]).
  destruct (hyd_mk c x rch (startup_cursor rch (Some p)) p j b' Hb' Hok' (proj1 Hbw) C4 Hpos') as (R1 & R2 & R3 & R4 & R5).
  set (R := hyd x (mk_reader rch (startup_cursor rch (Some p))) (Some p)) in *.
  assert (Hnrm : nrm x ts' = with_reader ts' R) by (unfold nrm; rewrite Hhy', S2, S1; reflexivity).
  assert (Hun' : unread c (with_reader ts' R) = from c rch j (p_off p)) by (eapply unread_reopened; eauto).
  rewrite Hnrm, Hun'. split.
  - exists pre. rewrite <- Hfrom. now apply from_ents_eq.
  - destruct (from_suffix c Hh rch j b' (p_off p) Hb' Hok') as (k & Hk). exists k. now rewrite Hk, Hstream.
Qed.

(* a lagging position names a block that holds entries *)
Lemma PLag_nonstale c T p : PLag c T p -> stale_p (memne T) p = false.
Proof.
  intros (j & b & pre & Hb & Hpos & _). unfold stale_p. destruct (p_tail p); [|reflexivity]. cbn [andb].
  apply negb_false_iff, existsb_exists. exists b. split; [eapply nth_error_In; eauto|lia].
Qed.

Lemma PLag_suffix c T T' p d : chain_of T' = chain_of T -> ts_writer T' = ts_writer T ->
  unread c T = d ++ unread c T' -> PLag c T p -> PLag c T' p.
Proof.
  intros Hc Hw Hu (j & b & pre & A1 & A2 & A3 & A4).
  assert (Hwl : w_list T' = w_list T) by (unfold w_list; now rewrite Hw).
  assert (Hm : memne T' = memne T) by (unfold memne; now rewrite Hc, Hwl).
  exists j, b, (pre ++ d). rewrite Hm, Hc, A4, Hu, app_assoc. auto.
Qed.

Lemma PGood_PLag c T p : PGood c T p -> PLag c T p.
Proof. intros (j & b & A1 & A2 & A3 & A4). exists j, b, []. rewrite <- A4. auto. Qed.
