(* ConcStep.v — every segment of an append or a consuming read_next (code as it is, fx = false)
   preserves the invariant of proofs/ConcInv.v, as long as no block is sealed while a consuming
   read_next of that topic is between its tail snapshot and its commit. *)
From W Require Import model.Base model.Engine model.Conc spec.ConcSpec proofs.EngineWF proofs.EngineInv proofs.EngineW proofs.EngineBR proofs.EngineMain proofs.ConcInv.
From Coq Require Import ZArith ZifyBool ZifyN ZifyNat.

Definition single_consumer (progs : list (list call)) : Prop :=
  forall t i j, consumes (nth i progs []) t -> consumes (nth j progs []) t -> i = j.

(* ------------------------------------------------------------------ programs and ownership *)
Lemma head_in_prog prog th cl rest : hist_ok prog th -> th_todo th = cl :: rest -> In cl prog.
Proof. intros (d & H1 & _) H. rewrite H1, H. apply in_or_app. right. now left. Qed.

Lemma own_head prog t e : In (CAppend t e) prog -> own prog e = true.
Proof.
  intros Hin. unfold own, prog_pids. apply existsb_exists. exists (e_pid e). split; [|apply N.eqb_refl].
  apply in_flat_map. exists (CAppend t e). split; [exact Hin|now left].
Qed.

Lemma offered_pids_nth progs i : (i < length progs)%nat ->
  exists a b, offered_pids progs = a ++ prog_pids (nth i progs []) ++ b.
Proof.
  revert i; induction progs as [|p progs IH]; intros i Hi; [cbn in Hi; lia|].
  destruct i as [|i]; cbn [nth offered_pids].
  - exists [], (offered_pids progs). reflexivity.
  - destruct (IH i ltac:(cbn in Hi; lia)) as (a & b & E). fold (prog_pids p). rewrite E.
    exists (prog_pids p ++ a), b. now rewrite <- app_assoc.
Qed.

Lemma NoDup_app_r {A} (a b : list A) : NoDup (a ++ b) -> NoDup b.
Proof. induction a as [|y a IH]; cbn; [auto|]. intros H. inversion H; auto. Qed.

Lemma NoDup_app_disjoint {A} (a b : list A) x : NoDup (a ++ b) -> In x a -> In x b -> False.
Proof.
  induction a as [|y a IH]; intros Hn Ha Hb; [contradiction|]. cbn in Hn. inversion Hn; subst.
  destruct Ha as [->|Ha]; [apply H1; apply in_or_app; now right|apply IH; auto].
Qed.

Lemma own_excl progs i j e : NoDup (offered_pids progs) -> (i < length progs)%nat -> (j < length progs)%nat ->
  own (nth i progs []) e = true -> own (nth j progs []) e = true -> i = j.
Proof.
  revert i j; induction progs as [|p progs IH]; intros i j Hn Hi Hj Oi Oj; [cbn in Hi; lia|].
  cbn [offered_pids] in Hn. fold (prog_pids p) in Hn.
  assert (Hin : forall k, (k < length progs)%nat -> own (nth k progs []) e = true -> In (e_pid e) (offered_pids progs)).
  { intros k Hk Ok. destruct (offered_pids_nth progs k Hk) as (a & b & E). rewrite E.
    apply in_or_app. right. apply in_or_app. left. unfold own in Ok. apply existsb_exists in Ok.
    destruct Ok as (x & Hx & Ex). apply N.eqb_eq in Ex. now subst. }
  assert (Hp : own p e = true -> In (e_pid e) (prog_pids p)).
  { intros Ok. unfold own in Ok. apply existsb_exists in Ok. destruct Ok as (x & Hx & Ex). apply N.eqb_eq in Ex. now subst. }
  destruct i as [|i], j as [|j]; cbn [nth] in *; auto.
  - exfalso. eapply NoDup_app_disjoint; [exact Hn|apply Hp; exact Oi|apply (Hin j); [cbn in Hj; lia|exact Oj]].
  - exfalso. eapply NoDup_app_disjoint; [exact Hn|apply Hp; exact Oj|apply (Hin i); [cbn in Hi; lia|exact Oi]].
  - f_equal. apply IH; auto; try (cbn in Hi, Hj; lia). now apply NoDup_app_r in Hn.
Qed.

Lemma th_ok_start c cs th : th_pc th = PStart -> Forall (fun cl => simple_call cl = true) (th_todo th) -> th_ok c cs th.
Proof.
  intros Hp Hs. unfold th_ok. rewrite Hp. destruct (th_todo th) as [|cl rest]; [reflexivity|].
  inversion Hs; subst. destruct cl as [t e|t es|t ck|t mb ck]; cbn in H1; try discriminate; auto.
  destruct ck; [auto|discriminate].
Qed.

Lemma win_ok_start c cs th : th_pc th = PStart -> win_ok c cs th.
Proof. intros Hp. unfold win_ok. rewrite Hp. destruct (th_todo th) as [|[| |t [|]|] ?]; auto. Qed.

(* flags: no consuming read_next of topic t is inside its window *)
Lemma window_pcs th t : in_read_window th t = false ->
  match th_todo th with
  | CRead t' true :: _ => t_id t' = t -> match th_pc th with PR_t_snap _ _ | PR_t_wsnap _ _ _ | PR_t_init _ _ => False | _ => True end
  | _ => True
  end.
Proof.
  unfold in_read_window. destruct (th_todo th) as [|[| |t' [|]|] ?]; auto.
  intros H Heq. rewrite Heq, N.eqb_refl in H. cbn [andb] in H. destruct (th_pc th); auto; discriminate.
Qed.

(* ------------------------------------------------------------------ the other threads *)
Lemma rawts_upd cs sh' tid th' t : rawts (upd cs sh' tid th') t = get_ts (sh_st sh') t.
Proof. reflexivity. Qed.

Lemma head_topic_mid_false th t0 t : head_topic th = Some t0 -> t <> t0 -> th_mid t th = false.
Proof.
  unfold head_topic, th_mid. destruct (th_todo th) as [|cl rest]; [reflexivity|]. intros H Hne. inversion H; subst t0.
  destruct cl as [tt ee|tt es|tt ck|tt mb ck]; try reflexivity. cbn [call_topic] in Hne. destruct (th_pc th); try reflexivity.
  destruct (N.eqb_spec (t_id tt) t); [congruence|reflexivity].
Qed.
Lemma head_topic_holds_false th t0 t : head_topic th = Some t0 -> t <> t0 -> th_holds t th = false.
Proof.
  unfold head_topic, th_holds. destruct (th_todo th) as [|cl rest]; [reflexivity|]. intros H Hne. inversion H; subst t0.
  destruct cl as [tt ee|tt es|tt ck|tt mb ck]; try reflexivity. cbn [call_topic] in Hne. destruct (th_pc th); try reflexivity;
  destruct (N.eqb_spec (t_id tt) t); try congruence; reflexivity.
Qed.

Lemma others_th_ok c cs sh' tid th th' t0 :
  nth_error (cs_threads cs) tid = Some th -> head_topic th = Some t0 ->
  (forall t, t <> t0 -> get_ts (sh_st sh') t = get_ts (sh_st (cs_sh cs)) t) ->
  (hyd (rawts cs t0) -> hyd (get_ts (sh_st sh') t0)) ->
  (forall j thj w, j <> tid -> nth_error (cs_threads cs) j = Some thj -> th_holds t0 thj = true ->
     ts_writer (rawts cs t0) = Some w -> ts_writer (get_ts (sh_st sh') t0) = Some w) ->
  forall j thj, j <> tid -> nth_error (cs_threads cs) j = Some thj -> th_ok c cs thj -> th_ok c (upd cs sh' tid th') thj.
Proof.
  intros Hth Hhead Hoth Hhyd Hwr j thj Hne Hj Hok. apply (th_ok_frame c cs _ thj Hok).
  - intros t _ Hh. rewrite rawts_upd. destruct (N.eq_dec t t0) as [->|Hn]; [auto|]. unfold hyd in *. now rewrite (Hoth t Hn).
  - intros t w _ Hhold Hw. rewrite rawts_upd. destruct (N.eq_dec t t0) as [->|Hn]; [eapply Hwr; eauto|]. now rewrite (Hoth t Hn).
Qed.

Lemma mid_upd_other cs sh' tid th th' t0 t :
  nth_error (cs_threads cs) tid = Some th -> head_topic th = Some t0 -> (forall t, t <> t0 -> th_mid t th' = false) ->
  t <> t0 -> mid (upd cs sh' tid th') t = mid cs t.
Proof.
  intros Hth Hhead Hm Hne. apply (mid_upd_same cs sh' tid th th' t Hth).
  rewrite (Hm t Hne). symmetry. eapply head_topic_mid_false; eauto.
Qed.

Lemma others_win_ok c cs sh' tid th th' t0 :
  nth_error (cs_threads cs) tid = Some th -> head_topic th = Some t0 ->
  (forall t, t <> t0 -> get_ts (sh_st sh') t = get_ts (sh_st (cs_sh cs)) t) ->
  (forall t, t <> t0 -> th_mid t th' = false) ->
  rd_same (rawts cs t0) (get_ts (sh_st sh') t0) ->
  (mid cs t0 = false -> forall a, snap_ok c (rawts cs t0) a -> snap_ok c (get_ts (sh_st sh') t0) a) ->
  (mid cs t0 = false -> mid (upd cs sh' tid th') t0 = false) ->
  forall j thj, j <> tid -> nth_error (cs_threads cs) j = Some thj -> win_ok c cs thj -> win_ok c (upd cs sh' tid th') thj.
Proof.
  intros Hth Hhead Hoth Hm Hrd Hsnap Hmid j thj Hne Hj Hok. apply (win_ok_frame c cs _ thj Hok).
  - intros t _. rewrite rawts_upd. destruct (N.eq_dec t t0) as [->|Hn]; [exact Hrd|]. rewrite (Hoth t Hn). apply rd_same_refl.
  - intros t a _ Hmf Hs. rewrite rawts_upd. destruct (N.eq_dec t t0) as [->|Hn]; [now apply Hsnap|]. now rewrite (Hoth t Hn).
  - intros t _ Hmf. destruct (N.eq_dec t t0) as [->|Hn]; [now apply Hmid|]. now rewrite (mid_upd_other cs sh' tid th th' t0 t Hth Hhead Hm Hn).
Qed.

(* a step of the (only) consumer of t0 cannot disturb another thread's window *)
Lemma others_win_ok_reader c progs cs sh' tid th th' t0 tr ck rest :
  single_consumer progs -> INV c progs cs ->
  nth_error (cs_threads cs) tid = Some th -> th_todo th = CRead tr ck :: rest -> t_id tr = t0 ->
  (forall t, t <> t0 -> get_ts (sh_st sh') t = get_ts (sh_st (cs_sh cs)) t) ->
  (forall t, t <> t0 -> th_mid t th' = false) ->
  forall j thj, j <> tid -> nth_error (cs_threads cs) j = Some thj -> win_ok c cs thj -> win_ok c (upd cs sh' tid th') thj.
Proof.
  intros SC Hinv Hth Htodo Ht0 Hoth Hm j thj Hne Hj Hok.
  assert (Hhead : head_topic th = Some t0) by (unfold head_topic; rewrite Htodo; cbn; now rewrite Ht0).
  destruct (iv_th _ _ _ Hinv tid th Hth) as (_ & _ & Hh1). destruct (iv_th _ _ _ Hinv j thj Hj) as (_ & _ & Hh2).
  assert (Hc1 : consumes (nth tid progs []) t0).
  { exists tr, ck. split; [eapply head_in_prog; eauto|exact Ht0]. }
  (* thj's current call is not a read of t0 *)
  unfold win_ok in *. destruct (th_todo thj) as [|[t e|t es|t ck2|t mb ck2] rest2] eqn:Etj; auto. destruct ck2; auto.
  assert (Hn : t_id t <> t0).
  { intros Heq. apply Hne. apply (SC t0 j tid); [|exact Hc1]. exists t, true. split; [eapply head_in_prog; eauto|exact Heq]. }
  rewrite rawts_upd, (Hoth _ Hn).
  rewrite (mid_upd_other cs sh' tid th th' t0 (t_id t) Hth Hhead Hm Hn). exact Hok.
Qed.

(* ------------------------------------------------------------------ locks *)
Lemma lock_same cs sh' tid th th' :
  lock_ok cs -> nth_error (cs_threads cs) tid = Some th -> sh_wl sh' = sh_wl (cs_sh cs) ->
  (forall t, th_holds t th' = th_holds t th) -> lock_ok (upd cs sh' tid th').
Proof.
  intros Hl Hth Hwl Hh t. specialize (Hl t). cbn [upd cs_sh]. rewrite Hwl.
  destruct (wl_holder (sh_wl (cs_sh cs)) t) as [x|].
  - intros i thi Hi Hhold. destruct (Nat.eq_dec i tid) as [->|Hne].
    + rewrite (upd_nth_same _ _ _ _ _ Hth) in Hi. inversion Hi; subst. rewrite Hh in Hhold. eapply Hl; eauto.
    + rewrite upd_nth_other in Hi by exact Hne. eapply Hl; eauto.
  - intros i thi Hi. destruct (Nat.eq_dec i tid) as [->|Hne].
    + rewrite (upd_nth_same _ _ _ _ _ Hth) in Hi. inversion Hi; subst. rewrite Hh. eapply Hl; eauto.
    + rewrite upd_nth_other in Hi by exact Hne. eapply Hl; eauto.
Qed.

Lemma lock_take cs sh' tid th th' t0 :
  lock_ok cs -> nth_error (cs_threads cs) tid = Some th ->
  wl_holder (sh_wl (cs_sh cs)) t0 = None -> sh_wl sh' = sh_wl (wl_take (cs_sh cs) t0 tid) ->
  (forall t, t <> t0 -> th_holds t th' = false) -> (forall t, t <> t0 -> th_holds t th = false) ->
  lock_ok (upd cs sh' tid th').
Proof.
  intros Hl Hth Hfree Hwl Hh' Hh t. cbn [upd cs_sh]. rewrite Hwl, wl_holder_take.
  destruct (N.eqb_spec t0 t) as [<-|Hne].
  - intros i thi Hi Hhold. destruct (Nat.eq_dec i tid) as [->|Hn]; [reflexivity|].
    rewrite upd_nth_other in Hi by exact Hn. specialize (Hl t0). rewrite Hfree in Hl. rewrite (Hl i thi Hi) in Hhold. discriminate.
  - specialize (Hl t). destruct (wl_holder (sh_wl (cs_sh cs)) t) as [x|].
    + intros i thi Hi Hhold. destruct (Nat.eq_dec i tid) as [->|Hn].
      * rewrite (upd_nth_same _ _ _ _ _ Hth) in Hi. inversion Hi; subst. rewrite Hh' in Hhold by congruence. discriminate.
      * rewrite upd_nth_other in Hi by exact Hn. eapply Hl; eauto.
    + intros i thi Hi. destruct (Nat.eq_dec i tid) as [->|Hn].
      * rewrite (upd_nth_same _ _ _ _ _ Hth) in Hi. inversion Hi; subst. apply Hh'. congruence.
      * rewrite upd_nth_other in Hi by exact Hn. eapply Hl; eauto.
Qed.

Lemma lock_release cs sh' tid th th' t0 :
  lock_ok cs -> nth_error (cs_threads cs) tid = Some th ->
  th_holds t0 th = true -> sh_wl sh' = sh_wl (wl_release (cs_sh cs) t0) ->
  (forall t, th_holds t th' = false) -> (forall t, t <> t0 -> th_holds t th = false) ->
  lock_ok (upd cs sh' tid th').
Proof.
  intros Hl Hth Hhold Hwl Hh' Hh t. cbn [upd cs_sh]. rewrite Hwl, wl_holder_release.
  destruct (N.eqb_spec t0 t) as [<-|Hne].
  - intros i thi Hi. destruct (Nat.eq_dec i tid) as [->|Hn].
    + rewrite (upd_nth_same _ _ _ _ _ Hth) in Hi. inversion Hi; subst. apply Hh'.
    + rewrite upd_nth_other in Hi by exact Hn. specialize (Hl t0).
      destruct (wl_holder (sh_wl (cs_sh cs)) t0) as [x|].
      * destruct (th_holds t0 thi) eqn:E; [|reflexivity]. exfalso.
        pose proof (Hl i thi Hi E). pose proof (Hl tid th Hth Hhold). congruence.
      * eapply Hl; eauto.
  - specialize (Hl t). destruct (wl_holder (sh_wl (cs_sh cs)) t) as [x|].
    + intros i thi Hi Hho. destruct (Nat.eq_dec i tid) as [->|Hn].
      * rewrite (upd_nth_same _ _ _ _ _ Hth) in Hi. inversion Hi; subst. rewrite Hh' in Hho. discriminate.
      * rewrite upd_nth_other in Hi by exact Hn. eapply Hl; eauto.
    + intros i thi Hi. destruct (Nat.eq_dec i tid) as [->|Hn].
      * rewrite (upd_nth_same _ _ _ _ _ Hth) in Hi. inversion Hi; subst. apply Hh'.
      * rewrite upd_nth_other in Hi by exact Hn. eapply Hl; eauto.
Qed.

(* who can be mid-rotation on t0 *)
Lemma others_not_mid cs tid th t0 :
  lock_ok cs -> nth_error (cs_threads cs) tid = Some th ->
  (wl_holder (sh_wl (cs_sh cs)) t0 = None \/ th_holds t0 th = true) ->
  forall j thj, j <> tid -> nth_error (cs_threads cs) j = Some thj -> th_mid t0 thj = false.
Proof.
  intros Hl Hth Hcase j thj Hne Hj. specialize (Hl t0).
  destruct (th_mid t0 thj) eqn:E; [|reflexivity]. exfalso. apply th_mid_holds in E.
  destruct (wl_holder (sh_wl (cs_sh cs)) t0) as [x|].
  - destruct Hcase as [Hc|Hc]; [discriminate|]. pose proof (Hl j thj Hj E). pose proof (Hl tid th Hth Hc). congruence.
  - rewrite (Hl j thj Hj) in E. discriminate.
Qed.
Lemma get_ts_upd_ts sh t ts t' : get_ts (sh_st (upd_ts sh t ts)) t' = if t' =? t then ts else get_ts (sh_st sh) t'.
Proof.
  unfold upd_ts, with_st. cbn [sh_st]. destruct (N.eqb_spec t' t) as [->|Hne]; [apply get_set_same|now apply get_set_other].
Qed.
Lemma nid_upd_ts cs sh' tid th' t ts : sh_st sh' = set_ts (sh_st (cs_sh cs)) t ts -> nid_of (upd cs sh' tid th') = nid_of cs.
Proof. intros H. unfold nid_of, upd. cbn [cs_sh]. now rewrite H. Qed.

Lemma eff_upd cs sh' tid th' t : eff (upd cs sh' tid th') t =
  if mid (upd cs sh' tid th') t then with_writer (get_ts (sh_st sh') t) None else get_ts (sh_st sh') t.
Proof. reflexivity. Qed.

Lemma effect_none c E E' : stream E' = stream E -> unread c E' = unread c E -> effect_ok c E E' [] [].
Proof. intros A B. split; [now rewrite app_nil_r|]. now rewrite app_nil_r, B. Qed.

Lemma hyd_count_add ts d : hyd ts -> hyd (count_add ts d).
Proof. unfold hyd, count_add. now destruct (d =? 0). Qed.
Lemma rd_same_count_add ts d : rd_same ts (count_add ts d).
Proof. unfold count_add. destruct (d =? 0); repeat split. Qed.
Lemma snap_ok_count_add c ts d a : snap_ok c ts a -> snap_ok c (count_add ts d) a.
Proof. unfold count_add. now destruct (d =? 0). Qed.
Lemma writer_count_add ts d : ts_writer (count_add ts d) = ts_writer ts.
Proof. unfold count_add. now destruct (d =? 0). Qed.


(* ------------------------------------------------------------------ a step that only touches one topic's state,
   leaves stream and unread as they are, and takes or releases no lock *)
Lemma step_quiet c progs cs tid th th' t0 (f : tstate -> tstate) :
  INV c progs cs -> nth_error (cs_threads cs) tid = Some th -> head_topic th = Some t0 ->
  let sh' := upd_ts (cs_sh cs) t0 (f (rawts cs t0)) in
  let cs' := upd cs sh' tid th' in
  (forall t, th_mid t th' = th_mid t th) -> (forall t, th_holds t th' = th_holds t th) ->
  (forall ts w, f (with_writer ts w) = with_writer (f ts) w) ->
  (TInvP c (nid_of cs) (f (eff cs t0)) /\ stream (f (eff cs t0)) = stream (eff cs t0) /\
   unread c (f (eff cs t0)) = unread c (eff cs t0)) ->
  (hyd (rawts cs t0) -> hyd (f (rawts cs t0))) ->
  ts_writer (f (rawts cs t0)) = ts_writer (rawts cs t0) ->
  (forall j thj, j <> tid -> nth_error (cs_threads cs) j = Some thj -> win_ok c cs' thj) ->
  (th_ok c cs' th' /\ Forall (fun cl => simple_call cl = true) (th_todo th') /\ hist_ok (nth tid progs []) th') ->
  win_ok c cs' th' ->
  (forall t, del_seq t (nth tid progs []) th' = del_seq t (nth tid progs []) th /\
             wr_seq t (nth tid progs []) th' = wr_seq t (nth tid progs []) th) ->
  INV c progs cs'.
Proof.
  intros Hinv Hth Hhead sh' cs' Hmid Hholds Hcomm (Q1 & Q2 & Q3) Hhyd Hwr Hothwin Hth' Hwin' Hseq.
  pose proof Hinv as [Inext Its Ibf Ilock Ilen Ith Iwin Idel Iown Iowned].
  assert (Hoth : forall t', t' <> t0 -> get_ts (sh_st sh') t' = get_ts (sh_st (cs_sh cs)) t').
  { intros t' Hne. unfold sh'. rewrite get_ts_upd_ts. now replace (t' =? t0) with false by lia. }
  assert (Hraw' : get_ts (sh_st sh') t0 = f (rawts cs t0)) by (unfold sh'; rewrite get_ts_upd_ts; now rewrite N.eqb_refl).
  assert (Hmideq : forall t', mid cs' t' = mid cs t') by (intros t'; apply (mid_upd_same cs sh' tid th th' t' Hth); apply Hmid).
  assert (Heff' : eff cs' t0 = f (eff cs t0)).
  { unfold cs'. rewrite eff_upd. fold cs'. rewrite Hmideq, Hraw'. unfold eff. destruct (mid cs t0); [now rewrite Hcomm|reflexivity]. }
  assert (Hnid : nid_of cs' = nid_of cs) by (apply (nid_upd_ts cs sh' tid th' t0 (f (rawts cs t0))); reflexivity).
  apply (INV_step c progs cs sh' tid th th' t0 [] [] Hinv Hth Hhead).
  - exact Ibf.
  - fold cs'. rewrite Hnid. lia.
  - exact Hoth.
  - intros t' Hne. rewrite Hmid. eapply head_topic_mid_false; eauto.
  - apply (lock_same cs sh' tid th th' Ilock Hth); [reflexivity|exact Hholds].
  - fold cs'. rewrite Heff', Hnid. exact Q1.
  - fold cs'. rewrite Heff'. apply effect_none; assumption.
  - exact Hth'.
  - intros j thj Hne Hj. destruct (Ith j thj Hj) as (Hokj & _ & _).
    refine (others_th_ok c cs sh' tid th th' t0 Hth Hhead Hoth _ _ j thj Hne Hj Hokj).
    + rewrite Hraw'. exact Hhyd.
    + intros j' thj' w _ _ _ Hw. rewrite Hraw', Hwr. exact Hw.
  - exact Hwin'.
  - exact Hothwin.
  - intros i thi Hi Hcons tho Hio. rewrite app_nil_r.
    destruct (Nat.eq_dec i tid) as [->|Hne].
    + rewrite (upd_nth_same _ _ _ _ _ Hth) in Hi. inversion Hi; subst thi. rewrite Hth in Hio. inversion Hio; subst tho. apply Hseq.
    + rewrite upd_nth_other in Hi by exact Hne. congruence.
  - intros i thi tho Hi Hio. cbn [filter]. rewrite app_nil_r.
    destruct (Nat.eq_dec i tid) as [->|Hne].
    + rewrite (upd_nth_same _ _ _ _ _ Hth) in Hi. inversion Hi; subst thi. rewrite Hth in Hio. inversion Hio; subst tho. apply Hseq.
    + rewrite upd_nth_other in Hi by exact Hne. congruence.
  - intros e0 [].
  - intros t' _. apply Hseq.
Qed.

(* the other threads' windows when the stepping thread does not touch readers or the writer's identity *)
Lemma quiet_windows c progs cs tid th th' t0 raw' :
  INV c progs cs -> nth_error (cs_threads cs) tid = Some th -> head_topic th = Some t0 ->
  (forall t, th_mid t th' = th_mid t th) ->
  rd_same (rawts cs t0) raw' ->
  (forall a, snap_ok c (rawts cs t0) a -> snap_ok c raw' a) ->
  forall j thj, j <> tid -> nth_error (cs_threads cs) j = Some thj ->
    win_ok c (upd cs (upd_ts (cs_sh cs) t0 raw') tid th') thj.
Proof.
  intros Hinv Hth Hhead Hmid Hrd Hsnap j thj Hne Hj.
  set (sh' := upd_ts (cs_sh cs) t0 raw').
  assert (Hoth : forall t', t' <> t0 -> get_ts (sh_st sh') t' = get_ts (sh_st (cs_sh cs)) t').
  { intros t' Hn. unfold sh'. rewrite get_ts_upd_ts. now replace (t' =? t0) with false by lia. }
  assert (Hraw' : get_ts (sh_st sh') t0 = raw') by (unfold sh'; rewrite get_ts_upd_ts; now rewrite N.eqb_refl).
  refine (others_win_ok c cs sh' tid th th' t0 Hth Hhead Hoth _ _ _ _ j thj Hne Hj (iv_win _ _ _ Hinv j thj Hj)).
  - intros t' Hn. rewrite Hmid. eapply head_topic_mid_false; eauto.
  - now rewrite Hraw'.
  - intros _ a. rewrite Hraw'. apply Hsnap.
  - intros Hm. rewrite (mid_upd_same cs sh' tid th th' t0 Hth (Hmid t0)). exact Hm.
Qed.

(* ------------------------------------------------------------------ sequences of a thread across a step *)
Lemma seq_same prog th th' : same_hist th th' ->
  (forall t, del_pending t th' = del_pending t th) -> (forall t, wr_pending t th' = wr_pending t th) ->
  forall t, del_seq t prog th' = del_seq t prog th /\ wr_seq t prog th' = wr_seq t prog th.
Proof. intros Hs Hd Hw t. split; [apply del_seq_same; auto|apply wr_seq_same; auto]. Qed.

Lemma seq_ret prog th th' cl r : hist_ok prog th -> returned th th' cl r ->
  (forall t, del_hist t [cl] [r] = del_pending t th) -> (forall t, wr_hist t [cl] [r] = wr_pending t th) ->
  forall t, del_seq t prog th' = del_seq t prog th /\ wr_seq t prog th' = wr_seq t prog th.
Proof. intros Hh Hr Hd Hw t. split; [eapply del_seq_ret; eauto|eapply wr_seq_ret; eauto]. Qed.

Lemma reader_of_eff cs t : reader_of (eff cs t) = reader_of (rawts cs t).
Proof. unfold eff. now destruct (mid cs t). Qed.
Lemma index_eff cs t : ts_index (eff cs t) = ts_index (rawts cs t).
Proof. unfold eff. now destruct (mid cs t). Qed.
Lemma rn_hydrate_eff cs t : rn_hydrate (eff cs t) = rn_hydrate (rawts cs t).
Proof. unfold eff. now destruct (mid cs t). Qed.
Lemma hyd_eff cs t : hyd (eff cs t) <-> hyd (rawts cs t).
Proof. unfold hyd. now rewrite reader_of_eff. Qed.
Lemma eff_nomid cs t : mid cs t = false -> eff cs t = rawts cs t.
Proof. unfold eff. now intros ->. Qed.

Lemma simple_tail cl rest : Forall (fun cl => simple_call cl = true) (cl :: rest) -> Forall (fun cl => simple_call cl = true) rest.
Proof. intros H. now inversion H. Qed.

(* ------------------------------------------------------------------ read_next segments *)
(* a read call in progress: common facts *)
Lemma read_common c progs cs tid th t rest :
  INV c progs cs -> nth_error (cs_threads cs) tid = Some th -> th_todo th = CRead t true :: rest ->
  head_topic th = Some (t_id t) /\ (forall t', th_mid t' th = false) /\ (forall t', th_holds t' th = false) /\
  (forall t', wr_pending t' th = []).
Proof.
  intros Hinv Hth Htodo. unfold head_topic, th_mid, th_holds, wr_pending. rewrite Htodo. repeat split.
Qed.

Definition rthread (t : topic) (rest : list call) (p : pc) (d : list result) : thread :=
  {| th_todo := CRead t true :: rest; th_pc := p; th_done := d |}.

Lemma rthread_facts t rest p d :
  (forall t', th_mid t' (rthread t rest p d) = false) /\ (forall t', th_holds t' (rthread t rest p d) = false) /\
  (forall t', wr_pending t' (rthread t rest p d) = []).
Proof. repeat split. Qed.

(* R1: hydration *)
Lemma step_R1 c progs cs tid th t rest :
  cfg_ok c -> single_consumer progs -> INV c progs cs ->
  nth_error (cs_threads cs) tid = Some th -> th_todo th = CRead t true :: rest -> th_pc th = PStart ->
  let ts := get_ts (sh_st (cs_sh cs)) (t_id t) in
  INV c progs (upd cs (upd_ts (cs_sh cs) (t_id t) (with_reader ts (rn_hydrate ts))) tid (rthread t rest PR_top (th_done th))).
Proof.
  intros Hc SC Hinv Hth Htodo Hpc ts. pose proof Hinv as [Inext Its Ibf Ilock Ilen Ith Iwin Idel Iown Iowned].
  destruct (read_common c progs cs tid th t rest Hinv Hth Htodo) as (Hhead & Hm & Hh & Hw).
  destruct (Ith tid th Hth) as (Hok & Hsimple & Hhist).
  set (t0 := t_id t) in *. set (th' := rthread t rest PR_top (th_done th)).
  pose proof (rn_hydrate_spec c (nid_of cs) (eff cs t0) (Its t0)) as Hsp. cbn zeta in Hsp.
  rewrite rn_hydrate_eff in Hsp. fold (rawts cs t0) in ts. fold ts in Hsp.
  destruct Hsp as (S1 & S2 & S3 & S4 & S5 & S6).
  apply (step_quiet c progs cs tid th th' t0 (fun x => with_reader x (rn_hydrate ts)) Hinv Hth Hhead).
  - intros t'. now rewrite Hm.
  - intros t'. now rewrite Hh.
  - intros x w. reflexivity.
  - apply same_reader_inv; auto.
  - intros _. exact S6.
  - reflexivity.
  - intros j thj Hne Hj.
    refine (others_win_ok_reader c progs cs _ tid th th' t0 t true rest SC Hinv Hth Htodo eq_refl _ _ j thj Hne Hj (Iwin j thj Hj)).
    + intros t' Hn. rewrite get_ts_upd_ts. now replace (t' =? t0) with false by lia.
    + intros t' _. reflexivity.
  - split; [|split].
    + unfold th_ok, th'. cbn. split; [reflexivity|]. unfold hyd. rewrite rawts_upd, get_ts_upd_ts, N.eqb_refl. exact S6.
    + cbn. now rewrite <- Htodo.
    + eapply hist_ok_same; [|exact Hhist]. split; [now rewrite Htodo|reflexivity].
  - unfold win_ok, th'. cbn. exact I.
  - apply seq_same.
    + split; [now rewrite Htodo|reflexivity].
    + intros t'. unfold del_pending. cbn. now rewrite Htodo, Hpc.
    + intros t'. now rewrite Hw.
Qed.

Lemma th_read_hyd c cs th t rest : th_ok c cs th -> th_todo th = CRead t true :: rest -> th_pc th <> PStart -> hyd (rawts cs (t_id t)).
Proof.
  unfold th_ok. intros H Ht Hp. rewrite Ht in H. destruct H as (_ & H). destruct (th_pc th); try contradiction; try tauto.
Qed.

(* the standard obligations of a quiet read step *)
Lemma step_R_quiet c progs cs tid th t rest p' (f : tstate -> tstate) :
  single_consumer progs -> INV c progs cs ->
  nth_error (cs_threads cs) tid = Some th -> th_todo th = CRead t true :: rest ->
  (forall ts w, f (with_writer ts w) = with_writer (f ts) w) ->
  (TInvP c (nid_of cs) (f (eff cs (t_id t))) /\ stream (f (eff cs (t_id t))) = stream (eff cs (t_id t)) /\
   unread c (f (eff cs (t_id t))) = unread c (eff cs (t_id t))) ->
  hyd (f (rawts cs (t_id t))) ->
  ts_writer (f (rawts cs (t_id t))) = ts_writer (rawts cs (t_id t)) ->
  let th' := rthread t rest p' (th_done th) in
  let cs' := upd cs (upd_ts (cs_sh cs) (t_id t) (f (rawts cs (t_id t)))) tid th' in
  (hyd (rawts cs' (t_id t)) -> th_ok c cs' th') ->
  win_ok c cs' th' ->
  (forall t', del_pending t' th' = del_pending t' th) ->
  INV c progs cs'.
Proof.
  intros SC Hinv Hth Htodo Hcomm Hq Hhyd Hwr th' cs' Hok' Hwin' Hdp.
  pose proof Hinv as [Inext Its Ibf Ilock Ilen Ith Iwin Idel Iown Iowned].
  destruct (read_common c progs cs tid th t rest Hinv Hth Htodo) as (Hhead & Hm & Hh & Hw).
  destruct (Ith tid th Hth) as (Hok & Hsimple & Hhist).
  apply (step_quiet c progs cs tid th th' (t_id t) f Hinv Hth Hhead).
  - intros t'. now rewrite Hm.
  - intros t'. now rewrite Hh.
  - exact Hcomm.
  - exact Hq.
  - intros _. exact Hhyd.
  - exact Hwr.
  - intros j thj Hne Hj.
    refine (others_win_ok_reader c progs cs _ tid th th' (t_id t) t true rest SC Hinv Hth Htodo eq_refl _ _ j thj Hne Hj (Iwin j thj Hj)).
    + intros t' Hn. rewrite get_ts_upd_ts. now replace (t' =? t_id t) with false by lia.
    + intros t' _. reflexivity.
  - split; [|split].
    + apply Hok'. unfold hyd, cs'. rewrite rawts_upd, get_ts_upd_ts, N.eqb_refl. exact Hhyd.
    + cbn. now rewrite <- Htodo.
    + eapply hist_ok_same; [|exact Hhist]. split; [now rewrite Htodo|reflexivity].
  - exact Hwin'.
  - apply seq_same.
    + split; [now rewrite Htodo|reflexivity].
    + exact Hdp.
    + intros t'. now rewrite Hw.
Qed.

(* R2a: an exhausted sealed block is stepped over *)
Lemma step_R2_adv c progs cs tid th t rest b :
  cfg_ok c -> single_consumer progs -> INV c progs cs ->
  nth_error (cs_threads cs) tid = Some th -> th_todo th = CRead t true :: rest -> th_pc th = PR_top ->
  let ts := get_ts (sh_st (cs_sh cs)) (t_id t) in
  let r := reader_of ts in
  nth_error (r_chain r) (r_idx r) = Some b -> b_used b <= r_off r ->
  INV c progs (upd cs (upd_ts (cs_sh cs) (t_id t) (with_reader ts (set_cur r (S (r_idx r)) 0))) tid (rthread t rest PR_top (th_done th))).
Proof.
  intros Hc SC Hinv Hth Htodo Hpc ts r Hnth Hex. pose proof Hinv as [Inext Its Ibf Ilock Ilen Ith Iwin Idel Iown Iowned].
  destruct (Ith tid th Hth) as (Hok & _ & _).
  assert (Hhy : hyd (rawts cs (t_id t))) by (eapply th_read_hyd; eauto; rewrite Hpc; discriminate).
  destruct Hc as (Hh0 & _).
  pose proof (adv_step c Hh0 (nid_of cs) (eff cs (t_id t)) b (Its (t_id t))) as Hadv.
  rewrite reader_of_eff in Hadv. unfold chain_of in Hadv. rewrite reader_of_eff in Hadv.
  specialize (Hadv Hhy Hnth Hex). cbn zeta in Hadv.
  apply (step_R_quiet c progs cs tid th t rest PR_top (fun x => with_reader x (set_cur r (S (r_idx r)) 0)) SC Hinv Hth Htodo).
  - reflexivity.
  - exact Hadv.
  - unfold hyd in *. cbn. exact Hhy.
  - reflexivity.
  - intros Hy. unfold th_ok. cbn. split; [reflexivity|exact Hy].
  - unfold win_ok. cbn. exact I.
  - intros t'. unfold del_pending. cbn. now rewrite Htodo, Hpc.
Qed.

(* R3/R4: the index write and the count update that follow a commit *)
Lemma step_R3_idx c progs cs tid th t rest tl rr pp :
  cfg_ok c -> single_consumer progs -> INV c progs cs ->
  nth_error (cs_threads cs) tid = Some th -> th_todo th = CRead t true :: rest -> th_pc th = PR_commit tl rr (Some pp) ->
  let ts := get_ts (sh_st (cs_sh cs)) (t_id t) in
  INV c progs (upd cs (upd_ts (cs_sh cs) (t_id t) (with_index ts pp)) tid (rthread t rest (PR_idx rr) (th_done th))).
Proof.
  intros Hc SC Hinv Hth Htodo Hpc ts. pose proof Hinv as [Inext Its Ibf Ilock Ilen Ith Iwin Idel Iown Iowned].
  destruct (Ith tid th Hth) as (Hok & _ & _).
  assert (Hhy : hyd (rawts cs (t_id t))) by (eapply th_read_hyd; eauto; rewrite Hpc; discriminate).
  assert (Hro : exists o, rr = REntry o) by (unfold th_ok in Hok; rewrite Htodo, Hpc in Hok; tauto).
  apply (step_R_quiet c progs cs tid th t rest (PR_idx rr) (fun x => with_index x pp) SC Hinv Hth Htodo).
  - reflexivity.
  - split; [apply TInvP_with_index; [apply Its|now apply hyd_eff]|]. split; reflexivity.
  - exact Hhy.
  - reflexivity.
  - intros Hy. unfold th_ok. cbn. split; [reflexivity|]. split; [exact Hy|exact Hro].
  - unfold win_ok. cbn. exact I.
  - intros t'. unfold del_pending. cbn. rewrite Htodo, Hpc. reflexivity.
Qed.

Lemma step_R_ret c progs cs tid th t rest rr :
  cfg_ok c -> single_consumer progs -> INV c progs cs ->
  nth_error (cs_threads cs) tid = Some th -> th_todo th = CRead t true :: rest ->
  (exists tl, th_pc th = PR_commit tl rr None) \/ th_pc th = PR_idx rr ->
  let ts := get_ts (sh_st (cs_sh cs)) (t_id t) in
  INV c progs (upd cs (upd_ts (cs_sh cs) (t_id t) (count_sub ts 1)) tid
                 {| th_todo := rest; th_pc := PStart; th_done := rr :: th_done th |}).
Proof.
  intros Hc SC Hinv Hth Htodo Hpc ts. pose proof Hinv as [Inext Its Ibf Ilock Ilen Ith Iwin Idel Iown Iowned].
  destruct (read_common c progs cs tid th t rest Hinv Hth Htodo) as (Hhead & Hm & Hh & Hw).
  destruct (Ith tid th Hth) as (Hok & Hsimple & Hhist).
  set (th' := {| th_todo := rest; th_pc := PStart; th_done := rr :: th_done th |}).
  assert (Hro : exists o, rr = REntry o).
  { unfold th_ok in Hok. rewrite Htodo in Hok. destruct Hpc as [(tl & Hpc)|Hpc]; rewrite Hpc in Hok; tauto. }
  destruct Hro as (o & ->).
  assert (Hmid' : forall t', th_mid t' th' = false) by (intros; unfold th_mid, th'; cbn; now destruct rest as [|[| | |] ?]).
  assert (Hholds' : forall t', th_holds t' th' = false) by (intros; unfold th_holds, th'; cbn; now destruct rest as [|[| | |] ?]).
  assert (Hret : returned th th' (CRead t true) (REntry o)) by (exists rest; repeat split; auto).
  apply (step_quiet c progs cs tid th th' (t_id t) (fun x => count_sub x 1) Hinv Hth Hhead).
  - intros t'. now rewrite Hmid', Hm.
  - intros t'. now rewrite Hholds', Hh.
  - intros x w. apply count_sub_writer.
  - split; [apply TInvP_count_sub, Its|]. split; [apply stream_count_sub|apply unread_count_sub].
  - unfold hyd, count_sub. now destruct (1 =? 0).
  - unfold count_sub. now destruct (1 =? 0).
  - intros j thj Hne Hj.
    refine (others_win_ok_reader c progs cs _ tid th th' (t_id t) t true rest SC Hinv Hth Htodo eq_refl _ _ j thj Hne Hj (Iwin j thj Hj)).
    + intros t' Hn. rewrite get_ts_upd_ts. now replace (t' =? t_id t) with false by lia.
    + intros t' _. apply Hmid'.
  - split; [apply th_ok_start; [reflexivity|]|split].
    + cbn. rewrite Htodo in Hsimple. now inversion Hsimple.
    + cbn. rewrite Htodo in Hsimple. now inversion Hsimple.
    + eapply hist_ok_ret; eauto. exact I.
  - apply win_ok_start. reflexivity.
  - apply (seq_ret _ th th' (CRead t true) (REntry o) Hhist Hret).
    + intros t'. unfold del_pending. rewrite Htodo. cbn [del_hist]. rewrite app_nil_r.
      destruct Hpc as [(tl & Hpc)|Hpc]; rewrite Hpc; reflexivity.
    + intros t'. now rewrite Hw.
Qed.

(* a step that changes only the stepping thread's pc *)
Lemma step_same c progs cs tid th th' t0 :
  INV c progs cs -> nth_error (cs_threads cs) tid = Some th -> head_topic th = Some t0 ->
  let cs' := upd cs (cs_sh cs) tid th' in
  same_hist th th' ->
  (forall t, th_mid t th' = th_mid t th) -> (forall t, th_holds t th' = th_holds t th) ->
  (th_ok c cs' th' /\ Forall (fun cl => simple_call cl = true) (th_todo th')) ->
  win_ok c cs' th' ->
  (forall t, del_pending t th' = del_pending t th) -> (forall t, wr_pending t th' = wr_pending t th) ->
  INV c progs cs'.
Proof.
  intros Hinv Hth Hhead cs' Hsame Hmid Hholds (Hok' & Hsimple') Hwin' Hdp Hwp.
  pose proof Hinv as [Inext Its Ibf Ilock Ilen Ith Iwin Idel Iown Iowned].
  destruct (Ith tid th Hth) as (Hok & Hsimple & Hhist).
  assert (Hmideq : forall t', mid cs' t' = mid cs t') by (intros t'; apply (mid_upd_same cs (cs_sh cs) tid th th' t' Hth); apply Hmid).
  assert (Heff' : forall t', eff cs' t' = eff cs t') by (intros t'; unfold eff; rewrite Hmideq; reflexivity).
  assert (Hseq := seq_same (nth tid progs []) th th' Hsame Hdp Hwp).
  apply (INV_step c progs cs (cs_sh cs) tid th th' t0 [] [] Hinv Hth Hhead).
  - exact Ibf.
  - unfold nid_of. cbn. lia.
  - reflexivity.
  - intros t' Hne. rewrite Hmid. eapply head_topic_mid_false; eauto.
  - apply (lock_same cs (cs_sh cs) tid th th' Ilock Hth); [reflexivity|exact Hholds].
  - fold cs'. rewrite Heff'. apply Its.
  - fold cs'. rewrite Heff'. apply effect_none; reflexivity.
  - split; [exact Hok'|]. split; [exact Hsimple'|]. eapply hist_ok_same; eauto.
  - intros j thj Hne Hj. destruct (Ith j thj Hj) as (Hokj & _ & _).
    refine (others_th_ok c cs (cs_sh cs) tid th th' t0 Hth Hhead (fun _ _ => eq_refl) _ _ j thj Hne Hj Hokj); auto.
  - exact Hwin'.
  - intros j thj Hne Hj.
    refine (others_win_ok c cs (cs_sh cs) tid th th' t0 Hth Hhead (fun _ _ => eq_refl) _ _ _ _ j thj Hne Hj (Iwin j thj Hj)); auto.
    + intros t' Hn. rewrite Hmid. eapply head_topic_mid_false; eauto.
    + apply rd_same_refl.
    + intros Hm. fold cs'. now rewrite Hmideq.
  - intros i thi Hi Hcons tho Hio. rewrite app_nil_r.
    destruct (Nat.eq_dec i tid) as [->|Hne].
    + rewrite (upd_nth_same _ _ _ _ _ Hth) in Hi. inversion Hi; subst thi. rewrite Hth in Hio. inversion Hio; subst tho. apply Hseq.
    + rewrite upd_nth_other in Hi by exact Hne. congruence.
  - intros i thi tho Hi Hio. cbn [filter]. rewrite app_nil_r.
    destruct (Nat.eq_dec i tid) as [->|Hne].
    + rewrite (upd_nth_same _ _ _ _ _ Hth) in Hi. inversion Hi; subst thi. rewrite Hth in Hio. inversion Hio; subst tho. apply Hseq.
    + rewrite upd_nth_other in Hi by exact Hne. congruence.
  - intros e0 [].
  - intros t' _. apply Hseq.
Qed.

(* R2c: the sealed chain is exhausted: tail snapshot *)
Lemma step_R2_tail c progs cs tid th t rest :
  INV c progs cs ->
  nth_error (cs_threads cs) tid = Some th -> th_todo th = CRead t true :: rest -> th_pc th = PR_top ->
  let r := reader_of (get_ts (sh_st (cs_sh cs)) (t_id t)) in
  nth_error (r_chain r) (r_idx r) = None ->
  INV c progs (upd cs (cs_sh cs) tid (rthread t rest (PR_t_snap (r_tail_bid r) (r_tail_off r)) (th_done th))).
Proof.
  intros Hinv Hth Htodo Hpc r Hnone. pose proof Hinv as [Inext Its Ibf Ilock Ilen Ith Iwin Idel Iown Iowned].
  destruct (read_common c progs cs tid th t rest Hinv Hth Htodo) as (Hhead & Hm & Hh & Hw).
  destruct (Ith tid th Hth) as (Hok & Hsimple & Hhist).
  assert (Hhy : hyd (rawts cs (t_id t))) by (eapply th_read_hyd; eauto; rewrite Hpc; discriminate).
  apply (step_same c progs cs tid th _ (t_id t) Hinv Hth Hhead).
  - split; [now rewrite Htodo|reflexivity].
  - intros t'. now rewrite Hm.
  - intros t'. now rewrite Hh.
  - split; [|cbn; now rewrite <- Htodo]. unfold th_ok. cbn. split; [reflexivity|exact Hhy].
  - unfold win_ok. cbn [th_todo th_pc rthread]. cbn zeta. rewrite rawts_upd. fold r. split; [|split; reflexivity].
    pose proof (tp_idx _ _ _ (Its (t_id t))) as Hidx. rewrite reader_of_eff in Hidx. unfold chain_of in Hidx. rewrite reader_of_eff in Hidx.
    apply nth_error_None in Hnone. unfold rawts in Hidx. fold r in Hidx. lia.
  - intros t'. unfold del_pending. cbn. now rewrite Htodo, Hpc.
  - intros t'. now rewrite Hw.
Qed.

(* R5: the writer snapshot *)
Lemma step_R5 c progs cs tid th t rest sb so w :
  INV c progs cs ->
  nth_error (cs_threads cs) tid = Some th -> th_todo th = CRead t true :: rest -> th_pc th = PR_t_snap sb so ->
  ts_writer (get_ts (sh_st (cs_sh cs)) (t_id t)) = Some w -> wl_holder (sh_wl (cs_sh cs)) (t_id t) = None ->
  INV c progs (upd cs (cs_sh cs) tid (rthread t rest (PR_t_wsnap sb so w) (th_done th))).
Proof.
  intros Hinv Hth Htodo Hpc Hw0 Hfree. pose proof Hinv as [Inext Its Ibf Ilock Ilen Ith Iwin Idel Iown Iowned].
  destruct (read_common c progs cs tid th t rest Hinv Hth Htodo) as (Hhead & Hm & Hh & Hw).
  destruct (Ith tid th Hth) as (Hok & Hsimple & Hhist).
  assert (Hhy : hyd (rawts cs (t_id t))) by (eapply th_read_hyd; eauto; rewrite Hpc; discriminate).
  pose proof (Iwin tid th Hth) as Hwin. unfold win_ok in Hwin. rewrite Htodo, Hpc in Hwin. cbn zeta in Hwin.
  destruct Hwin as (W1 & W2 & W3).
  assert (Hnm : mid cs (t_id t) = false) by (apply mid_false_free; assumption).
  set (th' := rthread t rest (PR_t_wsnap sb so w) (th_done th)).
  assert (Hmideq : mid (upd cs (cs_sh cs) tid th') (t_id t) = false).
  { rewrite (mid_upd_same cs (cs_sh cs) tid th th' (t_id t) Hth); [exact Hnm|now rewrite Hm]. }
  apply (step_same c progs cs tid th th' (t_id t) Hinv Hth Hhead).
  - split; [now rewrite Htodo|reflexivity].
  - intros t'. now rewrite Hm.
  - intros t'. now rewrite Hh.
  - split; [|cbn; now rewrite <- Htodo]. unfold th_ok. cbn. split; [reflexivity|exact Hhy].
  - unfold win_ok, th'. cbn [th_todo th_pc rthread]. cbn zeta. fold th'. rewrite rawts_upd.
    split; [exact Hmideq|]. split; [exact W1|]. split; [exact W2|]. split; [exact W3|].
    exists w, []. split; [exact Hw0|]. split; [reflexivity|]. split; [now rewrite app_nil_r|].
    pose proof (tp_writer _ _ _ (Its (t_id t))) as Hwf. rewrite (eff_nomid _ _ Hnm) in Hwf. unfold w_list, rawts in Hwf.
    rewrite Hw0 in Hwf. inversion Hwf as [|x l (A & _) _]. exact A.
  - intros t'. unfold del_pending. cbn. now rewrite Htodo, Hpc.
  - intros t'. now rewrite Hw.
Qed.

(* a commit: the consumer takes the first unread entry *)
Lemma step_del c progs cs tid th t rest tl e pers ru (f : tstate -> tstate) :
  single_consumer progs -> INV c progs cs ->
  nth_error (cs_threads cs) tid = Some th -> th_todo th = CRead t true :: rest ->
  (forall t', del_pending t' th = []) ->
  (forall ts w, f (with_writer ts w) = with_writer (f ts) w) ->
  unread c (eff cs (t_id t)) = e :: ru ->
  (TInvP c (nid_of cs) (f (eff cs (t_id t))) /\ stream (f (eff cs (t_id t))) = stream (eff cs (t_id t)) /\
   unread c (f (eff cs (t_id t))) = ru) ->
  hyd (f (rawts cs (t_id t))) ->
  ts_writer (f (rawts cs (t_id t))) = ts_writer (rawts cs (t_id t)) ->
  INV c progs (upd cs (upd_ts (cs_sh cs) (t_id t) (f (rawts cs (t_id t)))) tid
                 (rthread t rest (PR_commit tl (REntry (out_of e)) pers) (th_done th))).
Proof.
  intros SC Hinv Hth Htodo Hdp0 Hcomm Hun (Q1 & Q2 & Q3) Hhyd Hwr.
  pose proof Hinv as [Inext Its Ibf Ilock Ilen Ith Iwin Idel Iown Iowned].
  destruct (read_common c progs cs tid th t rest Hinv Hth Htodo) as (Hhead & Hm & Hh & Hw).
  destruct (Ith tid th Hth) as (Hok & Hsimple & Hhist).
  set (t0 := t_id t) in *.
  set (th' := rthread t rest (PR_commit tl (REntry (out_of e)) pers) (th_done th)).
  set (sh' := upd_ts (cs_sh cs) t0 (f (rawts cs t0))).
  assert (Hoth : forall t', t' <> t0 -> get_ts (sh_st sh') t' = get_ts (sh_st (cs_sh cs)) t').
  { intros t' Hne. unfold sh'. rewrite get_ts_upd_ts. now replace (t' =? t0) with false by lia. }
  assert (Hraw' : get_ts (sh_st sh') t0 = f (rawts cs t0)) by (unfold sh'; rewrite get_ts_upd_ts; now rewrite N.eqb_refl).
  assert (Hmideq : forall t', mid (upd cs sh' tid th') t' = mid cs t').
  { intros t'. apply (mid_upd_same cs sh' tid th th' t' Hth). now rewrite Hm. }
  assert (Heff' : eff (upd cs sh' tid th') t0 = f (eff cs t0)).
  { rewrite eff_upd, Hmideq, Hraw'. unfold eff. destruct (mid cs t0); [now rewrite Hcomm|reflexivity]. }
  assert (Hnid : nid_of (upd cs sh' tid th') = nid_of cs) by (apply (nid_upd_ts cs sh' tid th' t0 (f (rawts cs t0))); reflexivity).
  assert (Hsame : same_hist th th') by (split; [now rewrite Htodo|reflexivity]).
  assert (Hcons : consumes (nth tid progs []) t0) by (exists t, true; split; [eapply head_in_prog; eauto|reflexivity]).
  apply (INV_step c progs cs sh' tid th th' t0 [] [e] Hinv Hth Hhead).
  - exact Ibf.
  - rewrite Hnid. lia.
  - exact Hoth.
  - intros t' _. reflexivity.
  - apply (lock_same cs sh' tid th th' Ilock Hth); [reflexivity|]. intros t'. now rewrite Hh.
  - rewrite Heff', Hnid. exact Q1.
  - rewrite Heff'. split; [now rewrite app_nil_r|]. rewrite app_nil_r, Hun, Q3. reflexivity.
  - split; [|split].
    + unfold th_ok, th'. cbn [th_todo th_pc rthread]. split; [reflexivity|]. split; [|eauto]. unfold hyd. rewrite rawts_upd. fold t0. rewrite Hraw'. exact Hhyd.
    + cbn. now rewrite <- Htodo.
    + eapply hist_ok_same; eauto.
  - intros j thj Hne Hj. destruct (Ith j thj Hj) as (Hokj & _ & _).
    refine (others_th_ok c cs sh' tid th th' t0 Hth Hhead Hoth _ _ j thj Hne Hj Hokj).
    + intros _. rewrite Hraw'. exact Hhyd.
    + intros j' thj' w _ _ _ Hw0. rewrite Hraw', Hwr. exact Hw0.
  - unfold win_ok, th'. cbn. exact I.
  - intros j thj Hne Hj.
    refine (others_win_ok_reader c progs cs sh' tid th th' t0 t true rest SC Hinv Hth Htodo eq_refl Hoth _ j thj Hne Hj (Iwin j thj Hj)).
    intros t' _. reflexivity.
  - intros i thi Hi Hci tho Hio.
    assert (i = tid) by (apply (SC t0); assumption). subst i.
    rewrite (upd_nth_same _ _ _ _ _ Hth) in Hi. inversion Hi; subst thi. rewrite Hth in Hio. inversion Hio; subst tho.
    unfold del_seq, done_of. destruct Hsame as (A & B). rewrite A, B. rewrite <- app_assoc. f_equal.
    rewrite Hdp0. unfold del_pending, th'. cbn. fold t0. now rewrite N.eqb_refl.
  - intros i thi tho Hi Hio. cbn [filter]. rewrite app_nil_r.
    destruct (Nat.eq_dec i tid) as [->|Hne].
    + rewrite (upd_nth_same _ _ _ _ _ Hth) in Hi. inversion Hi; subst thi. rewrite Hth in Hio. inversion Hio; subst tho.
      apply wr_seq_same; [exact Hsame|]. now rewrite Hw.
    + rewrite upd_nth_other in Hi by exact Hne. congruence.
  - intros e0 [].
  - intros t' Hne. split.
    + apply del_seq_same; [exact Hsame|]. rewrite Hdp0. unfold del_pending, th'. cbn. fold t0. now replace (t0 =? t') with false by lia.
    + apply wr_seq_same; [exact Hsame|]. now rewrite Hw.
Qed.

(* R2b: a consuming read of the next sealed entry *)
Lemma step_R2_read c m progs cs tid th t rest b :
  cfg_ok c -> single_consumer progs -> INV c progs cs ->
  nth_error (cs_threads cs) tid = Some th -> th_todo th = CRead t true :: rest -> th_pc th = PR_top ->
  let ts := get_ts (sh_st (cs_sh cs)) (t_id t) in
  let r := reader_of ts in
  nth_error (r_chain r) (r_idx r) = Some b -> r_off r < b_used b ->
  exists e, block_read c b (r_off r) = Some (e, need c e) /\
    let r4 := set_cur r (r_idx r) (r_off r + need c e) in
    forall r5 p, should_persist m r4 false = (r5, p) ->
    INV c progs (upd cs (upd_ts (cs_sh cs) (t_id t) (with_reader ts r5)) tid
                   (rthread t rest (PR_commit false (REntry (out_of e)) (pers_of p false (N.of_nat (r_idx r)) (r_off r + need c e))) (th_done th))).
Proof.
  intros Hc SC Hinv Hth Htodo Hpc ts r Hnth Hlt. pose proof Hinv as [Inext Its Ibf Ilock Ilen Ith Iwin Idel Iown Iowned].
  destruct (Ith tid th Hth) as (Hok & _ & _).
  assert (Hhy : hyd (rawts cs (t_id t))) by (eapply th_read_hyd; eauto; rewrite Hpc; discriminate).
  destruct Hc as (Hh0 & _).
  pose proof (sealed_read_step c Hh0 m (nid_of cs) (eff cs (t_id t)) b (Its (t_id t))) as Hs.
  assert (A1 : r_hydrated (reader_of (eff cs (t_id t))) = true) by (apply hyd_eff; exact Hhy).
  assert (A2 : nth_error (chain_of (eff cs (t_id t))) (r_idx (reader_of (eff cs (t_id t)))) = Some b)
    by (unfold chain_of; rewrite reader_of_eff; exact Hnth).
  assert (A3 : r_off (reader_of (eff cs (t_id t))) < b_used b) by (rewrite reader_of_eff; exact Hlt).
  destruct (Hs A1 A2 A3) as (e & ru & Hbr & Hun & Hrest). cbn zeta in Hrest.
  rewrite (reader_of_eff cs (t_id t)) in Hbr. rewrite (reader_of_eff cs (t_id t)) in Hrest. fold (rawts cs (t_id t)) in ts. fold ts r in Hbr, Hrest.
  exists e. split; [exact Hbr|]. intros r4 r5 p Hsp. unfold r4 in Hsp. rewrite Hsp in Hrest. cbn [fst] in Hrest.
  destruct Hrest as (Q1 & Q2 & Q3 & Q4).
  apply (step_del c progs cs tid th t rest false e _ ru (fun x => with_reader x r5) SC Hinv Hth Htodo).
  - intros t'. unfold del_pending. now rewrite Htodo, Hpc.
  - reflexivity.
  - exact Hun.
  - split; [exact Q1|split; [exact Q2|exact Q3]].
  - exact Q4.
  - reflexivity.
Qed.

(* R6: after the writer snapshot: known offset, provisional tail position *)
Lemma step_R6 c m progs cs tid th t rest sb so a :
  cfg_ok c -> single_consumer progs -> INV c progs cs ->
  nth_error (cs_threads cs) tid = Some th -> th_todo th = CRead t true :: rest -> th_pc th = PR_t_wsnap sb so a ->
  let ts := get_ts (sh_st (cs_sh cs)) (t_id t) in
  let r := reader_of ts in
  let off := if sb =? b_id a then so else 0 in
  let ts1 := if true && (off =? 0) && (0 <? b_used a)
             then let '(r', p) := should_persist m r true in
                  let ts' := with_reader ts r' in
                  if p then persist ts' true (b_id a) 0 else ts'
             else ts in
  INV c progs (upd cs (upd_ts (cs_sh cs) (t_id t) ts1) tid (rthread t rest (PR_t_init a off) (th_done th))).
Proof.
  intros Hc SC Hinv Hth Htodo Hpc ts r off ts1. pose proof Hinv as [Inext Its Ibf Ilock Ilen Ith Iwin Idel Iown Iowned].
  destruct (Ith tid th Hth) as (Hok & _ & _).
  assert (Hhy : hyd (rawts cs (t_id t))) by (eapply th_read_hyd; eauto; rewrite Hpc; discriminate).
  pose proof (Iwin tid th Hth) as Hwin. unfold win_ok in Hwin. rewrite Htodo, Hpc in Hwin. cbn zeta in Hwin.
  destruct Hwin as (W0 & W1 & W2 & W3 & W4). fold (rawts cs (t_id t)) in ts. fold ts r in W1, W2, W3, W4.
  (* the update as a function of the topic state *)
  set (f := fun x : tstate =>
              if true && (off =? 0) && (0 <? b_used a)
              then let '(r', p) := should_persist m r true in
                   let ts' := with_reader x r' in
                   if p then persist ts' true (b_id a) 0 else ts'
              else x).
  assert (Hf : ts1 = f ts) by reflexivity.
  pose proof (init_step c m (nid_of cs) (eff cs (t_id t)) (b_id a) (Its (t_id t)) (proj2 (hyd_eff cs (t_id t)) Hhy)) as Hin.
  rewrite (reader_of_eff cs (t_id t)) in Hin. fold ts r in Hin.
  assert (Hfacts : TInvP c (nid_of cs) (f (eff cs (t_id t))) /\ stream (f (eff cs (t_id t))) = stream (eff cs (t_id t)) /\
                   unread c (f (eff cs (t_id t))) = unread c (eff cs (t_id t)) /\
                   r_idx (reader_of (f ts)) = r_idx r /\ r_chain (reader_of (f ts)) = r_chain r /\
                   r_tail_bid (reader_of (f ts)) = r_tail_bid r /\ r_tail_off (reader_of (f ts)) = r_tail_off r /\
                   hyd (f ts) /\ ts_writer (f ts) = ts_writer ts).
  { unfold f. destruct (true && (off =? 0) && (0 <? b_used a)).
    - destruct (should_persist m r true) as [r' p] eqn:Esp. cbn zeta in Hin.
      destruct Hin as (I1 & I2 & I3 & I4 & I5 & I6 & I7 & I8 & I9 & I10).
      pose proof (should_persist_same m r true) as Hs. rewrite Esp in Hs. destruct Hs as (F1 & F2 & F3 & F4 & F5 & F6).
      split; [exact I1|]. split; [exact I2|]. split; [exact I3|].
      destruct p; cbn [persist with_index with_reader reader_of ts_reader ts_writer]; unfold hyd; cbn [reader_of ts_reader];
        repeat split; auto; unfold hyd in Hhy; fold ts r in Hhy; congruence.
    - split; [apply Its|]. repeat split; auto. }
  destruct Hfacts as (Q1 & Q2 & Q3 & G1 & G2 & G3 & G4 & G5 & G6).
  rewrite Hf.
  apply (step_R_quiet c progs cs tid th t rest (PR_t_init a off) f SC Hinv Hth Htodo).
  - intros x w. unfold f. destruct (true && (off =? 0) && (0 <? b_used a)); [|reflexivity].
    destruct (should_persist m r true) as [r' p]. destruct p; reflexivity.
  - split; [exact Q1|split; [exact Q2|exact Q3]].
  - exact G5.
  - exact G6.
  - intros Hy. unfold th_ok. cbn. split; [reflexivity|exact Hy].
  - unfold win_ok. cbn [th_todo th_pc rthread]. cbn zeta. rewrite rawts_upd, get_ts_upd_ts, N.eqb_refl.
    fold (rawts cs (t_id t)). fold ts. rewrite G1, G2, G3, G4.
    split.
    { rewrite (mid_upd_same cs _ tid th _ (t_id t) Hth); [exact W0|]. unfold th_mid. now rewrite Htodo. }
    split; [exact W1|]. split.
    { destruct W4 as (w & suf & A & B & C0 & D). exists w, suf. rewrite G6. repeat split; auto. }
    unfold off. now rewrite W2, W3.
  - intros t'. unfold del_pending. cbn. now rewrite Htodo, Hpc.
Qed.

(* R7: the read from the snapshot and the tail commit *)
Lemma step_R7 c m progs cs tid th t rest a off :
  cfg_ok c -> single_consumer progs -> INV c progs cs ->
  nth_error (cs_threads cs) tid = Some th -> th_todo th = CRead t true :: rest -> th_pc th = PR_t_init a off ->
  off < b_used a ->
  let ts := get_ts (sh_st (cs_sh cs)) (t_id t) in
  let r := reader_of ts in
  exists e, block_read c a off = Some (e, need c e) /\
    let r5 := set_tail r (b_id a) (off + need c e) in
    forall r6 p, should_persist m r5 false = (r6, p) ->
    INV c progs (upd cs (upd_ts (cs_sh cs) (t_id t) (with_reader ts r6)) tid
                   (rthread t rest (PR_commit true (REntry (out_of e)) (pers_of p true (b_id a) (off + need c e))) (th_done th))).
Proof.
  intros Hc SC Hinv Hth Htodo Hpc Hlt ts r. pose proof Hinv as [Inext Its Ibf Ilock Ilen Ith Iwin Idel Iown Iowned].
  destruct (Ith tid th Hth) as (Hok & _ & _).
  assert (Hhy : hyd (rawts cs (t_id t))) by (eapply th_read_hyd; eauto; rewrite Hpc; discriminate).
  pose proof (Iwin tid th Hth) as Hwin. unfold win_ok in Hwin. rewrite Htodo, Hpc in Hwin. cbn zeta in Hwin.
  destruct Hwin as (W0 & W1 & (w & suf & A & B & C0 & D) & W3). fold (rawts cs (t_id t)) in ts. fold ts r in W1, W3, A.
  destruct Hc as (Hh0 & _).
  pose proof (eff_nomid cs (t_id t) W0) as He. fold ts in He.
  pose proof (tail_read_step c Hh0 m (nid_of cs) (eff cs (t_id t)) w a suf off (Its (t_id t))) as Hs.
  rewrite He in Hs.
  assert (Hts : off = tail_start ts w).
  { unfold tail_start. fold r. rewrite <- B. exact W3. }
  destruct (Hs Hhy W1 A B C0 D Hts Hlt) as (e & ru & Hbr & Hun & Hrest). cbn zeta in Hrest. fold r in Hrest.
  exists e. split; [exact Hbr|]. intros r5 r6 p Hsp. unfold r5 in Hsp. rewrite Hsp in Hrest. cbn [fst] in Hrest.
  destruct Hrest as (Q1 & Q2 & Q3 & Q4 & Q5).
  apply (step_del c progs cs tid th t rest true e _ ru (fun x => with_reader x r6) SC Hinv Hth Htodo).
  - intros t'. unfold del_pending. now rewrite Htodo, Hpc.
  - reflexivity.
  - rewrite He. exact Hun.
  - rewrite He. split; [exact Q1|split; [exact Q2|exact Q3]].
  - exact Q4.
  - reflexivity.
Qed.

(* ------------------------------------------------------------------ append segments *)
Definition athread (t : topic) (e : entry) (rest : list call) (p : pc) (d : list result) : thread :=
  {| th_todo := CAppend t e :: rest; th_pc := p; th_done := d |}.

Lemma append_common c progs cs tid th t e rest :
  INV c progs cs -> nth_error (cs_threads cs) tid = Some th -> th_todo th = CAppend t e :: rest ->
  head_topic th = Some (t_id t) /\ (forall t', del_pending t' th = []) /\
  own (nth tid progs []) e = true /\ (tid < length progs)%nat.
Proof.
  intros Hinv Hth Htodo. destruct (iv_th _ _ _ Hinv tid th Hth) as (_ & _ & Hhist).
  split; [unfold head_topic; now rewrite Htodo|]. split; [intros; unfold del_pending; now rewrite Htodo|].
  split; [eapply own_head, head_in_prog; eauto|]. rewrite <- (iv_len _ _ _ Hinv). eapply nth_error_lt; eauto.
Qed.

Lemma ensure_writer_facts c s t : cfg_ok c ->
  exists s1 w, ensure_writer c s t = (s1, w) /\
    (forall t', t' <> t_id t -> get_ts s1 t' = get_ts s t') /\
    ((get_ts s1 (t_id t) = get_ts s (t_id t) /\ a_next (s_alloc s1) = a_next (s_alloc s)) \/
     (ts_writer (get_ts s (t_id t)) = None /\ exists b, fresh_blk (a_next (s_alloc s)) b /\
        get_ts s1 (t_id t) = with_writer (get_ts s (t_id t)) (Some b) /\ a_next (s_alloc s1) = a_next (s_alloc s) + 1)).
Proof.
  intros (Hh & Hb0 & Hba & Hbm & Hme & Hhb). unfold ensure_writer.
  destruct (ts_writer (get_ts s (t_id t))) as [w|] eqn:Ew.
  - exists s, w. split; [reflexivity|]. split; [reflexivity|]. left. split; reflexivity.
  - destruct (alloc_first_spec c s ltac:(lia)) as (s1 & b & Ha & Hsame & Hnext & Hfresh & Hlim). rewrite Ha.
    eexists; eexists. split; [reflexivity|]. split.
    + intros t' Hne. rewrite get_set_other by exact Hne. apply Hsame.
    + right. split; [reflexivity|]. exists b. split; [exact Hfresh|]. rewrite get_set_same, Hsame. split; [reflexivity|]. cbn. exact Hnext.
Qed.

(* A1: get_or_create_writer (and the flag / argument checks): the thread parks at w_flag or returns an error *)
Lemma step_A1 c progs cs tid th t e rest th' s1 w :
  cfg_ok c -> INV c progs cs ->
  nth_error (cs_threads cs) tid = Some th -> th_todo th = CAppend t e :: rest -> th_pc th = PStart ->
  ensure_writer c (sh_st (cs_sh cs)) t = (s1, w) ->
  (th' = athread t e rest PA_flag (th_done th) /\ appendable c t (e_len e) = None \/
   exists k, th' = {| th_todo := rest; th_pc := PStart; th_done := RErr k :: th_done th |}) ->
  INV c progs (upd cs (with_st (cs_sh cs) s1) tid th').
Proof.
  intros Hc Hinv Hth Htodo Hpc Hens Hth'. pose proof Hinv as [Inext Its Ibf Ilock Ilen Ith Iwin Idel Iown Iowned].
  destruct (append_common c progs cs tid th t e rest Hinv Hth Htodo) as (Hhead & Hdp & Hown & Htl).
  destruct (Ith tid th Hth) as (Hok & Hsimple & Hhist).
  set (t0 := t_id t) in *. set (sh' := with_st (cs_sh cs) s1).
  destruct (ensure_writer_facts c (sh_st (cs_sh cs)) t Hc) as (s1' & w' & He' & Hoth & Hcase). rewrite Hens in He'. inversion He'; subst s1' w'. clear He'.
  assert (Hm : forall t', th_mid t' th = false) by (intros; unfold th_mid; now rewrite Htodo, Hpc).
  assert (Hh : forall t', th_holds t' th = false) by (intros; unfold th_holds; now rewrite Htodo, Hpc).
  assert (Hwp : forall t', wr_pending t' th = []) by (intros; unfold wr_pending; now rewrite Htodo, Hpc).
  assert (Hm' : forall t', th_mid t' th' = false).
  { intros t'. destruct Hth' as [(-> & _)|(k & ->)]; unfold th_mid; cbn; [reflexivity|now destruct rest as [|[| | |] ?]]. }
  assert (Hh' : forall t', th_holds t' th' = false).
  { intros t'. destruct Hth' as [(-> & _)|(k & ->)]; unfold th_holds; cbn; [reflexivity|now destruct rest as [|[| | |] ?]]. }
  assert (Hmideq : forall t', mid (upd cs sh' tid th') t' = mid cs t').
  { intros t'. apply (mid_upd_same cs sh' tid th th' t' Hth). now rewrite Hm', Hm. }
  fold t0 in Hoth, Hcase.
  (* the effective state of t0 *)
  assert (Heff : TInvP c (nid_of (upd cs sh' tid th')) (eff (upd cs sh' tid th') t0) /\
                 stream (eff (upd cs sh' tid th') t0) = stream (eff cs t0) /\
                 unread c (eff (upd cs sh' tid th') t0) = unread c (eff cs t0) /\ nid_of cs <= nid_of (upd cs sh' tid th')).
  { rewrite eff_upd, Hmideq. unfold nid_of at 1 3. cbn [upd cs_sh sh' with_st sh_st].
    destruct Hcase as [(E1 & E2)|(Hnone & b & Hfr & E1 & E2)]; rewrite E1, E2.
    - change (if mid cs t0 then with_writer (get_ts (sh_st (cs_sh cs)) t0) None else get_ts (sh_st (cs_sh cs)) t0) with (eff cs t0).
      split; [apply Its|]. split; [reflexivity|]. split; [reflexivity|]. unfold nid_of. lia.
    - unfold eff, rawts. fold (nid_of cs). destruct (mid cs t0) eqn:Em.
      + rewrite with_writer_twice. pose proof (Its t0) as X. unfold eff, rawts in X. rewrite Em in X.
        split; [eapply TInvP_mono; [|exact X]; lia|]. repeat split; lia.
      + pose proof (Its t0) as X. unfold eff, rawts in X. rewrite Em in X.
        destruct (first_writer c (nid_of cs) _ b Inext X Hnone Hfr) as (F1 & F2 & F3).
        split; [exact F1|]. split; [exact F2|]. split; [exact F3|lia]. }
  destruct Heff as (Q1 & Q2 & Q3 & Q4).
  assert (Hraw_hyd : hyd (rawts cs t0) -> hyd (get_ts (sh_st sh') t0)).
  { cbn [sh' with_st sh_st]. destruct Hcase as [(E1 & _)|(_ & b & _ & E1 & _)]; rewrite E1; auto. }
  assert (Hraw_w : forall w0, ts_writer (rawts cs t0) = Some w0 -> ts_writer (get_ts (sh_st sh') t0) = Some w0).
  { cbn [sh' with_st sh_st]. intros w0 Hw0. destruct Hcase as [(E1 & _)|(Hnone & _)]; [now rewrite E1|]. unfold rawts in Hw0. congruence. }
  assert (Hraw_rd : rd_same (rawts cs t0) (get_ts (sh_st sh') t0)).
  { cbn [sh' with_st sh_st]. destruct Hcase as [(E1 & _)|(_ & b & _ & E1 & _)]; rewrite E1; repeat split. }
  assert (Hraw_snap : forall a, snap_ok c (rawts cs t0) a -> snap_ok c (get_ts (sh_st sh') t0) a).
  { cbn [sh' with_st sh_st]. intros a Hs. destruct Hcase as [(E1 & _)|(Hnone & _)]; [now rewrite E1|].
    destruct Hs as (w0 & suf & A & _). unfold rawts in A. congruence. }
  assert (Hseq : forall t', del_seq t' (nth tid progs []) th' = del_seq t' (nth tid progs []) th /\
                            wr_seq t' (nth tid progs []) th' = wr_seq t' (nth tid progs []) th).
  { destruct Hth' as [(-> & _)|(k & ->)].
    - apply seq_same; [split; [now rewrite Htodo|reflexivity]| |].
      + intros t'. now rewrite Hdp.
      + intros t'. now rewrite Hwp.
    - apply (seq_ret _ th _ (CAppend t e) (RErr k) Hhist); [exists rest; repeat split; auto| |].
      + intros t'. now rewrite Hdp.
      + intros t'. now rewrite Hwp. }
  apply (INV_step c progs cs sh' tid th th' t0 [] [] Hinv Hth Hhead).
  - exact Ibf.
  - exact Q4.
  - exact Hoth.
  - intros t' _. apply Hm'.
  - apply (lock_same cs sh' tid th th' Ilock Hth); [reflexivity|]. intros t'. now rewrite Hh', Hh.
  - exact Q1.
  - apply effect_none; assumption.
  - destruct Hth' as [(-> & Hap)|(k & ->)].
    + split; [unfold th_ok; cbn; exact Hap|]. split; [cbn; now rewrite <- Htodo|].
      eapply hist_ok_same; [|exact Hhist]. split; [now rewrite Htodo|reflexivity].
    + split; [apply th_ok_start; [reflexivity|cbn; rewrite Htodo in Hsimple; now inversion Hsimple]|].
      split; [cbn; rewrite Htodo in Hsimple; now inversion Hsimple|].
      apply (hist_ok_ret _ th _ (CAppend t e) (RErr k)); [exists rest; repeat split; auto|exact I|exact Hhist].
  - intros j thj Hne Hj. destruct (Ith j thj Hj) as (Hokj & _ & _).
    refine (others_th_ok c cs sh' tid th th' t0 Hth Hhead Hoth Hraw_hyd _ j thj Hne Hj Hokj).
    intros j' thj' w0 _ _ _ Hw0. now apply Hraw_w.
  - destruct Hth' as [(-> & _)|(k & ->)]; [unfold win_ok; cbn; exact I|apply win_ok_start; reflexivity].
  - intros j thj Hne Hj.
    refine (others_win_ok c cs sh' tid th th' t0 Hth Hhead Hoth (fun t' _ => Hm' t') Hraw_rd _ _ j thj Hne Hj (Iwin j thj Hj)).
    + intros _. exact Hraw_snap.
    + intros Hmf. now rewrite Hmideq.
  - intros i thi Hi Hcons tho Hio. rewrite app_nil_r.
    destruct (Nat.eq_dec i tid) as [->|Hne].
    + rewrite (upd_nth_same _ _ _ _ _ Hth) in Hi. inversion Hi; subst thi. rewrite Hth in Hio. inversion Hio; subst tho. apply Hseq.
    + rewrite upd_nth_other in Hi by exact Hne. congruence.
  - intros i thi tho Hi Hio. cbn [filter]. rewrite app_nil_r.
    destruct (Nat.eq_dec i tid) as [->|Hne].
    + rewrite (upd_nth_same _ _ _ _ _ Hth) in Hi. inversion Hi; subst thi. rewrite Hth in Hio. inversion Hio; subst tho. apply Hseq.
    + rewrite upd_nth_other in Hi by exact Hne. congruence.
  - intros e0 [].
  - intros t' _. apply Hseq.
Qed.

(* the bookkeeping of a step that writes entry e of thread tid's current append *)
Lemma app_bookkeeping c progs cs sh' tid th t e rest :
  NoDup (offered_pids progs) -> INV c progs cs ->
  nth_error (cs_threads cs) tid = Some th -> th_todo th = CAppend t e :: rest -> th_pc th <> PA_written ->
  let th' := athread t e rest PA_written (th_done th) in
  let cs' := upd cs sh' tid th' in
  (forall i thi, nth_error (cs_threads cs') i = Some thi -> consumes (nth i progs []) (t_id t) ->
     forall tho, nth_error (cs_threads cs) i = Some tho ->
     del_seq (t_id t) (nth i progs []) thi = del_seq (t_id t) (nth i progs []) tho ++ map out_of []) /\
  (forall i thi tho, nth_error (cs_threads cs') i = Some thi -> nth_error (cs_threads cs) i = Some tho ->
     wr_seq (t_id t) (nth i progs []) thi = wr_seq (t_id t) (nth i progs []) tho ++ filter (own (nth i progs [])) [e]) /\
  (forall e0, In e0 [e] -> exists i, (i < length progs)%nat /\ own (nth i progs []) e0 = true) /\
  (forall t', t' <> t_id t -> del_seq t' (nth tid progs []) th' = del_seq t' (nth tid progs []) th /\
                              wr_seq t' (nth tid progs []) th' = wr_seq t' (nth tid progs []) th).
Proof.
  intros Hnd Hinv Hth Htodo Hpc th' cs'.
  destruct (append_common c progs cs tid th t e rest Hinv Hth Htodo) as (Hhead & Hdp & Hown & Htl).
  assert (Hsame : same_hist th th') by (split; [now rewrite Htodo|reflexivity]).
  assert (Hwp : forall t', wr_pending t' th = []).
  { intros t'. unfold wr_pending. rewrite Htodo. destruct (th_pc th); try reflexivity. congruence. }
  assert (Hdp' : forall t', del_pending t' th' = []) by (intros; reflexivity).
  split; [|split; [|split]].
  - intros i thi Hi _ tho Hio. cbn [map]. rewrite app_nil_r.
    destruct (Nat.eq_dec i tid) as [->|Hne].
    + unfold cs' in Hi. rewrite (upd_nth_same _ _ _ _ _ Hth) in Hi. inversion Hi; subst thi. rewrite Hth in Hio. inversion Hio; subst tho.
      apply del_seq_same; [exact Hsame|]. now rewrite Hdp', Hdp.
    + unfold cs' in Hi. rewrite upd_nth_other in Hi by exact Hne. congruence.
  - intros i thi tho Hi Hio.
    destruct (Nat.eq_dec i tid) as [->|Hne].
    + unfold cs' in Hi. rewrite (upd_nth_same _ _ _ _ _ Hth) in Hi. inversion Hi; subst thi. rewrite Hth in Hio. inversion Hio; subst tho.
      cbn [filter]. rewrite Hown. unfold wr_seq, done_of. destruct Hsame as (A & B). rewrite A, B. rewrite <- app_assoc. f_equal.
      rewrite Hwp. unfold wr_pending, th'. cbn. now rewrite N.eqb_refl.
    + unfold cs' in Hi. rewrite upd_nth_other in Hi by exact Hne. assert (thi = tho) by congruence. subst tho.
      cbn [filter]. destruct (own (nth i progs []) e) eqn:Eo; [|now rewrite app_nil_r].
      exfalso. apply Hne. apply (own_excl progs i tid e Hnd); auto.
      rewrite <- (iv_len _ _ _ Hinv). eapply nth_error_lt; eauto.
  - intros e0 [<-|[]]. exists tid. split; assumption.
  - intros t' Hne. split.
    + apply del_seq_same; [exact Hsame|]. now rewrite Hdp', Hdp.
    + apply wr_seq_same; [exact Hsame|]. rewrite Hwp. unfold wr_pending, th'. cbn. now replace (t_id t =? t') with false by lia.
Qed.

(* A2a: the write into the current block *)
Lemma step_A2_write c progs cs tid th t e rest w :
  cfg_ok c -> NoDup (offered_pids progs) -> INV c progs cs ->
  nth_error (cs_threads cs) tid = Some th -> th_todo th = CAppend t e :: rest -> th_pc th = PA_flag ->
  wl_holder (sh_wl (cs_sh cs)) (t_id t) = None ->
  ts_writer (get_ts (sh_st (cs_sh cs)) (t_id t)) = Some w ->
  (b_limit w <? b_used w + need c e) = false ->
  INV c progs (upd cs (with_st (cs_sh cs) (write_entry (sh_st (cs_sh cs)) t w c e)) tid (athread t e rest PA_written (th_done th))).
Proof.
  intros Hc Hnd Hinv Hth Htodo Hpc Hfree Hw0 Hfit. pose proof Hinv as [Inext Its Ibf Ilock Ilen Ith Iwin Idel Iown Iowned].
  destruct (append_common c progs cs tid th t e rest Hinv Hth Htodo) as (Hhead & Hdp & Hown & Htl).
  destruct (Ith tid th Hth) as (Hok & Hsimple & Hhist).
  set (t0 := t_id t) in *. set (th' := athread t e rest PA_written (th_done th)).
  set (sh' := with_st (cs_sh cs) (write_entry (sh_st (cs_sh cs)) t w c e)).
  set (raw := get_ts (sh_st (cs_sh cs)) t0) in *.
  assert (Hnm : mid cs t0 = false) by (apply mid_false_free; assumption).
  assert (Hm : forall t', th_mid t' th = false) by (intros; unfold th_mid; now rewrite Htodo, Hpc).
  assert (Hh : forall t', th_holds t' th = false) by (intros; unfold th_holds; now rewrite Htodo, Hpc).
  assert (Hraw' : get_ts (sh_st sh') t0 = with_writer raw (Some (blk_add w c [e]))).
  { unfold sh', write_entry. cbn [with_st sh_st]. rewrite get_set_same. now rewrite get_ts_disk_write. }
  assert (Hoth : forall t', t' <> t0 -> get_ts (sh_st sh') t' = get_ts (sh_st (cs_sh cs)) t').
  { intros t' Hne. unfold sh', write_entry. cbn [with_st sh_st]. rewrite get_set_other by exact Hne. apply get_ts_disk_write. }
  assert (Hmideq : forall t', mid (upd cs sh' tid th') t' = mid cs t').
  { intros t'. apply (mid_upd_same cs sh' tid th th' t' Hth). now rewrite Hm. }
  assert (Hnid : nid_of (upd cs sh' tid th') = nid_of cs) by reflexivity.
  pose proof (Its t0) as X. rewrite (eff_nomid _ _ Hnm) in X. fold raw in X. unfold rawts in X. fold t0 raw in X.
  destruct Hc as (Hh0 & Hrestc).
  destruct (add_entry c Hh0 (nid_of cs) raw w e X Hw0 ltac:(lia)) as (A1 & A2 & A3).
  assert (Heff' : eff (upd cs sh' tid th') t0 = with_writer raw (Some (blk_add w c [e]))).
  { rewrite eff_upd, Hmideq, Hnm. exact Hraw'. }
  destruct (app_bookkeeping c progs cs sh' tid th t e rest Hnd Hinv Hth Htodo ltac:(rewrite Hpc; discriminate)) as (B1 & B2 & B3 & B4).
  apply (INV_step c progs cs sh' tid th th' t0 [e] [] Hinv Hth Hhead).
  - exact Ibf.
  - rewrite Hnid. lia.
  - exact Hoth.
  - intros t' _. reflexivity.
  - apply (lock_same cs sh' tid th th' Ilock Hth); [reflexivity|]. intros t'. now rewrite Hh.
  - rewrite Heff', Hnid. exact A1.
  - rewrite Heff', (eff_nomid _ _ Hnm). unfold rawts. fold t0 raw. split; [exact A2|]. cbn [app]. now rewrite A3.
  - split; [unfold th_ok, th'; cbn; exact I|]. split; [cbn; now rewrite <- Htodo|].
    eapply hist_ok_same; [|exact Hhist]. split; [now rewrite Htodo|reflexivity].
  - intros j thj Hne Hj. destruct (Ith j thj Hj) as (Hokj & _ & _).
    refine (others_th_ok c cs sh' tid th th' t0 Hth Hhead Hoth _ _ j thj Hne Hj Hokj).
    + rewrite Hraw'. auto.
    + intros j' thj' w0 _ Hj' Hhold _. exfalso. specialize (Ilock t0). rewrite Hfree in Ilock. rewrite (Ilock j' thj' Hj') in Hhold. discriminate.
  - unfold win_ok, th'. cbn. exact I.
  - intros j thj Hne Hj.
    refine (others_win_ok c cs sh' tid th th' t0 Hth Hhead Hoth (fun t' _ => eq_refl) _ _ _ j thj Hne Hj (Iwin j thj Hj)).
    + rewrite Hraw'. repeat split.
    + intros _ a (w0 & suf & S1 & S2 & S3 & S4). rewrite Hraw'. unfold rawts in S1. fold t0 raw in S1. rewrite Hw0 in S1. inversion S1; subst w0.
      exists (blk_add w c [e]), (suf ++ [e]). cbn [with_writer ts_writer blk_add b_id b_ents]. repeat split; auto. now rewrite S3, app_assoc.
    + intros _. now rewrite Hmideq.
  - exact B1.
  - exact B2.
  - exact B3.
  - exact B4.
Qed.

(* a step that changes only the stepping thread (pc, or a return without effect) *)
Lemma step_same_gen c progs cs tid th th' t0 :
  INV c progs cs -> nth_error (cs_threads cs) tid = Some th -> head_topic th = Some t0 ->
  let cs' := upd cs (cs_sh cs) tid th' in
  (forall t, th_mid t th' = th_mid t th) -> (forall t, th_holds t th' = th_holds t th) ->
  (th_ok c cs' th' /\ Forall (fun cl => simple_call cl = true) (th_todo th') /\ hist_ok (nth tid progs []) th') ->
  win_ok c cs' th' ->
  (forall t, del_seq t (nth tid progs []) th' = del_seq t (nth tid progs []) th /\
             wr_seq t (nth tid progs []) th' = wr_seq t (nth tid progs []) th) ->
  INV c progs cs'.
Proof.
  intros Hinv Hth Hhead cs' Hmid Hholds Hth' Hwin' Hseq.
  pose proof Hinv as [Inext Its Ibf Ilock Ilen Ith Iwin Idel Iown Iowned].
  assert (Hmideq : forall t', mid cs' t' = mid cs t') by (intros t'; apply (mid_upd_same cs (cs_sh cs) tid th th' t' Hth); apply Hmid).
  assert (Heff' : forall t', eff cs' t' = eff cs t') by (intros t'; unfold eff; rewrite Hmideq; reflexivity).
  apply (INV_step c progs cs (cs_sh cs) tid th th' t0 [] [] Hinv Hth Hhead).
  - exact Ibf.
  - unfold nid_of. cbn. lia.
  - reflexivity.
  - intros t' Hne. rewrite Hmid. eapply head_topic_mid_false; eauto.
  - apply (lock_same cs (cs_sh cs) tid th th' Ilock Hth); [reflexivity|exact Hholds].
  - fold cs'. rewrite Heff'. apply Its.
  - fold cs'. rewrite Heff'. apply effect_none; reflexivity.
  - exact Hth'.
  - intros j thj Hne Hj. destruct (Ith j thj Hj) as (Hokj & _ & _).
    refine (others_th_ok c cs (cs_sh cs) tid th th' t0 Hth Hhead (fun _ _ => eq_refl) _ _ j thj Hne Hj Hokj); auto.
  - exact Hwin'.
  - intros j thj Hne Hj.
    refine (others_win_ok c cs (cs_sh cs) tid th th' t0 Hth Hhead (fun _ _ => eq_refl) _ _ _ _ j thj Hne Hj (Iwin j thj Hj)); auto.
    + intros t' Hn. rewrite Hmid. eapply head_topic_mid_false; eauto.
    + apply rd_same_refl.
    + intros Hm. fold cs'. now rewrite Hmideq.
  - intros i thi Hi Hcons tho Hio. rewrite app_nil_r.
    destruct (Nat.eq_dec i tid) as [->|Hne].
    + rewrite (upd_nth_same _ _ _ _ _ Hth) in Hi. inversion Hi; subst thi. rewrite Hth in Hio. inversion Hio; subst tho. apply Hseq.
    + rewrite upd_nth_other in Hi by exact Hne. congruence.
  - intros i thi tho Hi Hio. cbn [filter]. rewrite app_nil_r.
    destruct (Nat.eq_dec i tid) as [->|Hne].
    + rewrite (upd_nth_same _ _ _ _ _ Hth) in Hi. inversion Hi; subst thi. rewrite Hth in Hio. inversion Hio; subst tho. apply Hseq.
    + rewrite upd_nth_other in Hi by exact Hne. congruence.
  - intros e0 [].
  - intros t' _. apply Hseq.
Qed.

(* a call that returns without having touched anything (read: nothing to deliver; append: refused) *)
Lemma step_ret_noop c progs cs tid th cl rest r t0 :
  INV c progs cs -> nth_error (cs_threads cs) tid = Some th -> th_todo th = cl :: rest -> t_id (call_topic cl) = t0 ->
  res_ok cl r ->
  (forall t, th_mid t th = false) -> (forall t, th_holds t th = false) ->
  (forall t, del_hist t [cl] [r] = del_pending t th) -> (forall t, wr_hist t [cl] [r] = wr_pending t th) ->
  INV c progs (upd cs (cs_sh cs) tid {| th_todo := rest; th_pc := PStart; th_done := r :: th_done th |}).
Proof.
  intros Hinv Hth Htodo Ht0 Hres Hm Hh Hd Hw. pose proof Hinv as [Inext Its Ibf Ilock Ilen Ith Iwin Idel Iown Iowned].
  destruct (Ith tid th Hth) as (Hok & Hsimple & Hhist).
  set (th' := {| th_todo := rest; th_pc := PStart; th_done := r :: th_done th |}).
  assert (Hhead : head_topic th = Some t0) by (unfold head_topic; now rewrite Htodo, Ht0).
  assert (Hret : returned th th' cl r) by (exists rest; repeat split; auto).
  apply (step_same_gen c progs cs tid th th' t0 Hinv Hth Hhead).
  - intros t'. rewrite Hm. unfold th_mid, th'. cbn. now destruct rest as [|[| | |] ?].
  - intros t'. rewrite Hh. unfold th_holds, th'. cbn. now destruct rest as [|[| | |] ?].
  - split; [apply th_ok_start; [reflexivity|cbn; rewrite Htodo in Hsimple; now inversion Hsimple]|].
    split; [cbn; rewrite Htodo in Hsimple; now inversion Hsimple|].
    apply (hist_ok_ret _ th th' cl r Hret Hres Hhist).
  - apply win_ok_start. reflexivity.
  - apply (seq_ret _ th th' cl r Hhist Hret Hd Hw).
Qed.

(* A2b: rotation needed: the writer mutexes are taken, the seal comes next *)
Lemma step_A2_take c progs cs tid th t e rest w :
  INV c progs cs ->
  nth_error (cs_threads cs) tid = Some th -> th_todo th = CAppend t e :: rest -> th_pc th = PA_flag ->
  wl_holder (sh_wl (cs_sh cs)) (t_id t) = None ->
  ts_writer (get_ts (sh_st (cs_sh cs)) (t_id t)) = Some w ->
  INV c progs (upd cs (wl_take (cs_sh cs) (t_id t) tid) tid (athread t e rest (PA_seal_pre w) (th_done th))).
Proof.
  intros Hinv Hth Htodo Hpc Hfree Hw0. pose proof Hinv as [Inext Its Ibf Ilock Ilen Ith Iwin Idel Iown Iowned].
  destruct (append_common c progs cs tid th t e rest Hinv Hth Htodo) as (Hhead & Hdp & Hown & Htl).
  destruct (Ith tid th Hth) as (Hok & Hsimple & Hhist).
  set (t0 := t_id t) in *. set (th' := athread t e rest (PA_seal_pre w) (th_done th)).
  set (sh' := wl_take (cs_sh cs) t0 tid).
  assert (Hm : forall t', th_mid t' th = false) by (intros; unfold th_mid; now rewrite Htodo, Hpc).
  assert (Hh : forall t', th_holds t' th = false) by (intros; unfold th_holds; now rewrite Htodo, Hpc).
  assert (Hmideq : forall t', mid (upd cs sh' tid th') t' = mid cs t').
  { intros t'. apply (mid_upd_same cs sh' tid th th' t' Hth). now rewrite Hm. }
  assert (Heff' : forall t', eff (upd cs sh' tid th') t' = eff cs t') by (intros t'; rewrite eff_upd, Hmideq; reflexivity).
  assert (Hsame : same_hist th th') by (split; [now rewrite Htodo|reflexivity]).
  assert (Hseq := seq_same (nth tid progs []) th th' Hsame).
  assert (Hap : appendable c t (e_len e) = None) by (unfold th_ok in Hok; now rewrite Htodo, Hpc in Hok).
  apply (INV_step c progs cs sh' tid th th' t0 [] [] Hinv Hth Hhead).
  - exact Ibf.
  - unfold nid_of. cbn. lia.
  - reflexivity.
  - intros t' _. reflexivity.
  - apply (lock_take cs sh' tid th th' t0 Ilock Hth Hfree eq_refl).
    + intros t' Hne. unfold th_holds, th'. cbn. fold t0. now replace (t0 =? t') with false by lia.
    + intros t' _. apply Hh.
  - rewrite Heff'. apply Its.
  - rewrite Heff'. apply effect_none; reflexivity.
  - split; [unfold th_ok, th'; cbn; split; [exact Hap|exact Hw0]|]. split; [cbn; now rewrite <- Htodo|].
    eapply hist_ok_same; eauto.
  - intros j thj Hne Hj. destruct (Ith j thj Hj) as (Hokj & _ & _).
    refine (others_th_ok c cs sh' tid th th' t0 Hth Hhead (fun _ _ => eq_refl) _ _ j thj Hne Hj Hokj); auto.
  - unfold win_ok, th'. cbn. exact I.
  - intros j thj Hne Hj.
    refine (others_win_ok c cs sh' tid th th' t0 Hth Hhead (fun _ _ => eq_refl) (fun t' _ => eq_refl) _ _ _ j thj Hne Hj (Iwin j thj Hj)); auto.
    + apply rd_same_refl.
    + intros Hmf. now rewrite Hmideq.
  - intros i thi Hi Hcons tho Hio. rewrite app_nil_r.
    destruct (Nat.eq_dec i tid) as [->|Hne].
    + rewrite (upd_nth_same _ _ _ _ _ Hth) in Hi. inversion Hi; subst thi. rewrite Hth in Hio. inversion Hio; subst tho.
      apply Hseq; intros; [now rewrite Hdp|unfold wr_pending; now rewrite Htodo, Hpc].
    + rewrite upd_nth_other in Hi by exact Hne. congruence.
  - intros i thi tho Hi Hio. cbn [filter]. rewrite app_nil_r.
    destruct (Nat.eq_dec i tid) as [->|Hne].
    + rewrite (upd_nth_same _ _ _ _ _ Hth) in Hi. inversion Hi; subst thi. rewrite Hth in Hio. inversion Hio; subst tho.
      apply Hseq; intros; [now rewrite Hdp|unfold wr_pending; now rewrite Htodo, Hpc].
    + rewrite upd_nth_other in Hi by exact Hne. congruence.
  - intros e0 [].
  - intros t' _. apply Hseq; intros; [now rewrite Hdp|unfold wr_pending; now rewrite Htodo, Hpc].
Qed.

(* ------------------------------------------------------------------ the seal and the new block *)
Lemma chain_push_fields r b :
  r_tail_bid (chain_push r b) = r_tail_bid r /\ r_tail_off (chain_push r b) = r_tail_off r /\
  r_hydrated (chain_push r b) = r_hydrated r /\
  (r_chain (chain_push r b) = r_chain r \/ r_chain (chain_push r b) = r_chain r ++ [b]).
Proof.
  unfold chain_push. destruct (b_used b =? 0); [repeat split; auto|].
  destruct (r_tail_bid r =? b_id b); cbn; repeat split; auto.
Qed.

Lemma seal_drop_same_nid c (Hh : 0 < c_hdr c) nid ts w : 0 < nid ->
  TInvP c nid ts -> ts_writer ts = Some w ->
  TInvP c nid (with_writer (seal ts w) None) /\
  stream (with_writer (seal ts w) None) = stream ts /\
  unread c (with_writer (seal ts w) None) = unread c ts.
Proof.
  intros Hn Hinv Hsome. destruct (seal_drop c Hh nid ts w Hn Hinv Hsome) as (D1 & D2 & D3).
  split; [|split; assumption].
  destruct D1 as [Hp Hu Hch Hw Hnd Hids Htl Hidx Hend Hcur Hst Htail Hhyd].
  pose proof Hinv as [_ _ _ _ _ Oids Otl _ _ _ _ _ _].
  destruct (chain_push_fields (reader_of ts) w) as (F1 & F2 & F3 & F4).
  constructor; auto.
  - (* ids *)
    unfold chain_of, w_list in *. cbn [with_writer seal reader_of ts_reader ts_writer] in *. rewrite app_nil_r.
    rewrite Hsome in Oids. apply Forall_app in Oids. destruct Oids as (O1 & O2).
    destruct F4 as [->| ->]; [exact O1|]. apply Forall_app. split; assumption.
  - cbn [with_writer seal reader_of ts_reader]. rewrite F1. exact Otl.
Qed.

Lemma hyd_seal ts w : hyd ts -> hyd (seal ts w).
Proof. unfold hyd, seal. cbn [reader_of ts_reader]. destruct (chain_push_fields (reader_of ts) w) as (_ & _ & F3 & _). now rewrite F3. Qed.

Lemma mid_false_holder cs tid th t0 :
  lock_ok cs -> nth_error (cs_threads cs) tid = Some th -> th_holds t0 th = true -> th_mid t0 th = false -> mid cs t0 = false.
Proof.
  intros Hl Hth Hh Hm. unfold mid. destruct (existsb (th_mid t0) (cs_threads cs)) eqn:E; [|reflexivity].
  apply existsb_exists in E. destruct E as (x & Hin & Hx). apply In_nth_error in Hin. destruct Hin as (j & Hj).
  destruct (Nat.eq_dec j tid) as [->|Hne]; [congruence|].
  rewrite (others_not_mid cs tid th t0 Hl Hth (or_intror Hh) j x Hne Hj) in Hx. discriminate.
Qed.

(* A3: the chain push, provided no consuming read_next of this topic is inside its window *)
Lemma step_A3 c progs cs tid th t e rest w :
  cfg_ok c -> INV c progs cs ->
  nth_error (cs_threads cs) tid = Some th -> th_todo th = CAppend t e :: rest -> th_pc th = PA_seal_pre w ->
  existsb (fun x => in_read_window x (t_id t)) (cs_threads cs) = false ->
  INV c progs (upd cs (upd_ts (cs_sh cs) (t_id t) (seal (get_ts (sh_st (cs_sh cs)) (t_id t)) w)) tid
                 (athread t e rest PA_seal_post (th_done th))).
Proof.
  intros Hc Hinv Hth Htodo Hpc Hnowin. pose proof Hinv as [Inext Its Ibf Ilock Ilen Ith Iwin Idel Iown Iowned].
  destruct (append_common c progs cs tid th t e rest Hinv Hth Htodo) as (Hhead & Hdp & Hown & Htl).
  destruct (Ith tid th Hth) as (Hok & Hsimple & Hhist).
  set (t0 := t_id t) in *. set (raw := get_ts (sh_st (cs_sh cs)) t0).
  set (th' := athread t e rest PA_seal_post (th_done th)). set (sh' := upd_ts (cs_sh cs) t0 (seal raw w)).
  unfold th_ok in Hok. rewrite Htodo, Hpc in Hok. destruct Hok as (Hap & Hw0). fold t0 in Hw0. unfold rawts in Hw0. fold raw in Hw0.
  assert (Hhold : th_holds t0 th = true) by (unfold th_holds; rewrite Htodo, Hpc; apply N.eqb_refl).
  assert (Hmth : th_mid t0 th = false) by (unfold th_mid; now rewrite Htodo, Hpc).
  assert (Hnm : mid cs t0 = false) by (eapply mid_false_holder; eauto).
  assert (Hoth : forall t', t' <> t0 -> get_ts (sh_st sh') t' = get_ts (sh_st (cs_sh cs)) t').
  { intros t' Hne. unfold sh'. rewrite get_ts_upd_ts. now replace (t' =? t0) with false by lia. }
  assert (Hraw' : get_ts (sh_st sh') t0 = seal raw w) by (unfold sh'; rewrite get_ts_upd_ts; now rewrite N.eqb_refl).
  assert (Hmid' : mid (upd cs sh' tid th') t0 = true).
  { rewrite (mid_upd_others_false cs sh' tid th th' t0 Hth); [unfold th_mid, th'; cbn; apply N.eqb_refl|].
    apply (others_not_mid cs tid th t0 Ilock Hth (or_intror Hhold)). }
  assert (Hnid : nid_of (upd cs sh' tid th') = nid_of cs) by (apply (nid_upd_ts cs sh' tid th' t0 (seal raw w)); reflexivity).
  destruct Hc as (Hh0 & Hrestc).
  pose proof (Its t0) as X. rewrite (eff_nomid _ _ Hnm) in X. unfold rawts in X. fold raw in X.
  destruct (seal_drop_same_nid c Hh0 (nid_of cs) raw w Inext X Hw0) as (S1 & S2 & S3).
  assert (Heff' : eff (upd cs sh' tid th') t0 = with_writer (seal raw w) None) by (rewrite eff_upd, Hmid', Hraw'; reflexivity).
  assert (Hsame : same_hist th th') by (split; [now rewrite Htodo|reflexivity]).
  assert (Hseq : forall t', del_seq t' (nth tid progs []) th' = del_seq t' (nth tid progs []) th /\
                            wr_seq t' (nth tid progs []) th' = wr_seq t' (nth tid progs []) th).
  { apply seq_same; [exact Hsame| |]; intros t'; [now rewrite Hdp|unfold wr_pending; now rewrite Htodo, Hpc]. }
  apply (INV_step c progs cs sh' tid th th' t0 [] [] Hinv Hth Hhead).
  - exact Ibf.
  - rewrite Hnid. lia.
  - exact Hoth.
  - intros t' Hne. unfold th_mid, th'. cbn. fold t0. now replace (t0 =? t') with false by lia.
  - apply (lock_same cs sh' tid th th' Ilock Hth); [reflexivity|]. intros t'. unfold th_holds, th'. cbn. now rewrite Htodo, Hpc.
  - rewrite Heff', Hnid. exact S1.
  - rewrite Heff', (eff_nomid _ _ Hnm). unfold rawts. fold raw. apply effect_none; assumption.
  - split; [unfold th_ok, th'; cbn; exact Hap|]. split; [cbn; now rewrite <- Htodo|]. eapply hist_ok_same; eauto.
  - intros j thj Hne Hj. destruct (Ith j thj Hj) as (Hokj & _ & _).
    refine (others_th_ok c cs sh' tid th th' t0 Hth Hhead Hoth _ _ j thj Hne Hj Hokj).
    + rewrite Hraw'. apply hyd_seal.
    + intros j' thj' w0 _ _ _ Hw1. rewrite Hraw'. exact Hw1.
  - unfold win_ok, th'. cbn. exact I.
  - intros j thj Hne Hj. pose proof (Iwin j thj Hj) as Hwj.
    pose proof (existsb_false_nth _ _ Hnowin j thj Hj) as Hnw. cbn beta in Hnw. apply window_pcs in Hnw.
    unfold win_ok in *. destruct (th_todo thj) as [|[t1 e1|t1 es|t1 ck|t1 mb ck] rest1] eqn:Etj; auto. destruct ck; auto.
    destruct (N.eq_dec (t_id t1) t0) as [Heq|Hn].
    + specialize (Hnw Heq). destruct (th_pc thj); auto; contradiction.
    + rewrite rawts_upd, (Hoth _ Hn).
      rewrite (mid_upd_other cs sh' tid th th' t0 (t_id t1) Hth Hhead); [exact Hwj| |exact Hn].
      intros t' Hne'. unfold th_mid, th'. cbn. fold t0. now replace (t0 =? t') with false by lia.
  - intros i thi Hi Hcons tho Hio. rewrite app_nil_r.
    destruct (Nat.eq_dec i tid) as [->|Hne].
    + rewrite (upd_nth_same _ _ _ _ _ Hth) in Hi. inversion Hi; subst thi. rewrite Hth in Hio. inversion Hio; subst tho. apply Hseq.
    + rewrite upd_nth_other in Hi by exact Hne. congruence.
  - intros i thi tho Hi Hio. cbn [filter]. rewrite app_nil_r.
    destruct (Nat.eq_dec i tid) as [->|Hne].
    + rewrite (upd_nth_same _ _ _ _ _ Hth) in Hi. inversion Hi; subst thi. rewrite Hth in Hio. inversion Hio; subst tho. apply Hseq.
    + rewrite upd_nth_other in Hi by exact Hne. congruence.
  - intros e0 [].
  - intros t' _. apply Hseq.
Qed.

(* A4: the new block is allocated, the entry written into it, the mutexes released *)
Lemma step_A4 c progs cs tid th t e rest :
  cfg_ok c -> NoDup (offered_pids progs) -> INV c progs cs ->
  nth_error (cs_threads cs) tid = Some th -> th_todo th = CAppend t e :: rest -> th_pc th = PA_seal_post ->
  exists s1 nb, alloc_sized c (sh_st (cs_sh cs)) (need c e) = Some (s1, nb) /\
    INV c progs (upd cs (wl_release (with_st (cs_sh cs) (write_entry s1 t nb c e)) (t_id t)) tid
                   (athread t e rest PA_written (th_done th))).
Proof.
  intros Hc Hnd Hinv Hth Htodo Hpc. pose proof Hinv as [Inext Its Ibf Ilock Ilen Ith Iwin Idel Iown Iowned].
  destruct (append_common c progs cs tid th t e rest Hinv Hth Htodo) as (Hhead & Hdp & Hown & Htl).
  destruct (Ith tid th Hth) as (Hok & Hsimple & Hhist).
  set (t0 := t_id t) in *. set (raw := get_ts (sh_st (cs_sh cs)) t0).
  unfold th_ok in Hok. rewrite Htodo, Hpc in Hok.
  pose proof Hc as (Hh0 & Hb0 & Hba & Hbm & Hme & Hhb).
  destruct (appendable_none_inv c t (e_len e) Hc Hok) as (Hname & Hsz). fold (need c e) in Hsz.
  destruct (alloc_sized_spec c (sh_st (cs_sh cs)) (need c e) Hb0 Hbm (need_pos c e Hh0) Hsz) as (s1 & nb & Ha & Hsame & Hnext & Hfresh & Hlim).
  exists s1, nb. split; [exact Ha|].
  set (th' := athread t e rest PA_written (th_done th)).
  set (sh' := wl_release (with_st (cs_sh cs) (write_entry s1 t nb c e)) t0).
  assert (Hhold : th_holds t0 th = true) by (unfold th_holds; rewrite Htodo, Hpc; apply N.eqb_refl).
  assert (Hmth : th_mid t0 th = true) by (unfold th_mid; rewrite Htodo, Hpc; apply N.eqb_refl).
  assert (Hmid : mid cs t0 = true) by (eapply existsb_nth_true; eauto).
  assert (Hraw' : get_ts (sh_st sh') t0 = with_writer raw (Some (blk_add nb c [e]))).
  { unfold sh', write_entry. cbn [wl_release with_st sh_st]. rewrite get_set_same, get_ts_disk_write. now rewrite Hsame. }
  assert (Hoth : forall t', t' <> t0 -> get_ts (sh_st sh') t' = get_ts (sh_st (cs_sh cs)) t').
  { intros t' Hne. unfold sh', write_entry. cbn [wl_release with_st sh_st]. rewrite get_set_other by exact Hne. rewrite get_ts_disk_write. apply Hsame. }
  assert (Hmid' : mid (upd cs sh' tid th') t0 = false).
  { rewrite (mid_upd_others_false cs sh' tid th th' t0 Hth); [reflexivity|].
    apply (others_not_mid cs tid th t0 Ilock Hth (or_intror Hhold)). }
  assert (Hnid : nid_of (upd cs sh' tid th') = nid_of cs + 1).
  { unfold nid_of, sh', write_entry. cbn [upd cs_sh wl_release with_st sh_st set_ts st_disk_write s_alloc]. exact Hnext. }
  pose proof (Its t0) as X. unfold eff in X. rewrite Hmid in X. unfold rawts in X. fold raw in X.
  destruct (first_writer c (nid_of cs) (with_writer raw None) nb Inext X eq_refl Hfresh) as (F1 & F2 & F3).
  rewrite with_writer_twice in F1, F2, F3.
  assert (Hroom : b_used nb + need c e <= b_limit nb) by (destruct Hfresh as (_ & Fu & _ & _); lia).
  destruct (add_entry c Hh0 (nid_of cs + 1) (with_writer raw (Some nb)) nb e F1 eq_refl Hroom) as (A1 & A2 & A3).
  rewrite with_writer_twice in A1, A2, A3.
  assert (Heff' : eff (upd cs sh' tid th') t0 = with_writer raw (Some (blk_add nb c [e]))) by (rewrite eff_upd, Hmid', Hraw'; reflexivity).
  assert (Heff0 : eff cs t0 = with_writer raw None) by (unfold eff; now rewrite Hmid).
  destruct (app_bookkeeping c progs cs sh' tid th t e rest Hnd Hinv Hth Htodo ltac:(rewrite Hpc; discriminate)) as (B1 & B2 & B3 & B4).
  apply (INV_step c progs cs sh' tid th th' t0 [e] [] Hinv Hth Hhead).
  - exact Ibf.
  - rewrite Hnid. lia.
  - exact Hoth.
  - intros t' _. reflexivity.
  - apply (lock_release cs sh' tid th th' t0 Ilock Hth Hhold eq_refl).
    + intros t'. reflexivity.
    + intros t' Hne. eapply head_topic_holds_false; eauto.
  - rewrite Heff', Hnid. exact A1.
  - rewrite Heff', Heff0. split; [now rewrite A2, F2|]. cbn [app]. now rewrite A3, F3.
  - split; [unfold th_ok, th'; cbn; exact I|]. split; [cbn; now rewrite <- Htodo|].
    eapply hist_ok_same; [|exact Hhist]. split; [now rewrite Htodo|reflexivity].
  - intros j thj Hne Hj. destruct (Ith j thj Hj) as (Hokj & _ & _).
    refine (others_th_ok c cs sh' tid th th' t0 Hth Hhead Hoth _ _ j thj Hne Hj Hokj).
    + rewrite Hraw'. auto.
    + intros j' thj' w0 Hne' Hj' Hhold' _. exfalso. specialize (Ilock t0).
      destruct (wl_holder (sh_wl (cs_sh cs)) t0) as [x|].
      * pose proof (Ilock j' thj' Hj' Hhold'). pose proof (Ilock tid th Hth Hhold). congruence.
      * rewrite (Ilock tid th Hth) in Hhold. discriminate.
  - unfold win_ok, th'. cbn. exact I.
  - intros j thj Hne Hj.
    refine (others_win_ok c cs sh' tid th th' t0 Hth Hhead Hoth (fun t' _ => eq_refl) _ _ _ j thj Hne Hj (Iwin j thj Hj)).
    + rewrite Hraw'. repeat split.
    + intros Hf. congruence.
    + intros Hf. congruence.
  - exact B1.
  - exact B2.
  - exact B3.
  - exact B4.
Qed.

(* the count update after the write *)
Lemma step_A5 c progs cs tid th t e rest :
  cfg_ok c -> INV c progs cs ->
  nth_error (cs_threads cs) tid = Some th -> th_todo th = CAppend t e :: rest -> th_pc th = PA_written ->
  INV c progs (upd cs (upd_ts (cs_sh cs) (t_id t) (count_add (get_ts (sh_st (cs_sh cs)) (t_id t)) 1)) tid
                 {| th_todo := rest; th_pc := PStart; th_done := ROk :: th_done th |}).
Proof.
  intros Hc Hinv Hth Htodo Hpc. pose proof Hinv as [Inext Its Ibf Ilock Ilen Ith Iwin Idel Iown Iowned].
  set (t0 := t_id t). set (raw := get_ts (sh_st (cs_sh cs)) t0).
  set (sh' := upd_ts (cs_sh cs) t0 (count_add raw 1)).
  set (th' := {| th_todo := rest; th_pc := PStart; th_done := ROk :: th_done th |}).
  assert (Hhead : head_topic th = Some t0) by (unfold head_topic; now rewrite Htodo).
  destruct (Ith tid th Hth) as (Hok & Hsimple & Hhist).
  assert (Hoth : forall t', t' <> t0 -> get_ts (sh_st sh') t' = get_ts (sh_st (cs_sh cs)) t').
  { intros t' Hne. unfold sh'. rewrite get_ts_upd_ts. now replace (t' =? t0) with false by lia. }
  assert (Hraw' : get_ts (sh_st sh') t0 = count_add raw 1) by (unfold sh'; rewrite get_ts_upd_ts; now rewrite N.eqb_refl).
  assert (Hmid' : forall t', th_mid t' th' = false) by (intros; unfold th_mid, th'; cbn; now destruct rest as [|[| | |] ?]).
  assert (Hholds' : forall t', th_holds t' th' = false) by (intros; unfold th_holds, th'; cbn; now destruct rest as [|[| | |] ?]).
  assert (Hholds : forall t', th_holds t' th = false) by (intros; unfold th_holds; now rewrite Htodo, Hpc).
  assert (Hmidth : forall t', th_mid t' th = false) by (intros; unfold th_mid; now rewrite Htodo, Hpc).
  assert (Hmideq : forall t', mid (upd cs sh' tid th') t' = mid cs t').
  { intros t'. apply (mid_upd_same cs sh' tid th th' t' Hth). now rewrite Hmid', Hmidth. }
  assert (Heff' : eff (upd cs sh' tid th') t0 = count_add (eff cs t0) 1).
  { rewrite eff_upd, Hmideq, Hraw'. unfold eff, rawts. fold t0 raw. destruct (mid cs t0); [now rewrite count_add_writer|reflexivity]. }
  assert (Hret : returned th th' (CAppend t e) ROk) by (exists rest; repeat split; auto).
  apply (INV_step c progs cs sh' tid th th' t0 [] [] Hinv Hth Hhead).
  - unfold sh', upd_ts, with_st. cbn. exact Ibf.
  - rewrite (nid_upd_ts cs sh' tid th' t0 (count_add raw 1)) by reflexivity. lia.
  - exact Hoth.
  - intros t' _. apply Hmid'.
  - apply (lock_same cs sh' tid th th' Ilock Hth); [reflexivity|]. intros; now rewrite Hholds', Hholds.
  - rewrite Heff', (nid_upd_ts cs sh' tid th' t0 (count_add raw 1)) by reflexivity. apply TInvP_count_add, Its.
  - rewrite Heff'. apply effect_none; [apply stream_count_add|apply unread_count_add].
  - split; [apply th_ok_start; [reflexivity|]|split].
    + cbn. rewrite Htodo in Hsimple. now inversion Hsimple.
    + cbn. rewrite Htodo in Hsimple. now inversion Hsimple.
    + eapply hist_ok_ret; eauto. exact I.
  - intros j thj Hne Hj. destruct (Ith j thj Hj) as (Hokj & _ & _).
    refine (others_th_ok c cs sh' tid th th' t0 Hth Hhead Hoth _ _ j thj Hne Hj Hokj).
    + rewrite Hraw'. apply hyd_count_add.
    + intros j' thj' w _ _ _ Hw. rewrite Hraw', writer_count_add. exact Hw.
  - apply win_ok_start. reflexivity.
  - intros j thj Hne Hj.
    refine (others_win_ok c cs sh' tid th th' t0 Hth Hhead Hoth (fun t' _ => Hmid' t') _ _ _ j thj Hne Hj (Iwin j thj Hj)).
    + rewrite Hraw'. apply rd_same_count_add.
    + intros _ a. rewrite Hraw'. apply snap_ok_count_add.
    + intros Hm. now rewrite Hmideq.
  - intros i thi Hi Hcons tho Hio. rewrite app_nil_r.
    destruct (Nat.eq_dec i tid) as [->|Hne].
    + rewrite (upd_nth_same _ _ _ _ _ Hth) in Hi. inversion Hi; subst thi. rewrite Hth in Hio. inversion Hio; subst tho.
      eapply del_seq_ret; eauto. unfold del_pending. now rewrite Htodo.
    + rewrite upd_nth_other in Hi by exact Hne. congruence.
  - intros i thi tho Hi Hio. cbn [filter]. rewrite app_nil_r.
    destruct (Nat.eq_dec i tid) as [->|Hne].
    + rewrite (upd_nth_same _ _ _ _ _ Hth) in Hi. inversion Hi; subst thi. rewrite Hth in Hio. inversion Hio; subst tho.
      eapply wr_seq_ret; eauto. unfold wr_pending. rewrite Htodo, Hpc. cbn. fold t0. now rewrite N.eqb_refl.
    + rewrite upd_nth_other in Hi by exact Hne. congruence.
  - intros e0 [].
  - intros t' Hne. split.
    + eapply del_seq_ret; eauto. unfold del_pending. now rewrite Htodo.
    + eapply wr_seq_ret; eauto. unfold wr_pending. rewrite Htodo, Hpc. cbn. fold t0. now replace (t0 =? t') with false by lia.
Qed.
