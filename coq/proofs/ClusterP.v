(* ClusterP.v — proofs about model/Cluster.v for ALL schedules:
   the state invariant (every node's metadata is the replay of its applied prefix of the one
   command log; a held lease and every in-flight append name a segment that the node's own
   metadata assigns to this node), and from it
     never_foreign   no engine write ever goes into a segment that the writer's applied
                     metadata assigns to another node (second clause of C23). *)
From Coq Require Import ZArith ZifyBool ZifyN ZifyNat.
From W Require Import model.Base model.Map model.Bincode model.Meta model.Cluster model.ClusterSys
  spec.StreamSpec proofs.MapP proofs.MetaP.

(* ---------- metadata facts ---------- *)
Definition led (m : mstate) (n sg : N) : Prop :=
  exists t, topic_of m = Some t /\ lookup N.compare sg (t_leaders t) = Some n.

Lemma topic_of_tinv m t : inv0 m -> topic_of m = Some t -> tinv true t.
Proof.
  intros [H1 H2 H3] Ht. unfold topic_of, get_topic_state in Ht. rewrite H1 in Ht.
  apply (lookup_In str_cmp_ok) in Ht. rewrite Forall_forall in H3. apply (H3 _ Ht).
Qed.

Lemma owned_spec m n sg : owned m n = Some sg ->
  exists t, topic_of m = Some t /\ t_leader t = n /\ t_cur t = sg.
Proof.
  unfold owned. destruct (topic_of m) as [t|]; [|discriminate].
  destruct (t_leader t =? n) eqn:E; [|discriminate]. intros H. inversion H. subst.
  exists t. apply N.eqb_eq in E. auto.
Qed.

Lemma led_owned m n sg : inv0 m -> owned m n = Some sg -> led m n sg.
Proof.
  intros Hi Ho. destruct (owned_spec _ _ _ Ho) as (t & Ht & Hl & Hc).
  exists t. split; [exact Ht|]. pose proof (topic_of_tinv _ _ Hi Ht) as Hti.
  destruct Hti as [_ _ Hop _ _]. now rewrite <- Hc, <- Hl.
Qed.

Lemma owned_not_sealed m n sg : inv0 m -> owned m n = Some sg -> sealed_in m sg = false.
Proof.
  intros Hi Ho. destruct (owned_spec _ _ _ Ho) as (t & Ht & Hl & Hc).
  unfold sealed_in. rewrite Ht. destruct (lookup N.compare sg (t_sealed t)) as [v|] eqn:E; [|reflexivity].
  exfalso. pose proof (topic_of_tinv _ _ Hi Ht) as [Hp _ _ Hs _].
  apply keys_are_spec in Hs. destruct Hs as [Hr Hlen].
  apply lookup_some_in_keys in E. pose proof (is_range_bounds _ _ _ Hr E) as Hb.
  rewrite keys_length in Hb. lia.
Qed.

Lemma led_not_foreign m n sg : led m n sg -> foreign_in m n sg = false.
Proof.
  intros (t & Ht & Hl). unfold foreign_in. rewrite Ht, Hl. now rewrite N.eqb_refl.
Qed.

Lemma led_step m c n sg : inv0 m -> led m n sg -> led (fst (apply_cmd_fx m c)) n sg.
Proof.
  intros Hi (t & Ht & Hl).
  destruct (step_cmd_fx m c Hi) as (m' & r & E & Hi' & Hx & _). rewrite E. cbn [fst].
  unfold topic_of, get_topic_state in Ht. rewrite (i0_live _ Hi) in Ht.
  apply (lookup_In str_cmp_ok) in Ht.
  rewrite cluster_ext_spec in Hx. destruct (Hx _ _ Ht) as (t' & Ht' & Hte).
  exists t'. split.
  - unfold topic_of, get_topic_state. now rewrite (i0_live _ Hi').
  - apply topic_ext_spec in Hte. destruct Hte as (_ & Hsub & _).
    rewrite sub_map_spec in Hsub. apply Hsub. now apply (lookup_In N_cmp_ok).
Qed.

Lemma inv0_step m c : inv0 m -> inv0 (fst (apply_cmd_fx m c)).
Proof. intros Hi. destruct (step_cmd_fx m c Hi) as (m' & r & E & Hi' & _). now rewrite E. Qed.

Lemma replay_app m a b : replay m (a ++ b) = replay (replay m a) b.
Proof. revert m. induction a as [|c a IH]; intros m; cbn [replay app]; auto. Qed.

Lemma replay_snoc m a c : replay m (a ++ [c]) = fst (apply_cmd_fx (replay m a) c).
Proof. rewrite replay_app. reflexivity. Qed.

Lemma inv0_replay m l : inv0 m -> inv0 (replay m l).
Proof. revert m. induction l as [|c l IH]; intros m Hi; cbn [replay]; auto. apply IH. now apply inv0_step. Qed.

Lemma firstn_snoc_nth {A} (l : list A) a c : nth_error l a = Some c -> firstn (S a) l = firstn a l ++ [c].
Proof.
  revert a. induction l as [|x l IH]; intros [|a] H; cbn in H; try discriminate.
  - inversion H. reflexivity.
  - cbn [firstn app]. f_equal. now apply IH.
Qed.

Lemma firstn_app_le {A} (l r : list A) a : (a <= length l)%nat -> firstn a (l ++ r) = firstn a l.
Proof.
  intros H. rewrite firstn_app. replace (a - length l)%nat with O by lia. cbn [firstn]. apply app_nil_r.
Qed.

(* ---------- the invariant ---------- *)
Record node_ok (log : list cmd) (n : N) (x : node) : Prop := {
  no_inv0 : inv0 (nd_meta x);
  no_replay : nd_meta x = replay m_init (firstn (nd_applied x) log);
  no_le : (nd_applied x <= length log)%nat;
  no_lease : forall sg, nd_lease x = Some sg -> led (nd_meta x) n sg
}.

Definition nodes_ok (s : cst) : Prop := forall n x, get_node s n = Some x -> node_ok (s_log s) n x.

Definition pc_ok (s : cst) (pc : cpc) : Prop :=
  match pc with
  | PUlRead e (Some sg) _ | PUlWrite e (Some sg) _ => forall x, get_node s e = Some x -> led (nd_meta x) e sg
  | PWlRead e sg _ | PWlWrite e sg _ | PKeyLock e sg _ | PSpawn e sg _ =>
    forall x, get_node s e = Some x -> led (nd_meta x) e sg
  | _ => True
  end.
Definition opc_ok (s : cst) (o : option cpc) : Prop := match o with Some pc => pc_ok s pc | None => True end.

Record Inv1 (s : cst) : Prop := { i1_nodes : nodes_ok s; i1_pcs : Forall (opc_ok s) (all_pcs s) }.

(* leadership facts only grow from s to s' *)
Definition ext (s s' : cst) : Prop :=
  forall e x', get_node s' e = Some x' ->
    exists x, get_node s e = Some x /\ forall n sg, led (nd_meta x) n sg -> led (nd_meta x') n sg.

Lemma ext_refl s : ext s s.
Proof. intros e x H. exists x. auto. Qed.

Lemma pc_ok_ext s s' pc : ext s s' -> pc_ok s pc -> pc_ok s' pc.
Proof.
  intros Hx. destruct pc; cbn [pc_ok]; auto; try (destruct ex; auto);
    intros H x' Hg; destruct (Hx _ _ Hg) as (x & Hg0 & Hl); apply Hl; now apply H.
Qed.

Lemma opc_ok_ext s s' o : ext s s' -> opc_ok s o -> opc_ok s' o.
Proof. destruct o; cbn [opc_ok]; auto. apply pc_ok_ext. Qed.

(* ---------- get_node / set_node ---------- *)
Lemma get_set_same s n x : get_node (set_node s n x) n = Some x.
Proof. unfold get_node, set_node. cbn [s_nodes]. apply (lookup_ins_same N_cmp_ok). Qed.
Lemma get_set_other s n m x : m <> n -> get_node (set_node s n x) m = get_node s m.
Proof. intros H. unfold get_node, set_node. cbn [s_nodes]. now apply (lookup_ins_other N_cmp_ok). Qed.

(* a node update that keeps metadata and apply pointer *)
Definition same_meta (x x' : node) : Prop := nd_meta x' = nd_meta x /\ nd_applied x' = nd_applied x.

Lemma ext_set s n x x' : get_node s n = Some x -> nd_meta x' = nd_meta x -> ext s (set_node s n x').
Proof.
  intros Hg Hm e y Hy. destruct (N.eq_dec e n) as [->|Hne].
  - rewrite get_set_same in Hy. inversion Hy. subst y. exists x. split; [exact Hg|]. intros k sg. now rewrite Hm.
  - rewrite get_set_other in Hy by exact Hne. exists y. auto.
Qed.

Lemma nodes_ok_set s n x x' :
  nodes_ok s -> get_node s n = Some x -> same_meta x x' ->
  (forall sg, nd_lease x' = Some sg -> led (nd_meta x') n sg) ->
  nodes_ok (set_node s n x').
Proof.
  intros Hn Hg [Hm Ha] Hl e y Hy. destruct (N.eq_dec e n) as [->|Hne].
  - rewrite get_set_same in Hy. inversion Hy. subst y. destruct (Hn _ _ Hg) as [A B C D].
    split; cbn [set_node s_log]; [rewrite Hm; exact A|rewrite Hm, Ha; exact B|rewrite Ha; exact C|exact Hl].
  - rewrite get_set_other in Hy by exact Hne. apply (Hn _ _ Hy).
Qed.

(* ---------- what one exec_pc does to the state ---------- *)
Inductive shape (s : cst) (pc : cpc) (s1 : cst) : Prop :=
| ShSame : s1 = s -> shape s pc s1
| ShNode e x x' : get_node s e = Some x -> s1 = set_node s e x' -> same_meta x x' ->
    (nd_lease x' = nd_lease x \/ exists ex k, pc = PUlWrite e ex k /\ nd_lease x' = ex) -> shape s pc s1
| ShLog c k : pc = PPropose c k ->
    s1 = mkSt (s_nodes s) (s_log s ++ [c]) (s_clients s) (s_lease s) (s_mon s) -> shape s pc s1.

Lemma get_loop_same x h seg del : same_meta x (fst (get_loop x h seg del)) /\ nd_lease (fst (get_loop x h seg del)) = nd_lease x.
Proof.
  unfold get_loop. destruct (topic_of (nd_meta x)) as [t|]; [|cbn; unfold same_meta; auto].
  destruct (skip_sealed _ _ _ _) as [seg2 del2].
  destruct (_ =? h); [cbn; unfold same_meta; auto|].
  destruct (has_addr _ _); cbn; unfold same_meta; auto.
Qed.

Ltac sh_same := apply ShSame; reflexivity.
Ltac sh_node Hg := eapply ShNode; [exact Hg|reflexivity|split; reflexivity|left; reflexivity].

Lemma exec_pc_shape cfg s p pc s1 out : exec_pc cfg s p pc = (s1, out) -> shape s pc s1.
Proof.
  destruct pc; cbn [exec_pc]; intros H.
  - destruct (get_node s e); [destruct (opt_eqb _ _)|]; inversion H; sh_same.
  - destruct (get_node s e) eqn:Hg; inversion H; [|sh_same].
    eapply ShNode; [exact Hg|reflexivity|split; reflexivity|right; eauto].
  - destruct (get_node s dst); inversion H; sh_same.
  - destruct (get_node s e); [destruct (opt_eqb _ _); [|destruct att]|]; inversion H; sh_same.
  - destruct (get_node s e); [destruct (mem _ _)|]; inversion H; sh_same.
  - destruct (get_node s e) eqn:Hg; inversion H; [sh_node Hg|sh_same].
  - destruct (get_node s e) eqn:Hg; [destruct (mem _ _)|]; inversion H; try sh_same. sh_node Hg.
  - destruct (get_node s e) eqn:Hg; inversion H; [sh_node Hg|sh_same].
  - destruct (get_node s e) eqn:Hg; inversion H; [sh_node Hg|sh_same].
  - destruct (get_node s e); [destruct (_ <? _)|]; inversion H; sh_same.
  - inversion H; sh_same.
  - inversion H. eapply ShLog; reflexivity.
  - destruct (get_node s raft_leader); [destruct (Nat.ltb _ _)|]; inversion H; sh_same.
  - destruct (get_node s h) as [x|] eqn:Hg; [|inversion H; sh_same].
    destruct (nd_rc x); [inversion H; sh_same|].
    destruct (match nd_cursor x with Some c => c | None => (0, 0) end) as [seg del].
    pose proof (get_loop_same x h seg del) as [Hs Hl]. destruct (get_loop x h seg del) as [x' o]. inversion H.
    eapply ShNode; [exact Hg|reflexivity|exact Hs|left; exact Hl].
  - destruct (get_node s dst); [inversion H; sh_same|].
    destruct (get_node s h) eqn:Hg; inversion H; [sh_node Hg|sh_same].
  - destruct (get_node s h) as [xh|]; [|inversion H; sh_same].
    destruct (get_node s e) as [xe|] eqn:Hg; [|inversion H; sh_same].
    destruct (queue_of xe _); inversion H; [sh_same|sh_node Hg].
  - destruct (get_node s h) as [x|] eqn:Hg; [|inversion H; sh_same].
    destruct (match nd_cursor x with Some c => c | None => (0, 0) end) as [seg del].
    destruct r as [a|].
    + inversion H. sh_node Hg.
    + destruct (seg <? cur).
      * pose proof (get_loop_same x h (seg + 1) 0) as [Hs Hl]. destruct (get_loop x h (seg + 1) 0) as [x' o]. inversion H.
        eapply ShNode; [exact Hg|reflexivity|exact Hs|left; exact Hl].
      * inversion H. sh_node Hg.
  - destruct (get_node s n); inversion H; sh_same.
  - destruct (get_node s n) as [x|]; [destruct (owned _ _)|]; inversion H; sh_same.
  - destruct (get_node s n) as [x|]; [destruct (_ <? _)|]; inversion H; sh_same.
Qed.

Lemma shape_log s pc s1 : shape s pc s1 ->
  s_log s1 = s_log s \/ exists c k, pc = PPropose c k /\ s_log s1 = s_log s ++ [c].
Proof.
  intros [->|e x x' Hg -> _ _|c k -> ->]; cbn; eauto.
Qed.

Lemma shape_tasks s pc s1 : shape s pc s1 ->
  s_clients s1 = s_clients s /\ s_lease s1 = s_lease s /\ s_mon s1 = s_mon s.
Proof. intros [->|e x x' Hg -> _ _|c k -> ->]; cbn; auto. Qed.

Lemma shape_ext s pc s1 : shape s pc s1 -> ext s s1.
Proof.
  intros [->|e x x' Hg -> [Hm _] _|c k -> ->].
  - apply ext_refl.
  - now apply (ext_set _ _ x).
  - intros e x H. exists x. auto.
Qed.

Lemma nodes_ok_log s c :
  nodes_ok s -> nodes_ok (mkSt (s_nodes s) (s_log s ++ [c]) (s_clients s) (s_lease s) (s_mon s)).
Proof.
  intros Hn n x Hg. destruct (Hn n x Hg) as [A B C D]. split; cbn [s_log]; auto.
  - now rewrite firstn_app_le.
  - rewrite app_length. cbn. lia.
Qed.

Lemma shape_nodes_ok s pc s1 : nodes_ok s -> pc_ok s pc -> shape s pc s1 -> nodes_ok s1.
Proof.
  intros Hn Hp [->|e x x' Hg -> Hs Hl|c k -> ->]; auto.
  - apply (nodes_ok_set _ _ x); auto. destruct Hs as [Hm _]. intros sg Hsg. rewrite Hm.
    destruct Hl as [Hl|(ex & k & -> & Hl)].
    + rewrite Hl in Hsg. now apply (no_lease _ _ _ (Hn _ _ Hg)).
    + rewrite Hl in Hsg. rewrite Hsg in Hp. cbn [pc_ok] in Hp. now apply Hp.
  - now apply nodes_ok_log.
Qed.

(* ---------- the next pc is fine ---------- *)
Definition out_pc (o : outcome) : option cpc :=
  match o with OYield pc _ _ => Some pc | OBlocked _ pc => Some pc | OFinish _ _ => None end.
Definition out_subs (o : outcome) : list csub :=
  match o with OYield _ _ u => u | OBlocked u _ => u | OFinish _ u => u end.

Lemma enter_ul_ok s x e k : nodes_ok s -> get_node s e = Some x -> opc_ok s (out_pc (enter_ul x e k)).
Proof.
  intros Hn Hg. cbn [enter_ul out_pc opc_ok pc_ok]. destruct (owned (nd_meta x) e) as [sg|] eqn:Ho; auto.
  intros y Hy. rewrite Hg in Hy. inversion Hy. subst y. apply led_owned; auto. apply (no_inv0 _ _ _ (Hn _ _ Hg)).
Qed.

Lemma after_ul_ok s e k : opc_ok s (out_pc (after_ul e k)).
Proof. destruct k; cbn; exact I. Qed.

Lemma opt_eqb_eq a b : opt_eqb a b = true -> a = b.
Proof. destruct a, b; cbn; try discriminate; auto. intros H. apply N.eqb_eq in H. now subst. Qed.

Lemma exec_pc_next cfg s p pc s1 out :
  nodes_ok s -> pc_ok s pc -> exec_pc cfg s p pc = (s1, out) -> opc_ok s1 (out_pc out).
Proof.
  intros Hn Hp H. pose proof (exec_pc_shape _ _ _ _ _ _ H) as Hsh. pose proof (shape_ext _ _ _ Hsh) as Hx.
  apply (opc_ok_ext s s1 _ Hx). clear Hsh Hx.
  destruct pc; cbn [exec_pc] in H.
  - destruct (get_node s e); [destruct (opt_eqb _ _)|]; inversion H; subst; cbn [out_pc opc_ok]; auto.
    apply after_ul_ok.
  - destruct (get_node s e); inversion H; subst; cbn [out_pc opc_ok]; auto. apply after_ul_ok.
  - destruct (get_node s dst) eqn:Hg; inversion H; subst; [|exact I]. now apply enter_ul_ok.
  - destruct (get_node s e) as [x|] eqn:Hg; [|inversion H; subst; exact I].
    destruct (opt_eqb _ _) eqn:E.
    + inversion H. subst. cbn [out_pc opc_ok pc_ok]. intros y Hy. rewrite Hg in Hy. inversion Hy. subst y.
      apply opt_eqb_eq in E. now apply (no_lease _ _ _ (Hn _ _ Hg)).
    + destruct att; inversion H; subst; [exact I|]. now apply enter_ul_ok.
  - destruct (get_node s e); [destruct (mem _ _)|]; inversion H; subst; cbn [out_pc opc_ok pc_ok]; auto.
  - destruct (get_node s e); inversion H; subst; cbn [out_pc opc_ok pc_ok]; auto.
  - destruct (get_node s e); [destruct (mem _ _)|]; inversion H; subst; cbn [out_pc opc_ok pc_ok]; auto.
  - destruct (get_node s e); inversion H; subst; cbn [out_pc opc_ok pc_ok]; auto.
  - destruct (get_node s e); inversion H; subst; cbn [out_pc opc_ok pc_ok]; auto.
  - destruct (get_node s e); [destruct (_ <? _)|]; inversion H; subst; cbn [out_pc opc_ok pc_ok]; auto.
    unfold enter_propose. destruct (_ =? _); exact I.
  - inversion H. exact I.
  - inversion H. exact I.
  - destruct (get_node s raft_leader); [destruct (Nat.ltb _ _)|]; inversion H; subst; cbn [out_pc opc_ok pc_ok]; auto.
    destruct k; exact I.
  - destruct (get_node s h) as [x|]; [|inversion H; subst; exact I].
    destruct (nd_rc x); [inversion H; subst; exact I|].
    destruct (match nd_cursor x with Some c => c | None => (0, 0) end) as [seg del].
    unfold get_loop in H. destruct (topic_of (nd_meta x)) as [t|]; [|inversion H; subst; exact I].
    destruct (skip_sealed _ _ _ _) as [seg2 del2].
    destruct (_ =? h); [inversion H; subst; exact I|].
    destruct (has_addr _ _); inversion H; subst; exact I.
  - destruct (get_node s dst); [inversion H; subst; exact I|].
    destruct (get_node s h); inversion H; subst; exact I.
  - destruct (get_node s h) as [xh|]; [|inversion H; subst; exact I].
    destruct (get_node s e) as [xe|]; [|inversion H; subst; exact I].
    destruct (queue_of xe _); inversion H; subst; exact I.
  - destruct (get_node s h) as [x|]; [|inversion H; subst; exact I].
    destruct (match nd_cursor x with Some c => c | None => (0, 0) end) as [seg del].
    destruct r as [a|]; [inversion H; subst; exact I|].
    destruct (seg <? cur); [|inversion H; subst; exact I].
    unfold get_loop in H. destruct (topic_of (nd_meta x)) as [t|]; [|inversion H; subst; exact I].
    destruct (skip_sealed _ _ _ _) as [seg2 del2].
    destruct (_ =? h); [inversion H; subst; exact I|].
    destruct (has_addr _ _); inversion H; subst; exact I.
  - destruct (get_node s n) eqn:Hg; inversion H; subst; [|exact I]. now apply enter_ul_ok.
  - destruct (get_node s n) as [x|]; [destruct (owned _ _)|]; inversion H; subst; exact I.
  - destruct (get_node s n) as [x|]; [destruct (_ <? _)|]; inversion H; subst; try exact I.
    unfold enter_propose. destruct (_ =? _); exact I.
Qed.

(* ---------- sub-events of one exec_pc ---------- *)
Definition els (evs : list csub) : list cmd :=
  flat_map (fun u => match u with EL _ c => [c] | _ => [] end) evs.

Lemma scan_app log a b :
  c23_foreign_scan log (a ++ b) = c23_foreign_scan log a && c23_foreign_scan (log ++ els a) b.
Proof.
  revert log. induction a as [|u a IH]; intros log; cbn [app els flat_map c23_foreign_scan].
  - now rewrite app_nil_r.
  - destruct u; cbn [c23_foreign_scan app]; rewrite ?IH, ?app_nil_l; auto.
    + now rewrite andb_assoc.
    + now rewrite <- app_assoc.
Qed.

Ltac break_match_in H :=
  repeat match type of H with
  | context [get_loop _ _ _ _] => unfold get_loop in H
  | context [enter_propose _ _ _ _] => unfold enter_propose in H
  | context [match ?x with _ => _ end] => let E := fresh "E" in destruct x eqn:E
  end.

Ltac trivsub :=
  try match goal with k : ulk |- _ => destruct k end;
  try match goal with k : ppk |- _ => destruct k end;
  cbn [out_subs set_node s_log els flat_map c23_foreign_scan after_ul after_propose enter_ul app];
  (split; [reflexivity|now rewrite app_nil_r]).

Lemma exec_pc_subs cfg s p pc s1 out :
  nodes_ok s -> pc_ok s pc -> exec_pc cfg s p pc = (s1, out) ->
  c23_foreign_scan (s_log s) (out_subs out) = true /\ s_log s1 = s_log s ++ els (out_subs out).
Proof.
  intros Hn Hp H.
  destruct pc; cbn [exec_pc] in H; break_match_in H; inversion H; subst; try trivsub.
  - (* PSpawn: the engine write *)
    cbn [out_subs set_node s_log els flat_map c23_foreign_scan app]. rewrite app_nil_r. split; [|reflexivity].
    match goal with Hg : get_node s e = Some ?x |- _ =>
      destruct (Hn _ _ Hg) as [A B C D]; rewrite <- B; cbn [pc_ok] in Hp; rewrite (led_not_foreign _ _ _ (Hp _ Hg)) end.
    reflexivity.
  - (* PPropose: the log grows *)
    cbn [out_subs s_log els flat_map c23_foreign_scan app]. auto.
  - (* PGLock: the cursor loop *)
    match goal with E : _ = (_, ?o) |- _ =>
      assert (Ho : out_subs o = []) by (break_match_in E; inversion E; reflexivity) end.
    rewrite Ho. trivsub.
  - (* PGHw: the cursor loop again *)
    match goal with E : _ = (_, ?o) |- _ =>
      assert (Ho : out_subs o = []) by (break_match_in E; inversion E; reflexivity) end.
    rewrite Ho. trivsub.
Qed.

(* ---------- whole steps ---------- *)
Lemma ext_nodes_eq s s' : s_nodes s' = s_nodes s -> ext s s'.
Proof. intros H e x Hg. exists x. unfold get_node in *. rewrite <- H. auto. Qed.

Lemma nodes_ok_eq s s' : s_nodes s' = s_nodes s -> s_log s' = s_log s -> nodes_ok s -> nodes_ok s'.
Proof. intros H1 H2 Hn n x Hg. unfold get_node in Hg. rewrite H1 in Hg. rewrite H2. now apply Hn. Qed.

Lemma Forall_set_nth {A} (P : A -> Prop) i a l : Forall P l -> P a -> Forall P (set_nth i a l).
Proof.
  revert i. induction l as [|x l IH]; intros i Hl Ha; [destruct i; constructor|].
  inversion Hl; subst. destruct i; cbn [set_nth]; constructor; auto.
Qed.

Lemma map_set_nth {A B} (f : A -> B) i a l : map f (set_nth i a l) = set_nth i (f a) (map f l).
Proof. revert i. induction l as [|x l IH]; intros i; [destruct i; reflexivity|]. destruct i; cbn [set_nth map]; now rewrite ?IH. Qed.

Lemma Forall_map_ins {V} (P : option V -> Prop) n (v : V) (l : list (N * V)) :
  Forall P (map (fun x => Some (snd x)) l) -> P (Some v) ->
  Forall P (map (fun x => Some (snd x)) (ins N.compare n v l)).
Proof.
  intros Hl Hv. rewrite Forall_map in *. apply Forall_ins; auto.
Qed.

Lemma els_app a b : els (a ++ b) = els a ++ els b.
Proof. unfold els. apply flat_map_app. Qed.

Lemma invoke_ok s o : nodes_ok s -> opc_ok s (out_pc (invoke s o)) /\ out_subs (invoke s o) = [].
Proof.
  intros Hn. destruct o as [h|h]; cbn [invoke].
  - destruct (get_node s h) as [x|] eqn:Hg; [|split; [exact I|reflexivity]].
    destruct (topic_of (nd_meta x)) as [t|]; [|split; [exact I|reflexivity]].
    destruct (t_leader t =? h).
    + split; [now apply enter_ul_ok|reflexivity].
    + destruct (has_addr _ _); split; try exact I; reflexivity.
  - destruct (get_node s h); split; try exact I; reflexivity.
Qed.

Definition step_good (s : cst) (s' : cst) (t : ctok) : Prop :=
  Inv1 s' /\ c23_foreign_scan (s_log s) (snd t) = true /\ s_log s' = s_log s ++ els (snd t).

Lemma in_all_pcs_client s i c : nth_error (s_clients s) i = Some c -> In (cl_pc c) (all_pcs s).
Proof. intros H. unfold all_pcs. apply in_or_app. left. apply in_map. eapply nth_error_In; eauto. Qed.

Lemma all_pcs_split s (P : option cpc -> Prop) :
  Forall P (all_pcs s) <->
  Forall P (map cl_pc (s_clients s)) /\ Forall P (map (fun x => Some (snd x)) (s_lease s))
  /\ Forall P (map (fun x => Some (snd x)) (s_mon s)).
Proof. unfold all_pcs. rewrite !Forall_app. tauto. Qed.

(* the common part: an acting task moved from s to s1 (shape) with outcome [out] *)
Lemma after_exec cfg s p pc s1 out :
  Inv1 s -> pc_ok s pc -> exec_pc cfg s p pc = (s1, out) ->
  nodes_ok s1 /\ Forall (opc_ok s1) (all_pcs s) /\ opc_ok s1 (out_pc out)
  /\ c23_foreign_scan (s_log s) (out_subs out) = true /\ s_log s1 = s_log s ++ els (out_subs out)
  /\ s_clients s1 = s_clients s /\ s_lease s1 = s_lease s /\ s_mon s1 = s_mon s.
Proof.
  intros [Hn Hp] Hpc H. pose proof (exec_pc_shape _ _ _ _ _ _ H) as Hsh.
  destruct (exec_pc_subs _ _ _ _ _ _ Hn Hpc H) as [S1 S2].
  destruct (shape_tasks _ _ _ Hsh) as (T1 & T2 & T3).
  refine (conj _ (conj _ (conj _ (conj S1 (conj S2 (conj T1 (conj T2 T3))))))).
  - eapply shape_nodes_ok; eauto.
  - eapply Forall_impl; [|exact Hp]. intros o. apply opc_ok_ext. now apply (shape_ext _ pc).
  - eapply exec_pc_next; eauto.
Qed.

Lemma step_client_good cfg s i s' t : Inv1 s -> step_client cfg s i = (s', t) -> step_good s s' t.
Proof.
  intros Hi H. unfold step_client in H.
  assert (Same : step_good s s (SDone, [])).
  { split; [exact Hi|]. cbn. now rewrite app_nil_r. }
  destruct (nth_error (s_clients s) i) as [c|] eqn:Hc; [|inversion H; subst; exact Same].
  destruct (cl_ops c) as [|o rest] eqn:Hops; [inversion H; subst; exact Same|].
  set (ci := N.of_nat i) in *.
  (* the acting task's exec, in both the invocation and the continuation case *)
  assert (X : exists s1 out pre,
    (nodes_ok s1 /\ Forall (opc_ok s1) (all_pcs s) /\ opc_ok s1 (out_pc out)
     /\ c23_foreign_scan (s_log s) (out_subs out) = true /\ s_log s1 = s_log s ++ els (out_subs out)
     /\ s_clients s1 = s_clients s /\ s_lease s1 = s_lease s /\ s_mon s1 = s_mon s)
    /\ (pre = [] \/ exists a b c0 d, pre = [EInv a b c0 d])
    /\ (s', t) = match out with
       | OYield pc' st subs => (set_clients s1 (set_nth i (mkClient (cl_ops c) (cl_k c) (Some pc')) (s_clients s1)), (st, pre ++ subs))
       | OBlocked subs pc' => (set_clients s1 (set_nth i (mkClient (cl_ops c) (cl_k c) (Some pc')) (s_clients s1)), (SBlocked, pre ++ subs))
       | OFinish r subs =>
         (set_clients s1 (set_nth i (mkClient rest (cl_k c + 1) None) (s_clients s1)),
          (match rest with [] => SDone | _ => SNX end, pre ++ subs ++ [EResp ci (cl_k c) r]))
       end).
  { destruct (cl_pc c) as [pc|] eqn:Hpc.
    - destruct (exec_pc cfg s (ci, cl_k c) pc) as [s1 out] eqn:He.
      exists s1, out, []. split; [|split; [now left|]].
      + apply (after_exec cfg s (ci, cl_k c) pc); auto.
        pose proof (in_all_pcs_client _ _ _ Hc) as Hin. rewrite Hpc in Hin.
        destruct Hi as [_ Hp]. rewrite Forall_forall in Hp. apply (Hp _ Hin).
      + rewrite <- H. rewrite Hops. reflexivity.
    - exists s, (invoke s o), [EInv ci (cl_k c) (is_put o) (op_node o)].
      destruct Hi as [Hn Hp]. destruct (invoke_ok s o Hn) as [I1 I2].
      split; [|split; [right; eauto|]].
      + refine (conj Hn (conj Hp (conj I1 (conj _ (conj _ (conj eq_refl (conj eq_refl eq_refl))))))).
        * rewrite I2. reflexivity.
        * rewrite I2. cbn. now rewrite app_nil_r.
      + rewrite <- H. rewrite Hops. reflexivity. }
  destruct X as (s1 & out & pre & (N1 & P1 & O1 & S1 & S2 & T1 & T2 & T3) & Hpre & E).
  assert (Pre0 : forall log rest0, c23_foreign_scan log (pre ++ rest0) = c23_foreign_scan log rest0).
  { intros log rest0. destruct Hpre as [->|(a & b & c0 & d & ->)]; reflexivity. }
  assert (Pre1 : forall rest0, els (pre ++ rest0) = els rest0).
  { intros rest0. destruct Hpre as [->|(a & b & c0 & d & ->)]; reflexivity. }
  (* a new state that differs from s1 only in the acting client's record *)
  assert (G : forall c' subs' st',
    opc_ok s1 (cl_pc c') ->
    c23_foreign_scan (s_log s) subs' = true -> els subs' = els (out_subs out) ->
    step_good s (set_clients s1 (set_nth i c' (s_clients s1))) (st', subs')).
  { intros c' subs' st' Hc' Hs' He'. split; [split|split].
    - apply (nodes_ok_eq s1); auto.
    - apply all_pcs_split. cbn [set_clients s_clients s_lease s_mon]. apply all_pcs_split in P1.
      destruct P1 as (Q1 & Q2 & Q3). rewrite T1, T2, T3.
      assert (R : forall o', opc_ok s1 o' -> opc_ok (set_clients s1 (set_nth i c' (s_clients s))) o').
      { intros o'. apply opc_ok_ext. now apply ext_nodes_eq. }
      repeat split.
      + rewrite map_set_nth. apply Forall_set_nth; [|now apply R]. eapply Forall_impl; [exact R|exact Q1].
      + eapply Forall_impl; [exact R|exact Q2].
      + eapply Forall_impl; [exact R|exact Q3].
    - exact Hs'.
    - cbn [set_clients s_log snd]. now rewrite He'. }
  destruct out as [pc' st subs|r subs|subs pc']; inversion E; subst s' t; cbn [out_pc out_subs] in *.
  - apply G; [exact O1|now rewrite Pre0|now rewrite Pre1].
  - apply G; [exact I| |].
    + rewrite Pre0, scan_app, S1. cbn. reflexivity.
    + rewrite Pre1, els_app. cbn. now rewrite app_nil_r.
  - apply G; [exact O1|now rewrite Pre0|now rewrite Pre1].
Qed.

Lemma step_bg_good cfg s n mon s' t : Inv1 s -> step_bg cfg s n mon = (s', t) -> step_good s s' t.
Proof.
  intros Hi H. unfold step_bg in H.
  assert (Same : step_good s s (SDone, [])).
  { split; [exact Hi|]. cbn. now rewrite app_nil_r. }
  destruct (lookup N.compare n (if mon then s_mon s else s_lease s)) as [pc|] eqn:Hl; [|inversion H; subst; exact Same].
  assert (Hpc : pc_ok s pc).
  { destruct Hi as [_ Hp]. apply all_pcs_split in Hp. destruct Hp as (_ & Q2 & Q3).
    apply (lookup_In N_cmp_ok) in Hl. rewrite Forall_map, Forall_forall in Q2, Q3.
    destruct mon; [apply (Q3 _ Hl)|apply (Q2 _ Hl)]. }
  destruct (exec_pc cfg s (0, 0) pc) as [s1 out] eqn:He.
  destruct (after_exec _ _ _ _ _ _ Hi Hpc He) as (N1 & P1 & O1 & S1 & S2 & T1 & T2 & T3).
  assert (G : forall pc' subs' st', opc_ok s1 (Some pc') -> subs' = out_subs out ->
    step_good s ((if mon then set_mon_pc else set_lease_pc) s1 n pc') (st', subs')).
  { intros pc' subs' st' Hc' ->. apply all_pcs_split in P1. destruct P1 as (Q1 & Q2 & Q3).
    assert (R : forall o, opc_ok s1 o -> opc_ok ((if mon then set_mon_pc else set_lease_pc) s1 n pc') o).
    { intros o. apply opc_ok_ext. apply ext_nodes_eq. destruct mon; reflexivity. }
    split; [split|split].
    - apply (nodes_ok_eq s1); auto; destruct mon; reflexivity.
    - apply all_pcs_split. destruct mon; cbn [set_mon_pc set_lease_pc s_clients s_lease s_mon]; rewrite ?T1, ?T2, ?T3; repeat split.
      + eapply Forall_impl; [exact R|exact Q1].
      + eapply Forall_impl; [exact R|exact Q2].
      + apply Forall_map_ins; [eapply Forall_impl; [exact R|exact Q3]|now apply R].
      + eapply Forall_impl; [exact R|exact Q1].
      + apply Forall_map_ins; [eapply Forall_impl; [exact R|exact Q2]|now apply R].
      + eapply Forall_impl; [exact R|exact Q3].
    - exact S1.
    - destruct mon; cbn [set_mon_pc set_lease_pc s_log snd]; exact S2. }
  destruct out as [pc' st subs|r subs|subs pc']; inversion H; subst s' t; cbn [out_pc out_subs] in *.
  - now apply G.
  - split; [split|split]; auto.
    unfold all_pcs in *. now rewrite T1, T2, T3.
  - now apply G.
Qed.

Lemma step_apply_good s n s' t : Inv1 s -> Cluster.step_apply s n = (s', t) -> step_good s s' t.
Proof.
  intros Hi H. unfold Cluster.step_apply in H.
  assert (Same : forall st, step_good s s (st, [])).
  { intros st. split; [exact Hi|]. cbn. now rewrite app_nil_r. }
  destruct (get_node s n) as [x|] eqn:Hg; [|inversion H; subst; apply Same].
  destruct (nth_error (s_log s) (nd_applied x)) as [c|] eqn:Hc; [|inversion H; subst; apply Same].
  inversion H. subst s' t. clear H. destruct Hi as [Hn Hp]. destruct (Hn _ _ Hg) as [A B C D].
  set (x' := with_meta x (fst (apply_cmd_fx (nd_meta x) c)) (S (nd_applied x))).
  assert (Hx : ext s (set_node s n x')).
  { intros e y Hy. destruct (N.eq_dec e n) as [->|Hne].
    - rewrite get_set_same in Hy. inversion Hy. subst y. exists x. split; [exact Hg|].
      intros k sg Hl. cbn [x' with_meta nd_meta]. now apply led_step.
    - rewrite get_set_other in Hy by exact Hne. exists y. auto. }
  split; [split|split].
  - intros e y Hy. destruct (N.eq_dec e n) as [->|Hne].
    + rewrite get_set_same in Hy. inversion Hy. subst y. cbn [set_node s_log].
      split; cbn [x' with_meta nd_meta nd_applied nd_lease].
      * now apply inv0_step.
      * rewrite (firstn_snoc_nth _ _ _ Hc), replay_snoc, <- B. reflexivity.
      * apply nth_error_Some. congruence.
      * intros sg Hsg. apply led_step; auto.
    + rewrite get_set_other in Hy by exact Hne. apply (Hn _ _ Hy).
  - eapply Forall_impl; [|exact Hp]. intros o. now apply opc_ok_ext.
  - reflexivity.
  - cbn. now rewrite app_nil_r.
Qed.

Lemma step_restart_good s n s' t : Inv1 s -> step_restart s n = (s', t) -> step_good s s' t.
Proof.
  intros Hi H. unfold step_restart in H.
  assert (Same : forall st, step_good s s (st, [])).
  { intros st. split; [exact Hi|]. cbn. now rewrite app_nil_r. }
  destruct (get_node s n) as [x|] eqn:Hg; [|inversion H; subst; apply Same].
  destruct (_ && _); [|inversion H; subst; apply Same].
  inversion H. subst s' t. clear H. destruct Hi as [Hn Hp]. destruct (Hn _ _ Hg) as [A B C D].
  split; [split|split].
  - apply (nodes_ok_set _ _ x); auto; [split; reflexivity|].
    cbn [nd_lease nd_meta]. intros sg Hsg. now apply led_owned.
  - eapply Forall_impl; [|exact Hp]. intros o. apply opc_ok_ext. now apply (ext_set _ _ x).
  - reflexivity.
  - cbn. now rewrite app_nil_r.
Qed.

Lemma cl_step_good cfg s e s' t : Inv1 s -> cl_step cfg s e = (s', t) -> step_good s s' t.
Proof.
  intros Hi H. destruct e; cbn [cl_step] in H.
  - eapply step_client_good; eauto.
  - eapply step_apply_good; eauto.
  - eapply step_bg_good; eauto.
  - eapply step_bg_good; eauto.
  - eapply step_restart_good; eauto.
Qed.

(* ---------- the initial state ---------- *)
Lemma In_fold_ins {K V} (cmp : K -> K -> comparison) (l acc : list (K * V)) x :
  In x (fold_left (fun m kv => ins cmp (fst kv) (snd kv) m) l acc) -> In x l \/ In x acc.
Proof.
  revert acc. induction l as [|[k v] l IH]; intros acc H; cbn [fold_left] in H; [auto|].
  destruct (IH _ H) as [H1|H1]; [left; now right|].
  cbn [fst snd] in H1. apply In_ins in H1. destruct H1 as [->|H1]; [left; now left|now right].
Qed.

Lemma In_of_list {K V} (cmp : K -> K -> comparison) (l : list (K * V)) x : In x (of_list cmp l) -> In x l.
Proof. intros H. apply In_fold_ins in H. destruct H as [H|[]]. exact H. Qed.

Lemma Inv1_init cfg : Inv1 (cl_init cfg).
Proof.
  split.
  - intros n x Hg. unfold get_node, cl_init in Hg. cbn [s_nodes] in Hg.
    apply (lookup_In N_cmp_ok) in Hg. apply In_of_list in Hg. apply in_map_iff in Hg.
    destruct Hg as (n' & E & _). inversion E. subst n' x. clear E.
    assert (Hi : inv0 (replay m_init (boot_log cfg))) by (apply inv0_replay, inv0_init).
    split; cbn [init_node nd_meta nd_applied nd_lease cl_init s_log].
    + exact Hi.
    + now rewrite firstn_all.
    + lia.
    + intros sg. now apply led_owned.
  - apply all_pcs_split. cbn [cl_init s_clients s_lease s_mon]. repeat split.
    + rewrite map_map. apply Forall_forall. intros o Ho. apply in_map_iff in Ho. destruct Ho as (ops & <- & _). exact I.
    + rewrite Forall_map. apply Forall_forall. intros [n pc] Hin. apply In_of_list in Hin.
      apply in_map_iff in Hin. destruct Hin as (n' & E & _). inversion E. exact I.
    + rewrite Forall_map. apply Forall_forall. intros [n pc] Hin. apply In_of_list in Hin.
      apply in_map_iff in Hin. destruct Hin as (n' & E & _). inversion E. exact I.
Qed.

(* ---------- all schedules ---------- *)
Lemma run_foreign cfg sched : forall s, Inv1 s ->
  c23_foreign_scan (s_log s) (events (fst (cl_run cfg s sched))) = true.
Proof.
  induction sched as [|e r IH]; intros s Hi; cbn [cl_run]; [reflexivity|].
  destruct (cl_step cfg s e) as [s1 t] eqn:E.
  destruct (cl_step_good _ _ _ _ _ Hi E) as (Hi1 & S1 & S2).
  specialize (IH s1 Hi1). destruct (cl_run cfg s1 r) as [ts s2]. cbn [fst] in *.
  unfold events in *. cbn [flat_map]. rewrite scan_app, S1, <- S2. exact IH.
Qed.

Lemma never_foreign cfg sched : c23_foreign_ok cfg (cl_trace cfg sched) = true.
Proof.
  unfold c23_foreign_ok, cl_trace. change (boot_log cfg) with (s_log (cl_init cfg)).
  apply run_foreign. apply Inv1_init.
Qed.
