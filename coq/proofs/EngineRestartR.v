(* EngineRestartR.v — reads and counts on raw (possibly un-hydrated) states keep the invariant G
   of EngineRestart.v and are accepted by the queue-spec acceptors (StrictlyAtOnce). *)
From W Require Import model.Base model.Engine spec.Queue proofs.EngineBasic proofs.EngineWF proofs.EngineInv proofs.EngineBR proofs.EngineW
  proofs.EngineMain proofs.EngineRec proofs.EngineDisk proofs.EnginePos proofs.EngineGrow proofs.EngineP3 proofs.EngineIdx proofs.EngineBlk
  proofs.EngineNorm proofs.EngineNormW proofs.EngineRaw proofs.EngineRestart.
From Coq Require Import ZArith ZifyBool ZifyN ZifyNat.

Lemma stream_of_parts T T' : chain_of T' = chain_of T -> ts_writer T' = ts_writer T -> stream T' = stream T.
Proof. intros Hc Hw. unfold stream, w_ents. now rewrite Hc, Hw. Qed.

Lemma mblocks_of_parts T T' : chain_of T' = chain_of T -> ts_writer T' = ts_writer T -> mblocks T' = mblocks T.
Proof. intros Hc Hw. unfold mblocks, w_list. now rewrite Hc, Hw. Qed.

(* storing a hydrated topic state that satisfies the per-topic clauses *)
Lemma G_set_hyd c s g g' B Bb t ts' :
  G c s g B Bb ->
  r_hydrated (reader_of ts') = true ->
  TInv c (a_next (s_alloc s)) ts' -> P3 c (a_next (s_alloc s)) ts' ->
  chain_of ts' = chain_of (get_ts s t) -> ts_writer ts' = ts_writer (get_ts s t) ->
  (forall t', t' <> t -> lget g' t' = lget g t') ->
  ((l_del (lget g' t) <= length (l_app (lget g' t)))%nat /\ stream ts' = l_app (lget g' t) /\
   unread c ts' = skipn (l_del (lget g' t)) (l_app (lget g' t)) /\
   N.of_nat (length (l_app (lget g' t))) <= B /\ sum_len (l_app (lget g' t)) <= Bb) ->
  G c (set_ts s t ts') g' B Bb.
Proof.
  intros (Hn & Hd & Hb & Hl & Hall) Hh Hti Hp3 Hch Hw Hlg Hled.
  split; [exact Hn|]. split.
  { apply DIs_set_ts; [exact Hd|exact Hw|]. now apply stream_of_parts. }
  split; [apply BIs_set_ts; [exact Hb|now apply mblocks_of_parts]|]. split; [now apply DLim_set_ts|].
  intros t0. cbn [set_ts s_alloc]. destruct (N.eq_dec t0 t) as [->|Hne].
  - rewrite get_set_same. split; [now apply SC_hydrated|]. intros x. rewrite (nrm_reader_hydrated x ts' Hh).
    split; [exact Hti|]. split; [exact Hp3|exact Hled].
  - rewrite get_set_other by exact Hne. rewrite (Hlg t0 Hne). apply Hall.
Qed.

Lemma G_same c s s' g B Bb : s_alloc s' = s_alloc s -> s_disk s' = s_disk s -> s_files s' = s_files s ->
  (forall t, get_ts s' t = get_ts s t) -> G c s g B Bb -> G c s' g B Bb.
Proof.
  intros Ha Hdk Hf Hg (Hn & Hd & Hb & Hl & Hall). split; [now rewrite Ha|]. split.
  { unfold DIs in *. rewrite Ha, Hdk, Hf. eapply DI_ext; [| |exact Hd]; intros t; unfold wrs, sms; now rewrite Hg. }
  split; [intros t; rewrite Hdk, Hg; apply Hb|]. split; [eapply DLim_disk; eauto|].
  intros t. rewrite Ha, Hg. apply Hall.
Qed.

(* ------------------------------------------------------------------ read_next *)
Lemma G_read c be s g B Bb t ck : cfg_ok c -> G c s g B Bb ->
  let '(s', r) := step (env_of c Strict be) s (ORead t ck) in
  c01_step_ok g (ORead t ck) r = true /\ c15_step_ok g (ORead t ck) r = true /\
  G c s' (ledger_step g (ORead t ck) r) B Bb.
Proof.
  intros Hc HG. pose proof HG as (Hn & Hd & Hb & Hl & Hall). pose proof Hc as (Hh & _).
  cbn [step env_of v_cfg v_mode].
  destruct (Hall (t_id t)) as (Hsc & Hx). destruct (Hx false) as (Hti & Hp3 & Hdl & Hs & Hu & Hb1 & Hb2).
  set (ts := get_ts s (t_id t)) in *. set (T := nrm false ts) in *.
  set (sn := set_ts s (t_id t) T).
  assert (Hgn : get_ts sn (t_id t) = T) by apply get_set_same.
  pose proof (read_next_spec_idx c sn t ck (a_next (s_alloc s)) Hc) as Hspec. rewrite Hgn in Hspec. specialize (Hspec Hti).
  cbn zeta in Hspec. destruct Hspec as (ts' & res & Hr & Hinv' & Hst' & Hw' & Hch' & Hhy' & Hcase & Hidx).
  apply read_next_nrm in Hr. rewrite Hr.
  assert (Hp3' : P3 c (a_next (s_alloc s)) ts').
  { destruct Hidx as [(Hi & Hun)|(p & Hi & Hpos)].
    - eapply P3_ext; [exact Hch'|exact Hw'|exact Hi|exact Hun|exact Hp3].
    - eapply posis_P3; eauto. unfold CNE. rewrite Hch'. exact (proj1 Hp3). }
  assert (HchT : chain_of ts' = chain_of ts) by (rewrite Hch'; apply nrm_chain).
  assert (HwT : ts_writer ts' = ts_writer ts) by (rewrite Hw'; apply nrm_writer).
  rewrite Hu in Hcase.
  destruct (skipn (l_del (lget g (t_id t))) (l_app (lget g (t_id t)))) as [|e rest] eqn:Esk.
  - destruct Hcase as (-> & Hun'). unfold c01_step_ok, c15_step_ok, remaining. rewrite Esk.
    split; [now destruct ck|]. split; [reflexivity|].
    assert (Hls : ledger_step g (ORead t ck) RNone = g) by (now destruct ck). rewrite Hls.
    eapply G_set_hyd; eauto. rewrite Hst', Hun', Hs, Esk. repeat split; auto.
  - destruct Hcase as (-> & Hun'). unfold c01_step_ok, c15_step_ok, remaining. rewrite Esk.
    split; [destruct ck; [apply out_is_out_of|reflexivity]|]. split; [reflexivity|].
    destruct (skipn_cons_S _ _ _ _ Esk) as (Hsk' & Hlen').
    destruct ck; cbn [ledger_step].
    + eapply G_set_hyd; eauto.
      * intros t' Hne. now apply lget_lset_other.
      * rewrite lget_lset_same. cbn [l_app l_del]. rewrite Hst', Hun', Hs, Hsk'. repeat split; auto.
    + eapply G_set_hyd; eauto. rewrite Hst', Hun', Hs, Esk. repeat split; auto.
Qed.

(* ------------------------------------------------------------------ batch_read *)
Lemma G_batch_read c be s g B Bb t maxb ck start : cfg_ok c -> G c s g B Bb ->
  let '(s', r) := step (env_of c Strict be) s (OBatchRead t maxb ck start) in
  c01_step_ok g (OBatchRead t maxb ck start) r = true /\ c15_step_ok g (OBatchRead t maxb ck start) r = true /\
  G c s' (ledger_step g (OBatchRead t maxb ck start) r) B Bb.
Proof.
  intros Hc HG. pose proof HG as (Hn & Hd & Hb & Hl & Hall). pose proof Hc as (Hh & _).
  cbn [step env_of v_cfg v_mode].
  destruct start as [st0|].
  { destruct (batch_read_stateless c Strict s t maxb ck st0) as (os & Hr). rewrite Hr.
    unfold c01_step_ok, c15_step_ok. split; [now destruct ck|]. split; [reflexivity|].
    assert (Hls : ledger_step g (OBatchRead t maxb ck (Some st0)) (REntries os) = g) by (now destruct ck). rewrite Hls.
    eapply G_same; [| | | |exact HG]; try reflexivity.
    intros t0. destruct (N.eq_dec t0 (t_id t)) as [->|Hne]; [apply get_set_same|now apply get_set_other]. }
  destruct (Hall (t_id t)) as (Hsc & Hx). destruct (Hx true) as (Hti & Hp3 & Hdl & Hs & Hu & Hb1 & Hb2).
  set (ts := get_ts s (t_id t)) in *. set (T := nrm true ts) in *.
  set (sn := set_ts s (t_id t) T).
  assert (Hgn : get_ts sn (t_id t) = T) by apply get_set_same.
  pose proof (batch_read_spec_idx c sn t maxb ck (a_next (s_alloc s)) Hc) as Hspec. rewrite Hgn in Hspec. specialize (Hspec Hti).
  cbn zeta in Hspec. destruct Hspec as (ts' & k & Hr & Hinv' & Hst' & Hw' & Hch' & Hhy' & Hk & Hk1 & Hun' & Hidx).
  apply batch_read_nrm in Hr. rewrite Hr.
  assert (Hp3' : P3 c (a_next (s_alloc s)) ts').
  { destruct Hidx as [(Hi & Hun)|(p & Hi & Hpos)].
    - eapply P3_ext; [exact Hch'|exact Hw'|exact Hi|exact Hun|exact Hp3].
    - eapply posis_P3; eauto. unfold CNE. rewrite Hch'. exact (proj1 Hp3). }
  assert (HchT : chain_of ts' = chain_of ts) by (rewrite Hch'; apply nrm_chain).
  assert (HwT : ts_writer ts' = ts_writer ts) by (rewrite Hw'; apply nrm_writer).
  set (U := unread c T) in *.
  assert (Hlenk : length (map out_of (firstn k U)) = k) by (rewrite map_length, firstn_length; lia).
  unfold c01_step_ok, c15_step_ok, remaining. rewrite <- Hu.
  split.
  { destruct ck; [|reflexivity].
    destruct (map out_of (firstn k U)) as [|o0 os0] eqn:Eo.
    - destruct U; [reflexivity|]. exfalso. assert (1 <= k)%nat by (apply Hk1; discriminate). cbn in Hlenk. lia.
    - rewrite <- Eo. rewrite map_length, firstn_length. replace (Nat.min k (length U)) with k by lia. apply outs_are_map. }
  split; [reflexivity|].
  destruct ck; cbn [ledger_step].
  - eapply G_set_hyd; eauto.
    + intros t' Hne. now apply lget_lset_other.
    + rewrite lget_lset_same. cbn [l_app l_del]. rewrite Hst', Hun', Hs, Hlenk.
      rewrite Hu, skipn_skipn. rewrite Hu, skipn_length in Hk. repeat split; auto; lia.
  - eapply G_set_hyd; eauto. rewrite Hst', Hun', Hs. rewrite Hu. repeat split; auto.
Qed.

(* ------------------------------------------------------------------ counts *)
Lemma G_count c be s g B Bb t : G c s g B Bb ->
  let '(s', r) := step (env_of c Strict be) s (OCount t) in
  c01_step_ok g (OCount t) r = true /\ c15_step_ok g (OCount t) r = true /\
  G c s' (ledger_step g (OCount t) r) B Bb.
Proof.
  intros HG. pose proof HG as (Hn & Hd & Hb & Hl & Hall). cbn [step].
  unfold c01_step_ok, c15_step_ok. cbn [ledger_step]. split; [reflexivity|]. split; [|exact HG].
  destruct (Hall (t_id t)) as (_ & Hx). destruct (Hx false) as (Hti & _ & Hdl & Hs & Hu & _).
  pose proof (ti_cnt _ _ _ Hti) as Hc. unfold cnt in Hc. rewrite nrm_count in Hc. rewrite Hc, Hu, skipn_length. lia.
Qed.

(* ------------------------------------------------------------------ reads keep every persisted position good *)
Lemma PG_set_hyd c s t ts' T x0 :
  0 < c_hdr c -> PG c s -> T = nrm x0 (get_ts s t) ->
  r_hydrated (reader_of ts') = true -> TInv c (a_next (s_alloc s)) ts' -> CNE ts' ->
  chain_of ts' = chain_of T -> ts_writer ts' = ts_writer T ->
  ((ts_index ts' = ts_index T /\ unread c ts' = unread c T) \/ (exists p, ts_index ts' = Some p /\ PosIs ts' p)) ->
  PG c (set_ts s t ts').
Proof.
  intros Hh Hpg HT Hhy Hinv Hcne Hch Hw Hidx t0 x p Hp.
  destruct (N.eq_dec t0 t) as [->|Hne]; [|rewrite get_set_other in * by exact Hne; now apply Hpg].
  rewrite get_set_same in *. rewrite (nrm_reader_hydrated x ts' Hhy).
  destruct Hidx as [(Hi & Hun)|(p' & Hi & Hpos)].
  - rewrite Hi, HT, nrm_index in Hp. pose proof (Hpg t x0 p Hp) as Hg. rewrite <- HT in Hg.
    eapply PGood_ext; eauto.
  - rewrite Hi in Hp. inversion Hp; subst p'. eapply posis_PGood; eauto.
Qed.

Lemma PG_read c be s g B Bb t ck : cfg_ok c -> G c s g B Bb -> PG c s ->
  PG c (fst (step (env_of c Strict be) s (ORead t ck))).
Proof.
  intros Hc HG Hpg. pose proof HG as (Hn & Hd & Hb & Hl & Hall). pose proof Hc as (Hh & _).
  cbn [step env_of v_cfg v_mode].
  destruct (Hall (t_id t)) as (Hsc & Hx). destruct (Hx false) as (Hti & Hp3 & _).
  set (ts := get_ts s (t_id t)) in *. set (T := nrm false ts) in *.
  set (sn := set_ts s (t_id t) T).
  assert (Hgn : get_ts sn (t_id t) = T) by apply get_set_same.
  pose proof (read_next_spec_idx c sn t ck (a_next (s_alloc s)) Hc) as Hspec. rewrite Hgn in Hspec. specialize (Hspec Hti).
  cbn zeta in Hspec. destruct Hspec as (ts' & res & Hr & Hinv' & Hst' & Hw' & Hch' & Hhy' & Hcase & Hidx).
  apply read_next_nrm in Hr. rewrite Hr. cbn [fst].
  eapply (PG_set_hyd c s (t_id t) ts' T false); eauto. unfold CNE. rewrite Hch'. exact (proj1 Hp3).
Qed.

Lemma PG_batch_read c be s g B Bb t maxb ck start : cfg_ok c -> G c s g B Bb -> PG c s ->
  PG c (fst (step (env_of c Strict be) s (OBatchRead t maxb ck start))).
Proof.
  intros Hc HG Hpg. pose proof HG as (Hn & Hd & Hb & Hl & Hall). pose proof Hc as (Hh & _).
  cbn [step env_of v_cfg v_mode].
  destruct start as [st0|].
  { destruct (batch_read_stateless c Strict s t maxb ck st0) as (os & Hr). rewrite Hr. cbn [fst].
    intros t0 x p. destruct (N.eq_dec t0 (t_id t)) as [->|Hne]; [rewrite get_set_same|rewrite get_set_other by exact Hne]; apply Hpg. }
  destruct (Hall (t_id t)) as (Hsc & Hx). destruct (Hx true) as (Hti & Hp3 & _).
  set (ts := get_ts s (t_id t)) in *. set (T := nrm true ts) in *.
  set (sn := set_ts s (t_id t) T).
  assert (Hgn : get_ts sn (t_id t) = T) by apply get_set_same.
  pose proof (batch_read_spec_idx c sn t maxb ck (a_next (s_alloc s)) Hc) as Hspec. rewrite Hgn in Hspec. specialize (Hspec Hti).
  cbn zeta in Hspec. destruct Hspec as (ts' & k & Hr & Hinv' & Hst' & Hw' & Hch' & Hhy' & Hk & Hk1 & Hun' & Hidx).
  apply batch_read_nrm in Hr. rewrite Hr. cbn [fst].
  eapply (PG_set_hyd c s (t_id t) ts' T true); eauto. unfold CNE. rewrite Hch'. exact (proj1 Hp3).
Qed.
