(* EngineRestartW.v — appends and batches on raw (possibly un-hydrated) states keep the invariant G
   of EngineRestart.v: both normalised runs are runs of the hydrated world (EngineMain.step_ok,
   EngineDisk.DIs_step, EngineBlk.BIs_step, EnginePW) and normalisation commutes (EngineNormW). *)
From W Require Import model.Base model.Engine spec.Queue proofs.EngineBasic proofs.EngineWF proofs.EngineInv proofs.EngineBR proofs.EngineW
  proofs.EngineMain proofs.EngineRec proofs.EngineDisk proofs.EnginePos proofs.EngineGrow proofs.EngineP3 proofs.EnginePW proofs.EngineIdx proofs.EngineBlk
  proofs.EngineNorm proofs.EngineNormW proofs.EngineRaw proofs.EngineRestart proofs.EngineRestartR.
From Coq Require Import ZArith ZifyBool ZifyN ZifyNat.

Lemma G_wop c be s g B Bb o t :
  cfg_ok c -> G c s g B Bb -> op_ok c o ->
  B + N.of_nat (length (offered o)) <= u64_max -> Bb + sum_len (offered o) <= u64_max ->
  (forall x, step (env_of c Strict be) (Nst x s) o = (Nst x (fst (step (env_of c Strict be) s o)), snd (step (env_of c Strict be) s o))) ->
  keep (get_ts s (t_id t)) (get_ts (fst (step (env_of c Strict be) s o)) (t_id t)) ->
  (forall x, Grow (get_ts (Nst x s) (t_id t)) (get_ts (fst (step (env_of c Strict be) (Nst x s) o)) (t_id t))) ->
  (forall x, P3 c (a_next (s_alloc (fst (step (env_of c Strict be) (Nst x s) o))))
                (get_ts (fst (step (env_of c Strict be) (Nst x s) o)) (t_id t))) ->
  (forall t', t' <> t_id t -> get_ts (fst (step (env_of c Strict be) s o)) t' = get_ts s t') ->
  a_next (s_alloc s) <= a_next (s_alloc (fst (step (env_of c Strict be) s o))) ->
  let '(s', r) := step (env_of c Strict be) s o in
  c01_step_ok g o r = true /\ c15_step_ok g o r = true /\
  G c s' (ledger_step g o r) (B + N.of_nat (length (offered o))) (Bb + sum_len (offered o)).
Proof.
  intros Hc HG Hok HB HBb Hcomm Hkeep Hgrow Hp3 Hoth Hmono.
  pose proof HG as (Hn & Hd & Hb & Hl & Hall). pose proof Hc as (Hh & Hb0 & _).
  assert (Hst : forall x, c01_step_ok g o (snd (step (env_of c Strict be) s o)) = true /\
                          c15_step_ok g o (snd (step (env_of c Strict be) s o)) = true /\
                          Rel c (Nst x (fst (step (env_of c Strict be) s o))) (ledger_step g o (snd (step (env_of c Strict be) s o)))
                              (B + N.of_nat (length (offered o))) (Bb + sum_len (offered o))).
  { intros x. pose proof (step_ok c Strict be (Nst x s) g B Bb o Hc (G_Rel x c s g B Bb HG) Hok HB HBb) as H.
    rewrite (Hcomm x) in H. destruct H as (A & B0 & _ & D). auto. }
  assert (Hd' : DIs c (fst (step (env_of c Strict be) s o))).
  { pose proof (DIs_step c Strict be (Nst false s) g B Bb o Hc (G_Rel false c s g B Bb HG) (proj2 (DIs_Nst false c s) Hd) Hok HB) as H.
    rewrite (Hcomm false) in H. cbn [fst] in H. now apply (DIs_Nst false). }
  assert (Hb' : BIs c (fst (step (env_of c Strict be) s o))).
  { pose proof (BIs_step c Strict be (Nst false s) g B Bb o Hc (G_Rel false c s g B Bb HG) (proj2 (DIs_Nst false c s) Hd)
                  (proj2 (BIs_Nst false c s) Hb) Hok HB) as H.
    rewrite (Hcomm false) in H. cbn [fst] in H. now apply (BIs_Nst false). }
  pose proof (DLim_step c Strict be s o Hb0 Hl) as Hl'.
  assert (Hq : exists q, chain_of (get_ts (fst (step (env_of c Strict be) s o)) (t_id t)) = chain_of (get_ts s (t_id t)) ++ q).
  { destruct (Hgrow false) as ((q & Hq & _) & _). rewrite (Hcomm false) in Hq. cbn [fst] in Hq.
    rewrite !get_Nst, !nrm_chain in Hq. exists q. exact Hq. }
  assert (Hp3' : forall x, P3 c (a_next (s_alloc (fst (step (env_of c Strict be) s o)))) (nrm x (get_ts (fst (step (env_of c Strict be) s o)) (t_id t)))).
  { intros x. pose proof (Hp3 x) as H. rewrite (Hcomm x) in H. cbn [fst] in H. rewrite get_Nst in H. exact H. }
  destruct (step (env_of c Strict be) s o) as [s' r]. cbn [fst snd] in *.
  destruct (Hst false) as (A1 & A2 & _). split; [exact A1|]. split; [exact A2|].
  eapply G_write with (t := t); eauto. intros x. exact (proj2 (proj2 (Hst x))).
Qed.

Lemma G_append c be s g B Bb t e : cfg_ok c -> G c s g B Bb ->
  B + 1 <= u64_max -> Bb + (e_len e + 0) <= u64_max ->
  let '(s', r) := step (env_of c Strict be) s (OAppend t e) in
  c01_step_ok g (OAppend t e) r = true /\ c15_step_ok g (OAppend t e) r = true /\
  G c s' (ledger_step g (OAppend t e) r) (B + 1) (Bb + (e_len e + 0)).
Proof.
  intros Hc HG HB HBb. pose proof HG as (Hn & Hd & Hb & Hl & Hall).
  assert (Hcs : forall bid, (forall w, ts_writer (get_ts s (t_id t)) = Some w -> bid = b_id w) ->
                  (ts_writer (get_ts s (t_id t)) = None -> bid = a_next (s_alloc s)) -> CS (get_ts s (t_id t)) bid (a_next (s_alloc s))).
  { exact (TG_CS c _ _ _ _ _ (Hall (t_id t)) Hn). }
  apply (G_wop c be s g B Bb (OAppend t e) t Hc HG I HB HBb); cbn [step env_of v_cfg v_mode v_backend].
  - intros x. exact (proj1 (append_Nst x c s t e Hn Hcs)).
  - exact (proj2 (append_Nst false c s t e Hn Hcs)).
  - intros x. apply append_grow_nc; [exact Hc|exact (proj1 (G_Rel x c s g B Bb HG))].
  - intros x. apply append_P3; [exact Hc|exact (proj1 (G_Rel x c s g B Bb HG))|].
    rewrite get_Nst. exact (proj1 (proj2 (proj2 (Hall (t_id t)) x))).
  - intros t' Hne. now apply append_others.
  - apply append_next_mono.
Qed.

Lemma G_batch c be s g B Bb t es : cfg_ok c -> G c s g B Bb ->
  B + N.of_nat (length es) <= u64_max -> Bb + sum_len es <= u64_max ->
  let '(s', r) := step (env_of c Strict be) s (OBatch t es) in
  c01_step_ok g (OBatch t es) r = true /\ c15_step_ok g (OBatch t es) r = true /\
  G c s' (ledger_step g (OBatch t es) r) (B + N.of_nat (length es)) (Bb + sum_len es).
Proof.
  intros Hc HG HB HBb. pose proof HG as (Hn & Hd & Hb & Hl & Hall).
  assert (Hcs : forall bid, (forall w, ts_writer (get_ts s (t_id t)) = Some w -> bid = b_id w) ->
                  (ts_writer (get_ts s (t_id t)) = None -> bid = a_next (s_alloc s)) -> CS (get_ts s (t_id t)) bid (a_next (s_alloc s))).
  { exact (TG_CS c _ _ _ _ _ (Hall (t_id t)) Hn). }
  apply (G_wop c be s g B Bb (OBatch t es) t Hc HG I HB HBb); cbn [step env_of v_cfg v_mode v_backend].
  - intros x. exact (proj1 (batch_Nst x c be s t es Hn Hcs)).
  - exact (proj2 (batch_Nst false c be s t es Hn Hcs)).
  - intros x. apply batch_grow_nc; [exact Hc|exact (proj1 (G_Rel x c s g B Bb HG))].
  - intros x. apply batch_P3; [exact Hc|exact (proj1 (G_Rel x c s g B Bb HG))|].
    rewrite get_Nst. exact (proj1 (proj2 (proj2 (Hall (t_id t)) x))).
  - intros t' Hne. now apply batch_others.
  - apply batch_next_mono.
Qed.

(* every admissible restart-free operation *)
Lemma G_step c be s g B Bb o : cfg_ok c -> G c s g B Bb -> op_ok c o ->
  B + N.of_nat (length (offered o)) <= u64_max -> Bb + sum_len (offered o) <= u64_max ->
  let '(s', r) := step (env_of c Strict be) s o in
  c01_step_ok g o r = true /\ c15_step_ok g o r = true /\
  G c s' (ledger_step g o r) (B + N.of_nat (length (offered o))) (Bb + sum_len (offered o)).
Proof.
  intros Hc HG Hok HB HBb.
  destruct o as [t e | t es | t ck | t maxb ck start | t | ]; cbn [offered length sum_len fold_right] in *.
  - apply G_append; auto.
  - apply G_batch; auto.
  - replace (B + N.of_nat 0) with B by lia. replace (Bb + 0) with Bb by lia. apply (G_read c be s g B Bb t ck Hc HG).
  - replace (B + N.of_nat 0) with B by lia. replace (Bb + 0) with Bb by lia. apply (G_batch_read c be s g B Bb t maxb ck start Hc HG).
  - replace (B + N.of_nat 0) with B by lia. replace (Bb + 0) with Bb by lia. apply (G_count c be s g B Bb t HG).
  - contradiction.
Qed.

(* ------------------------------------------------------------------ every restart-free operation keeps every persisted position good *)
Lemma PG_step c be s g B Bb o : cfg_ok c -> G c s g B Bb -> PG c s -> op_ok c o ->
  B + N.of_nat (length (offered o)) <= u64_max -> Bb + sum_len (offered o) <= u64_max ->
  PG c (fst (step (env_of c Strict be) s o)).
Proof.
  intros Hc HG Hpg Hok HB HBb. pose proof HG as (Hn & _ & _ & _ & Hall).
  pose proof (G_step c be s g B Bb o Hc HG Hok HB HBb) as Hstep.
  destruct o as [t e | t es | t ck | t maxb ck start | t | ].
  - assert (Hcs : forall bid, (forall w, ts_writer (get_ts s (t_id t)) = Some w -> bid = b_id w) ->
                    (ts_writer (get_ts s (t_id t)) = None -> bid = a_next (s_alloc s)) -> CS (get_ts s (t_id t)) bid (a_next (s_alloc s))).
    { exact (TG_CS c _ _ _ _ _ (Hall (t_id t)) Hn). }
    cbn [step env_of v_cfg v_mode v_backend] in *.
    destruct (append c s t e) as [s' r] eqn:Es. destruct Hstep as (_ & _ & HG'). cbn [fst].
    assert (Hs' : s' = fst (append c s t e)) by (now rewrite Es).
    eapply (PG_write c s s' g _ B Bb _ _ t Hc HG HG' Hpg).
    + intros x. pose proof (append_grow_nc c (Nst x s) t e Hc (proj1 (G_Rel x c s g B Bb HG))) as Hg.
      rewrite (proj1 (append_Nst x c s t e Hn Hcs)) in Hg. cbn [fst] in Hg. rewrite !get_Nst in Hg. now rewrite Hs'.
    + rewrite Hs'. exact (proj2 (append_Nst false c s t e Hn Hcs)).
    + intros t' Hne. rewrite Hs'. now apply append_others.
    + now apply ledger_step_write_del.
  - assert (Hcs : forall bid, (forall w, ts_writer (get_ts s (t_id t)) = Some w -> bid = b_id w) ->
                    (ts_writer (get_ts s (t_id t)) = None -> bid = a_next (s_alloc s)) -> CS (get_ts s (t_id t)) bid (a_next (s_alloc s))).
    { exact (TG_CS c _ _ _ _ _ (Hall (t_id t)) Hn). }
    cbn [step env_of v_cfg v_mode v_backend] in *.
    destruct (batch c be s t es) as [s' r] eqn:Es. destruct Hstep as (_ & _ & HG'). cbn [fst].
    assert (Hs' : s' = fst (batch c be s t es)) by (now rewrite Es).
    eapply (PG_write c s s' g _ B Bb _ _ t Hc HG HG' Hpg).
    + intros x. pose proof (batch_grow_nc c be (Nst x s) t es Hc (proj1 (G_Rel x c s g B Bb HG))) as Hg.
      rewrite (proj1 (batch_Nst x c be s t es Hn Hcs)) in Hg. cbn [fst] in Hg. rewrite !get_Nst in Hg. now rewrite Hs'.
    + rewrite Hs'. exact (proj2 (batch_Nst false c be s t es Hn Hcs)).
    + intros t' Hne. rewrite Hs'. now apply batch_others.
    + now apply ledger_step_write_del.
  - eapply PG_read; eauto.
  - eapply PG_batch_read; eauto.
  - exact Hpg.
  - contradiction.
Qed.
