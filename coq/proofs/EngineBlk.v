(* EngineBlk.v — the block-structured version of EngineDisk.v: the non-empty blocks the on-disk
   image holds for a topic, in allocation order and block by block, are exactly the non-empty
   blocks the topic has in memory (sealed chain followed by the writer block); the startup scan
   rebuilds exactly that block list as the topic's chain, with well-formed blocks and fresh,
   pairwise different ids. *)
From W Require Import model.Base model.Engine proofs.EngineWF proofs.EngineInv proofs.EngineW proofs.EngineRec proofs.EngineDisk proofs.EnginePos.
From Coq Require Import ZArith ZifyBool ZifyN ZifyNat.
From W Require Import spec.Queue proofs.EngineBasic proofs.EngineBR proofs.EngineMain.

Definition nonempty_l (l : list entry) : bool := match l with [] => false | _ => true end.
(* entry lists of the non-empty blocks the image [D] (allocation order) holds for topic id [t] *)
Definition tblocks (t : N) (D : list dblk) : list (list entry) := filter nonempty_l (map (contrib t) D).
(* the same for the in-memory blocks of a topic state *)
Definition mblocks (ts : tstate) : list (list entry) := filter nonempty_l (map b_ents (chain_of ts ++ w_list ts)).
Definition BIs (c : Cfg) (s : st) : Prop := forall t, tblocks t (rev (s_disk s)) = mblocks (get_ts s t).

(* ------------------------------------------------------------------ block lists *)
Lemma map_filter_ne l : map b_ents (filter nonempty_b l) = filter nonempty_l (map b_ents l).
Proof.
  induction l as [|b l IH]; cbn [filter map]; [reflexivity|].
  change (nonempty_l (b_ents b)) with (nonempty_b b).
  destruct (nonempty_b b); cbn [map]; now rewrite IH.
Qed.

Lemma mblocks_memne ts : mblocks ts = map b_ents (memne ts).
Proof. unfold mblocks, memne. now rewrite map_filter_ne. Qed.

Lemma tblocks_app t a b : tblocks t (a ++ b) = tblocks t a ++ tblocks t b.
Proof. unfold tblocks. now rewrite map_app, filter_app. Qed.

Lemma tblocks_cons t x l : tblocks t (x :: l) = filter nonempty_l [contrib t x] ++ tblocks t l.
Proof. unfold tblocks. cbn [map filter]. destruct (nonempty_l (contrib t x)); reflexivity. Qed.

Lemma tblocks_nil t : tblocks t [] = [].
Proof. reflexivity. Qed.

Lemma tblocks_quiet t l : Forall (fun y => contrib t y = []) l -> tblocks t l = [].
Proof. induction 1 as [|y l Hy _ IH]; [reflexivity|]. rewrite tblocks_cons, Hy, IH. reflexivity. Qed.

Lemma tblocks_one_quiet t z : contrib t z = [] -> tblocks t [z] = [].
Proof. intros H. apply tblocks_quiet. constructor; [exact H|constructor]. Qed.

Lemma nonempty_snoc (l : list entry) e : nonempty_l (l ++ [e]) = true.
Proof. destruct l; reflexivity. Qed.

Lemma filter_one_snoc (l : list entry) e : filter nonempty_l [l ++ [e]] = [l ++ [e]].
Proof. cbn [filter]. now rewrite nonempty_snoc. Qed.

Lemma filter_ne_idem (l : list (list entry)) : filter nonempty_l (filter nonempty_l l) = filter nonempty_l l.
Proof.
  induction l as [|x l IH]; cbn [filter]; [reflexivity|].
  destruct (nonempty_l x) eqn:E; cbn [filter]; [rewrite E; now f_equal|exact IH].
Qed.

(* the sealed part of a topic's block list *)
Definition cblocks (ts : tstate) : list (list entry) := filter nonempty_l (map b_ents (chain_of ts)).

Lemma mblocks_split ts : mblocks ts = cblocks ts ++ filter nonempty_l (map b_ents (w_list ts)).
Proof. unfold mblocks, cblocks. now rewrite map_app, filter_app. Qed.

Lemma mblocks_writer ts w : ts_writer ts = Some w -> mblocks ts = cblocks ts ++ filter nonempty_l [b_ents w].
Proof. intros H. rewrite mblocks_split. unfold w_list. now rewrite H. Qed.

Lemma mblocks_nowriter ts : ts_writer ts = None -> mblocks ts = cblocks ts.
Proof. intros H. rewrite mblocks_split. unfold w_list. rewrite H. cbn. now rewrite app_nil_r. Qed.

Lemma cblocks_with_writer ts w : cblocks (with_writer ts w) = cblocks ts.
Proof. reflexivity. Qed.

Lemma mblocks_set_writer ts w : mblocks (with_writer ts (Some w)) = cblocks ts ++ filter nonempty_l [b_ents w].
Proof. rewrite (mblocks_writer _ w) by reflexivity. now rewrite cblocks_with_writer. Qed.

Lemma mblocks_count_add ts d : mblocks (count_add ts d) = mblocks ts.
Proof. unfold count_add. now destruct (d =? 0). Qed.

Lemma mblocks_tstate0 : mblocks tstate0 = [].
Proof. reflexivity. Qed.

(* a fresh EMPTY writer block adds nothing *)
Lemma mblocks_first_writer ts nb : ts_writer ts = None -> b_ents nb = [] -> mblocks (with_writer ts (Some nb)) = mblocks ts.
Proof. intros Hn He. rewrite mblocks_set_writer, He, (mblocks_nowriter ts Hn). cbn. now rewrite app_nil_r. Qed.

(* sealing: the block joins the chain unless it is empty — either way the block list of
   (chain ++ [w]) is the one of the new chain *)
Lemma cblocks_seal ts w : (b_used w = 0 -> b_ents w = []) ->
  cblocks (seal ts w) = cblocks ts ++ filter nonempty_l [b_ents w].
Proof.
  intros Hz. unfold cblocks, chain_of, seal, chain_push. cbn [reader_of ts_reader].
  fold (reader_of ts).
  destruct (b_used w =? 0) eqn:E.
  - rewrite Hz by lia. cbn. now rewrite app_nil_r.
  - destruct (r_tail_bid (reader_of ts) =? b_id w); cbn [r_chain]; now rewrite map_app, filter_app.
Qed.

Lemma bwf_used0 c b : 0 < c_hdr c -> bwf c b -> b_used b = 0 -> b_ents b = [].
Proof.
  intros Hh (Hu & _) H0. destruct (b_ents b) as [|e r]; [reflexivity|]. exfalso.
  cbn [sum_need] in Hu. pose proof (need_pos c e Hh). lia.
Qed.

Lemma contrib_owner t x : owner_ok t x -> contrib t x = d_ents x.
Proof.
  unfold owner_ok, contrib. destruct (d_topic x) as [t0|].
  - intros ->. now rewrite N.eqb_refl.
  - intros ->. reflexivity.
Qed.

Lemma contrib_empty t x : d_ents x = [] -> contrib t x = [].
Proof. unfold contrib. intros ->. destruct (d_topic x) as [t0|]; [destruct (t_id t0 =? t)|]; reflexivity. Qed.

(* ------------------------------------------------------------------ the abstract invariant *)
Definition BI (D : list dblk) (bm : N -> list (list entry)) : Prop := forall t, tblocks t D = bm t.
Definition mbs (s : st) : N -> list (list entry) := fun t => mblocks (get_ts s t).

Lemma BIs_BI c s : BIs c s <-> BI (rev (s_disk s)) (mbs s).
Proof. reflexivity. Qed.

Lemma BI_ext D bm bm' : (forall t, bm' t = bm t) -> BI D bm -> BI D bm'.
Proof. intros H Hb t. now rewrite H. Qed.

(* a block that holds nothing (fresh, all zeros) changes no block list *)
Lemma BI_new_block D bm z : BI D bm -> (forall t, contrib t z = []) -> BI (D ++ [z]) bm.
Proof. intros Hb Hz t. rewrite tblocks_app, (tblocks_one_quiet t z (Hz t)), app_nil_r. apply Hb. Qed.

(* an entry written behind the content of the writer's image *)
Lemma BI_write D bm pre x post t w e cm :
  BI D bm -> D = pre ++ x :: post -> d_ents x = b_ents w -> owner_ok (t_id t) x ->
  Forall (fun y => contrib (t_id t) y = []) post ->
  bm (t_id t) = cm ++ filter nonempty_l [b_ents w] ->
  BI (pre ++ wr_blk x t [e] :: post) (upd bm (t_id t) (cm ++ [b_ents w ++ [e]])).
Proof.
  intros Hb HD Ex Ox Q Hbm t0. specialize (Hb t0). subst D.
  rewrite tblocks_app, tblocks_cons in *.
  destruct (N.eq_dec t0 (t_id t)) as [->|Hne].
  - rewrite upd_same. rewrite (contrib_wr_same x t [e] Ox).
    rewrite (contrib_owner _ _ Ox), Ex, (tblocks_quiet _ _ Q), app_nil_r in *.
    rewrite Hbm in Hb. apply app_inv_tail in Hb. rewrite Hb, filter_one_snoc. reflexivity.
  - rewrite upd_other by exact Hne. destruct (contrib_wr_other x t [e] t0 Hne Ox) as (C1 & C2).
    rewrite C1. rewrite C2 in Hb. exact Hb.
Qed.

(* a fresh block that received its first entry at once *)
Lemma BI_new_written D bm t z e :
  BI D bm -> (forall t0, contrib t0 z = if t_id t =? t0 then [e] else []) ->
  BI (D ++ [z]) (upd bm (t_id t) (bm (t_id t) ++ [[e]])).
Proof.
  intros Hb Hz t0. rewrite tblocks_app, Hb. rewrite tblocks_cons, tblocks_nil, app_nil_r, Hz.
  destruct (N.eq_dec t0 (t_id t)) as [->|Hne].
  - now rewrite upd_same, N.eqb_refl.
  - rewrite upd_other by exact Hne. replace (t_id t =? t0) with false by lia. cbn. now rewrite app_nil_r.
Qed.

Lemma BIs_init c : BIs c init.
Proof. intros t. reflexivity. Qed.

(* ------------------------------------------------------------------ the invariant on model states *)
Lemma BIs_set_ts c s t ts' : BIs c s -> mblocks ts' = mblocks (get_ts s t) -> BIs c (set_ts s t ts').
Proof.
  intros Hb Hm t0. cbn [set_ts s_disk]. rewrite (Hb t0).
  destruct (N.eq_dec t0 t) as [->|Hne]; [now rewrite get_set_same|now rewrite get_set_other by exact Hne].
Qed.

(* the topic's first block *)
Lemma ensure_BIs c s t : BIs c s -> BIs c (fst (ensure_writer c s t)).
Proof.
  intros Hb. unfold ensure_writer.
  destruct (ts_writer (get_ts s (t_id t))) as [w|] eqn:Ew; [exact Hb|].
  pose proof (alloc_first_disk c s) as Ha. destruct (alloc_first c s) as [s1 b].
  destruct Ha as (f & o & Hdisk & Kb & Eb & Lb & Htop & Hcase). cbn [fst].
  assert (Hg1 : forall t0, get_ts s1 t0 = get_ts s t0) by (intros; now apply get_ts_topics).
  intros t0. cbn [set_ts s_disk]. rewrite Hdisk. cbn [rev].
  rewrite tblocks_app, (tblocks_one_quiet t0 _ (contrib_zblk t0 f o (c_block c))), app_nil_r, (Hb t0).
  destruct (N.eq_dec t0 (t_id t)) as [->|Hne].
  - rewrite get_set_same, Hg1. symmetry. now apply mblocks_first_writer.
  - rewrite get_set_other by exact Hne. now rewrite Hg1.
Qed.

(* appending a fresh block behind the image and writing [e] into it, on states *)
Lemma BIs_rotate_write c s0 s1 nb t e want D bm :
  BI D bm -> rev (s_disk s0) = D -> alloc_sized c s0 want = Some (s1, nb) ->
  BI (rev (disk_write (s_disk s1) (b_file nb) (b_off nb) t [e])) (upd bm (t_id t) (bm (t_id t) ++ [[e]])).
Proof.
  intros Hb HD Ha.
  destruct (alloc_sized_disk c s0 want s1 nb Ha) as (f & o & Hdisk & Kb & Eb & Lb & Htop & Hcase).
  rewrite Hdisk. pose proof Kb as Kb'. unfold bkey in Kb'. injection Kb' as Kf Ko. rewrite Kf, Ko.
  cbn [disk_write zblk d_file d_off]. rewrite !N.eqb_refl. cbn [andb rev].
  rewrite HD. apply BI_new_written; [exact Hb|]. intros t0. reflexivity.
Qed.

Lemma append_BIs c s t e : cfg_ok c -> GInv c s -> DIs c s -> BIs c s -> BIs c (fst (append c s t e)).
Proof.
  intros Hc Hg Hd Hb. pose proof Hc as (Hh & Hb0 & Hba & Hbm & Hme & Hhb).
  pose proof (ensure_DIs c s t Hc Hg Hd) as Hd1.
  pose proof (ensure_BIs c s t Hb) as Hb1.
  destruct (ensure_writer_spec c s t Hc Hg) as (s1 & w & He & Hle1 & Hn1 & Hoth1 & Hw1 & Hp1 & Hst1 & Hun1 & Hcnt1).
  rewrite He in Hd1, Hb1. cbn [fst] in Hd1, Hb1.
  unfold append. rewrite He.
  destruct (appendable c t (e_len e)) as [k|] eqn:Eap; [exact Hb1|].
  destruct (appendable_none_inv c t (e_len e) Hc Eap) as (Hname & Hsize).
  set (ts := get_ts s1 (t_id t)) in *.
  rewrite (tp_poison _ _ _ Hp1).
  pose proof (need_pos c e Hh) as Hnp.
  pose proof (tp_writer _ _ _ Hp1) as Hwb. unfold w_list in Hwb. rewrite Hw1 in Hwb.
  pose proof (Forall_inv Hwb) as Hwwf. pose proof Hwwf as (Hwu & Hwl & Hwm).
  destruct (b_limit w <? b_used w + need c e) eqn:Erot.
  - (* rotation *)
    destruct (alloc_sized_spec c (set_ts s1 (t_id t) (seal ts w)) (need c e) Hb0 Hbm Hnp ltac:(unfold need; lia))
      as (s1'' & nb & Ha & Hsame & Hnext & Hfresh & Hlim).
    rewrite Ha. rewrite Hname. cbn [negb fst].
    destruct Hfresh as (_ & _ & Fe & _).
    pose proof (BIs_rotate_write c (set_ts s1 (t_id t) (seal ts w)) s1'' nb t e (need c e) (rev (s_disk s1)) (mbs s1)
                  Hb1 eq_refl Ha) as HB.
    intros t0. cbn [set_ts st_disk_write s_disk]. rewrite (HB t0). unfold mbs.
    destruct (N.eq_dec t0 (t_id t)) as [->|Hne].
    + rewrite upd_same, get_set_same, mblocks_count_add, get_ts_disk_write, get_set_same.
      rewrite mblocks_set_writer, cblocks_with_writer, Hsame, get_set_same.
      rewrite (cblocks_seal ts w (bwf_used0 c w Hh Hwwf)).
      fold ts. rewrite (mblocks_writer ts w Hw1). cbn [blk_add b_ents]. rewrite Fe. reflexivity.
    + rewrite upd_other by exact Hne. rewrite get_set_other by exact Hne. rewrite get_ts_disk_write.
      rewrite get_set_other by exact Hne. rewrite Hsame. now rewrite get_set_other by exact Hne.
  - (* the entry fits *)
    rewrite Hname. cbn [negb fst].
    destruct (di_slot _ _ _ _ _ _ Hd1 (t_id t) w Hw1) as (pre & x & post & HD & Kx & Ex & Lx & Ox & Q & Z).
    intros t0. cbn [set_ts st_disk_write s_disk].
    rewrite (rev_disk_write (s_disk s1) pre x post (b_file w) (b_off w) t [e] (di_nodup _ _ _ _ _ _ Hd1) HD Kx).
    pose proof (BI_write (rev (s_disk s1)) (mbs s1) pre x post t w e (cblocks ts) Hb1 HD Ex Ox Q (mblocks_writer ts w Hw1)) as HB.
    rewrite (HB t0). unfold mbs.
    destruct (N.eq_dec t0 (t_id t)) as [->|Hne].
    + rewrite upd_same, get_set_same, mblocks_count_add, get_ts_disk_write.
      fold ts. rewrite mblocks_set_writer. cbn [blk_add b_ents]. now rewrite filter_one_snoc.
    + rewrite upd_other by exact Hne. rewrite get_set_other by exact Hne. now rewrite get_ts_disk_write.
Qed.

(* ------------------------------------------------------------------ batch planning *)
Definition BIcur (s : st) (t : topic) (cur : blk) : Prop :=
  BI (rev (s_disk s)) (upd (mbs s) (t_id t) (mblocks (with_writer (get_ts s (t_id t)) (Some cur)))).

Lemma batch_plan_BI c (Hc : cfg_ok c) t : forall es s cur rot,
  0 < a_next (s_alloc s) ->
  TInvP c (a_next (s_alloc s)) (with_writer (get_ts s (t_id t)) (Some cur)) ->
  Forall (fun e => need c e <= c_max_alloc c) es ->
  DIcur c s t cur -> BIcur s t cur ->
  let '(s', cur', _, _) := batch_plan c s t cur rot es in BIcur s' t cur'.
Proof.
  pose proof Hc as (Hh & Hb0 & Hba & Hbm & Hme & Hhb).
  induction es as [|e r IH]; intros s cur rot Hn Hinv Hsz Hd Hb; cbn [batch_plan]; [exact Hb|].
  inversion Hsz as [|x l Hse Hsr]; subst.
  pose proof (need_pos c e Hh) as Hnp.
  (* the disk invariant after this one entry *)
  pose proof (batch_plan_DI c Hc t [e] s cur rot Hn Hinv ltac:(constructor; [exact Hse|constructor]) Hd) as Hd'.
  cbn [batch_plan] in Hd'.
  set (X := with_writer (get_ts s (t_id t)) (Some cur)) in *.
  assert (HXw : ts_writer X = Some cur) by reflexivity.
  assert (Hcur : bwf c cur).
  { pose proof (tp_writer _ _ _ Hinv) as Hw. unfold w_list in Hw. rewrite HXw in Hw. now inversion Hw. }
  pose proof Hcur as (Hcu & Hcl & Hcm).
  destruct (need c e <=? b_limit cur - b_used cur) eqn:Efit.
  - (* fits into the running block *)
    destruct (add_entry c Hh _ X cur e Hinv HXw ltac:(lia)) as (A1 & A2 & A3).
    apply (IH (st_disk_write s cur t [e]) (blk_add cur c [e]) rot Hn A1 Hsr Hd').
    unfold BIcur in *.
    destruct (di_slot _ _ _ _ _ _ Hd (t_id t) cur ltac:(apply upd_same)) as (pre & x & post & HD & Kx & Ex & Lx & Ox & Q & Z).
    cbn [st_disk_write s_disk].
    rewrite (rev_disk_write (s_disk s) pre x post (b_file cur) (b_off cur) t [e] (di_nodup _ _ _ _ _ _ Hd) HD Kx).
    eapply BI_ext; [|eapply (BI_write _ _ pre x post t cur e (cblocks (get_ts s (t_id t))) Hb HD Ex Ox Q)].
    + intros t0. unfold upd, mbs. destruct (t0 =? t_id t) eqn:Et.
      * rewrite get_ts_disk_write, mblocks_set_writer. cbn [blk_add b_ents]. now rewrite filter_one_snoc.
      * now rewrite get_ts_disk_write.
    + rewrite upd_same. apply mblocks_set_writer.
  - (* seal the running block, take a fresh one sized for [e], write [e] into it *)
    destruct (alloc_sized_spec c (set_ts s (t_id t) (seal (get_ts s (t_id t)) cur)) (N.max (need c e) (c_block c)) Hb0 Hbm ltac:(lia) ltac:(lia))
      as (s'' & nb & Ha & Hsame & Hnext & Hfresh & Hlim).
    rewrite Ha in *. cbn [s_alloc set_ts] in Hnext.
    destruct (rotate c Hh (a_next (s_alloc s)) X cur nb Hn Hinv HXw Hfresh) as (R1 & R2 & R3).
    assert (Hg'' : get_ts s'' (t_id t) = seal (get_ts s (t_id t)) cur) by (rewrite Hsame; apply get_set_same).
    assert (Hconv : with_writer (get_ts s'' (t_id t)) (Some nb) = with_writer (seal X cur) (Some nb)) by (rewrite Hg''; reflexivity).
    set (Y := with_writer (get_ts s'' (t_id t)) (Some nb)) in *.
    assert (HYw : ts_writer Y = Some nb) by reflexivity.
    assert (HYinv : TInvP c (a_next (s_alloc s'')) Y) by (rewrite Hnext, Hconv; exact R1).
    pose proof Hfresh as (Fi & Fu & Fe & Fl).
    destruct (add_entry c Hh _ Y nb e HYinv HYw ltac:(lia)) as (A1 & A2 & A3).
    apply (IH (st_disk_write s'' nb t [e]) (blk_add nb c [e]) true ltac:(cbn [st_disk_write s_alloc]; lia) A1 Hsr Hd').
    unfold BIcur in *. cbn [st_disk_write s_disk].
    eapply BI_ext; [|eapply (BIs_rotate_write c (set_ts s (t_id t) (seal (get_ts s (t_id t)) cur)) s'' nb t e (N.max (need c e) (c_block c))
                                  (rev (s_disk s)) _ Hb eq_refl Ha)].
    intros t0. unfold upd, mbs. destruct (t0 =? t_id t) eqn:Et.
    + rewrite N.eqb_refl, get_ts_disk_write, !mblocks_set_writer, Hg''.
      rewrite (cblocks_seal _ cur (bwf_used0 c cur Hh Hcur)). cbn [blk_add b_ents]. rewrite Fe. reflexivity.
    + rewrite get_ts_disk_write, Hsame. rewrite get_set_other by lia. reflexivity.
Qed.

Lemma batch_BIs c be s t es : cfg_ok c -> GInv c s -> DIs c s -> BIs c s -> BIs c (fst (batch c be s t es)).
Proof.
  intros Hc Hg Hd Hb. pose proof Hc as (Hh & Hb0 & Hba & Hbm & Hme & Hhb).
  pose proof (ensure_DIs c s t Hc Hg Hd) as Hd1.
  pose proof (ensure_BIs c s t Hb) as Hb1.
  destruct (ensure_writer_spec c s t Hc Hg) as (s1 & w & He & Hle1 & Hn1 & Hoth1 & Hw1 & Hp1 & Hst1 & Hun1 & Hcnt1).
  rewrite He in Hd1, Hb1. cbn [fst] in Hd1, Hb1. unfold batch. rewrite He.
  destruct (c_max_entries c <? N.of_nat (length es)); [exact Hb1|].
  destruct (c_max_bytes c <? sum_need c es); [exact Hb1|].
  destruct (appendable c t (max_len es)) as [k|] eqn:Eap; [exact Hb1|].
  destruct (appendable_none_inv c t (max_len es) Hc Eap) as (Hname & Hml).
  pose proof (max_len_forall c es Hml) as Hsz.
  destruct es as [|e0 es0]; [exact Hb1|].
  rewrite (tp_poison _ _ _ Hp1).
  set (ts := get_ts s1 (t_id t)) in *.
  assert (Hww : with_writer ts (Some w) = ts) by (apply with_writer_same; exact Hw1).
  assert (Hcur : DIcur c s1 t w).
  { unfold DIcur. fold ts. rewrite Hww. eapply DI_ext; [| |exact Hd1].
    - intros t0. unfold upd, wrs. destruct (t0 =? t_id t) eqn:Et; [|reflexivity]. assert (Ht0 : t0 = t_id t) by lia. rewrite Ht0. fold ts. now rewrite Hw1.
    - intros t0. unfold upd, sms. destruct (t0 =? t_id t) eqn:Et; [|reflexivity]. assert (Ht0 : t0 = t_id t) by lia. rewrite Ht0. reflexivity. }
  assert (Hbcur : BIcur s1 t w).
  { unfold BIcur. fold ts. rewrite Hww. eapply BI_ext; [|exact Hb1].
    intros t0. unfold upd, mbs. destruct (t0 =? t_id t) eqn:Et; [|reflexivity]. assert (Ht0 : t0 = t_id t) by lia. rewrite Ht0. reflexivity. }
  assert (Hinvw : TInvP c (a_next (s_alloc s1)) (with_writer ts (Some w))) by (rewrite Hww; exact Hp1).
  pose proof (batch_plan_BI c Hc t (e0 :: es0) s1 w false Hn1 Hinvw Hsz Hcur Hbcur) as Hpl.
  destruct (batch_plan_spec c Hc t (e0 :: es0) s1 w false Hn1 Hinvw Hsz) as (s2 & wfin & rot' & Hbp & _).
  rewrite Hbp in *. cbn [negb]. rewrite Hname. cbn [negb fst].
  unfold BIcur in Hpl. intros t0. cbn [set_ts s_disk]. rewrite (Hpl t0).
  unfold upd, mbs. destruct (t0 =? t_id t) eqn:Et.
  - assert (t0 = t_id t) by lia. subst. rewrite get_set_same, mblocks_count_add. reflexivity.
  - rewrite get_set_other by lia. reflexivity.
Qed.

(* ------------------------------------------------------------------ reads do not touch the blocks *)
(* [ts'] has the blocks of [ts]: same sealed chain, same writer block *)
Definition SB (ts ts' : tstate) : Prop := chain_of ts' = chain_of ts /\ ts_writer ts' = ts_writer ts.

Lemma SB_refl ts : SB ts ts.
Proof. split; reflexivity. Qed.
Lemma SB_reader ts0 ts r : SB ts0 ts -> r_chain r = chain_of ts0 -> SB ts0 (with_reader ts r).
Proof. intros (_ & H2) Hr. split; [exact Hr|exact H2]. Qed.
Lemma SB_persist ts0 ts b a o : SB ts0 ts -> SB ts0 (persist ts b a o).
Proof. intros H. exact H. Qed.
Lemma SB_count_sub ts0 ts d : SB ts0 ts -> SB ts0 (count_sub ts d).
Proof. intros H. unfold count_sub. destruct (d =? 0); exact H. Qed.
Lemma SB_mblocks ts ts' : SB ts ts' -> mblocks ts' = mblocks ts.
Proof. intros (H1 & H2). unfold mblocks, w_list. now rewrite H1, H2. Qed.

Lemma hydrate_chain r idx b : r_chain (fst (hydrate r idx b)) = r_chain r.
Proof.
  unfold hydrate. destruct (r_hydrated r); [reflexivity|]. destruct idx as [p|]; [|reflexivity].
  destruct (p_tail p); [destruct b|]; reflexivity.
Qed.

Lemma should_persist_chain m r f : r_chain (fst (should_persist m r f)) = r_chain r.
Proof.
  unfold should_persist. destruct m as [|n]; [reflexivity|]. destruct f; [reflexivity|].
  destruct (N.max n 1 <=? _); reflexivity.
Qed.

Lemma read_next_SB c m s t ck :
  exists ts' res, read_next c m s t ck = (set_ts s (t_id t) ts', res) /\ SB (get_ts s (t_id t)) ts'.
Proof.
  unfold read_next. set (ts := get_ts s (t_id t)).
  pose proof (hydrate_chain (reader_of ts) (ts_index ts) false) as Hh.
  destruct (hydrate (reader_of ts) (ts_index ts) false) as [r1 pt]. cbn [fst] in Hh.
  match goal with |- context [rn_walk (skipn (r_idx ?R) _) _ _] => set (r2 := R) end.
  assert (H2 : r_chain r2 = chain_of ts).
  { subst r2. unfold chain_of. rewrite <- Hh. destruct pt as [[id off]|]; [|reflexivity].
    destruct (r_chain r1) eqn:Er; [exact Er|].
    destruct (find_id _ id 0); cbn [set_cur r_chain]; exact Er. }
  clearbody r2.
  destruct (rn_walk (skipn (r_idx r2) (r_chain r2)) (r_idx r2) (r_off r2)) as [[i o] hit].
  destruct hit as [b|].
  - destruct (block_read c b o) as [[e consumed]|].
    + destruct ck.
      * pose proof (should_persist_chain m (set_cur (set_cur r2 i o) i (o + consumed)) false) as Hsp.
        destruct (should_persist m (set_cur (set_cur r2 i o) i (o + consumed)) false) as [r5 p]. cbn [fst set_cur r_chain] in Hsp.
        eexists; eexists; split; [reflexivity|].
        apply SB_count_sub. destruct p; [apply SB_persist|]; apply SB_reader; try apply SB_refl; congruence.
      * eexists; eexists; split; [reflexivity|]. apply SB_reader; [apply SB_refl|exact H2].
    + eexists; eexists; split; [reflexivity|]. apply SB_reader; [apply SB_refl|exact H2].
  - destruct (ts_writer ts) as [w|] eqn:Ew.
    2:{ eexists; eexists; split; [reflexivity|]. apply SB_reader; [apply SB_refl|exact H2]. }
    destruct (ts_poisoned ts).
    { eexists; eexists; split; [reflexivity|]. apply SB_reader; [apply SB_refl|exact H2]. }
    cbn [set_cur r_tail_bid r_tail_off].
    set (start := if r_tail_bid r2 =? b_id w then r_tail_off r2 else 0).
    set (pr := if ck && (start =? 0) && (0 <? b_used w)
               then let '(r', p) := should_persist m (set_cur r2 i o) true in
                    (r', if p then persist ts true (b_id w) start else ts)
               else (set_cur r2 i o, ts)).
    assert (Hpr : r_chain (fst pr) = chain_of ts /\ SB ts (snd pr)).
    { subst pr. destruct (ck && (start =? 0) && (0 <? b_used w)).
      - pose proof (should_persist_chain m (set_cur r2 i o) true) as Hsp.
        destruct (should_persist m (set_cur r2 i o) true) as [r' p]. cbn [fst snd set_cur r_chain] in *.
        split; [congruence|]. destruct p; [apply SB_persist|]; apply SB_refl.
      - cbn [fst snd set_cur r_chain]. split; [exact H2|apply SB_refl]. }
    destruct pr as [r4 ts1]. cbn [fst snd] in Hpr. destruct Hpr as (H4 & Hs1).
    destruct (start <? b_used w).
    + destruct (block_read c w start) as [[e consumed]|].
      * destruct ck.
        -- pose proof (should_persist_chain m (set_tail r4 (b_id w) (start + consumed)) false) as Hsp.
           destruct (should_persist m (set_tail r4 (b_id w) (start + consumed)) false) as [r6 p]. cbn [fst set_tail r_chain] in Hsp.
           eexists; eexists; split; [reflexivity|].
           apply SB_count_sub. destruct p; [apply SB_persist|]; apply SB_reader; try exact Hs1; congruence.
        -- eexists; eexists; split; [reflexivity|]. apply SB_reader; [exact Hs1|exact H4].
      * eexists; eexists; split; [reflexivity|]. apply SB_reader; [exact Hs1|exact H4].
    + eexists; eexists; split; [reflexivity|]. apply SB_reader; [exact Hs1|exact H4].
Qed.

Lemma read_next_chain c m s t ck :
  chain_of (get_ts (fst (read_next c m s t ck)) (t_id t)) = chain_of (get_ts s (t_id t)).
Proof.
  destruct (read_next_SB c m s t ck) as (ts' & res & Hr & Hc & _). rewrite Hr. cbn [fst]. now rewrite get_set_same.
Qed.

Lemma batch_read_SB c m s t maxb ck start :
  exists ts' res, batch_read c m s t maxb ck start = (set_ts s (t_id t) ts', res) /\ SB (get_ts s (t_id t)) ts'.
Proof.
  destruct start as [st0|].
  { destruct (batch_read_stateless c m s t maxb ck st0) as (os & Hr). rewrite Hr.
    eexists; eexists; split; [reflexivity|apply SB_refl]. }
  unfold batch_read, br_position. set (ts := get_ts s (t_id t)).
  pose proof (hydrate_chain (reader_of ts) (ts_index ts) true) as Hh.
  destruct (hydrate (reader_of ts) (ts_index ts) true) as [r pt]. cbn [fst] in Hh.
  match goal with |- context [(Some ?R, r_chain ?R, _, _, _, _, _, _, _)] => set (r' := R) end.
  assert (H2 : r_chain r' = chain_of ts).
  { subst r'. unfold chain_of. rewrite <- Hh. destruct pt as [[id off]|]; [|reflexivity].
    destruct (find_id (r_chain r) id 0); reflexivity. }
  clearbody r'.
  unfold br_from.
  destruct (plan_sealed c maxb false (skipn (r_idx r') (r_chain r')) (r_idx r') (r_off r') 0 0 []) as [[[racc planned] idx_after] truncated].
  match goal with |- context [let '(_, _) := ?X in _] => destruct X as [racc2 trim1] end.
  destruct racc2 as [|it racc2].
  { eexists; eexists; split; [reflexivity|]. apply SB_reader; [apply SB_refl|exact H2]. }
  eexists; eexists; split; [reflexivity|].
  destruct m as [|n]; cbn beta iota zeta;
  repeat match goal with
  | |- SB _ (if ?b then _ else _) => destruct b
  | |- SB _ (count_sub _ _) => apply SB_count_sub
  | |- SB _ (persist _ _ _ _) => apply SB_persist
  | |- SB _ (with_reader _ _) => apply SB_reader
  | |- SB ?a ?a => apply SB_refl
  end;
  cbn [set_tail set_cur set_since r_chain reader_of with_reader ts_reader]; exact H2.
Qed.

Lemma batch_read_chain c m s t maxb ck start :
  chain_of (get_ts (fst (batch_read c m s t maxb ck start)) (t_id t)) = chain_of (get_ts s (t_id t)).
Proof.
  destruct (batch_read_SB c m s t maxb ck start) as (ts' & res & Hr & Hc & _). rewrite Hr. cbn [fst]. now rewrite get_set_same.
Qed.

(* ------------------------------------------------------------------ one step, any history *)
Lemma BIs_step c m be s g B Bb o : cfg_ok c -> Rel c s g B Bb -> DIs c s -> BIs c s -> op_ok c o ->
  B + N.of_nat (length (offered o)) <= u64_max ->
  BIs c (fst (step (env_of c m be) s o)).
Proof.
  intros Hc Hrel Hd Hb Hok HB. pose proof Hrel as (Hg & Hall).
  destruct o as [t e | t es | t ck | t maxb ck start | t | ]; cbn [step env_of v_cfg v_mode v_backend].
  - now apply append_BIs.
  - now apply batch_BIs.
  - destruct (read_next_SB c m s t ck) as (ts' & res & Hr & Hsb). rewrite Hr. cbn [fst].
    apply BIs_set_ts; [exact Hb|now apply SB_mblocks].
  - destruct (batch_read_SB c m s t maxb ck start) as (ts' & res & Hr & Hsb). rewrite Hr. cbn [fst].
    apply BIs_set_ts; [exact Hb|now apply SB_mblocks].
  - exact Hb.
  - contradiction.
Qed.

Theorem BIs_DIs_reachable c m be : cfg_ok c -> forall ops s g B Bb,
  Rel c s g B Bb -> DIs c s -> BIs c s -> Forall (op_ok c) ops ->
  B + N.of_nat (length (offered_all ops)) <= u64_max -> Bb + sum_len (offered_all ops) <= u64_max ->
  BIs c (exec (env_of c m be) s ops) /\ DIs c (exec (env_of c m be) s ops) /\ GInv c (exec (env_of c m be) s ops).
Proof.
  intros Hc. induction ops as [|o r IH]; intros s g B Bb Hrel Hd Hb Hok HB HBb; [split; [exact Hb|split; [exact Hd|exact (proj1 Hrel)]]|].
  inversion Hok as [|x l Ho Hr]; subst.
  cbn [offered_all] in HB, HBb. rewrite app_length, Nat2N.inj_add in HB. rewrite sum_len_app in HBb.
  pose proof (step_ok c m be s g B Bb o Hc Hrel Ho ltac:(lia) ltac:(lia)) as Hstep.
  pose proof (DIs_step c m be s g B Bb o Hc Hrel Hd Ho ltac:(lia)) as Hd'.
  pose proof (BIs_step c m be s g B Bb o Hc Hrel Hd Hb Ho ltac:(lia)) as Hb'.
  cbn [exec]. destruct (step (env_of c m be) s o) as [s' res]. cbn [fst] in *.
  destruct Hstep as (_ & _ & _ & Hrel').
  apply (IH s' _ _ _ Hrel' Hd' Hb' Hr); lia.
Qed.

Theorem BIs_reachable c m be : cfg_ok c -> forall ops s g B Bb,
  Rel c s g B Bb -> DIs c s -> BIs c s -> Forall (op_ok c) ops ->
  B + N.of_nat (length (offered_all ops)) <= u64_max -> Bb + sum_len (offered_all ops) <= u64_max ->
  BIs c (exec (env_of c m be) s ops).
Proof.
  intros Hc ops s g B Bb Hrel Hd Hb Hok HB HBb.
  exact (proj1 (BIs_DIs_reachable c m be Hc ops s g B Bb Hrel Hd Hb Hok HB HBb)).
Qed.

(* ------------------------------------------------------------------ the recovery scan, block by block *)
(* what the scan guarantees of a rebuilt chain; [P] is whatever is known of the extents on disk *)
Definition GoodCh (c : Cfg) (P : N -> Prop) (nid : N) (ch : list blk) : Prop :=
  Forall (fun b => b_used b = sum_need c (b_ents b) /\ b_used b <= b_limit b /\ P (b_limit b)) ch /\
  Forall (fun b => 0 < b_id b < nid) ch /\
  NoDup (map b_id ch).

Lemma GoodCh_nil c P nid : GoodCh c P nid [].
Proof. split; [constructor|]. split; constructor. Qed.

Lemma GoodCh_mono c P n n' ch : n <= n' -> GoodCh c P n ch -> GoodCh c P n' ch.
Proof.
  intros Hn (H1 & H2 & H3). split; [exact H1|]. split; [|exact H3].
  eapply Forall_impl; [|exact H2]. cbn. intros; lia.
Qed.

Lemma GoodCh_snoc c P nid ch b : 0 < nid ->
  GoodCh c P nid ch -> b_used b = sum_need c (b_ents b) -> b_used b <= b_limit b -> P (b_limit b) -> nid <= b_id b ->
  GoodCh c P (b_id b + 1) (ch ++ [b]).
Proof.
  intros Hn (H1 & H2 & H3) Hu Hl Hp Hid. split; [|split].
  - apply Forall_app. split; [exact H1|]. constructor; [auto|constructor].
  - apply Forall_app. split; [eapply Forall_impl; [|exact H2]; cbn; intros; lia|].
    constructor; [lia|constructor].
  - rewrite map_app. cbn [map]. apply NoDup_snoc; [exact H3|].
    intros Hin. apply in_map_iff in Hin. destruct Hin as (b0 & Hb0 & Hin).
    eapply Forall_forall in H2; [|exact Hin]. lia.
Qed.

Theorem scan_blocks_blk c (Hh : 0 < c_hdr c) (Hb : 0 < c_block c) (P : N -> Prop) f : forall blocks zeros next_id acc,
  Forall (dwf c) blocks -> Forall (fun x => P (d_limit x)) blocks -> 0 < next_id ->
  (forall t, GoodCh c P next_id (rc_get (rc_chains acc) t)) ->
  let '(acc', id') := scan_blocks c f blocks zeros next_id acc in
  next_id <= id' /\
  (forall t, GoodCh c P id' (rc_get (rc_chains acc') t)) /\
  forall t, map b_ents (rc_get (rc_chains acc') t) = map b_ents (rc_get (rc_chains acc) t) ++ tblocks t blocks.
Proof.
  induction blocks as [|b blocks IH]; intros zeros next_id acc Hwf Hlim Hn Hgood; cbn [scan_blocks].
  - split; [lia|]. split; [exact Hgood|]. intros t. rewrite tblocks_nil. now rewrite app_nil_r.
  - inversion Hwf as [|x l Hbw Hrest]; subst. inversion Hlim as [|x l Hbl Hlrest]; subst. unfold dwf in Hbw.
    destruct (d_ents b) as [|e1 es] eqn:Ee.
    + (* never written: skipped, the scan goes on *)
      specialize (IH (zeros + d_limit b / c_block c) next_id acc Hrest Hlrest Hn Hgood).
      destruct (d_topic b) as [tb|] eqn:Etb; destruct (scan_blocks _ _ blocks _ _ _) as [acc' id'];
        destruct IH as (A & B & C); (split; [exact A|]); (split; [exact B|]); intros t'; rewrite C, tblocks_cons;
        rewrite (contrib_empty t' b Ee); reflexivity.
    + destruct Hbw as ((t0 & Ht0) & Hext & Hfit). rewrite Ht0.
      rewrite (walk_block c Hh Hb e1 es (d_limit b) Hext Hfit).
      replace (d_limit b <? d_limit b) with false by lia.
      set (nb := {| b_id := next_id + zeros; b_file := f; b_off := d_off b; b_limit := d_limit b;
                    b_used := sum_need c (e1 :: es); b_ents := e1 :: es |}).
      match goal with |- context [scan_blocks c f blocks ?z ?i ?a] => specialize (IH z i a Hrest Hlrest ltac:(lia)) end.
      assert (Hgood' : forall t, GoodCh c P (next_id + zeros + 1)
                 (rc_get (rc_chains {| rc_chains := rc_push (rc_chains acc) t0 nb; rc_flag := rc_flag acc |}) t)).
      { intros t. cbn [rc_chains]. destruct (N.eq_dec t (t_id t0)) as [->|Hne].
        - rewrite rc_get_push_same. apply (GoodCh_snoc c P next_id _ nb Hn (Hgood (t_id t0))); cbn [nb b_used b_ents b_limit b_id]; auto; lia.
        - rewrite rc_get_push_other by exact Hne. eapply GoodCh_mono; [|apply Hgood]. lia. }
      specialize (IH Hgood').
      destruct (scan_blocks _ _ blocks _ _ _) as [acc' id'].
      destruct IH as (A & B & C). cbn [rc_chains] in *. split; [lia|]. split; [exact B|].
      intros t. rewrite C, tblocks_cons. unfold contrib at 1. rewrite Ht0, Ee.
      destruct (t_id t0 =? t) eqn:Et.
      * assert (t = t_id t0) by lia. subst t. rewrite rc_get_push_same, map_app. cbn [map nb b_ents filter nonempty_l].
        rewrite <- app_assoc. reflexivity.
      * rewrite rc_get_push_other by lia. reflexivity.
Qed.

(* all files, in file order, for any per-file summary [F] that distributes over append *)
Fixpoint files_of {A} (F : list dblk -> list A) (nfiles : nat) (f : N) (disk : list dblk) : list A :=
  match nfiles with
  | O => []
  | S k => F (filter (fun x => d_file x =? f) disk) ++ files_of F k (f + 1) disk
  end.

Theorem scan_files_blk c (Hh : 0 < c_hdr c) (Hb : 0 < c_block c) (P : N -> Prop) : forall nfiles f disk next_id acc,
  Forall (dwf c) disk -> Forall (fun x => P (d_limit x)) disk -> 0 < next_id ->
  (forall t, GoodCh c P next_id (rc_get (rc_chains acc) t)) ->
  let '(acc', id') := scan_files c nfiles f disk next_id acc in
  next_id <= id' /\
  (forall t, GoodCh c P id' (rc_get (rc_chains acc') t)) /\
  forall t, map b_ents (rc_get (rc_chains acc') t) =
            map b_ents (rc_get (rc_chains acc) t) ++ files_of (tblocks t) nfiles f disk.
Proof.
  induction nfiles as [|k IH]; intros f disk next_id acc Hwf Hlim Hn Hgood; cbn [scan_files files_of].
  - split; [lia|]. split; [exact Hgood|]. intros t. now rewrite app_nil_r.
  - assert (Hwf' : Forall (dwf c) (filter (fun x => d_file x =? f) disk)).
    { apply Forall_forall. intros x Hx. apply filter_In in Hx. destruct Hx as (Hx & _). eapply Forall_forall in Hwf; eauto. }
    assert (Hlim' : Forall (fun x => P (d_limit x)) (filter (fun x => d_file x =? f) disk)).
    { apply Forall_forall. intros x Hx. apply filter_In in Hx. destruct Hx as (Hx & _). eapply Forall_forall in Hlim; eauto. }
    pose proof (scan_blocks_blk c Hh Hb P f _ 0 next_id acc Hwf' Hlim' Hn Hgood) as H1.
    destruct (scan_blocks _ _ _ _ _ _) as [acc1 id1]. destruct H1 as (A1 & B1 & C1).
    specialize (IH (f + 1) disk id1 acc1 Hwf Hlim ltac:(lia) B1).
    destruct (scan_files _ _ _ _ _ _) as [acc' id']. destruct IH as (A2 & B2 & C2).
    split; [lia|]. split; [exact B2|]. intros t. rewrite C2, C1, app_assoc. reflexivity.
Qed.

(* scan order = allocation order *)
Lemma files_of_ignore {A} (F : list dblk -> list A) : forall k g D,
  files_of F k g D = files_of F k g (filter (fun x => g <=? d_file x) D).
Proof.
  induction k as [|k IH]; intros g D; cbn [files_of]; [reflexivity|].
  f_equal.
  - f_equal. induction D as [|x D IHD]; cbn [filter]; [reflexivity|].
    destruct (d_file x =? g) eqn:E1; destruct (g <=? d_file x) eqn:E2; cbn [filter]; rewrite ?E1; try lia;
      try (f_equal; exact IHD); exact IHD.
  - rewrite (IH (g + 1) D), (IH (g + 1) (filter (fun x => g <=? d_file x) D)). f_equal.
    induction D as [|x D IHD]; cbn [filter]; [reflexivity|].
    destruct (g + 1 <=? d_file x) eqn:E1; destruct (g <=? d_file x) eqn:E2; cbn [filter]; rewrite ?E1; try lia;
      try (f_equal; exact IHD); exact IHD.
Qed.

Lemma files_of_sorted {A} (F : list dblk -> list A) :
  F [] = [] -> (forall a b, F (a ++ b) = F a ++ F b) ->
  forall n f D, fsorted D -> Forall (fun x => f <= d_file x /\ d_file x < f + N.of_nat n) D ->
  files_of F n f D = F D.
Proof.
  intros Fnil Fapp. induction n as [|k IH]; intros f D Hs Hb; cbn [files_of].
  - destruct D as [|x D]; [now rewrite Fnil|]. inversion Hb as [|y l Hx _]; subst. cbn in Hx. lia.
  - rewrite (files_of_ignore F k (f + 1) D).
    rewrite (IH (f + 1) (filter (fun x => f + 1 <=? d_file x) D)).
    + rewrite <- Fapp. f_equal. symmetry. apply sorted_split; [exact Hs|].
      eapply Forall_impl; [|exact Hb]. cbn. intros x (A0 & _). exact A0.
    + now apply fsorted_filter.
    + apply Forall_forall. intros x Hx. apply filter_In in Hx. destruct Hx as (Hx & Hge).
      eapply Forall_forall in Hb; [|exact Hx]. cbn in Hb. lia.
Qed.

Lemma files_blocks_sorted t n f D : fsorted D -> Forall (fun x => f <= d_file x /\ d_file x < f + N.of_nat n) D ->
  files_of (tblocks t) n f D = tblocks t D.
Proof. apply files_of_sorted; [reflexivity|apply tblocks_app]. Qed.

(* ------------------------------------------------------------------ the state after a restart *)
Definition scan0 (c : Cfg) (s : st) : recovered * N :=
  scan_files c (N.to_nat (s_files s + 1)) 0 (rev (s_disk s)) 1 {| rc_chains := []; rc_flag := false |}.

Lemma reopen_fields c s :
  s_disk (reopen c s) = s_disk s /\ s_files (reopen c s) = s_files s + 1 /\
  s_alloc (reopen c s) = {| a_next := N.max 1 (snd (scan0 c s)); a_file := s_files s; a_off := 0 |}.
Proof. unfold reopen, scan0. destruct (scan_files _ _ _ _ _ _) as [rc nid]. cbn. auto. Qed.

Lemma reopen_ts c s t :
  ts_writer (get_ts (reopen c s) t) = None /\
  (chain_of (get_ts (reopen c s) t) = rc_get (rc_chains (fst (scan0 c s))) t \/
   (chain_of (get_ts (reopen c s) t) = [] /\ get_ts s t = tstate0)).
Proof.
  unfold reopen, scan0. destruct (scan_files _ _ _ _ _ _) as [rc nid]. cbn [fst].
  unfold get_ts. cbn [s_topics].
  rewrite find_map_key.
  2:{ intros [k v]. cbn. destruct (find _ (rc_chains rc)) as [[? [? ?]]|]; [destruct (startup_cursor _ _)|]; reflexivity. }
  destruct (find (fun p => fst p =? t) (s_topics s)) as [[k old]|] eqn:Ef; cbn [option_map snd].
  - assert (k = t) by (apply find_some in Ef; destruct Ef as (_ & E); cbn in E; lia). subst k.
    cbn [fst snd]. unfold rc_get.
    destruct (find (fun q => fst q =? t) (rc_chains rc)) as [[k2 [t2 ch]]|].
    + destruct (startup_cursor ch (ts_index old)) as [i o]. cbn [snd]. split; [reflexivity|]. left. reflexivity.
    + cbn [snd]. split; [reflexivity|]. left. reflexivity.
  - split; [reflexivity|]. right. split; reflexivity.
Qed.

Lemma reopen_writer c s t : ts_writer (get_ts (reopen c s) t) = None.
Proof. exact (proj1 (reopen_ts c s t)). Qed.

(* the rebuilt chain, for any property [P] the extents on disk have *)
Theorem reopen_chain_P c (P : N -> Prop) s t : cfg_ok c -> DIs c s -> BIs c s ->
  Forall (fun x => P (d_limit x)) (s_disk s) ->
  let rch := chain_of (get_ts (reopen c s) t) in
  map b_ents rch = mblocks (get_ts s t) /\
  GoodCh c P (a_next (s_alloc (reopen c s))) rch /\
  ts_writer (get_ts (reopen c s) t) = None.
Proof.
  intros Hc Hd Hb Hlim. cbn zeta. pose proof Hc as (Hh & Hb0 & Hba & Hbm & Hme & Hhb).
  unfold DIs in Hd. pose proof Hd as [Hnd He Hsl Hwf Hal Hso Hk].
  assert (Hlim' : Forall (fun x => P (d_limit x)) (rev (s_disk s))).
  { apply Forall_forall. intros x Hx. apply in_rev in Hx. eapply Forall_forall in Hlim; eauto. }
  pose proof (scan_files_blk c Hh Hb0 P (N.to_nat (s_files s + 1)) 0 (rev (s_disk s)) 1 {| rc_chains := []; rc_flag := false |}
                Hwf Hlim' ltac:(lia) (fun t0 => GoodCh_nil c P 1)) as Hscan.
  destruct (reopen_ts c s t) as (Hw & Hch). destruct (reopen_fields c s) as (_ & _ & Ha). rewrite Ha. cbn [a_next].
  unfold scan0 in *.
  destruct (scan_files c (N.to_nat (s_files s + 1)) 0 (rev (s_disk s)) 1 {| rc_chains := []; rc_flag := false |}) as [rc nid].
  cbn [fst snd] in *. destruct Hscan as (A & B & C).
  destruct Hch as [Hch|(Hnil & H0)].
  - rewrite Hch. split; [|split; [|exact Hw]].
    + rewrite C. cbn [rc_chains rc_get find map app].
      rewrite (files_blocks_sorted t _ 0 (rev (s_disk s)) Hso).
      * apply Hb.
      * destruct Hal as (A1 & A2). eapply Forall_impl; [|exact A2]. cbn. intros x (B1 & _). split; [lia|]. rewrite N2Nat.id. lia.
    + eapply GoodCh_mono; [|apply B]. lia.
  - rewrite Hnil, H0. split; [reflexivity|]. split; [apply GoodCh_nil|exact Hw].
Qed.

(* every extent on disk is one the allocator hands out *)
Definition DLim (c : Cfg) (s : st) : Prop := Forall (fun x => d_limit x <= c_max_alloc c + c_block c) (s_disk s).

Theorem reopen_chain c s t : cfg_ok c -> DIs c s -> BIs c s -> DLim c s ->
  let rch := chain_of (get_ts (reopen c s) t) in
  map b_ents rch = mblocks (get_ts s t) /\
  Forall (bwf c) rch /\
  Forall (fun b => 0 < b_id b < a_next (s_alloc (reopen c s))) rch /\
  NoDup (map b_id rch) /\
  ts_writer (get_ts (reopen c s) t) = None.
Proof.
  intros Hc Hd Hb Hl. pose proof Hc as (Hh & Hb0 & Hba & Hbm & Hme & Hhb).
  assert (Hl' : Forall (fun x => (fun l => l <= u64_max) (d_limit x)) (s_disk s)).
  { eapply Forall_impl; [|exact Hl]. cbn. intros; lia. }
  destruct (reopen_chain_P c (fun l => l <= u64_max) s t Hc Hd Hb Hl') as (H1 & (H2 & H3 & H4) & H5).
  cbn zeta. split; [exact H1|]. split; [exact H2|]. split; [exact H3|]. split; [exact H4|exact H5].
Qed.

(* without any knowledge of the extents: everything but [b_limit b <= u64_max] *)
Theorem reopen_chain_weak c s t : cfg_ok c -> DIs c s -> BIs c s ->
  let rch := chain_of (get_ts (reopen c s) t) in
  map b_ents rch = mblocks (get_ts s t) /\
  Forall (fun b => b_used b = sum_need c (b_ents b) /\ b_used b <= b_limit b) rch /\
  Forall (fun b => 0 < b_id b < a_next (s_alloc (reopen c s))) rch /\
  NoDup (map b_id rch) /\
  ts_writer (get_ts (reopen c s) t) = None.
Proof.
  intros Hc Hd Hb.
  assert (Hl' : Forall (fun x => (fun _ : N => True) (d_limit x)) (s_disk s)) by (apply Forall_forall; intros; exact I).
  destruct (reopen_chain_P c (fun _ => True) s t Hc Hd Hb Hl') as (H1 & (H2 & H3 & H4) & H5).
  cbn zeta. split; [exact H1|]. split; [|split; [exact H3|split; [exact H4|exact H5]]].
  eapply Forall_impl; [|exact H2]. cbn. intros b (X1 & X2 & _). split; assumption.
Qed.

Lemma reopen_DIs c s : cfg_ok c -> DIs c s ->
  (forall t, stream (get_ts (reopen c s) t) = stream (get_ts s t)) -> DIs c (reopen c s).
Proof.
  intros Hc Hd Hst. unfold DIs in *. destruct (reopen_fields c s) as (F1 & F2 & F3). rewrite F1, F2, F3.
  destruct Hd as [Hnd He Hsl Hwf Hal Hso Hk]. constructor.
  - exact Hnd.
  - intros t. unfold sms. rewrite Hst. apply He.
  - intros t w Hw. unfold wrs in Hw. rewrite reopen_writer in Hw. discriminate.
  - exact Hwf.
  - destruct Hal as (A1 & A2). split; [cbn [a_file]; lia|]. cbn [a_file a_off].
    eapply Forall_impl; [|exact A2]. cbn. intros x (B1 & B2 & B3). split; [lia|]. split; [intros; lia|exact B3].
  - exact Hso.
  - intros t t' w w' _ Hw. unfold wrs in Hw. rewrite reopen_writer in Hw. discriminate.
Qed.

Lemma reopen_BIs c s : cfg_ok c -> DIs c s -> BIs c s -> BIs c (reopen c s).
Proof.
  intros Hc Hd Hb t. destruct (reopen_fields c s) as (F1 & _). rewrite F1, (Hb t).
  destruct (reopen_chain_weak c s t Hc Hd Hb) as (Hm & _ & _ & _ & Hw). cbn zeta in Hm.
  rewrite (mblocks_nowriter _ Hw). unfold cblocks. rewrite Hm. unfold mblocks. symmetry. apply filter_ne_idem.
Qed.

(* ------------------------------------------------------------------ the extents along histories *)
Lemma round_up_le c x : 0 < c_block c -> round_up c x <= x + c_block c.
Proof.
  intros Hb. unfold round_up, div_up. set (B := c_block c) in *.
  pose proof (N.div_mod (x + B - 1) B ltac:(lia)). pose proof (N.mod_lt (x + B - 1) B ltac:(lia)). nia.
Qed.

Lemma DLim_init c : DLim c init.
Proof. constructor. Qed.

Lemma DLim_disk c s s' : s_disk s' = s_disk s -> DLim c s -> DLim c s'.
Proof. unfold DLim. now intros ->. Qed.

Lemma disk_write_lim L : forall d f o t es,
  Forall (fun x => d_limit x <= L) d -> Forall (fun x => d_limit x <= L) (disk_write d f o t es).
Proof.
  induction d as [|x d IH]; intros f o t es H; cbn [disk_write]; [constructor|].
  inversion H as [|y l Hx Hr]; subst.
  destruct ((d_file x =? f) && (d_off x =? o)); constructor; auto.
Qed.

Lemma DLim_disk_write c s b t es : DLim c s -> DLim c (st_disk_write s b t es).
Proof. intros H. unfold DLim, st_disk_write. cbn [s_disk]. now apply disk_write_lim. Qed.

Lemma DLim_set_ts c s t ts : DLim c s -> DLim c (set_ts s t ts).
Proof. intros H. exact H. Qed.

Ltac dlim := unfold mark_unmodelled; repeat first [assumption | apply DLim_set_ts | apply DLim_disk_write].

Lemma DLim_alloc_first c s : DLim c s -> DLim c (fst (alloc_first c s)).
Proof.
  intros H. pose proof (alloc_first_disk c s) as Ha. destruct (alloc_first c s) as [s1 b].
  destruct Ha as (f & o & Hdisk & _). cbn [fst]. unfold DLim. rewrite Hdisk. constructor; [cbn; lia|exact H].
Qed.

Lemma DLim_alloc_sized c s want s1 nb : 0 < c_block c -> DLim c s -> alloc_sized c s want = Some (s1, nb) -> DLim c s1.
Proof.
  intros Hb H Ha. destruct (alloc_sized_disk c s want s1 nb Ha) as (f & o & Hdisk & _).
  assert (Hw : want <= c_max_alloc c).
  { unfold alloc_sized in Ha. destruct ((want =? 0) || (c_max_alloc c <? want)) eqn:E; [discriminate|]. lia. }
  unfold DLim. rewrite Hdisk. constructor; [|exact H]. cbn. pose proof (round_up_le c want Hb). lia.
Qed.

Lemma DLim_ensure c s t : DLim c s -> DLim c (fst (ensure_writer c s t)).
Proof.
  intros H. unfold ensure_writer. destruct (ts_writer (get_ts s (t_id t))); [exact H|].
  pose proof (DLim_alloc_first c s H) as H1. destruct (alloc_first c s) as [s1 b]. cbn [fst] in *.
  eapply DLim_disk; [|exact H1]. reflexivity.
Qed.

Lemma DLim_append c s t e : 0 < c_block c -> DLim c s -> DLim c (fst (append c s t e)).
Proof.
  intros Hb H. unfold append. pose proof (DLim_ensure c s t H) as H1.
  destruct (ensure_writer c s t) as [s1 w]. cbn [fst] in H1.
  destruct (appendable c t (e_len e)); [exact H1|].
  destruct (ts_poisoned (get_ts s1 (t_id t))); [exact H1|].
  destruct (b_limit w <? b_used w + need c e).
  - set (s1' := set_ts s1 (t_id t) (seal (get_ts s1 (t_id t)) w)).
    assert (H1' : DLim c s1') by (eapply DLim_disk; [|exact H1]; reflexivity).
    destruct (alloc_sized c s1' (need c e)) as [[s1'' nb]|] eqn:Ea.
    + pose proof (DLim_alloc_sized c s1' (need c e) s1'' nb Hb H1' Ea) as H2.
      destruct (negb (name_ok c t)); cbn [fst]; dlim.
    + exact H1'.
  - destruct (negb (name_ok c t)); cbn [fst]; dlim.
Qed.

Lemma DLim_batch_plan c (Hb : 0 < c_block c) t : forall es s cur rot,
  DLim c s -> let '(s', _, _, _) := batch_plan c s t cur rot es in DLim c s'.
Proof.
  induction es as [|e r IH]; intros s cur rot H; cbn [batch_plan]; [exact H|].
  destruct (need c e <=? b_limit cur - b_used cur).
  - apply IH. now apply DLim_disk_write.
  - set (s' := set_ts s (t_id t) (seal (get_ts s (t_id t)) cur)).
    assert (H' : DLim c s') by (eapply DLim_disk; [|exact H]; reflexivity).
    destruct (alloc_sized c s' (N.max (need c e) (c_block c))) as [[s'' nb]|] eqn:Ea; [|exact H'].
    apply IH. apply DLim_disk_write. exact (DLim_alloc_sized c s' _ s'' nb Hb H' Ea).
Qed.

Lemma DLim_batch c be s t es : 0 < c_block c -> DLim c s -> DLim c (fst (batch c be s t es)).
Proof.
  intros Hb H. unfold batch. pose proof (DLim_ensure c s t H) as H1.
  destruct (ensure_writer c s t) as [s1 w]. cbn [fst] in H1.
  destruct (c_max_entries c <? N.of_nat (length es)); [exact H1|].
  destruct (c_max_bytes c <? sum_need c es); [exact H1|].
  destruct (appendable c t (max_len es)); [exact H1|].
  destruct es as [|e0 es0]; [exact H1|].
  destruct (ts_poisoned (get_ts s1 (t_id t))); [exact H1|].
  pose proof (DLim_batch_plan c Hb t (e0 :: es0) s1 w false H1) as H2.
  destruct (batch_plan c s1 t w false (e0 :: es0)) as [[[s2 wfin] okp] rot].
  destruct (negb okp); cbn [fst]; [dlim|].
  destruct (negb (name_ok c t)).
  - destruct be; cbn [fst]; destruct rot; dlim.
  - cbn [fst]. dlim.
Qed.

(* every operation, restarts included *)
Lemma DLim_step c m be s o : 0 < c_block c -> DLim c s -> DLim c (fst (step (env_of c m be) s o)).
Proof.
  intros Hb H. destruct o as [t e | t es | t ck | t maxb ck start | t | ]; cbn [step env_of v_cfg v_mode v_backend fst].
  - now apply DLim_append.
  - now apply DLim_batch.
  - destruct (read_next_SB c m s t ck) as (ts' & res & Hr & _). rewrite Hr. exact H.
  - destruct (batch_read_SB c m s t maxb ck start) as (ts' & res & Hr & _). rewrite Hr. exact H.
  - exact H.
  - eapply DLim_disk; [|exact H]. exact (proj1 (reopen_fields c s)).
Qed.

Lemma DLim_exec c m be : 0 < c_block c -> forall ops s, DLim c s -> DLim c (exec (env_of c m be) s ops).
Proof.
  intros Hb. induction ops as [|o r IH]; intros s H; [exact H|]. cbn [exec]. apply IH. now apply DLim_step.
Qed.

Lemma reopen_DLim c s : DLim c s -> DLim c (reopen c s).
Proof. intros H. eapply DLim_disk; [|exact H]. exact (proj1 (reopen_fields c s)). Qed.

(* from init: after ANY admissible restart-free history a restart rebuilds, for every topic,
   exactly the topic's non-empty blocks as its chain, well-formed and with fresh distinct ids *)
Corollary restart_rebuilds_blocks c m be ops : cfg_ok c -> Forall (op_ok c) ops ->
  N.of_nat (length (offered_all ops)) <= u64_max -> sum_len (offered_all ops) <= u64_max ->
  forall t,
  let s := exec (env_of c m be) init ops in
  let rch := chain_of (get_ts (reopen c s) t) in
  map b_ents rch = map b_ents (memne (get_ts s t)) /\
  Forall (bwf c) rch /\
  Forall (fun b => 0 < b_id b < a_next (s_alloc (reopen c s))) rch /\
  NoDup (map b_id rch) /\
  ts_writer (get_ts (reopen c s) t) = None.
Proof.
  intros Hc Hok HB HBb t. pose proof Hc as (Hh & Hb0 & _).
  destruct (BIs_DIs_reachable c m be Hc ops init [] 0 0 (Rel_init c) (DIs_init c Hb0) (BIs_init c) Hok ltac:(lia) ltac:(lia)) as (Hb & Hd & _).
  pose proof (DLim_exec c m be Hb0 ops init (DLim_init c)) as Hl.
  cbn zeta. rewrite <- mblocks_memne. now apply reopen_chain.
Qed.

(* ------------------------------------------------------------------ why [reopen_chain] asks for [DLim] *)
(* [DIs] and [BIs] alone do not bound the extents on disk: a state (not a reachable one) whose
   image holds one block sized for an entry of 2^64 bytes satisfies both, and the block the
   restart rebuilds from it has [b_limit] = 2^64 > u64_max, so it is not [bwf]. *)
Definition cx_c : Cfg :=
  {| c_block := 1; c_bpf := 1; c_max_alloc := 1; c_hdr := 1; c_max_entries := 1; c_max_bytes := 1;
     c_small := 128; c_overflow_checks := false |}.
Definition cx_e : entry := {| e_pid := 0; e_len := u64_max |}.
Definition cx_s : st :=
  {| s_topics := [(0, {| ts_reader := Some {| r_chain := [{| b_id := 1; b_file := 0; b_off := 0; b_limit := two64;
                                                            b_used := two64; b_ents := [cx_e] |}];
                                             r_idx := 0; r_off := 0; r_tail_bid := 0; r_tail_off := 0; r_since := 0;
                                             r_hydrated := false |};
                         ts_writer := None; ts_poisoned := false; ts_count := Some 1; ts_index := None;
                         ts_unmodelled := false |})];
     s_alloc := {| a_next := 2; a_file := 0; a_off := two64 |};
     s_disk := [{| d_file := 0; d_off := 0; d_limit := two64; d_topic := Some {| t_id := 0; t_nlen := 0 |}; d_ents := [cx_e] |}];
     s_files := 1 |}.

Lemma reopen_chain_needs_DLim :
  cfg_ok cx_c /\ DIs cx_c cx_s /\ BIs cx_c cx_s /\ ~ Forall (bwf cx_c) (chain_of (get_ts (reopen cx_c cx_s) 0)).
Proof.
  split; [|split; [|split]].
  - unfold cfg_ok, cx_c, u64_max. cbn. lia.
  - unfold DIs. cbn [cx_s s_disk s_alloc s_files rev app]. constructor.
    + constructor; [intros []|constructor].
    + intros t. unfold sms, get_ts, ents_of_topic. cbn [cx_s s_topics find fst snd flat_map d_topic d_ents t_id].
      destruct (0 =? t); reflexivity.
    + intros t w. unfold wrs, get_ts. cbn [cx_s s_topics find fst snd]. destruct (0 =? t); cbn; discriminate.
    + constructor; [|constructor]. unfold dwf. cbn [d_ents d_topic d_limit].
      split; [eauto|]. split; [vm_compute; reflexivity|vm_compute; discriminate].
    + split; [cbn; lia|]. constructor; [|constructor]. cbn. unfold two64. lia.
    + split; [constructor|exact I].
    + intros t t' w w' _. unfold wrs, get_ts. cbn [cx_s s_topics find fst snd]. destruct (0 =? t); cbn; discriminate.
  - intros t. unfold tblocks, mblocks, get_ts, contrib. cbn [cx_s s_disk rev app map s_topics find fst snd d_topic d_ents t_id].
    destruct (0 =? t); reflexivity.
  - intros H. assert (E : chain_of (get_ts (reopen cx_c cx_s) 0) =
                          [{| b_id := 1; b_file := 0; b_off := 0; b_limit := two64; b_used := two64; b_ents := [cx_e] |}])
      by (vm_compute; reflexivity).
    rewrite E in H. inversion H as [|b l (_ & _ & Hl) _]; subst. cbn in Hl. unfold two64, u64_max in Hl. lia.
Qed.
