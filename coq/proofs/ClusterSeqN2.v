(* ClusterSeqN2.v — C22, sequential system with any number of nodes (continued): one exec_pc
   step preserves the invariant of ClusterSeqN.v; the steps of the sequential scheduler; the
   induction over all schedules. *)
From Coq Require Import ZArith ZifyBool ZifyN ZifyNat.
From W Require Import model.Base model.Map model.Bincode model.Meta model.Cluster model.ClusterSys
  spec.StreamSpec proofs.MapP proofs.MetaP proofs.ClusterP proofs.StreamSpecP proofs.ClusterSeq proofs.ClusterSeqN.
Open Scope N_scope.

Definition A3 (s s1 : cst) : Prop :=
  (forall n sg, qo s1 n sg = qo s n sg) /\ (forall n sg, co s1 n sg = co s n sg) /\ (forall h, cu s1 h = cu s h).

Lemma A3_refl s : A3 s s.
Proof. repeat split. Qed.

Lemma A3_set s e x x' :
  get_node s e = Some x -> nd_q x' = nd_q x -> nd_offsets x' = nd_offsets x -> nd_cursor x' = nd_cursor x ->
  A3 s (set_node s e x').
Proof. intros. now apply (acc_same s e x x'). Qed.

Lemma outn_A3 s s1 kd out t Q : A3 s s1 -> outn kd out (qo s) (co s) (cu s) t Q -> outn kd out (qo s1) (co s1) (cu s1) t Q.
Proof. intros (E1 & E2 & E3). now apply outn_ext. Qed.

Lemma Dn_A3 s s1 t Q : A3 s s1 -> Dn (qo s) (co s) (cu s) t Q -> Dn (qo s1) (co s1) (cu s1) t Q.
Proof. intros (E1 & E2 & E3). now apply Dn_ext. Qed.

Definition NoProp (kd : knd) (s s1 : cst) (out : outcome) (t : tstate) (Q : list cpayload) : Prop :=
  s_log s1 = s_log s /\ outn kd out (qo s1) (co s1) (cu s1) t Q.

Ltac blocked := left; split; [reflexivity|]; cbn [outn quiet forallb]; split; [reflexivity|]; cbn [Stn]; auto.

Lemma exec_spec cfg s M t Q kd p pc s1 out :
  Base cfg s M t -> Stn kd pc (qo s) (co s) (cu s) t Q -> kpn kd p ->
  exec_pc cfg s p pc = (s1, out) ->
  NoProp kd s s1 out t Q \/
  (exists cm k, pc = PPropose cm k /\ (exists nl, cm = RolloverTopic tname nl (co s (t_leader t) (t_cur t))) /\
                Dn (qo s) (co s) (cu s) t (Qn kd Q) /\ ppk_okn kd k).
Proof.
  intros HB HSt Hp H. unfold NoProp.
  assert (Hmeta : forall n x, get_node s n = Some x -> topic_of (nd_meta x) = Some t).
  { intros n x Hx. destruct (b_sync _ _ _ _ HB n x Hx) as [_ ->]. apply (b_topic _ _ _ _ HB). }
  destruct pc; cbn [Stn] in HSt; cbn [exec_pc] in H.
  - (* PUlRead *)
    destruct HSt as [HD Hk]. destruct (get_node s e) as [x|] eqn:Hg; [|inversion H; subst s1 out; blocked].
    destruct (opt_eqb (nd_lease x) ex); inversion H; subst s1 out; left; (split; [reflexivity|]).
    + destruct k; cbn [after_ul outn Stn quiet forallb]; tauto.
    + cbn [outn Stn quiet forallb]; tauto.
  - (* PUlWrite *)
    destruct HSt as [HD Hk]. destruct (get_node s e) as [x|] eqn:Hg; [|inversion H; subst s1 out; blocked].
    inversion H; subst s1 out. left. split; [reflexivity|].
    apply (outn_A3 s); [now apply (A3_set s e x)|]. destruct k; cbn [after_ul outn Stn quiet forallb]; tauto.
  - (* PPutRpc *)
    destruct HSt as (HD & Hk & -> & ->). destruct (get_node s (t_leader t)) as [x|] eqn:Hg; inversion H; subst s1 out; left; (split; [reflexivity|]).
    + cbn [enter_ul outn Stn quiet forallb]. tauto.
    + cbn [outn quiet forallb]. split; [reflexivity|]. exists Q. split; [exact HD|]. destruct kd; try contradiction. reflexivity.
  - (* PEnsure *)
    destruct HSt as (HD & Hk & -> & ->). destruct (get_node s (t_leader t)) as [x|] eqn:Hg; [|inversion H; subst s1 out; blocked].
    destruct (opt_eqb (nd_lease x) (Some (t_cur t))); [|destruct att]; inversion H; subst s1 out; left; (split; [reflexivity|]).
    + cbn [outn Stn quiet forallb]. tauto.
    + cbn [outn quiet forallb]. split; [reflexivity|]. exists Q. split; [exact HD|]. destruct kd; try contradiction. reflexivity.
    + cbn [enter_ul outn Stn quiet forallb]. tauto.
  - (* PWlRead *)
    destruct HSt as (HD & Hk & -> & ->). destruct (get_node s (t_leader t)) as [x|] eqn:Hg; [|inversion H; subst s1 out; blocked].
    destruct (mem (t_cur t) (nd_wl x)); inversion H; subst s1 out; left; (split; [reflexivity|]); cbn [outn Stn quiet forallb]; tauto.
  - (* PWlWrite *)
    destruct HSt as (HD & Hk & -> & ->). destruct (get_node s (t_leader t)) as [x|] eqn:Hg; [|inversion H; subst s1 out; blocked].
    inversion H; subst s1 out. left. split; [reflexivity|].
    apply (outn_A3 s); [now apply (A3_set s _ x)|]. cbn [outn Stn quiet forallb]; tauto.
  - (* PKeyLock *)
    destruct HSt as (HD & Hk & -> & ->). destruct (get_node s (t_leader t)) as [x|] eqn:Hg; [|inversion H; subst s1 out; blocked].
    destruct (mem (t_cur t) (nd_kl x)); inversion H; subst s1 out; left; (split; [reflexivity|]).
    + cbn [outn Stn quiet forallb]; tauto.
    + apply (outn_A3 s); [now apply (A3_set s _ x)|]. cbn [outn Stn quiet forallb]; tauto.
  - (* PSpawn *)
    destruct HSt as (HD & Hk & -> & ->). destruct (get_node s (t_leader t)) as [x|] eqn:Hg; [|inversion H; subst s1 out; blocked].
    cbv zeta in H. inversion H; subst s1 out. clear H. left. split; [reflexivity|].
    cbn [outn Stn quiet forallb quiet_ev andb]. destruct kd; try contradiction. cbn [kpn] in Hp. subst p0. cbn [Qn].
    split; [reflexivity|]. split; [reflexivity|]. split; [reflexivity|]. split; [exact I|].
    match goal with |- Dn (qo ?z) _ _ _ _ => set (s1 := z) end.
    pose proof (Dn_append _ _ _ _ _ p HD) as HA.
    eapply Dn_ext; [| | |exact HA].
    + intros n sg. unfold s1. rewrite qo_set. unfold upd2.
      destruct (N.eqb_spec n (t_leader t)) as [->|]; cbn [andb]; [|reflexivity].
      unfold queue_of. cbn [with_kl with_q nd_q]. rewrite queue_ins. fold (queue_of x sg). fold (queue_of x (t_cur t)).
      rewrite (qo_node s _ x _ Hg), (qo_node s _ x _ Hg). reflexivity.
    + intros n sg. unfold upd2.
      assert (E : forall n' sg', co s1 n' sg' = co s n' sg').
      { intros n' sg'. unfold s1. rewrite co_set. destruct (N.eqb_spec n' (t_leader t)) as [->|]; [|reflexivity].
        now rewrite (co_node s _ x _ Hg). }
      rewrite !E. reflexivity.
    + intros h. unfold s1. rewrite cu_set. destruct (N.eqb_spec h (t_leader t)) as [->|]; [|reflexivity].
      now rewrite (cu_node s _ x Hg).
  - (* PRecord *)
    destruct HSt as (-> & -> & Hk & HD). destruct (get_node s (t_leader t)) as [x|] eqn:Hg; [|inversion H; subst s1 out; blocked].
    inversion H; subst s1 out. clear H. left. split; [reflexivity|].
    cbn [outn Stn quiet forallb]. split; [reflexivity|]. split; [reflexivity|]. split; [reflexivity|]. split; [exact Hk|].
    eapply Dn_ext; [| | |exact HD].
    + intros n sg. rewrite qo_set. destruct (N.eqb_spec n (t_leader t)) as [->|]; [|reflexivity]. now rewrite (qo_node s _ x _ Hg).
    + intros n sg. rewrite co_set. unfold upd2. destruct (N.eqb_spec n (t_leader t)) as [->|]; cbn [andb]; [|reflexivity].
      unfold count_of at 1. cbn [with_offsets nd_offsets]. rewrite count_ins. fold (count_of x sg). fold (count_of x (t_cur t)).
      now rewrite !(co_node s _ x _ Hg).
    + intros h. rewrite cu_set. destruct (N.eqb_spec h (t_leader t)) as [->|]; [|reflexivity]. now rewrite (cu_node s _ x Hg).
  - (* PCount *)
    destruct HSt as (-> & -> & Hk & HD). destruct (get_node s (t_leader t)) as [x|] eqn:Hg; [|inversion H; subst s1 out; blocked].
    cbv zeta in H. destruct (count_of x (t_cur t) <? cf_thr cfg); inversion H; subst s1 out; left; (split; [reflexivity|]).
    + cbn [outn quiet forallb]. split; [reflexivity|]. exists (Qn kd Q). split; [exact HD|]. destruct kd; try contradiction. reflexivity.
    + unfold enter_propose. rewrite <- (co_node s _ x _ Hg).
      destruct (t_leader t =? raft_leader); cbn [outn Stn quiet forallb ppk_okn]; eauto 6.
  - (* PMetaRpc *)
    inversion H; subst s1 out. left. split; [reflexivity|]. cbn [outn Stn quiet forallb]. tauto.
  - (* PPropose *)
    right. exists c, k. tauto.
  - (* PWaitApplied *)
    destruct HSt as [HD Hk]. destruct (get_node s raft_leader) as [x|] eqn:Hg; [|inversion H; subst s1 out; blocked].
    destruct (Nat.ltb idx (nd_applied x)); inversion H; subst s1 out; left; (split; [reflexivity|]).
    + destruct k as [|n]; cbn [after_propose outn Stn quiet forallb ppk_okn] in *.
      * split; [reflexivity|]. exists (Qn kd Q). split; [exact HD|]. destruct kd; try contradiction. reflexivity.
      * subst kd. cbn [Qn] in HD. tauto.
    + cbn [outn Stn quiet forallb]. tauto.
  - (* PGLock *)
    destruct HSt as [-> HD]. destruct (get_node s h) as [x|] eqn:Hg; [|inversion H; subst s1 out; blocked].
    destruct (nd_rc x); [inversion H; subst s1 out; blocked|].
    fold (cur_of x) in H. pose proof (dn_curs _ _ _ _ _ HD h) as Hcv. rewrite (cu_node s h x Hg) in Hcv.
    destruct (cur_of x) as [seg del]. cbn [fst snd] in Hcv.
    destruct (get_loop x h seg del) as [x' o] eqn:G. inversion H; subst s1 out. left. split; [reflexivity|].
    now apply (loop_step s h x seg del t Q x' o Hg (Hmeta _ _ Hg) HD Hcv G).
  - (* PGRpc *)
    destruct HSt as (-> & HD & -> & Hs & ->). destruct (get_node s (sl t (fst (cu s h)))) as [y|] eqn:Hy.
    + inversion H; subst s1 out. left. split; [reflexivity|]. cbn [outn Stn quiet forallb]. tauto.
    + destruct (get_node s h) as [x|] eqn:Hg; [|inversion H; subst s1 out; blocked].
      inversion H; subst s1 out. left. split; [reflexivity|].
      apply (outn_A3 s); [now apply (A3_set s _ x)|]. cbn [outn quiet forallb]. split; [reflexivity|].
      exists Q. split; [exact HD|reflexivity].
  - (* PGRead *)
    destruct HSt as (-> & HD & -> & Hs & ->).
    destruct (get_node s h) as [xh|] eqn:Hg; [|inversion H; subst s1 out; blocked].
    destruct (get_node s (sl t (fst (cu s h)))) as [xe|] eqn:Hy; [|inversion H; subst s1 out; blocked].
    assert (Es : match nd_cursor xh with Some c => fst c | None => 0 end = fst (cu s h)).
    { rewrite (cu_node s h xh Hg). unfold cur_of. destruct (nd_cursor xh); reflexivity. }
    rewrite Es in H. set (seg := fst (cu s h)) in *. set (e := sl t seg) in *.
    destruct (queue_of xe seg) as [|a rest] eqn:Eq.
    + inversion H; subst s1 out. left. split; [reflexivity|]. cbn [outn Stn quiet forallb quiet_ev andb]. fold seg. fold e.
      rewrite (qo_node s e xe seg Hy). tauto.
    + inversion H; subst s1 out. clear H. left. split; [reflexivity|].
      match goal with |- outn _ _ (qo ?z) _ _ _ _ => set (s1 := z) end.
      assert (Eq1 : forall n sg, qo s1 n sg = upd2 (qo s) e seg rest n sg).
      { intros n sg. unfold s1. rewrite qo_set. unfold upd2. destruct (N.eqb_spec n e) as [->|]; cbn [andb]; [|reflexivity].
        unfold queue_of. cbn [with_q nd_q]. rewrite queue_ins. fold (queue_of xe sg). now rewrite (qo_node s e xe sg Hy). }
      assert (Ec1 : forall n sg, co s1 n sg = co s n sg).
      { intros n sg. unfold s1. rewrite co_set. destruct (N.eqb_spec n e) as [->|]; [|reflexivity]. now rewrite (co_node s e xe sg Hy). }
      assert (Eu1 : forall h', cu s1 h' = cu s h').
      { intros h'. unfold s1. rewrite cu_set. destruct (N.eqb_spec h' e) as [->|]; [|reflexivity]. now rewrite (cu_node s e xe Hy). }
      assert (Hq : qo s e seg = a :: rest) by (now rewrite (qo_node s e xe seg Hy)).
      destruct (Dn_deq _ _ _ t Q h a rest HD Hs Hq) as (Q' & EQ & HD').
      cbn [outn Stn quiet forallb quiet_ev andb]. rewrite !Eu1. fold seg.
      split; [reflexivity|]. split; [reflexivity|]. split; [reflexivity|]. split; [exact Hs|].
      exists Q'. split; [exact EQ|].
      eapply Dn_ext; [exact Eq1|exact Ec1| |exact HD']. intros h'. unfold upd1. now rewrite !Eu1.
  - (* PGHw *)
    destruct HSt as (-> & -> & Hs & Hr). destruct (get_node s h) as [x|] eqn:Hg; [|inversion H; subst s1 out; blocked].
    fold (cur_of x) in H. rewrite (cu_node s h x Hg) in Hs, Hr. destruct (cur_of x) as [seg del] eqn:Ecx. cbn [fst snd] in *.
    destruct r as [a|].
    + destruct Hr as (Q' & EQ & HD'). inversion H; subst s1 out. clear H. left. split; [reflexivity|].
      cbn [outn quiet forallb]. split; [reflexivity|]. exists Q'. split; [|exact EQ].
      destruct (acc_cursor s h x seg (del + 1) false Hg) as (B1 & B2 & B3). cbn zeta in *.
      eapply Dn_ext; [exact B1|exact B2| |exact HD']. intros h'. rewrite B3. reflexivity.
    + destruct Hr as [HD Eq]. pose proof (dn_curs _ _ _ _ _ HD h) as Hcv. rewrite (cu_node s h x Hg), Ecx in Hcv. cbn [fst snd] in Hcv.
      destruct (N.ltb_spec seg (t_cur t)) as [Hlt|Hge].
      * destruct (get_loop x h (seg + 1) 0) as [x' o] eqn:G. inversion H; subst s1 out. left. split; [reflexivity|].
        pose proof (CVn_next _ _ _ t Q seg del HD Hcv Hs Eq Hlt) as Hcv1.
        now apply (loop_step s h x (seg + 1) 0 t Q x' o Hg (Hmeta _ _ Hg) HD Hcv1 G).
      * inversion H; subst s1 out. clear H. left. split; [reflexivity|].
        cbn [outn quiet forallb]. split; [reflexivity|].
        assert (EQ : Q = []).
        { rewrite (dn_q _ _ _ _ _ HD). apply flat_map_nil. intros s0 Hs0. apply in_segs in Hs0.
          destruct (N.eq_dec s0 seg) as [->|Hne]; [exact Eq|]. apply (cn_lo _ _ _ _ _ Hcv); [lia|].
          pose proof (cn_le _ _ _ _ _ Hcv). lia. }
        exists []. split; [|split; [exact EQ|reflexivity]]. subst Q.
        apply (Dn_A3 s); [|exact HD]. apply (A3_set s h x); auto. cbn [with_cursor nd_cursor].
        unfold cur_of in Ecx. destruct (nd_cursor x) as [cc|] eqn:Ecc.
        -- now subst cc.
        -- (* no cursor yet cannot be: the segment is >= 1 *) inversion Ecx; subst. lia.
  - (* PLTick *)
    destruct HSt as [-> HD]. destruct (get_node s n) as [x|] eqn:Hg; [|inversion H; subst s1 out; blocked].
    inversion H; subst s1 out. left. split; [reflexivity|]. cbn [enter_ul outn Stn quiet forallb]. tauto.
  - (* PMTick *)
    destruct HSt as [-> HD]. destruct (get_node s n) as [x|] eqn:Hg; [|inversion H; subst s1 out; blocked].
    destruct (owned (nd_meta x) n) as [seg|] eqn:Ho; inversion H; subst s1 out; left; (split; [reflexivity|]).
    + destruct (owned_spec _ _ _ Ho) as (t0 & Ht0 & El & Ec). rewrite (Hmeta _ _ Hg) in Ht0. inversion Ht0; subst t0.
      cbn [outn Stn quiet forallb]. auto.
    + cbn [outn Stn quiet forallb]. tauto.
  - (* PMCount *)
    destruct HSt as (-> & HD & -> & ->). destruct (get_node s (t_leader t)) as [x|] eqn:Hg; [|inversion H; subst s1 out; blocked].
    cbv zeta in H. destruct (count_of x (t_cur t) <? cf_thr cfg); inversion H; subst s1 out; left; (split; [reflexivity|]).
    + cbn [outn Stn quiet forallb]. tauto.
    + unfold enter_propose. rewrite <- (co_node s _ x _ Hg).
      destruct (t_leader t =? raft_leader); cbn [outn Stn quiet forallb ppk_okn Qn]; eauto 6.
Qed.

(* ---------- invocation ---------- *)
Definition kind_ofn (p : cpayload) (o : cop) : knd := match o with OPut _ => KP p | OGet _ => KG end.

Lemma kpn_kind_ofn p o : kpn (kind_ofn p o) p.
Proof. destruct o; cbn; auto. Qed.

Lemma invoke_spec cfg s M t Q o p :
  Base cfg s M t -> Dn (qo s) (co s) (cu s) t Q ->
  match invoke s o with
  | OYield pc' _ subs => subs = [] /\ Stn (kind_ofn p o) pc' (qo s) (co s) (cu s) t Q
  | OFinish r subs => subs = [] /\ finn (kind_ofn p o) r (qo s) (co s) (cu s) t Q Q
  | OBlocked _ _ => False
  end.
Proof.
  intros HB HD. destruct o as [h|h]; unfold invoke; destruct (get_node s h) as [x|] eqn:Hg;
    try (cbn [kind_ofn]; unfold finn; auto; fail).
  - destruct (b_sync _ _ _ _ HB h x Hg) as [_ Em]. rewrite Em, (b_topic _ _ _ _ HB).
    destruct (N.eqb_spec (t_leader t) h) as [E|Hne].
    + subst h. cbn [enter_ul Stn kind_ofn isp]. auto.
    + destruct (has_addr M (t_leader t)); unfold finn; cbn [Stn kind_ofn isp]; auto.
  - cbn [Stn kind_ofn]. auto.
Qed.

(* ---------- Base along a step ---------- *)
Lemma Base_eq cfg s s' M t : s_nodes s' = s_nodes s -> s_log s' = s_log s -> Base cfg s M t -> Base cfg s' M t.
Proof.
  intros En El [H1 H2 H3]. split; auto.
  - intros n x Hx. unfold get_node in Hx. rewrite En in Hx. rewrite El. now apply (H1 n).
  - intros n Hn. apply H3. unfold get_node in *. now rewrite <- En.
Qed.

Lemma Base_shape cfg s M t pc s1 : Base cfg s M t -> shape s pc s1 -> s_log s1 = s_log s -> Base cfg s1 M t.
Proof.
  intros HB Hsh El. destruct Hsh as [->|e x x' Hg -> [Hm Ha] _|c k -> ->]; auto.
  - destruct HB as [H1 H2 H3]. split; auto.
    + intros n y Hy. cbn [set_node s_log]. destruct (N.eq_dec n e) as [->|Hne].
      * rewrite get_set_same in Hy. inversion Hy. subst y. rewrite Hm, Ha. now apply (H1 e).
      * rewrite get_set_other in Hy by exact Hne. now apply (H1 n).
    + intros n Hn. destruct (N.eq_dec n e) as [->|Hne]; [apply H3; congruence|].
      rewrite get_set_other in Hn by exact Hne. now apply H3.
  - exfalso. cbn [s_log] in El. apply (f_equal (@length cmd)) in El. rewrite app_length in El. cbn in El. lia.
Qed.

Lemma A3_omap s s2 (f : node -> node) :
  (forall n, get_node s2 n = option_map f (get_node s n)) ->
  (forall x, nd_q (f x) = nd_q x /\ nd_offsets (f x) = nd_offsets x /\ nd_cursor (f x) = nd_cursor x) ->
  A3 s s2.
Proof.
  intros Hg Hf. repeat split; intros.
  - unfold qo. rewrite Hg. destruct (get_node s n) as [x|]; [|reflexivity]. cbn [option_map]. unfold queue_of.
    destruct (Hf x) as (E & _ & _). now rewrite E.
  - unfold co. rewrite Hg. destruct (get_node s n) as [x|]; [|reflexivity]. cbn [option_map]. unfold count_of.
    destruct (Hf x) as (_ & E & _). now rewrite E.
  - unfold cu. rewrite Hg. destruct (get_node s h) as [x|]; [|reflexivity]. cbn [option_map]. unfold cur_of.
    destruct (Hf x) as (_ & _ & E). now rewrite E.
Qed.

(* one exec_pc step followed by apply_everywhere, on any state s' that differs from exec's
   result only in its task records *)
Lemma exec_settle cfg s M t Q kd p pc s1 out s' :
  Base cfg s M t -> Stn kd pc (qo s) (co s) (cu s) t Q -> kpn kd p ->
  exec_pc cfg s p pc = (s1, out) -> s_nodes s' = s_nodes s1 -> s_log s' = s_log s1 ->
  let s2 := apply_everywhere cfg s' in
  s_clients s2 = s_clients s' /\ s_lease s2 = s_lease s' /\ s_mon s2 = s_mon s' /\
  exists M1 t1, Base cfg s2 M1 t1 /\ outn kd out (qo s2) (co s2) (cu s2) t1 Q.
Proof.
  intros HB HSt Hp He En El. cbn zeta.
  pose proof (exec_pc_shape _ _ _ _ _ _ He) as Hsh.
  destruct (exec_spec cfg s M t Q kd p pc s1 out HB HSt Hp He) as [[Hl Ho]|(cm & k & -> & (nl & Ecm) & HD & Hk)].
  - assert (HB1 : Base cfg s' M t).
    { apply (Base_eq cfg s1); auto. eapply Base_shape; eauto. }
    rewrite ae_id by (intros n x Hx; apply (b_sync _ _ _ _ HB1 n x Hx)).
    repeat split; auto. exists M, t. split; [exact HB1|].
    eapply outn_ext; [| | |exact Ho]; intros; unfold qo, co, cu, get_node; now rewrite En.
  - cbn [exec_pc] in He. inversion He; subst s1 out. clear He. cbn [s_nodes s_log] in En, El.
    destruct (ae_one cfg s M t cm s' HB En El) as (A1 & A2 & A3' & A4 & A5). cbn zeta in *.
    repeat split; auto.
    set (s2 := apply_everywhere cfg s') in *.
    set (M' := fst (apply_cmd_fx M cm)) in *.
    assert (HA : A3 s s2).
    { apply (A3_omap s s2 (fun x => with_meta x M' (S (length (s_log s))))); [exact A5|]. intros x. repeat split. }
    assert (HBase : forall t1, topic_of M' = Some t1 -> Base cfg s2 M' t1).
    { intros t1 Ht1. split; auto.
      - intros n y Hy. rewrite A5 in Hy. destruct (get_node s n) as [x|]; [|discriminate]. cbn in Hy. inversion Hy. subst y.
        cbn [with_meta nd_applied nd_meta]. rewrite A1, El, app_length. cbn [length]. split; [lia|reflexivity].
      - intros n Hn. apply (b_dom _ _ _ _ HB). rewrite A5 in Hn. destruct (get_node s n); [discriminate|]. now cbn in Hn. }
    subst cm. destruct (apply_roll_n M t nl (co s (t_leader t) (t_cur t)) (b_topic _ _ _ _ HB)) as [[Er Em]|[t' [Er Em]]].
    + exists M', t. split; [apply HBase; unfold M'; rewrite Em; apply (b_topic _ _ _ _ HB)|].
      cbn [outn Stn quiet forallb quiet_ev andb]. split; [reflexivity|]. split; [|exact Hk].
      now apply (Dn_A3 s).
    + exists M', t'. split; [now apply HBase|].
      cbn [outn Stn quiet forallb quiet_ev andb]. split; [reflexivity|]. split; [|exact Hk].
      apply (Dn_A3 s); [exact HA|]. eapply Dn_rolled; eauto.
Qed.

(* ---------- the acceptors along an answer ---------- *)
Lemma Acc_respn kd r q c u t Q Q' hl cc k b :
  finn kd r q c u t Q Q' -> kpn kd (cc, k) -> res_fits b r = true -> Acc Q hl (Some (cc, k, b)) [EResp cc k r] Q' hl None.
Proof.
  intros [_ Hf] Hk Hb. split; intros rest Hr; cbn [app seq_hist].
  - destruct kd, r; try contradiction; cbn [c22_seq_scan kpn] in *; subst; auto.
    + destruct Hf; subst. exact Hr.
    + now rewrite pl_eqb_refl.
  - now rewrite !N.eqb_refl, Hb, Hr.
Qed.

Lemma finn_fits p o r q c u t Q Q' : finn (kind_ofn p o) r q c u t Q Q' -> res_fits (is_put o) r = true.
Proof. intros [_ H]. destruct o, r; cbn in *; auto. Qed.

(* ---------- the invariant ---------- *)
Definition bgmap (s : cst) (mon : bool) : list (N * cpc) := if mon then s_mon s else s_lease s.
Definition bg_rest (s : cst) : Prop :=
  forall mon n pc, lookup N.compare n (bgmap s mon) = Some pc -> pc_at_rest (Some pc) = true.

Inductive Activen (s : cst) (t : tstate) (Q : list cpayload) : hst -> Prop :=
| ANRest : idle (s_clients s) -> bg_rest s -> Dn (qo s) (co s) (cu s) t Q -> Activen s t Q None
| ANClient i ci o rest pc :
    nth_error (s_clients s) i = Some ci -> cl_ops ci = o :: rest -> cl_pc ci = Some pc ->
    (forall j cj, j <> i -> nth_error (s_clients s) j = Some cj -> cl_pc cj = None) -> bg_rest s ->
    Stn (kind_ofn (N.of_nat i, cl_k ci) o) pc (qo s) (co s) (cu s) t Q ->
    Activen s t Q (Some (N.of_nat i, cl_k ci, is_put o))
| ANBg mon n pc :
    idle (s_clients s) -> lookup N.compare n (bgmap s mon) = Some pc -> pc_at_rest (Some pc) = false ->
    (forall mon' n' pc', lookup N.compare n' (bgmap s mon') = Some pc' -> (mon' <> mon \/ n' <> n) -> pc_at_rest (Some pc') = true) ->
    Stn KB pc (qo s) (co s) (cu s) t Q ->
    Activen s t Q None.

Definition Invn (cfg : ccfg) (s : cst) (Q : list cpayload) (hl : list (N * N)) (hc : hst) : Prop :=
  exists M t, Base cfg s M t /\ hist_ok (s_clients s) hl /\ Activen s t Q hc.

Lemma Stn_busy p o pc q c u t Q : Stn (kind_ofn p o) pc q c u t Q -> pc_at_rest (Some pc) = false.
Proof. destruct pc; cbn; try reflexivity; intros [E _]; destruct o; discriminate. Qed.

Lemma rest_Stn pc q c u t Q : pc_at_rest (Some pc) = true -> Dn q c u t Q -> Stn KB pc q c u t Q.
Proof. destruct pc; cbn; try discriminate; auto. Qed.

Lemma Stn_rest_D pc q c u t Q : Stn KB pc q c u t Q -> pc_at_rest (Some pc) = true -> Dn q c u t Q.
Proof. destruct pc; cbn; try discriminate; tauto. Qed.

(* ---------- others_at_rest ---------- *)
Lemma rest_all_lookup (l : list (N * cpc)) :
  rest_all (map (fun x => (fst x, Some (snd x))) l) = true ->
  forall n pc, lookup N.compare n l = Some pc -> pc_at_rest (Some pc) = true.
Proof.
  unfold rest_all. rewrite forallb_forall. intros H n pc Hl. apply (lookup_In N_cmp_ok) in Hl.
  apply (H (n, Some pc)). apply in_map_iff. exists (n, pc). auto.
Qed.

Lemma rest_but_lookup (l : list (N * cpc)) k :
  forallb (fun x : N * option cpc => (fst x =? k) || pc_at_rest (snd x)) (map (fun x => (fst x, Some (snd x))) l) = true ->
  forall n pc, lookup N.compare n l = Some pc -> n <> k -> pc_at_rest (Some pc) = true.
Proof.
  rewrite forallb_forall. intros H n pc Hl Hne. apply (lookup_In N_cmp_ok) in Hl.
  specialize (H (n, Some pc)). cbn [fst snd] in H. destruct (N.eqb_spec n k); [contradiction|]. apply H.
  apply in_map_iff. exists (n, pc). auto.
Qed.

Lemma oarn_C s i :
  others_at_rest s (EvC i) = true ->
  (forall j cj, j <> i -> nth_error (s_clients s) j = Some cj -> pc_at_rest (cl_pc cj) = true) /\ bg_rest s.
Proof.
  unfold others_at_rest. intros H. apply andb_prop in H. destruct H as [H H3]. apply andb_prop in H. destruct H as [H1 H2].
  split.
  - intros j cj Hne Hj.
    apply (forallb_combine_seq pc_at_rest i (map cl_pc (s_clients s)) 0%nat H1 j (cl_pc cj)); [now apply map_nth_error|lia].
  - intros [|] n pc Hl; cbn [bgmap] in Hl; [exact (rest_all_lookup _ H3 n pc Hl)|exact (rest_all_lookup _ H2 n pc Hl)].
Qed.

Lemma oarn_B s (mon : bool) n :
  others_at_rest s (if mon then EvM n else EvL n) = true ->
  (forall j cj, nth_error (s_clients s) j = Some cj -> pc_at_rest (cl_pc cj) = true) /\
  (forall mon' n' pc', lookup N.compare n' (bgmap s mon') = Some pc' -> (mon' <> mon \/ n' <> n) -> pc_at_rest (Some pc') = true).
Proof.
  destruct mon; unfold others_at_rest; intros H; apply andb_prop in H; destruct H as [H H3]; apply andb_prop in H; destruct H as [H1 H2].
  - split.
    + intros j cj Hj. apply (forallb_nth _ _ H1 j). now apply map_nth_error.
    + intros [|] n' pc' Hl Hd; cbn [bgmap] in Hl.
      * apply (rest_but_lookup _ n H3 n' pc' Hl). destruct Hd; congruence.
      * exact (rest_all_lookup _ H2 n' pc' Hl).
  - split.
    + intros j cj Hj. apply (forallb_nth _ _ H1 j). now apply map_nth_error.
    + intros [|] n' pc' Hl Hd; cbn [bgmap] in Hl.
      * exact (rest_all_lookup _ H3 n' pc' Hl).
      * apply (rest_but_lookup _ n H2 n' pc' Hl). destruct Hd; congruence.
Qed.

(* ---------- from an outcome to the next invariant ---------- *)
Lemma bg_rest_eq s s2 : s_lease s2 = s_lease s -> s_mon s2 = s_mon s -> bg_rest s -> bg_rest s2.
Proof. intros E1 E2 H mon n pc Hl. apply (H mon n pc). destruct mon; cbn [bgmap] in *; congruence. Qed.

Lemma client_yieldn cfg s s2 i ci o rest pc' M1 t1 Q hl0 :
  nth_error (s_clients s) i = Some ci -> cl_ops ci = o :: rest ->
  (forall j cj, j <> i -> nth_error (s_clients s) j = Some cj -> cl_pc cj = None) -> bg_rest s ->
  s_clients s2 = set_nth i (mkClient (o :: rest) (cl_k ci) (Some pc')) (s_clients s) ->
  s_lease s2 = s_lease s -> s_mon s2 = s_mon s ->
  Base cfg s2 M1 t1 -> Stn (kind_ofn (N.of_nat i, cl_k ci) o) pc' (qo s2) (co s2) (cu s2) t1 Q ->
  hist_mid (s_clients s) i ci hl0 ->
  Invn cfg s2 Q hl0 (Some (N.of_nat i, cl_k ci, is_put o)).
Proof.
  intros Hi Hops Hoth Hbg Ec El Em HB HSt Hmid. exists M1, t1. split; [exact HB|]. split.
  - rewrite Ec. intros j cj k0 Hj Hl. destruct (Nat.eq_dec j i) as [->|Hne].
    + rewrite (nth_set_nth_same _ _ _ _ Hi) in Hj. inversion Hj; subst cj. cbn [cl_pc cl_k].
      specialize (Hmid i ci k0 Hi Hl). now rewrite Nat.eqb_refl in Hmid.
    + rewrite nth_set_nth_other in Hj by exact Hne. specialize (Hmid j cj k0 Hj Hl).
      destruct (Nat.eqb_spec j i); [contradiction|]. now rewrite (Hoth j cj Hne Hj).
  - apply (ANClient s2 t1 Q i (mkClient (o :: rest) (cl_k ci) (Some pc')) o rest pc'); auto.
    + rewrite Ec. eapply nth_set_nth_same; eauto.
    + intros j cj Hne Hj. rewrite Ec, nth_set_nth_other in Hj by exact Hne. eauto.
    + now apply (bg_rest_eq s).
Qed.

Lemma client_finishn cfg s s2 i ci o rest M1 t1 Q' hl0 :
  nth_error (s_clients s) i = Some ci -> cl_ops ci = o :: rest ->
  (forall j cj, j <> i -> nth_error (s_clients s) j = Some cj -> cl_pc cj = None) -> bg_rest s ->
  s_clients s2 = set_nth i (mkClient rest (cl_k ci + 1) None) (s_clients s) ->
  s_lease s2 = s_lease s -> s_mon s2 = s_mon s ->
  Base cfg s2 M1 t1 -> Dn (qo s2) (co s2) (cu s2) t1 Q' ->
  hist_mid (s_clients s) i ci hl0 ->
  Invn cfg s2 Q' hl0 None.
Proof.
  intros Hi Hops Hoth Hbg Ec El Em HB HD Hmid. exists M1, t1. split; [exact HB|]. split.
  - rewrite Ec. intros j cj k0 Hj Hl. destruct (Nat.eq_dec j i) as [->|Hne].
    + rewrite (nth_set_nth_same _ _ _ _ Hi) in Hj. inversion Hj; subst cj. cbn [cl_pc cl_k].
      specialize (Hmid i ci k0 Hi Hl). rewrite Nat.eqb_refl in Hmid. lia.
    + rewrite nth_set_nth_other in Hj by exact Hne. specialize (Hmid j cj k0 Hj Hl).
      destruct (Nat.eqb_spec j i); [contradiction|]. now rewrite (Hoth j cj Hne Hj).
  - apply ANRest; [|now apply (bg_rest_eq s)|exact HD].
    intros j cj Hj. rewrite Ec in Hj. destruct (Nat.eq_dec j i) as [->|Hne].
    + rewrite (nth_set_nth_same _ _ _ _ Hi) in Hj. inversion Hj; subst cj. reflexivity.
    + rewrite nth_set_nth_other in Hj by exact Hne. eauto.
Qed.

Lemma ae_same cfg s M t : Base cfg s M t -> apply_everywhere cfg s = s.
Proof. intros HB. apply ae_id. intros n x Hx. apply (b_sync _ _ _ _ HB n x Hx). Qed.

(* what the acting client's Active case must be *)
Lemma active_client s t Q hc i ci :
  Activen s t Q hc -> nth_error (s_clients s) i = Some ci ->
  (forall j cj, j <> i -> nth_error (s_clients s) j = Some cj -> pc_at_rest (cl_pc cj) = true) -> bg_rest s ->
  match cl_pc ci with
  | Some pc => exists o rest, cl_ops ci = o :: rest /\
      (forall j cj, j <> i -> nth_error (s_clients s) j = Some cj -> cl_pc cj = None) /\
      Stn (kind_ofn (N.of_nat i, cl_k ci) o) pc (qo s) (co s) (cu s) t Q /\ hc = Some (N.of_nat i, cl_k ci, is_put o)
  | None => idle (s_clients s) /\ Dn (qo s) (co s) (cu s) t Q /\ hc = None
  end.
Proof.
  intros HA Hi Hoc Hbg. destruct HA as [Hidle _ HD|i0 ci0 o rest pc H1 H2 H3 H4 H5 H6|mon n pc Hidle Hl Hr Hoth HSt].
  - rewrite (Hidle _ _ Hi). auto.
  - destruct (Nat.eq_dec i0 i) as [->|Hne].
    + rewrite Hi in H1. inversion H1; subst ci0. rewrite H3. exists o, rest. auto.
    + exfalso. specialize (Hoc i0 ci0 Hne H1). rewrite H3, (Stn_busy _ _ _ _ _ _ _ _ H6) in Hoc. discriminate.
  - exfalso. rewrite (Hbg mon n pc Hl) in Hr. discriminate.
Qed.

(* ---------- one step of the sequential system ---------- *)
Lemma seq_client_inv cfg s i s' tok Q hl hc :
  Invn cfg s Q hl hc -> others_at_rest s (EvC i) = true ->
  (let '(s1, t) := step_client cfg s i in (apply_everywhere cfg s1, t)) = (s', tok) ->
  exists Q' hl' hc', Invn cfg s' Q' hl' hc' /\ Acc Q hl hc (snd tok) Q' hl' hc'.
Proof.
  intros HInv Hoar. pose proof HInv as (M & t & HB & Hh & HAct).
  apply oarn_C in Hoar. destruct Hoar as [Hoc Hbg].
  assert (Hsame : forall st, (apply_everywhere cfg s, (st, @nil csub)) = (s', tok) ->
                  exists Q' hl' hc', Invn cfg s' Q' hl' hc' /\ Acc Q hl hc (snd tok) Q' hl' hc').
  { intros st E. rewrite (ae_same cfg s M t HB) in E. inversion E; subst. exists Q, hl, hc. split; [exact HInv|apply Acc_nil]. }
  unfold step_client.
  destruct (nth_error (s_clients s) i) as [ci|] eqn:Eci; [|apply Hsame].
  destruct (cl_ops ci) as [|o rest] eqn:Eops; [apply Hsame|].
  pose proof (active_client s t Q hc i ci HAct Eci Hoc Hbg) as HA.
  destruct (cl_pc ci) as [pc|] eqn:Epc.
  - (* in flight *)
    destruct HA as (o' & rest' & Eops' & Hoth & HSt & ->). rewrite Eops in Eops'. inversion Eops'; subst o' rest'. clear Eops'.
    destruct (exec_pc cfg s (N.of_nat i, cl_k ci) pc) as [s1 out] eqn:Ex.
    destruct (shape_tasks _ _ _ (exec_pc_shape _ _ _ _ _ _ Ex)) as (T1 & T2 & T3).
    assert (Hmid : hist_mid (s_clients s) i ci hl).
    { intros j cj k0 Hj Hl. specialize (Hh j cj k0 Hj Hl). destruct (Nat.eqb_spec j i) as [->|Hne].
      - rewrite Eci in Hj. inversion Hj; subst cj. now rewrite Epc in Hh.
      - now rewrite (Hoth j cj Hne Hj) in Hh. }
    destruct out as [pc' st subs|r subs|subs pc']; cbn [app]; intros E; inversion E; subst s' tok; clear E; cbn [snd].
    + destruct (exec_settle cfg s M t Q _ _ pc s1 _
                 (set_clients s1 (set_nth i (mkClient (o :: rest) (cl_k ci) (Some pc')) (s_clients s1)))
                 HB HSt (kpn_kind_ofn _ _) Ex eq_refl eq_refl) as (C1 & C2 & C3 & M1 & t1 & HB1 & Hq & HSt').
      exists Q, hl, (Some (N.of_nat i, cl_k ci, is_put o)). split; [|now apply Acc_quiet].
      eapply (client_yieldn cfg s); eauto; cbn [set_clients s_clients s_lease s_mon] in *; congruence.
    + destruct (exec_settle cfg s M t Q _ _ pc s1 _
                 (set_clients s1 (set_nth i (mkClient rest (cl_k ci + 1) None) (s_clients s1)))
                 HB HSt (kpn_kind_ofn _ _) Ex eq_refl eq_refl) as (C1 & C2 & C3 & M1 & t1 & HB1 & Hq & Q' & Hfin).
      exists Q', hl, None. split.
      * eapply (client_finishn cfg s); eauto; cbn [set_clients s_clients s_lease s_mon] in *; try congruence. exact (proj1 Hfin).
      * eapply Acc_trans; [now apply Acc_quiet|].
        eapply Acc_respn; [exact Hfin|apply kpn_kind_ofn|eapply finn_fits; exact Hfin].
    + destruct (exec_settle cfg s M t Q _ _ pc s1 _
                 (set_clients s1 (set_nth i (mkClient (o :: rest) (cl_k ci) (Some pc')) (s_clients s1)))
                 HB HSt (kpn_kind_ofn _ _) Ex eq_refl eq_refl) as (C1 & C2 & C3 & M1 & t1 & HB1 & Hq & HSt').
      exists Q, hl, (Some (N.of_nat i, cl_k ci, is_put o)). split; [|now apply Acc_quiet].
      eapply (client_yieldn cfg s); eauto; cbn [set_clients s_clients s_lease s_mon] in *; congruence.
  - (* invocation *)
    destruct HA as (Hidle & HD & ->).
    pose proof (invoke_spec cfg s M t Q o (N.of_nat i, cl_k ci) HB HD) as Hinv.
    assert (Hoth : forall j cj, j <> i -> nth_error (s_clients s) j = Some cj -> cl_pc cj = None) by (intros; eauto).
    assert (HAcc : Acc Q hl None [EInv (N.of_nat i) (cl_k ci) (is_put o) (op_node o)] Q
                     (ins N.compare (N.of_nat i) (cl_k ci) hl) (Some (N.of_nat i, cl_k ci, is_put o))).
    { apply Acc_inv. intros k0 Hl. specialize (Hh i ci k0 Eci Hl). now rewrite Epc in Hh. }
    assert (Hmid : hist_mid (s_clients s) i ci (ins N.compare (N.of_nat i) (cl_k ci) hl)).
    { intros j cj k0 Hj Hl. destruct (Nat.eqb_spec j i) as [->|Hne].
      - rewrite (lookup_ins_same N_cmp_ok) in Hl. inversion Hl; subst. lia.
      - rewrite (lookup_ins_other N_cmp_ok) in Hl by lia. specialize (Hh j cj k0 Hj Hl).
        now rewrite (Hidle j cj Hj) in Hh. }
    assert (Hbase : forall cs', Base cfg (set_clients s cs') M t) by (intros cs'; now apply (Base_eq cfg s)).
    assert (Hae : forall cs', apply_everywhere cfg (set_clients s cs') = set_clients s cs').
    { intros cs'. apply (ae_same cfg _ M t). now apply (Base_eq cfg s). }
    destruct (invoke s o) as [pc' st subs|r subs|subs pc']; try contradiction;
      rewrite Hae; intros E; inversion E; subst s' tok; clear E; cbn [snd].
    + destruct Hinv as [-> HSt'].
      exists Q, (ins N.compare (N.of_nat i) (cl_k ci) hl), (Some (N.of_nat i, cl_k ci, is_put o)). split; [|exact HAcc].
      exact (client_yieldn cfg s (set_clients s (set_nth i (mkClient (o :: rest) (cl_k ci) (Some pc')) (s_clients s))) i ci o rest pc' M t Q _ Eci Eops Hoth Hbg eq_refl eq_refl eq_refl (Hbase _) HSt' Hmid).
    + destruct Hinv as [-> Hfin]. cbn [app].
      exists Q, (ins N.compare (N.of_nat i) (cl_k ci) hl), None. split.
      * exact (client_finishn cfg s (set_clients s (set_nth i (mkClient rest (cl_k ci + 1) None) (s_clients s))) i ci o rest M t Q _ Eci Eops Hoth Hbg eq_refl eq_refl eq_refl (Hbase _) (proj1 Hfin) Hmid).
      * change [EInv (N.of_nat i) (cl_k ci) (is_put o) (op_node o); EResp (N.of_nat i) (cl_k ci) r]
          with ([EInv (N.of_nat i) (cl_k ci) (is_put o) (op_node o)] ++ [EResp (N.of_nat i) (cl_k ci) r]).
        eapply Acc_trans; [exact HAcc|].
        eapply Acc_respn; [exact Hfin|apply kpn_kind_ofn|eapply finn_fits; exact Hfin].
Qed.

Lemma idle_rest cs : (forall j cj, nth_error cs j = Some cj -> pc_at_rest (cl_pc cj) = true) ->
  forall t Q hc s, s_clients s = cs -> Activen s t Q hc -> idle cs /\ hc = None.
Proof.
  intros Hr t Q hc s <- HA. destruct HA as [Hidle _ _|i0 ci0 o rest pc H1 H2 H3 H4 H5 H6|mon n pc Hidle _ _ _ _]; auto.
  exfalso. specialize (Hr i0 ci0 H1). rewrite H3, (Stn_busy _ _ _ _ _ _ _ _ H6) in Hr. discriminate.
Qed.

Lemma bgmap_put s (mon : bool) n pc' (mon' : bool) n' :
  lookup N.compare n' (bgmap ((if mon then set_mon_pc else set_lease_pc) s n pc') mon') =
  if Bool.eqb mon' mon && (n' =? n) then Some pc' else lookup N.compare n' (bgmap s mon').
Proof.
  destruct mon, mon'; cbn [bgmap set_mon_pc set_lease_pc s_mon s_lease Bool.eqb andb]; try reflexivity;
    (destruct (N.eqb_spec n' n) as [->|Hne]; [apply (lookup_ins_same N_cmp_ok)|now apply (lookup_ins_other N_cmp_ok)]).
Qed.

Lemma seq_bg_inv cfg s (mon : bool) n s' tok Q hl hc :
  Invn cfg s Q hl hc -> others_at_rest s (if mon then EvM n else EvL n) = true ->
  (let '(s1, t) := step_bg cfg s n mon in (apply_everywhere cfg s1, t)) = (s', tok) ->
  exists Q' hl' hc', Invn cfg s' Q' hl' hc' /\ Acc Q hl hc (snd tok) Q' hl' hc'.
Proof.
  intros HInv Hoar. pose proof HInv as (M & t & HB & Hh & HAct).
  apply oarn_B in Hoar. destruct Hoar as [Hoc Hob].
  unfold step_bg. fold (bgmap s mon).
  destruct (lookup N.compare n (bgmap s mon)) as [pc|] eqn:Hl.
  2:{ rewrite (ae_same cfg s M t HB). intros E; inversion E; subst. exists Q, hl, hc. split; [exact HInv|apply Acc_nil]. }
  destruct (idle_rest _ Hoc t Q hc s eq_refl HAct) as [Hidle ->].
  assert (HSt : Stn KB pc (qo s) (co s) (cu s) t Q).
  { destruct HAct as [_ Hbg HD|i0 ci0 o rest pc0 H1 H2 H3 H4 H5 H6|mon0 n0 pc0 _ Hl0 Hr0 _ HSt0].
    - apply rest_Stn; [exact (Hbg mon n pc Hl)|exact HD].
    - exfalso. rewrite (Hidle _ _ H1) in H3. discriminate.
    - destruct (Bool.bool_dec mon0 mon) as [->|Hm].
      + destruct (N.eq_dec n0 n) as [->|Hn].
        * rewrite Hl in Hl0. inversion Hl0; subst pc0. exact HSt0.
        * exfalso. rewrite (Hob mon n0 pc0 Hl0 (or_intror Hn)) in Hr0. discriminate.
      + exfalso. rewrite (Hob mon0 n0 pc0 Hl0 (or_introl Hm)) in Hr0. discriminate. }
  destruct (exec_pc cfg s (0, 0) pc) as [s1 out] eqn:Ex.
  destruct (shape_tasks _ _ _ (exec_pc_shape _ _ _ _ _ _ Ex)) as (T1 & T2 & T3).
  assert (G : forall pc' subs st,
    outn KB out = outn KB (OYield pc' st subs) ->
    (apply_everywhere cfg ((if mon then set_mon_pc else set_lease_pc) s1 n pc'), (st, subs)) = (s', tok) ->
    exists Q' hl' hc', Invn cfg s' Q' hl' hc' /\ Acc Q hl None (snd tok) Q' hl' hc').
  { intros pc' subs st Eo E. inversion E; subst s' tok; clear E; cbn [snd].
    destruct (exec_settle cfg s M t Q KB (0, 0) pc s1 out ((if mon then set_mon_pc else set_lease_pc) s1 n pc')
                HB HSt I Ex) as (C1 & C2 & C3 & M1 & t1 & HB1 & Ho); [destruct mon; reflexivity|destruct mon; reflexivity|].
    rewrite Eo in Ho. cbn [outn] in Ho. destruct Ho as [Hq HSt'].
    set (s2 := apply_everywhere cfg ((if mon then set_mon_pc else set_lease_pc) s1 n pc')) in *.
    assert (Ecl : s_clients s2 = s_clients s) by (rewrite C1; destruct mon; cbn; exact T1).
    assert (Ebg : forall mon' n', lookup N.compare n' (bgmap s2 mon') =
                    if Bool.eqb mon' mon && (n' =? n) then Some pc' else lookup N.compare n' (bgmap s mon')).
    { intros mon' n'. replace (bgmap s2 mon') with (bgmap ((if mon then set_mon_pc else set_lease_pc) s1 n pc') mon')
        by (destruct mon'; cbn [bgmap]; congruence).
      rewrite bgmap_put. destruct mon'; cbn [bgmap]; rewrite ?T2, ?T3; reflexivity. }
    exists Q, hl, None. split; [|now apply Acc_quiet].
    exists M1, t1. split; [exact HB1|]. split; [now rewrite Ecl|].
    assert (Hid2 : idle (s_clients s2)) by (now rewrite Ecl).
    assert (Hoth2 : forall mon' n' pc'', lookup N.compare n' (bgmap s2 mon') = Some pc'' -> (mon' <> mon \/ n' <> n) -> pc_at_rest (Some pc'') = true).
    { intros mon' n' pc'' Hl2 Hd. rewrite Ebg in Hl2.
      destruct (Bool.eqb mon' mon && (n' =? n)) eqn:Eb.
      - exfalso. apply andb_prop in Eb. destruct Eb as [E1 E2]. apply Bool.eqb_prop in E1. apply N.eqb_eq in E2. destruct Hd; contradiction.
      - now apply (Hob mon' n' pc''). }
    assert (Hme : lookup N.compare n (bgmap s2 mon) = Some pc').
    { rewrite Ebg. now rewrite Bool.eqb_reflx, N.eqb_refl. }
    destruct (pc_at_rest (Some pc')) eqn:Er.
    - apply ANRest; [exact Hid2| |eapply Stn_rest_D; eauto].
      intros mon' n' pc'' Hl2. destruct (Bool.bool_dec mon' mon) as [->|Hm].
      + destruct (N.eq_dec n' n) as [->|Hn].
        * rewrite Hme in Hl2. inversion Hl2; subst. exact Er.
        * apply (Hoth2 mon n' pc'' Hl2). now right.
      + apply (Hoth2 mon' n' pc'' Hl2). now left.
    - now apply (ANBg s2 t1 Q mon n pc'). }
  destruct out as [pc' st subs|r subs|subs pc'].
  - now apply G.
  - exfalso.
    destruct (exec_settle cfg s M t Q KB (0, 0) pc s1 _ s1 HB HSt I Ex eq_refl eq_refl) as (_ & _ & _ & M1 & t1 & _ & _ & Q' & _ & []).
  - now apply G.
Qed.

Lemma seq_step_invn cfg s ev s' tok Q hl hc :
  Invn cfg s Q hl hc -> seq_step cfg s ev = (s', tok) ->
  exists Q' hl' hc', Invn cfg s' Q' hl' hc' /\ Acc Q hl hc (snd tok) Q' hl' hc'.
Proof.
  intros HInv.
  assert (Hstay : forall st, (s, (st, @nil csub)) = (s', tok) ->
                  exists Q' hl' hc', Invn cfg s' Q' hl' hc' /\ Acc Q hl hc (snd tok) Q' hl' hc').
  { intros st E. inversion E; subst. exists Q, hl, hc. split; [exact HInv|apply Acc_nil]. }
  destruct ev as [i|n|n|n|n]; unfold seq_step; try apply Hstay.
  - destruct (others_at_rest s (EvC i)) eqn:Hoar; [|apply Hstay]. cbn [cl_step]. now apply seq_client_inv.
  - destruct (others_at_rest s (EvL n)) eqn:Hoar; [|apply Hstay]. cbn [cl_step]. now apply (seq_bg_inv cfg s false n).
  - destruct (others_at_rest s (EvM n)) eqn:Hoar; [|apply Hstay]. cbn [cl_step]. now apply (seq_bg_inv cfg s true n).
Qed.

(* ---------- the initial state ---------- *)
Lemma replay_upserts l : forall m, m_poisoned m = false -> c_topics (m_cl m) = [] ->
  m_poisoned (replay m (map (fun n => UpsertNode n (node_addr n)) l)) = false /\
  c_topics (m_cl (replay m (map (fun n => UpsertNode n (node_addr n)) l))) = [].
Proof.
  induction l as [|n l IH]; intros m Hp Ht; cbn [map replay]; [auto|]. apply IH; reflexivity || exact Ht.
Qed.

Lemma boot_topic cfg : topic_of (replay m_init (boot_log cfg)) = Some (new_topic (cf_lead cfg)).
Proof.
  unfold boot_log. rewrite replay_app.
  destruct (replay_upserts (node_ids cfg) m_init eq_refl eq_refl) as [Hp Ht].
  set (m := replay m_init (map (fun n => UpsertNode n (node_addr n)) (node_ids cfg))) in *.
  cbn [replay apply_cmd_fx apply_cmd]. rewrite Ht. cbn [lookup fst].
  unfold topic_of, get_topic_state. cbn [m_poisoned m_cl set_topics c_topics ins].
  cbn [lookup]. now rewrite str_cmp_refl.
Qed.

Lemma init_node_of cfg n x : get_node (cl_init cfg) n = Some x -> x = init_node cfg n /\ In n (node_ids cfg).
Proof.
  intros Hg. unfold get_node, cl_init in Hg. cbn [s_nodes] in Hg.
  apply (lookup_In N_cmp_ok) in Hg. apply In_of_list in Hg. apply in_map_iff in Hg.
  destruct Hg as (n' & E & Hin). inversion E. subst. auto.
Qed.

Lemma init_invn cfg : Invn cfg (cl_init cfg) [] [] None.
Proof.
  exists (replay m_init (boot_log cfg)), (new_topic (cf_lead cfg)).
  assert (Hq : forall n sg, qo (cl_init cfg) n sg = []).
  { intros n sg. unfold qo. destruct (get_node (cl_init cfg) n) as [x|] eqn:Hg; [|reflexivity].
    destruct (init_node_of cfg n x Hg) as [-> _]. reflexivity. }
  assert (Hc : forall n sg, co (cl_init cfg) n sg = 0).
  { intros n sg. unfold co. destruct (get_node (cl_init cfg) n) as [x|] eqn:Hg; [|reflexivity].
    destruct (init_node_of cfg n x Hg) as [-> _]. reflexivity. }
  assert (Hu : forall h, cu (cl_init cfg) h = (0, 0)).
  { intros h. unfold cu. destruct (get_node (cl_init cfg) h) as [x|] eqn:Hg; [|reflexivity].
    destruct (init_node_of cfg h x Hg) as [-> _]. reflexivity. }
  split; [|split].
  - split.
    + intros n x Hg. destruct (init_node_of cfg n x Hg) as [-> _]. split; reflexivity.
    + apply boot_topic.
    + intros n Hn. destruct (get_node (cl_init cfg) n) as [x|] eqn:Hg; [|contradiction]. now destruct (init_node_of cfg n x Hg).
  - intros j cj k0 _ Hl. discriminate.
  - apply ANRest.
    + intros j cj Hj. cbn [cl_init s_clients] in Hj. apply nth_error_In in Hj. apply in_map_iff in Hj. destruct Hj as (ops & <- & _). reflexivity.
    + intros mon n pc Hl. destruct mon; cbn [bgmap cl_init s_mon s_lease] in Hl; apply (lookup_In N_cmp_ok) in Hl; apply In_of_list in Hl;
        apply in_map_iff in Hl; destruct Hl as (n' & E & _); inversion E; reflexivity.
    + split; cbn [new_topic t_cur t_leader t_leaders t_sealed].
      * lia.
      * intros s A B. replace s with 1 by lia. cbn. discriminate.
      * reflexivity.
      * intros s A B. lia.
      * intros n s _. now rewrite Hq, Hc.
      * intros n s _ _ _. apply Hq.
      * intros s _ _. rewrite Hq, Hc, nlen_nil. lia.
      * symmetry. apply flat_map_nil. intros s _. apply Hq.
      * intros h. rewrite Hu. cbn [fst snd]. split; cbn [new_topic t_cur]; try lia; intros; lia.
Qed.

(* ---------- every schedule ---------- *)
Lemma seq_run_invn cfg : forall sched s Q hl hc, Invn cfg s Q hl hc ->
  c22_seq_scan Q (events (fst (seq_run cfg s sched))) = true /\
  seq_hist hl hc (events (fst (seq_run cfg s sched))) = true.
Proof.
  induction sched as [|e r IH]; intros s Q hl hc HInv.
  - cbn. destruct hc; auto.
  - cbn [seq_run]. destruct (seq_step cfg s e) as [s1 tk] eqn:E.
    destruct (seq_step_invn cfg s e s1 tk Q hl hc HInv E) as (Q' & hl' & hc' & HInv' & [A1 A2]).
    specialize (IH s1 Q' hl' hc' HInv'). destruct (seq_run cfg s1 r) as [ts s2]. cbn [fst] in *.
    unfold events in *. cbn [flat_map]. destruct IH as [I1 I2]. auto.
Qed.

Theorem seq_model_ok_any : forall (cfg : ccfg) (sched : list cev),
  c22_seq_ok (seq_trace cfg sched) = true /\ seq_hist [] None (events (seq_trace cfg sched)) = true.
Proof. intros cfg sched. unfold c22_seq_ok, seq_trace. apply seq_run_invn. apply init_invn. Qed.

(* all four clauses of the general acceptor, via the queue acceptor *)
Lemma seq_accepted_any cfg sched : c22_ok (seq_trace cfg sched) = true.
Proof.
  destruct (seq_model_ok_any cfg sched) as [A B].
  unfold c22_ok, c22_verdict. rewrite (StreamSpecP.c22_seq_sound _ B A). reflexivity.
Qed.

(* non-vacuity: three nodes, topic led by node 2, threshold 2, PUTs and GETs sent to all three
   nodes (forwarded appends and reads, forwarded proposals), two rollovers moving the topic
   2 -> 3 -> 1, five values delivered in order, then EMPTY *)
Definition nv3_cfg : ccfg :=
  mkCfg 3 2 2 [[OPut 1; OPut 3; OPut 2; OPut 1; OPut 2]; [OGet 3; OGet 1; OGet 2; OGet 2; OGet 1; OGet 3]].
Definition nv3_sched : list cev := repeat (EvC 0) 120 ++ [EvM 2; EvM 2; EvL 3; EvL 3; EvL 3] ++ repeat (EvC 1) 90.
Definition nv3_summary : N * list cres * nat * nat :=
  let evs := events (seq_trace nv3_cfg nv3_sched) in
  (c22_verdict (seq_trace nv3_cfg nv3_sched),
   flat_map (fun u => match u with EResp 1 _ r => [r] | _ => [] end) evs,
   length (filter (fun u => match u with EL _ _ => true | _ => false end) evs),
   length (filter (fun u => match u with EW _ _ _ _ => true | _ => false end) evs)).
