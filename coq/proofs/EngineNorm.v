(* EngineNorm.v — readers that a restart leaves un-hydrated.  After [reopen] a topic's reader
   carries the startup cursor and [r_hydrated = false]; the first read of the topic folds the
   persisted position into it.  [nrm x ts] is the topic state with that hydration done eagerly
   ([x] = the batch-read flavour, which also restores the tail progress).  Reads on a raw state
   are reads on the normalised state; appends and batches commute with normalisation.  Hence
   everything proved for hydrated states (EngineInv/EngineBR/EngineW/EngineMain) transfers. *)
From W Require Import model.Base model.Engine proofs.EngineWF proofs.EngineInv proofs.EngineW proofs.EngineRec
  proofs.EngineDisk proofs.EnginePos.
From Coq Require Import ZArith ZifyBool ZifyN ZifyNat.

(* ------------------------------------------------------------------ hydration as a function *)
Definition fold_tail (x : bool) (r1 : reader) (pt : option (N * N)) : reader :=
  match pt with
  | Some (id, off) =>
    match find_id (r_chain r1) id 0 with
    | Some j => set_cur r1 j (match used_at (r_chain r1) j with Some u => N.min off u | None => 0 end)
    | None => if x then r1 else match r_chain r1 with [] => r1 | _ => set_cur r1 0 0 end
    end
  | None => r1
  end.

Definition hyd (x : bool) (r : reader) (idx : option ppos) : reader :=
  let '(r1, pt) := hydrate r idx x in fold_tail x r1 pt.

Definition nrm (x : bool) (ts : tstate) : tstate :=
  if r_hydrated (reader_of ts) then ts else
  match ts_index ts with
  | None => ts
  | Some _ => with_reader ts (hyd x (reader_of ts) (ts_index ts))
  end.

Definition Nst (x : bool) (s : st) : st :=
  {| s_topics := map (fun q : N * tstate => (fst q, nrm x (snd q))) (s_topics s);
     s_alloc := s_alloc s; s_disk := s_disk s; s_files := s_files s |}.

Lemma hyd_hydrated x r idx : r_hydrated (hyd x r idx) = true.
Proof.
  unfold hyd, hydrate. destruct (r_hydrated r) eqn:E; [exact E|].
  destruct idx as [p|]; [|reflexivity].
  destruct (p_tail p); cbn [fold_tail].
  - destruct (find_id _ _ _); [reflexivity|]. destruct x; [reflexivity|]. cbn [set_hydrated set_cur r_chain]. destruct (r_chain r); reflexivity.
  - reflexivity.
Qed.

Lemma hyd_of_hydrated x r idx : r_hydrated r = true -> hyd x r idx = r.
Proof. intros H. unfold hyd, hydrate. now rewrite H. Qed.

Lemma fold_tail_chain x r1 pt : r_chain (fold_tail x r1 pt) = r_chain r1.
Proof.
  unfold fold_tail. destruct pt as [[id off]|]; [|reflexivity].
  destruct (find_id _ _ _); [reflexivity|]. destruct x; [reflexivity|]. destruct (r_chain r1) eqn:E; [exact E|exact E].
Qed.

Lemma hydrate_chain r idx x : r_chain (fst (hydrate r idx x)) = r_chain r.
Proof.
  unfold hydrate. destruct (r_hydrated r); [reflexivity|]. destruct idx as [p|]; [|reflexivity].
  destruct (p_tail p); [destruct x|]; reflexivity.
Qed.

Lemma hyd_chain x r idx : r_chain (hyd x r idx) = r_chain r.
Proof.
  unfold hyd. pose proof (hydrate_chain r idx x) as H. destruct (hydrate r idx x) as [r1 pt]. cbn [fst] in H.
  now rewrite fold_tail_chain.
Qed.

Lemma nrm_tstate0 x : nrm x tstate0 = tstate0.
Proof. reflexivity. Qed.

Lemma nrm_reader_hydrated x ts : r_hydrated (reader_of ts) = true -> nrm x ts = ts.
Proof. intros H. unfold nrm. now rewrite H. Qed.

Lemma nrm_index x ts : ts_index (nrm x ts) = ts_index ts.
Proof. unfold nrm. destruct (r_hydrated _); [reflexivity|]. destruct (ts_index ts) eqn:E; [cbn; exact E|exact E]. Qed.
Lemma nrm_writer x ts : ts_writer (nrm x ts) = ts_writer ts.
Proof. unfold nrm. destruct (r_hydrated _); [reflexivity|]. destruct (ts_index ts); reflexivity. Qed.
Lemma nrm_poisoned x ts : ts_poisoned (nrm x ts) = ts_poisoned ts.
Proof. unfold nrm. destruct (r_hydrated _); [reflexivity|]. destruct (ts_index ts); reflexivity. Qed.
Lemma nrm_unmodelled x ts : ts_unmodelled (nrm x ts) = ts_unmodelled ts.
Proof. unfold nrm. destruct (r_hydrated _); [reflexivity|]. destruct (ts_index ts); reflexivity. Qed.
Lemma nrm_count x ts : ts_count (nrm x ts) = ts_count ts.
Proof. unfold nrm. destruct (r_hydrated _); [reflexivity|]. destruct (ts_index ts); reflexivity. Qed.
Lemma nrm_chain x ts : chain_of (nrm x ts) = chain_of ts.
Proof.
  unfold nrm. destruct (r_hydrated _); [reflexivity|]. destruct (ts_index ts) eqn:E; [|reflexivity].
  unfold chain_of. cbn [reader_of with_reader ts_reader]. apply hyd_chain.
Qed.
Lemma nrm_stream x ts : stream (nrm x ts) = stream ts.
Proof. unfold stream, w_ents. now rewrite nrm_chain, nrm_writer. Qed.
Lemma nrm_w_list x ts : w_list (nrm x ts) = w_list ts.
Proof. unfold w_list. now rewrite nrm_writer. Qed.
Lemma nrm_memne x ts : memne (nrm x ts) = memne ts.
Proof. unfold memne. now rewrite nrm_chain, nrm_w_list. Qed.

(* the normalised state needs no further hydration *)
Lemma nrm_fix x ts : r_hydrated (reader_of (nrm x ts)) = false -> ts_index (nrm x ts) = None.
Proof.
  unfold nrm. destruct (r_hydrated (reader_of ts)) eqn:E; [congruence|].
  destruct (ts_index ts) eqn:Ei; [|intros _; exact Ei].
  cbn [reader_of with_reader ts_reader]. rewrite hyd_hydrated. discriminate.
Qed.

Lemma nrm_idem x y ts : nrm y (nrm x ts) = nrm x ts.
Proof.
  unfold nrm at 1. destruct (r_hydrated (reader_of (nrm x ts))) eqn:E; [reflexivity|].
  now rewrite (nrm_fix x ts E).
Qed.

(* ------------------------------------------------------------------ whole states *)
Lemma get_Nst x s t : get_ts (Nst x s) t = nrm x (get_ts s t).
Proof.
  unfold get_ts, Nst. cbn [s_topics].
  rewrite (find_map_key (fun q : N * tstate => (fst q, nrm x (snd q))) t (fun p => eq_refl)).
  destruct (find _ (s_topics s)) as [[k v]|]; reflexivity.
Qed.

Lemma Nst_set_ts x s t ts : Nst x (set_ts s t ts) = set_ts (Nst x s) t (nrm x ts).
Proof.
  unfold Nst, set_ts. cbn [s_topics s_alloc s_disk s_files]. f_equal.
  induction (s_topics s) as [|[k v] l IH]; cbn [set_assoc map fst snd]; [reflexivity|].
  destruct (k =? t); cbn [map fst snd]; [reflexivity|]. now rewrite IH.
Qed.

Lemma set_ts_set_ts s t a b : set_ts (set_ts s t a) t b = set_ts s t b.
Proof.
  unfold set_ts. cbn [s_topics s_alloc s_disk s_files]. f_equal.
  induction (s_topics s) as [|[k v] l IH]; cbn [set_assoc]; [now rewrite N.eqb_refl|].
  destruct (k =? t) eqn:E; cbn [set_assoc]; [now rewrite N.eqb_refl|]. rewrite E. now rewrite IH.
Qed.

Lemma set_ts_inj s t a b : set_ts s t a = set_ts s t b -> a = b.
Proof. intros H. rewrite <- (get_set_same s t a), <- (get_set_same s t b). now rewrite H. Qed.

(* ------------------------------------------------------------------ read_next from the hydrated reader on *)
Definition rn_from (c : Cfg) (m : mode) (ts : tstate) (r2 : reader) (ckpt : bool) : tstate * result :=
  let '(i, o, hit) := rn_walk (skipn (r_idx r2) (r_chain r2)) (r_idx r2) (r_off r2) in
  let r3 := set_cur r2 i o in
  match hit with
  | Some b =>
    match block_read c b o with
    | None => (with_reader ts r3, RNone)
    | Some (e, consumed) =>
      if ckpt then
        let r4 := set_cur r3 i (o + consumed) in
        let '(r5, p) := should_persist m r4 false in
        let ts' := with_reader ts r5 in
        let ts'' := if p then persist ts' false (N.of_nat i) (o + consumed) else ts' in
        (count_sub ts'' 1, REntry (out_of e))
      else (with_reader ts r3, REntry (out_of e))
    end
  | None =>
    match ts_writer ts with
    | None => (with_reader ts r3, RNone)
    | Some w =>
      if ts_poisoned ts then (with_reader ts r3, RErr EOther) else
      let start := if r_tail_bid r3 =? b_id w then r_tail_off r3 else 0 in
      let '(r4, ts1) :=
        if ckpt && (start =? 0) && (0 <? b_used w) then
          let '(r', p) := should_persist m r3 true in
          (r', if p then persist ts true (b_id w) start else ts)
        else (r3, ts) in
      if start <? b_used w then
        match block_read c w start with
        | None => (with_reader ts1 r4, RNone)
        | Some (e, consumed) =>
          if ckpt then
            let r5 := set_tail r4 (b_id w) (start + consumed) in
            let '(r6, p) := should_persist m r5 false in
            let ts2 := with_reader ts1 r6 in
            let ts3 := if p then persist ts2 true (b_id w) (start + consumed) else ts2 in
            (count_sub ts3 1, REntry (out_of e))
          else (with_reader ts1 r4, REntry (out_of e))
        end
      else (with_reader ts1 r4, RNone)
    end
  end.

Lemma fold_tail_rn r1 pt :
  match pt with
  | Some (id, off) =>
    match r_chain r1 with
    | [] => r1
    | _ => match find_id (r_chain r1) id 0 with
           | Some j => set_cur r1 j (match used_at (r_chain r1) j with Some u => N.min off u | None => 0 end)
           | None => set_cur r1 0 0
           end
    end
  | None => r1
  end = fold_tail false r1 pt.
Proof.
  unfold fold_tail. destruct pt as [[id off]|]; [|reflexivity].
  destruct (r_chain r1) as [|b l]; [reflexivity|]. destruct (find_id _ _ _); reflexivity.
Qed.

Lemma read_next_from c m s t ck :
  read_next c m s t ck =
  (set_ts s (t_id t) (fst (rn_from c m (get_ts s (t_id t)) (hyd false (reader_of (get_ts s (t_id t))) (ts_index (get_ts s (t_id t)))) ck)),
   snd (rn_from c m (get_ts s (t_id t)) (hyd false (reader_of (get_ts s (t_id t))) (ts_index (get_ts s (t_id t)))) ck)).
Proof.
  unfold read_next, hyd. set (ts := get_ts s (t_id t)).
  destruct (hydrate (reader_of ts) (ts_index ts) false) as [r1 pt].
  rewrite fold_tail_rn. set (r2 := fold_tail false r1 pt). unfold rn_from.
  destruct (rn_walk _ _ _) as [[i o] hit].
  destruct hit as [b|].
  - destruct (block_read c b o) as [[e consumed]|]; [|reflexivity].
    destruct ck; [|reflexivity]. destruct (should_persist m _ false) as [r5 p]. reflexivity.
  - destruct (ts_writer ts) as [w|]; [|reflexivity].
    destruct (ts_poisoned ts); [reflexivity|].
    match goal with |- context [if ?b then _ else (set_cur r2 i o, ts)] => destruct b end.
    + destruct (should_persist m _ true) as [r' p].
      match goal with |- context [if ?b <? b_used w then _ else _] => destruct (b <? b_used w) end; [|reflexivity].
      match goal with |- context [block_read c w ?st] => destruct (block_read c w st) as [[e consumed]|] end; [|reflexivity].
      destruct ck; [|reflexivity]. destruct (should_persist m _ false) as [r6 p6]. reflexivity.
    + match goal with |- context [if ?b <? b_used w then _ else _] => destruct (b <? b_used w) end; [|reflexivity].
      match goal with |- context [block_read c w ?st] => destruct (block_read c w st) as [[e consumed]|] end; [|reflexivity].
      destruct ck; [|reflexivity]. destruct (should_persist m _ false) as [r6 p6]. reflexivity.
Qed.

(* the reader stored in the topic state is not looked at once hydration is done *)
Lemma rn_from_reader c m ts r0 r2 ck : rn_from c m (with_reader ts r0) r2 ck = rn_from c m ts r2 ck.
Proof.
  destruct ts as [rd wr po cn ix um]. unfold rn_from, with_reader.
  cbn [ts_reader ts_writer ts_poisoned ts_count ts_index ts_unmodelled].
  destruct (rn_walk _ _ _) as [[i o] hit].
  destruct hit as [b|].
  - destruct (block_read c b o) as [[e consumed]|]; [|reflexivity].
    destruct ck; [|reflexivity]. destruct (should_persist m _ false) as [r5 p]. destruct p; reflexivity.
  - destruct wr as [w|]; [|reflexivity]. destruct po; [reflexivity|].
    match goal with |- context [if ?b then (let '(_, _) := _ in _) else _] => destruct b end.
    + destruct (should_persist m _ true) as [r' p]. destruct p.
      * match goal with |- context [if ?b <? b_used w then _ else _] => destruct (b <? b_used w) end; [|reflexivity].
        match goal with |- context [block_read c w ?st] => destruct (block_read c w st) as [[e consumed]|] end; [|reflexivity].
        destruct ck; [|reflexivity]. destruct (should_persist m _ false) as [r6 p6]. destruct p6; reflexivity.
      * match goal with |- context [if ?b <? b_used w then _ else _] => destruct (b <? b_used w) end; [|reflexivity].
        match goal with |- context [block_read c w ?st] => destruct (block_read c w st) as [[e consumed]|] end; [|reflexivity].
        destruct ck; [|reflexivity]. destruct (should_persist m _ false) as [r6 p6]. destruct p6; reflexivity.
    + match goal with |- context [if ?b <? b_used w then _ else _] => destruct (b <? b_used w) end; [|reflexivity].
      match goal with |- context [block_read c w ?st] => destruct (block_read c w st) as [[e consumed]|] end; [|reflexivity].
      destruct ck; [|reflexivity]. destruct (should_persist m _ false) as [r6 p6]. destruct p6; reflexivity.
Qed.

Lemma rn_from_nrm c m ts ck :
  rn_from c m (nrm false ts) (hyd false (reader_of (nrm false ts)) (ts_index (nrm false ts))) ck =
  rn_from c m ts (hyd false (reader_of ts) (ts_index ts)) ck.
Proof.
  unfold nrm. destruct (r_hydrated (reader_of ts)) eqn:E; [reflexivity|].
  destruct (ts_index ts) as [p|] eqn:Ei; [|rewrite Ei; reflexivity].
  cbn [reader_of with_reader ts_reader ts_index]. rewrite Ei.
  rewrite (hyd_of_hydrated false (hyd false (reader_of ts) (Some p)) (Some p) (hyd_hydrated _ _ _)).
  apply rn_from_reader.
Qed.

(* read_next on a raw state is read_next on the state whose topic was normalised first *)
Lemma read_next_nrm c m s t ck ts' res :
  read_next c m (set_ts s (t_id t) (nrm false (get_ts s (t_id t)))) t ck =
    (set_ts (set_ts s (t_id t) (nrm false (get_ts s (t_id t)))) (t_id t) ts', res) ->
  read_next c m s t ck = (set_ts s (t_id t) ts', res).
Proof.
  rewrite (read_next_from c m (set_ts s (t_id t) _)), get_set_same, rn_from_nrm.
  intros H. rewrite read_next_from. pose proof (f_equal fst H) as H1. pose proof (f_equal snd H) as H2. cbn [fst snd] in H1, H2.
  apply set_ts_inj in H1. now rewrite H1, H2.
Qed.

(* ------------------------------------------------------------------ batch_read likewise *)
Lemma br_position_hyd c ts :
  br_position c ts None =
  let r' := hyd true (reader_of ts) (ts_index ts) in
  (Some r', r_chain r', r_idx r', r_off r', r_tail_bid r', r_tail_off r', 0, 0, false).
Proof. unfold br_position, hyd. destruct (hydrate _ _ true) as [r pt]. reflexivity. Qed.

Lemma br_from_reader c m s t maxb ck ts r0 r' ch i o tb tof tr h st0 :
  br_from c m s t maxb ck (with_reader ts r0) (Some r', ch, i, o, tb, tof, tr, h, st0) =
  br_from c m s t maxb ck ts (Some r', ch, i, o, tb, tof, tr, h, st0).
Proof. destruct ts as [rd wr po cn ix um]. reflexivity. Qed.

Lemma batch_read_nrm_eq c m s t maxb ck :
  batch_read c m (set_ts s (t_id t) (nrm true (get_ts s (t_id t)))) t maxb ck None =
  br_from c m (set_ts s (t_id t) (nrm true (get_ts s (t_id t)))) t maxb ck (get_ts s (t_id t)) (br_position c (get_ts s (t_id t)) None).
Proof.
  unfold batch_read. rewrite get_set_same, !br_position_hyd. cbn zeta.
  unfold nrm. destruct (r_hydrated (reader_of (get_ts s (t_id t)))) eqn:E; [reflexivity|].
  destruct (ts_index (get_ts s (t_id t))) as [p|] eqn:Ei; [|rewrite Ei; reflexivity].
  cbn [reader_of with_reader ts_reader ts_index]. rewrite Ei.
  rewrite (hyd_of_hydrated true (hyd true (reader_of (get_ts s (t_id t))) (Some p)) (Some p) (hyd_hydrated _ _ _)).
  apply br_from_reader.
Qed.

(* br_from returns [set_ts s t X] for an X that does not depend on [s] *)
Lemma br_from_state c m s s2 t maxb ck ts pos :
  fst (br_from c m s2 t maxb ck ts pos) = set_ts s2 (t_id t) (get_ts (fst (br_from c m s t maxb ck ts pos)) (t_id t)) /\
  snd (br_from c m s2 t maxb ck ts pos) = snd (br_from c m s t maxb ck ts pos).
Proof.
  unfold br_from. destruct pos as [[[[[[[[r1 chain] idx0] off0] tail_bid] tail_off] trim0] hint0] stateless].
  destruct (plan_sealed _ _ _ _ _ _ _ _ _) as [[[racc planned] idx_after] truncated].
  match goal with |- context [let '(_, _) := ?X in _] => destruct X as [racc2 trim1] end.
  destruct racc2; cbn [fst snd]; rewrite get_set_same; split; reflexivity.
Qed.

Lemma batch_read_nrm c m s t maxb ck ts' res :
  batch_read c m (set_ts s (t_id t) (nrm true (get_ts s (t_id t)))) t maxb ck None =
    (set_ts (set_ts s (t_id t) (nrm true (get_ts s (t_id t)))) (t_id t) ts', res) ->
  batch_read c m s t maxb ck None = (set_ts s (t_id t) ts', res).
Proof.
  rewrite batch_read_nrm_eq. intros H. unfold batch_read.
  set (sn := set_ts s (t_id t) (nrm true (get_ts s (t_id t)))) in *.
  destruct (br_from_state c m s sn t maxb ck (get_ts s (t_id t)) (br_position c (get_ts s (t_id t)) None)) as (A & B).
  destruct (br_from_state c m s s t maxb ck (get_ts s (t_id t)) (br_position c (get_ts s (t_id t)) None)) as (A' & _).
  rewrite H in A, B. cbn [fst snd] in A, B.
  apply set_ts_inj in A.
  rewrite (surjective_pairing (br_from c m s t maxb ck (get_ts s (t_id t)) (br_position c (get_ts s (t_id t)) None))).
  rewrite A', <- A, <- B. reflexivity.
Qed.

(* ------------------------------------------------------------------ appends commute with normalisation *)
Lemma find_id_bound ch a : forall i j, find_id ch a i = Some j -> (i <= j < i + length ch)%nat.
Proof.
  induction ch as [|b ch IH]; intros i j H; cbn [find_id length] in *; [discriminate|].
  destruct (b_id b =? a); [inversion H; lia|]. apply IH in H. lia.
Qed.
Lemma find_id_app_some ch q a : forall i j, find_id ch a i = Some j -> find_id (ch ++ q) a i = Some j.
Proof.
  induction ch as [|b ch IH]; intros i j H; cbn [find_id app] in *; [discriminate|].
  destruct (b_id b =? a); [exact H|]. now apply IH.
Qed.
Lemma find_id_nth ch a : forall i j, find_id ch a i = Some j -> exists b, nth_error ch (j - i) = Some b /\ b_id b = a.
Proof.
  induction ch as [|b ch IH]; intros i j H; cbn [find_id] in *; [discriminate|].
  destruct (b_id b =? a) eqn:E.
  - inversion H; subst. rewrite Nat.sub_diag. exists b. split; [reflexivity|lia].
  - pose proof (find_id_bound _ _ _ _ H). destruct (IH _ _ H) as (b' & Hn & Hb). exists b'. split; [|exact Hb].
    replace (j - i)%nat with (S (j - S i)) by lia. exact Hn.
Qed.
Lemma used_at_app_lt ch q j : (j < length ch)%nat -> used_at (ch ++ q) j = used_at ch j.
Proof. intros H. unfold used_at. now rewrite nth_error_app1. Qed.

(* what a topic state must satisfy for [seal ts b] to commute with normalisation *)
Definition CS (ts : tstate) (bid nid : N) : Prop :=
  r_hydrated (reader_of ts) = false -> forall p, ts_index ts = Some p ->
    r_tail_bid (reader_of ts) = 0 /\ 0 < bid /\
    (if p_tail p then (exists j, find_id (chain_of ts) (p_a p) 0 = Some j) /\ p_a p < nid /\ bid <> p_a p
     else p_a p < N.of_nat (length (chain_of ts))).

Lemma clamp_lt a len : a < N.of_nat len -> clamp_idx a len = N.to_nat a.
Proof. intros H. unfold clamp_idx. replace (N.of_nat len <? a) with false by lia. reflexivity. Qed.

Lemma hyd_chain_push x r b p :
  r_hydrated r = false -> r_tail_bid r = 0 -> 0 < b_id b ->
  (if p_tail p then (exists j, find_id (r_chain r) (p_a p) 0 = Some j) /\ b_id b <> p_a p
   else p_a p < N.of_nat (length (r_chain r))) ->
  hyd x (chain_push r b) (Some p) = chain_push (hyd x r (Some p)) b.
Proof.
  intros Hh Ht Hb Hp. destruct r as [ch i o tb tof sn hy]. cbn [r_hydrated r_tail_bid r_chain] in *. subst hy tb.
  unfold chain_push at 1. cbn [r_tail_bid r_chain r_idx r_off r_tail_off r_since r_hydrated].
  destruct (b_used b =? 0) eqn:Eu.
  { unfold chain_push. now rewrite Eu. }
  replace (0 =? b_id b) with false by lia.
  unfold hyd, hydrate. cbn [r_hydrated r_chain].
  destruct (p_tail p) eqn:Etail.
  - destruct Hp as ((j & Hj) & Hne).
    pose proof (find_id_bound _ _ _ _ Hj) as Hjb.
    assert (Hj' : find_id (ch ++ [b]) (p_a p) 0 = Some j) by (now apply find_id_app_some).
    pose proof (used_at_app_lt ch [b] j ltac:(lia)) as Hu.
    destruct x; unfold fold_tail, set_hydrated, set_cur, set_tail, chain_push;
      cbn [r_chain r_idx r_off r_tail_bid r_tail_off r_since r_hydrated];
      rewrite Hj, Hj', Hu, Eu; cbn [r_chain r_idx r_off r_tail_bid r_tail_off r_since r_hydrated].
    + replace (p_a p =? b_id b) with false by lia. reflexivity.
    + replace (0 =? b_id b) with false by lia. reflexivity.
  - unfold fold_tail, set_hydrated, set_cur, chain_push;
      cbn [r_chain r_idx r_off r_tail_bid r_tail_off r_since r_hydrated].
    rewrite app_length. cbn [length].
    rewrite (clamp_lt (p_a p) (length ch)) by lia. rewrite (clamp_lt (p_a p) (length ch + 1)) by lia.
    rewrite (used_at_app_lt ch [b] (N.to_nat (p_a p))) by lia.
    rewrite Eu. replace (0 =? b_id b) with false by lia. reflexivity.
Qed.

Lemma reader_of_seal ts b : reader_of (seal ts b) = chain_push (reader_of ts) b.
Proof. reflexivity. Qed.

Lemma chain_push_flags r b : r_hydrated (chain_push r b) = r_hydrated r /\ r_tail_bid (chain_push r b) = r_tail_bid r.
Proof. unfold chain_push. destruct (b_used b =? 0); [auto|]. destruct (r_tail_bid r =? b_id b); auto. Qed.

Lemma nrm_seal x ts b nid : CS ts (b_id b) nid -> nrm x (seal ts b) = seal (nrm x ts) b.
Proof.
  intros Hcs. unfold nrm. rewrite reader_of_seal.
  destruct (chain_push_flags (reader_of ts) b) as (F1 & F2). rewrite F1.
  destruct (r_hydrated (reader_of ts)) eqn:Eh; [reflexivity|].
  change (ts_index (seal ts b)) with (ts_index ts).
  destruct (ts_index ts) as [p|] eqn:Ei; [|reflexivity].
  destruct (Hcs Eh p Ei) as (Ht & Hb & Hp).
  rewrite (hyd_chain_push x (reader_of ts) b p Eh Ht Hb).
  - destruct ts; reflexivity.
  - destruct (p_tail p); [destruct Hp as (A & _ & B); split; assumption|exact Hp].
Qed.

Lemma nrm_with_writer x ts w : nrm x (with_writer ts w) = with_writer (nrm x ts) w.
Proof.
  unfold nrm. change (reader_of (with_writer ts w)) with (reader_of ts). change (ts_index (with_writer ts w)) with (ts_index ts).
  destruct (r_hydrated (reader_of ts)); [reflexivity|]. destruct (ts_index ts); reflexivity.
Qed.
Lemma nrm_count_add x ts d : nrm x (count_add ts d) = count_add (nrm x ts) d.
Proof.
  destruct ts as [rd wr po cn ix um]. unfold count_add, nrm, reader_of, with_reader.
  destruct (d =? 0); cbn [ts_reader ts_writer ts_poisoned ts_count ts_index ts_unmodelled];
    destruct (r_hydrated _); try reflexivity; destruct ix; reflexivity.
Qed.
Lemma nrm_with_poison x ts : nrm x (with_poison ts) = with_poison (nrm x ts).
Proof.
  destruct ts as [rd wr po cn ix um]. unfold with_poison, nrm, reader_of, with_reader.
  cbn [ts_reader ts_writer ts_poisoned ts_count ts_index ts_unmodelled].
  destruct (r_hydrated _); try reflexivity; destruct ix; reflexivity.
Qed.
Lemma Nst_mark_unmodelled x s t : Nst x (mark_unmodelled s t) = mark_unmodelled (Nst x s) t.
Proof.
  unfold mark_unmodelled. rewrite Nst_set_ts, get_Nst. f_equal.
  destruct (get_ts s t) as [rd wr po cn ix um]. unfold nrm, reader_of, with_reader.
  cbn [ts_reader ts_writer ts_poisoned ts_count ts_index ts_unmodelled].
  destruct (r_hydrated _); try reflexivity; destruct ix; reflexivity.
Qed.

Lemma alloc_first_Nst x c s : alloc_first c (Nst x s) = (Nst x (fst (alloc_first c s)), snd (alloc_first c s)).
Proof. unfold alloc_first, Nst. cbn [s_alloc s_files s_topics s_disk]. destruct (c_file c <=? _); reflexivity. Qed.
Lemma alloc_sized_Nst x c s want :
  alloc_sized c (Nst x s) want = match alloc_sized c s want with Some (s1, b) => Some (Nst x s1, b) | None => None end.
Proof.
  unfold alloc_sized, Nst. cbn [s_alloc s_files s_topics s_disk].
  destruct ((want =? 0) || (c_max_alloc c <? want)); [reflexivity|]. destruct (c_file c <? _); reflexivity.
Qed.
Lemma st_disk_write_Nst x s b t es : st_disk_write (Nst x s) b t es = Nst x (st_disk_write s b t es).
Proof. reflexivity. Qed.

Lemma ensure_writer_Nst x c s t :
  ensure_writer c (Nst x s) t = (Nst x (fst (ensure_writer c s t)), snd (ensure_writer c s t)).
Proof.
  unfold ensure_writer. rewrite get_Nst, nrm_writer. destruct (ts_writer (get_ts s (t_id t))); [reflexivity|].
  rewrite alloc_first_Nst. destruct (alloc_first c s) as [s1 b]. cbn [fst snd].
  now rewrite get_Nst, <- nrm_with_writer, <- Nst_set_ts.
Qed.
