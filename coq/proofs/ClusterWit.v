(* ClusterWit.v — witness schedules (each also replayed on the real code by the check:
   corpus/C22/*.case, corpus/C23/*.case) and the composed positive theorem of C22. *)
From W Require Import model.Base model.Map model.Bincode model.Meta model.Cluster model.ClusterSys
  spec.StreamSpec spec.ClusterClass proofs.StreamSpecP proofs.ClusterSeq.

Definition rp (k : nat) (e : cev) : list cev := repeat e k.

(* (1) two PUTs at the rollover threshold: c0 appends entry 1 of segment 1, counts 1 >= T = 1 and
   proposes Rollover(count = 1); before the node applies it c1 passes the lease check, appends
   entry 2 into the same segment, is acknowledged (and proposes a second rollover).  The reader
   leaves segment 1 after 1 entry.  The lease was valid: no C23 violation is involved. *)
Definition w1_cfg : ccfg := mkCfg 1 1 1 [[OPut 1]; [OPut 1]; [OGet 1; OGet 1; OGet 1]].
Definition w1_sched : list cev :=
  rp 10 (EvC 0) ++ rp 9 (EvC 1) ++ [EvA 1; EvA 1; EvC 0; EvC 1] ++ rp 14 (EvC 2).

Lemma w1_refutes :
  c22_verdict (cl_trace w1_cfg w1_sched) = 4 /\ c23_verdict w1_cfg (cl_trace w1_cfg w1_sched) = 0
  /\ k_under (cl_classes w1_cfg w1_sched) = true.
Proof. vm_compute. auto. Qed.

(* (3) a reader on a node whose apply lags answers EMPTY while an acknowledged entry sits in a
   segment it does not know yet (3 nodes, T = 1; node 3 has applied nothing after bootstrap) *)
Definition w3_cfg : ccfg := mkCfg 3 1 1 [[OPut 1; OPut 1]; [OGet 3; OGet 3]].
Definition w3_sched : list cev :=
  rp 10 (EvC 0) ++ [EvA 1; EvC 0; EvA 2] ++ rp 13 (EvC 0) ++ [EvA 1; EvC 0] ++ rp 10 (EvC 1).

Lemma w3_refutes :
  c22_verdict (cl_trace w3_cfg w3_sched) = 4 /\ c23_verdict w3_cfg (cl_trace w3_cfg w3_sched) = 0
  /\ k_lag (cl_classes w3_cfg w3_sched) = true /\ k_under (cl_classes w3_cfg w3_sched) = false.
Proof. vm_compute. auto. Qed.

(* (4) `offsets` is lost on restart: T = 2, one entry, restart, two more entries; the segment
   is sealed with count 2 but holds 3; the third acknowledged entry is never delivered *)
Definition w4_cfg : ccfg := mkCfg 1 2 1 [[OPut 1; OPut 1; OPut 1]; [OGet 1; OGet 1; OGet 1; OGet 1]].
Definition w4_sched : list cev :=
  rp 9 (EvC 0) ++ [EvR 1] ++ rp 19 (EvC 0) ++ [EvA 1; EvC 0] ++ rp 24 (EvC 1).

Lemma w4_refutes :
  c22_verdict (cl_trace w4_cfg w4_sched) = 4 /\ c23_verdict w4_cfg (cl_trace w4_cfg w4_sched) = 0
  /\ k_reset (cl_classes w4_cfg w4_sched) = true.
Proof. vm_compute. auto. Qed.

(* (2) a double rollover (PUT and monitor both propose from the counter of segment 1; the second
   command seals the then-current, empty segment 2 with count 1): the sealed count only
   OVER-states, the reader drains and moves on — accepted.  Not a defect by itself. *)
Definition w2_cfg : ccfg := mkCfg 1 1 1 [[OPut 1; OPut 1]; [OGet 1; OGet 1; OGet 1]].
Definition w2_sched : list cev :=
  rp 8 (EvC 0) ++ rp 4 (EvM 1) ++ [EvC 0; EvC 0; EvA 1; EvA 1; EvC 0; EvM 1] ++ rp 12 (EvC 0)
  ++ [EvA 1; EvC 0; EvC 0] ++ rp 20 (EvC 1).

Lemma w2_double_rollover_accepted :
  k_double (cl_classes w2_cfg w2_sched) = true /\ c22_verdict (cl_trace w2_cfg w2_sched) = 0
  /\ c23_verdict w2_cfg (cl_trace w2_cfg w2_sched) = 0.
Proof. vm_compute. auto. Qed.

(* (5a) check-then-write: c1's ensure_lease passes, apply@1 of the rollover sealing segment 1,
   then c1's engine append into segment 1 *)
Definition w5_cfg : ccfg := mkCfg 1 1 1 [[OPut 1]; [OPut 1]].
Definition w5a_sched : list cev := rp 10 (EvC 0) ++ rp 3 (EvC 1) ++ [EvA 1] ++ rp 6 (EvC 1) ++ [EvC 0].
Lemma w5a_refutes :
  c23_verdict w5_cfg (cl_trace w5_cfg w5a_sched) = 1 /\ k_ctw (cl_classes w5_cfg w5a_sched) = true.
Proof. vm_compute. auto. Qed.

(* (5b) stale refresh: c1 computes `expected` = {segment 1}, apply@1 of the sealing, the lease
   set still equals the stale `expected`, ensure_lease passes AFTER the apply, append *)
Definition w5b_sched : list cev := rp 10 (EvC 0) ++ [EvC 1; EvA 1] ++ rp 8 (EvC 1) ++ [EvC 0].
Lemma w5b_refutes :
  c23_verdict w5_cfg (cl_trace w5_cfg w5b_sched) = 1 /\ k_stale (cl_classes w5_cfg w5b_sched) = true.
Proof. vm_compute. auto. Qed.

(* the same two schedules under the fence: the apply waits, nothing is written after sealing *)
Lemma w5_fenced :
  c23_verdict w5_cfg (fenced_trace w5_cfg w5a_sched) = 0 /\ c23_verdict w5_cfg (fenced_trace w5_cfg w5b_sched) = 0.
Proof. vm_compute. auto. Qed.

(* the fence does not repair C22: witness (1) needs no stale lease *)
Lemma w1_fenced_still_loses : c22_verdict (fenced_trace w1_cfg w1_sched) = 4.
Proof. vm_compute. reflexivity. Qed.

(* ---------- the positive theorem of C22 ---------- *)
Lemma seq_accepted cfg sched :
  cf_nodes cfg = 1 -> cf_lead cfg = 1 -> 1 <= cf_thr cfg -> c22_ok (seq_trace cfg sched) = true.
Proof.
  intros H1 H2 H3. destruct (seq_model_ok cfg sched H1 H2 H3) as [A B].
  unfold c22_ok, c22_verdict. rewrite (c22_seq_sound _ B A). reflexivity.
Qed.

(* non-vacuity: a sequential run that delivers across two rollovers *)
Definition nv_cfg : ccfg := mkCfg 1 2 1 [[OPut 1; OPut 1; OPut 1; OPut 1; OPut 1]; [OGet 1; OGet 1; OGet 1; OGet 1; OGet 1; OGet 1]].
Definition nv_sched : list cev := rp 70 (EvC 0) ++ [EvM 1; EvM 1] ++ rp 40 (EvC 1).

(* existential forms, as pinned in props/ *)
Lemma c22_refuted_1 : exists cfg sched,
  c22_verdict (cl_trace cfg sched) = 4 /\ c23_verdict cfg (cl_trace cfg sched) = 0 /\ k_under (cl_classes cfg sched) = true.
Proof. exists w1_cfg, w1_sched. exact w1_refutes. Qed.
Lemma c22_refuted_3 : exists cfg sched,
  c22_verdict (cl_trace cfg sched) = 4 /\ c23_verdict cfg (cl_trace cfg sched) = 0
  /\ k_lag (cl_classes cfg sched) = true /\ k_under (cl_classes cfg sched) = false.
Proof. exists w3_cfg, w3_sched. exact w3_refutes. Qed.
Lemma c22_refuted_4 : exists cfg sched,
  c22_verdict (cl_trace cfg sched) = 4 /\ c23_verdict cfg (cl_trace cfg sched) = 0 /\ k_reset (cl_classes cfg sched) = true.
Proof. exists w4_cfg, w4_sched. exact w4_refutes. Qed.
Lemma c22_double_2 : exists cfg sched,
  k_double (cl_classes cfg sched) = true /\ c22_verdict (cl_trace cfg sched) = 0 /\ c23_verdict cfg (cl_trace cfg sched) = 0.
Proof. exists w2_cfg, w2_sched. exact w2_double_rollover_accepted. Qed.
Lemma c23_refuted_a : exists cfg sched,
  c23_verdict cfg (cl_trace cfg sched) = 1 /\ k_ctw (cl_classes cfg sched) = true.
Proof. exists w5_cfg, w5a_sched. exact w5a_refutes. Qed.
Lemma c23_refuted_b : exists cfg sched,
  c23_verdict cfg (cl_trace cfg sched) = 1 /\ k_stale (cl_classes cfg sched) = true.
Proof. exists w5_cfg, w5b_sched. exact w5b_refutes. Qed.


Lemma c22_full_false : ~ (forall cfg sched, c22_ok (cl_trace cfg sched) = true).
Proof.
  intros H. specialize (H w1_cfg w1_sched). unfold c22_ok in H. rewrite (proj1 w1_refutes) in H. discriminate H.
Qed.
Lemma c23_full_false : ~ (forall cfg sched, c23_ok cfg (cl_trace cfg sched) = true).
Proof.
  intros H. specialize (H w5_cfg w5a_sched). unfold c23_ok in H. rewrite (proj1 w5a_refutes) in H. discriminate H.
Qed.
Lemma fence_keeps_c22_broken : exists cfg sched, c22_verdict (fenced_trace cfg sched) = 4.
Proof. exists w1_cfg, w1_sched. exact w1_fenced_still_loses. Qed.
