(* CleanAccP.v — the C17 acceptor (spec/CleanSpec.v) accepts exactly the admissible runs:
   those that the model (model/Clean.v) produces under some placement of persister steps. *)
From Coq Require Import ZArith ZifyBool ZifyN ZifyNat.
From W Require Import model.Base model.Clean spec.CleanSpec proofs.CleanP.

(* ---------------------------------------------------------------- boolean equalities *)
Lemma list_eqb_sound {A} (f : A -> A -> bool) :
  (forall x y, f x y = true -> x = y) -> forall a b, list_eqb f a b = true -> a = b.
Proof.
  intros F. induction a as [|x a IH]; intros [|y b] H; cbn [list_eqb] in H; try reflexivity; try discriminate.
  apply andb_prop in H. destruct H as [H1 H2]. f_equal; [now apply F|now apply IH].
Qed.

Lemma str_eqb_sound a : forall b, str_eqb a b = true -> a = b.
Proof.
  induction a as [|x a IH]; intros [|y b] H; cbn [str_eqb] in H; try reflexivity; try discriminate.
  apply andb_prop in H. destruct H as [H1 H2]. apply N.eqb_eq in H1. subst. f_equal. now apply IH.
Qed.

Lemma crec_eqb_sound a b : crec_eqb a b = true -> a = b.
Proof.
  destruct a as [g1 c1], b as [g2 c2]. unfold crec_eqb. cbn [cr_gen cr_clean]. intros H. apply andb_prop in H. destruct H as [H1 H2].
  apply N.eqb_eq in H1. apply Bool.eqb_prop in H2. now subst.
Qed.

Lemma cmap_eqb_sound a b : cmap_eqb a b = true -> a = b.
Proof.
  apply list_eqb_sound. intros [k v] [k' v'] H. cbn [fst snd] in H. apply andb_prop in H. destruct H as [H1 H2].
  apply str_eqb_sound in H1. apply crec_eqb_sound in H2. now subst.
Qed.

Lemma kphase_eqb_sound a b : kphase_eqb a b = true -> a = b.
Proof.
  destruct a, b; cbn [kphase_eqb]; intros H; try reflexivity; try discriminate.
  - f_equal. revert H. apply list_eqb_sound. intros x y. apply str_eqb_sound.
  - f_equal. now apply cmap_eqb_sound.
Qed.

Lemma kinst_eqb_sound a b : kinst_eqb a b = true -> a = b.
Proof.
  destruct a as [m1 q1 p1 s1], b as [m2 q2 p2 s2]. unfold kinst_eqb. cbn [ki_mem ki_queue ki_phase ki_store]. intros H.
  apply andb_prop in H. destruct H as [H H4]. apply andb_prop in H. destruct H as [H H3].
  apply andb_prop in H. destruct H as [H1 H2].
  apply cmap_eqb_sound in H1, H4. apply kphase_eqb_sound in H3.
  apply (list_eqb_sound str_eqb (fun x y => str_eqb_sound x y)) in H2. now subst.
Qed.

Lemma kst_eqb_sound a b : kst_eqb a b = true -> a = b.
Proof.
  destruct a as [d1 l1 o1], b as [d2 l2 o2]. unfold kst_eqb. cbn [ks_disk ks_live ks_orphans]. intros H.
  apply andb_prop in H. destruct H as [H H3]. apply andb_prop in H. destruct H as [H1 H2].
  apply cmap_eqb_sound in H1. apply kinst_eqb_sound in H2.
  apply (list_eqb_sound cmap_eqb cmap_eqb_sound) in H3. now subst.
Qed.

Lemma k_dedup_In l : forall x, In x (k_dedup l) <-> In x l.
Proof.
  induction l as [|y r IH]; intros x; cbn [k_dedup]; [tauto|].
  destruct (existsb (kst_eqb y) r) eqn:E.
  - rewrite IH. cbn [In]. split; [tauto|]. intros [H|H]; [|exact H].
    subst y. apply existsb_exists in E. destruct E as [z [Z1 Z2]]. apply kst_eqb_sound in Z2. now subst.
  - cbn [In]. rewrite IH. tauto.
Qed.

(* ---------------------------------------------------------------- persister steps *)
Lemma with_live_same s : with_live s (ks_live s) = s.
Proof. destruct s; reflexivity. Qed.

Lemma k_psteps_app v s es1 es2 : k_psteps v s (es1 ++ es2) = k_psteps v (k_psteps v s es1) es2.
Proof. unfold k_psteps. apply fold_left_app. Qed.

Lemma k_expand_sound v s c : In c (k_expand s) ->
  exists e, k_is_pev e = true /\ c = fst (k_step v s e).
Proof.
  unfold k_expand. intros H. apply in_app_or in H. destruct H as [H|H].
  - cbn [In] in H. destruct H as [H|[H|[H|[]]]]; subst c.
    + exists KRecv. split; reflexivity.
    + exists KSnap. split; reflexivity.
    + exists KLand. split; reflexivity.
  - apply in_map_iff in H. destruct H as [k [H _]]. subst c. exists (KOLand k). split; reflexivity.
Qed.

Lemma k_expand_complete v s e : k_is_pev e = true ->
  fst (k_step v s e) = s \/ In (fst (k_step v s e)) (k_expand s).
Proof.
  intros P. destruct e; try discriminate P; cbn [k_step fst]; unfold k_expand.
  - right. apply in_or_app. left. cbn [In]. auto.
  - right. apply in_or_app. left. cbn [In]. auto.
  - right. apply in_or_app. left. cbn [In]. auto.
  - destruct (nth_error (ks_orphans s) k) eqn:N.
    + right. apply in_or_app. right. apply in_map_iff. exists k. split; [reflexivity|].
      apply in_seq. split; [lia|]. cbn. apply nth_error_Some. congruence.
    + left. unfold k_oland. now rewrite N.
Qed.

(* measure: how many effective persister steps can still happen without a client call *)
Definition k_rank (s : kst) : nat :=
  match ki_phase (ks_live s), ki_queue (ks_live s) with
  | KIdle, [] => 0
  | KFlying _, [] => 1
  | KGot _, [] => 2
  | KIdle, _ :: _ => 3
  | KFlying _, _ :: _ => 4
  | KGot _, _ :: _ => 5
  end%nat.
Definition k_mu (s : kst) : nat := (k_rank s + length (ks_orphans s))%nat.

Lemma k_rank_le s : (k_rank s <= 5)%nat.
Proof. unfold k_rank. destruct (ki_phase (ks_live s)), (ki_queue (ks_live s)); lia. Qed.

Lemma drop_nth_length {A} (l : list A) : forall k x, nth_error l k = Some x -> S (length (drop_nth k l)) = length l.
Proof.
  induction l as [|y r IH]; intros [|k] x H; cbn [nth_error drop_nth length] in *; try discriminate; [reflexivity|].
  f_equal. now apply (IH k x).
Qed.

Lemma k_pstep_mu v s e : k_is_pev e = true ->
  fst (k_step v s e) = s \/ (k_mu (fst (k_step v s e)) < k_mu s)%nat.
Proof.
  intros P. destruct s as [disk [mem q ph store] orph].
  destruct e; try discriminate P; cbn [k_step fst]; unfold k_mu, k_rank.
  - unfold k_recv. cbn [with_live ks_live ks_disk ks_orphans ki_phase ki_queue ki_mem ki_store].
    destruct ph; [|left; reflexivity|left; reflexivity]. destruct q; [left; reflexivity|right; cbn; lia].
  - unfold k_snap. cbn [with_live ks_live ks_disk ks_orphans ki_phase ki_queue ki_mem ki_store].
    destruct ph; [left; reflexivity| |left; reflexivity].
    destruct (k_updates p mem); destruct q; right; cbn; lia.
  - unfold k_land. cbn [with_live ks_live ks_disk ks_orphans ki_phase ki_queue ki_mem ki_store].
    destruct ph; [left; reflexivity|left; reflexivity|]. destruct q; right; cbn; lia.
  - unfold k_oland. cbn [ks_orphans ks_live ks_disk].
    destruct (nth_error orph k) eqn:N; [|left; reflexivity]. right.
    cbn [ks_live ks_orphans ki_phase ki_queue]. pose proof (drop_nth_length orph k c N). lia.
Qed.

(* ---------------------------------------------------------------- the closure *)
Lemma k_closure_sound v : forall n S c, In c (k_closure n S) ->
  exists s es, In s S /\ Forall (fun e => k_is_pev e = true) es /\ k_psteps v s es = c.
Proof.
  induction n as [|n IH]; intros S c H; cbn [k_closure] in H.
  - exists c, []. repeat split; auto.
  - apply (proj1 (k_dedup_In _ _)) in H. apply in_app_or in H. destruct H as [H|H]; [now apply IH|].
    apply in_flat_map in H. destruct H as [c0 [H0 H1]].
    destruct (IH S c0 H0) as [s [es [A [B C]]]].
    destruct (k_expand_sound v c0 c H1) as [e [E1 E2]].
    exists s, (es ++ [e]). split; [exact A|]. split.
    + apply Forall_app. split; [exact B|]. constructor; [exact E1|constructor].
    + rewrite k_psteps_app, C. cbn. now subst c.
Qed.

Lemma k_closure_mono n S x : In x (k_closure n S) -> In x (k_closure (Datatypes.S n) S).
Proof. intros H. cbn [k_closure]. apply (proj2 (k_dedup_In _ _)). apply in_or_app. now left. Qed.

Lemma k_closure_le S x : forall m n, (n <= m)%nat -> In x (k_closure n S) -> In x (k_closure m S).
Proof.
  induction m as [|m IH]; intros n L H.
  - assert (n = 0)%nat by lia. now subst.
  - destruct (Nat.eq_dec n (Datatypes.S m)) as [->|NE]; [exact H|].
    apply k_closure_mono. apply (IH n); [lia|exact H].
Qed.

Lemma k_closure_step v n S x e : In x (k_closure n S) -> k_is_pev e = true ->
  In (fst (k_step v x e)) (k_closure (Datatypes.S n) S).
Proof.
  intros H P. destruct (k_expand_complete v x e P) as [E|E].
  - rewrite E. now apply k_closure_mono.
  - cbn [k_closure]. apply (proj2 (k_dedup_In _ _)). apply in_or_app. right. apply in_flat_map. now exists x.
Qed.

Lemma k_closure_reach v S N : forall es x n,
  Forall (fun e => k_is_pev e = true) es -> In x (k_closure n S) -> (k_mu x + n <= N)%nat ->
  In (k_psteps v x es) (k_closure N S).
Proof.
  induction es as [|e es IH]; intros x n F H L.
  - cbn. apply (k_closure_le S x N n); [lia|exact H].
  - inversion F as [|? ? P F']; subst. change (k_psteps v x (e :: es)) with (k_psteps v (fst (k_step v x e)) es).
    destruct (k_pstep_mu v x e P) as [E|E].
    + rewrite E. now apply (IH x n).
    + apply (IH _ (Datatypes.S n)); [exact F'| now apply k_closure_step | lia].
Qed.

Lemma k_fuel_enough S s : In s S -> (k_mu s <= k_fuel S)%nat.
Proof.
  intros H. unfold k_mu, k_fuel. pose proof (k_rank_le s).
  assert (length (ks_orphans s) <= list_max (map (fun s => length (ks_orphans s)) S))%nat.
  { pose proof (proj1 (list_max_le (map (fun s => length (ks_orphans s)) S) _) (le_n _)) as F.
    rewrite Forall_forall in F. apply F. apply in_map_iff. now exists s. }
  lia.
Qed.

Lemma k_closure_complete v S s es :
  In s S -> Forall (fun e => k_is_pev e = true) es -> In (k_psteps v s es) (k_closure (k_fuel S) S).
Proof.
  intros H F. apply (k_closure_reach v S (k_fuel S) es s 0%nat F); [exact H|].
  pose proof (k_fuel_enough S s H). lia.
Qed.

(* ---------------------------------------------------------------- the acceptor *)
Lemma k_after_In v S b s' :
  In s' (k_after v S b) <->
  exists s es, In s S /\ Forall (fun e => k_is_pev e = true) es /\ k_ostep v (k_psteps v s es) b = Some s'.
Proof.
  unfold k_after. rewrite k_dedup_In, in_flat_map. split.
  - intros [c [C1 C2]]. destruct (k_closure_sound v _ _ _ C1) as [s [es [A [B C]]]].
    exists s, es. split; [exact A|]. split; [exact B|]. rewrite C.
    destruct (k_ostep v c b); cbn [In] in C2; [|contradiction]. destruct C2 as [->|[]]. reflexivity.
  - intros [s [es [A [B C]]]]. exists (k_psteps v s es). split; [now apply k_closure_complete|].
    rewrite C. now left.
Qed.

Lemma k_accept_from_iff v : forall h S,
  k_accept_from v S h = true <->
  exists s bursts, In s S /\ k_pev_only bursts /\ k_sched v s h bursts <> None.
Proof.
  induction h as [|b h IH]; intros S; cbn [k_accept_from].
  - split.
    + destruct S as [|s S]; [discriminate|]. intros _. exists s, []. split; [now left|]. split; [constructor|discriminate].
    + intros [s [_ [H _]]]. destruct S; [contradiction|reflexivity].
  - rewrite IH. split.
    + intros [s' [bs' [A [B C]]]]. apply k_after_In in A. destruct A as [s [es [A1 [A2 A3]]]].
      exists s, (es :: bs'). split; [exact A1|]. split; [now constructor|].
      cbn [k_sched]. now rewrite A3.
    + intros [s [bs [A [B C]]]]. destruct bs as [|es bs']; cbn [k_sched] in C; [congruence|].
      destruct (k_ostep v (k_psteps v s es) b) as [s'|] eqn:O; [|congruence].
      inversion B as [|? ? B1 B2]; subst.
      exists s', bs'. split; [|split; assumption]. apply k_after_In. now exists s, es.
Qed.

Theorem clean_acceptor_means v : forall h, k_accept v h = true <-> k_admissible v h.
Proof.
  intros h. unfold k_accept, k_admissible. rewrite k_accept_from_iff. split.
  - intros [s [bs [[<-|[]] H]]]. now exists bs.
  - intros [bs H]. exists k_init, bs. split; [now left|exact H].
Qed.

(* ---------------------------------------------------------------- schedules are model runs *)
Lemma k_run_app v : forall h1 h2 s,
  k_run v s (h1 ++ h2) =
  (fst (k_run v (fst (k_run v s h1)) h2), snd (k_run v s h1) ++ snd (k_run v (fst (k_run v s h1)) h2)).
Proof.
  induction h1 as [|o h1 IH]; intros h2 s.
  - cbn. now destruct (k_run v s h2).
  - cbn [app k_run]. destruct (k_step v s o) as [s1 r]. rewrite IH.
    destruct (k_run v s1 h1) as [s2 rs]. cbn [fst snd].
    destruct (k_run v s2 h2) as [s3 rs']. cbn [fst snd]. destruct r; reflexivity.
Qed.

Lemma k_run_pev v : forall es s, Forall (fun e => k_is_pev e = true) es -> k_run v s es = (k_psteps v s es, []).
Proof.
  induction es as [|e es IH]; intros s F; [reflexivity|].
  inversion F as [|? ? P F']; subst. cbn [k_run].
  change (k_psteps v s (e :: es)) with (k_psteps v (fst (k_step v s e)) es).
  destruct (k_step v s e) as [s1 r] eqn:E. rewrite (IH s1 F'). cbn [fst].
  destruct e; try discriminate P; cbn [k_step] in E; inversion E; reflexivity.
Qed.

Definition k_answer_of (b : kobs) : list bool := match b with BIsClean _ x => [x] | _ => [] end.

Lemma k_ostep_run v s b s' : k_ostep v s b = Some s' -> k_run v s (k_op_of b) = (s', k_answer_of b).
Proof.
  destruct b; cbn [k_ostep k_op_of k_answer_of k_run k_step fst]; intros H; try (inversion H; reflexivity).
  - destruct (Bool.eqb (k_clean_of (ki_mem (ks_live s)) t) b) eqn:E; [|discriminate].
    apply Bool.eqb_prop in E. inversion H; subst. reflexivity.
  - destruct (cmap_eqb (ks_disk s) m); [|discriminate]. inversion H; reflexivity.
  - destruct (k_synced s ts); [|discriminate]. inversion H; reflexivity.
  - destruct (k_quiet s && negb (k_synced s ts)); [|discriminate]. inversion H; reflexivity.
Qed.

Lemma k_answers_cons b h : k_answers (b :: h) = k_answer_of b ++ k_answers h.
Proof. destruct b; reflexivity. Qed.

Lemma k_sched_weave v : forall h bursts s s',
  k_pev_only bursts -> k_sched v s h bursts = Some s' ->
  exists s'', k_run v s (k_weave h bursts) = (s'', k_answers h).
Proof.
  induction h as [|b h IH]; intros bs s s' P H.
  - exists s. destruct bs; reflexivity.
  - destruct bs as [|es bs']; cbn [k_sched] in H; [discriminate|].
    destruct (k_ostep v (k_psteps v s es) b) as [s1|] eqn:O; [|discriminate].
    inversion P as [|? ? P1 P2]; subst.
    destruct (IH bs' s1 s' P2 H) as [s'' R].
    exists s''. cbn [k_weave]. rewrite k_run_app, (k_run_pev v es s P1). cbn [fst snd app].
    rewrite k_run_app, (k_ostep_run v _ _ _ O). cbn [fst snd]. rewrite R. cbn [fst snd].
    now rewrite k_answers_cons.
Qed.

(* persister steps do not change what C17 demands *)
Lemma kspec_outs_pev : forall es f rest,
  Forall (fun e => k_is_pev e = true) es -> kspec_outs f (es ++ rest) = kspec_outs f rest.
Proof.
  induction es as [|e es IH]; intros f rest F; [reflexivity|].
  inversion F as [|? ? P F']; subst. cbn [app]. rewrite kspec_outs_cons.
  destruct e; try discriminate P; cbn [kspec_step]; now apply IH.
Qed.

Lemma kspec_outs_weave v : forall h bursts s s' f,
  k_pev_only bursts -> k_sched v s h bursts = Some s' ->
  kspec_outs f (k_weave h bursts) = kspec_outs f (k_client h).
Proof.
  induction h as [|b h IH]; intros bs s s' f P H.
  - destruct bs; reflexivity.
  - destruct bs as [|es bs']; cbn [k_sched] in H; [discriminate|].
    destruct (k_ostep v (k_psteps v s es) b) as [s1|] eqn:O; [|discriminate].
    inversion P as [|? ? P1 P2]; subst.
    cbn [k_weave k_client flat_map]. rewrite (kspec_outs_pev es f _ P1).
    fold (k_client h).
    destruct b; cbn [k_op_of app]; rewrite ?kspec_outs_cons; try (now apply (IH bs' s1 s')); f_equal; now apply (IH bs' s1 s').
Qed.

(* with the flush on drop, an accepted run satisfies C17 literally *)
Theorem clean_accept_flush_exact : forall h,
  k_accept KFlush h = true -> k_answers h = kspec_outs kspec0 (k_client h).
Proof.
  intros h A. apply clean_acceptor_means in A. destruct A as [bs [P S]].
  destruct (k_sched KFlush k_init h bs) as [s'|] eqn:E; [|congruence].
  destruct (k_sched_weave KFlush h bs k_init s' P E) as [s'' R].
  rewrite <- (kspec_outs_weave KFlush h bs k_init s' kspec0 P E).
  rewrite <- (clean_restart_flush (k_weave h bs)). unfold k_outs. now rewrite R.
Qed.

(* ... and so does, on the code as it is, an accepted run whose woven history is settled *)
Theorem clean_accept_pinned_settled : forall h bursts s',
  k_pev_only bursts -> k_sched KPinned k_init h bursts = Some s' ->
  k_settled KPinned k_init (k_weave h bursts) = true ->
  k_answers h = kspec_outs kspec0 (k_client h).
Proof.
  intros h bs s' P E St.
  destruct (k_sched_weave KPinned h bs k_init s' P E) as [s'' R].
  rewrite <- (kspec_outs_weave KPinned h bs k_init s' kspec0 P E).
  rewrite <- (clean_outside_known (k_weave h bs) St). unfold k_outs. now rewrite R.
Qed.

Lemma list_eqb_bool_iff : forall a b, list_eqb Bool.eqb a b = true <-> a = b.
Proof.
  split; [apply list_eqb_sound; intros x y; apply Bool.eqb_prop|].
  intros <-. induction a as [|x a IH]; [reflexivity|]. cbn [list_eqb]. now rewrite Bool.eqb_reflx, IH.
Qed.

Theorem clean_c17_ok_means : forall h,
  k_c17_ok h = true <-> k_answers h = kspec_outs kspec0 (k_client h).
Proof. intros h. unfold k_c17_ok. apply list_eqb_bool_iff. Qed.

Theorem clean_accept_flush_c17 : forall h, k_accept KFlush h = true -> k_c17_ok h = true.
Proof. intros h A. apply clean_c17_ok_means. now apply clean_accept_flush_exact. Qed.
