(* EngineMain.v — every sequential, restart-free history of admissible operations: the
   model's trace is accepted by the queue-spec acceptors for C01, C03 and C15. *)
From W Require Import model.Base model.Engine spec.Queue proofs.EngineBasic proofs.EngineWF proofs.EngineInv
  proofs.EngineBR proofs.EngineW.
From Coq Require Import ZArith ZifyBool ZifyN ZifyNat.

(* ------------------------------------------------------------------ ledger as an assoc list *)
Lemma lget_lset_same g t l : lget (lset g t l) t = l.
Proof.
  unfold lget, lset. induction g as [|[k v] g IH]; cbn.
  - now rewrite N.eqb_refl.
  - destruct (k =? t) eqn:E; cbn; [now rewrite N.eqb_refl|]. rewrite E. exact IH.
Qed.
Lemma lget_lset_other g t t' l : t' <> t -> lget (lset g t l) t' = lget g t'.
Proof.
  intros Hne. unfold lget, lset. induction g as [|[k v] g IH]; cbn.
  - replace (t =? t') with false by lia. reflexivity.
  - destruct (k =? t) eqn:E; cbn.
    + replace (t =? t') with false by lia. replace (k =? t') with false by lia. reflexivity.
    + destruct (k =? t'); [reflexivity|exact IH].
Qed.

Definition sum_len (es : list entry) : N := fold_right (fun e a => e_len e + a) 0 es.

(* ------------------------------------------------------------------ admissible operations *)
(* every append, batch (accepted or rejected for its size, its entry count, its topic name),
   read and count is admissible; restarts are C06's subject *)
Definition op_ok (c : Cfg) (o : op) : Prop :=
  match o with
  | OReopen => False
  | _ => True
  end.

Lemma appendable_none_inv c t l : cfg_ok c -> appendable c t l = None ->
  name_ok c t = true /\ c_hdr c + l <= c_max_alloc c.
Proof.
  intros (Hh & Hb0 & Hba & Hbm & Hme & Hhb). unfold appendable.
  destruct (c_max_alloc c <? N.min u64_max (c_hdr c + l)) eqn:E; [discriminate|].
  destruct (name_ok c t); cbn [negb]; [|discriminate]. intros _. split; [reflexivity|lia].
Qed.

Lemma max_len_forall c es : c_hdr c + max_len es <= c_max_alloc c -> Forall (fun e => need c e <= c_max_alloc c) es.
Proof.
  induction es as [|e es IH]; intros H; [constructor|]. cbn [max_len fold_right] in H. fold (max_len es) in H.
  constructor; [unfold need; lia|apply IH; lia].
Qed.

Definition offered (o : op) : list entry :=
  match o with OAppend _ e => [e] | OBatch _ es => es | _ => [] end.
Fixpoint offered_all (ops : list op) : list entry :=
  match ops with [] => [] | o :: r => offered o ++ offered_all r end.

(* the model state and the ledger of the spec tell the same story; [B] bounds the number of
   appended entries, [Bb] their total payload bytes (so that u64 counters never saturate) *)
Definition Rel (c : Cfg) (s : st) (g : lg) (B Bb : N) : Prop :=
  GInv c s /\
  forall t, (l_del (lget g t) <= length (l_app (lget g t)))%nat /\
            stream (get_ts s t) = l_app (lget g t) /\
            unread c (get_ts s t) = skipn (l_del (lget g t)) (l_app (lget g t)) /\
            N.of_nat (length (l_app (lget g t))) <= B /\ sum_len (l_app (lget g t)) <= Bb.

Lemma Rel_init c : Rel c init [] 0 0.
Proof. split; [apply GInv_init|]. intros t. cbn. repeat split; lia. Qed.

Lemma sum_len_app a b : sum_len (a ++ b) = sum_len a + sum_len b.
Proof. unfold sum_len. induction a; cbn; [lia|]. rewrite IHa. lia. Qed.

Lemma out_is_out_of e : out_is (out_of e) e = true.
Proof. unfold out_is, out_of; cbn. rewrite !N.eqb_refl. cbn. now rewrite orb_true_r. Qed.
Lemma outs_are_map l : outs_are (map out_of l) l = true.
Proof. induction l; cbn; [reflexivity|]. now rewrite out_is_out_of, IHl. Qed.

Lemma skipn_skipn {A} (l : list A) a b : skipn b (skipn a l) = skipn (a + b) l.
Proof. symmetry. apply skipn_add. Qed.

Lemma sum_out_len_map l : sum_out_len (map out_of l) = sum_len l.
Proof. unfold sum_out_len, sum_len. induction l; cbn; [reflexivity|]. now rewrite IHl. Qed.
Lemma sum_len_firstn_le l k : sum_len (firstn k l) <= sum_len l.
Proof. rewrite <- (firstn_skipn k l) at 2. rewrite sum_len_app. lia. Qed.
Lemma sum_len_skipn_le l k : sum_len (skipn k l) <= sum_len l.
Proof. rewrite <- (firstn_skipn k l) at 2. rewrite sum_len_app. lia. Qed.

(* a stateless (offset-addressed) read leaves the topic state as it is *)
Lemma br_from_stateless c m s t maxb ck ts chain idx0 off0 tb tof trim0 hint0 :
  exists os, br_from c m s t maxb ck ts (None, chain, idx0, off0, tb, tof, trim0, hint0, true) =
             (set_ts s (t_id t) ts, REntries os).
Proof.
  unfold br_from. cbn zeta.
  destruct (plan_sealed _ _ _ _ _ _ _ _ _) as [[[racc planned] idx_after] truncated].
  match goal with |- context [let '(_, _) := ?X in _] => destruct X as [racc2 trim1] end.
  destruct racc2; [eexists; reflexivity|].
  cbn [negb]. rewrite !andb_false_r. eexists; reflexivity.
Qed.

Lemma br_position_stateless c ts st0 :
  exists chain idx0 off0 tb tof trim0 hint0,
    br_position c ts (Some st0) = (None, chain, idx0, off0, tb, tof, trim0, hint0, true).
Proof.
  unfold br_position.
  destruct (off_locate _ 0 st0) as [[[i b]|] rem].
  - destruct (off_scan c (b_ents b) 0 (b_used b) rem) as [[[[co hint] trim]|] fl]; [|destruct fl]; repeat eexists.
  - repeat eexists.
Qed.

Lemma batch_read_stateless c m s t maxb ck st0 :
  exists os, batch_read c m s t maxb ck (Some st0) = (set_ts s (t_id t) (get_ts s (t_id t)), REntries os).
Proof.
  unfold batch_read.
  destruct (br_position_stateless c (get_ts s (t_id t)) st0) as (chain & idx0 & off0 & tb & tof & trim0 & hint0 & E).
  rewrite E. apply br_from_stateless.
Qed.

(* ------------------------------------------------------------------ one step *)
Definition env_of (c : Cfg) (m : mode) (be : backend) : env := {| v_cfg := c; v_mode := m; v_backend := be |}.

Lemma Rel_other c s s' g g' t B Bb B' Bb' :
  Rel c s g B Bb -> GInv c s' -> B <= B' -> Bb <= Bb' ->
  others_same s s' t -> (forall t', t' <> t -> lget g' t' = lget g t') ->
  ((l_del (lget g' t) <= length (l_app (lget g' t)))%nat /\
   stream (get_ts s' t) = l_app (lget g' t) /\
   unread c (get_ts s' t) = skipn (l_del (lget g' t)) (l_app (lget g' t)) /\
   N.of_nat (length (l_app (lget g' t))) <= B' /\ sum_len (l_app (lget g' t)) <= Bb') ->
  Rel c s' g' B' Bb'.
Proof.
  intros (_ & Hall) Hg' HB HBb Hoth Hl Ht. split; [exact Hg'|]. intros t'.
  destruct (N.eq_dec t' t) as [->|Hne]; [exact Ht|].
  rewrite (Hoth t' Hne), (Hl t' Hne). destruct (Hall t') as (A & B0 & C0 & D & E). repeat split; auto; lia.
Qed.

Lemma Rel_mono c s g B Bb B' Bb' : Rel c s g B Bb -> B <= B' -> Bb <= Bb' -> Rel c s g B' Bb'.
Proof. intros (Hg & Hall) H1 H2. split; [exact Hg|]. intros t. destruct (Hall t) as (A & B0 & C0 & D & E). repeat split; auto; lia. Qed.

(* creating the topic's writer (its first block) changes nothing the consumer can see *)
Lemma ensure_rel c s g B Bb t : cfg_ok c -> Rel c s g B Bb ->
  Rel c (fst (ensure_writer c s t)) g B Bb.
Proof.
  intros Hc (Hg & Hall).
  destruct (ensure_writer_spec c s t Hc Hg) as (s1 & w & He & Hle1 & Hn1 & Hoth1 & Hw1 & Hp1 & Hst1 & Hun1 & Hcnt1).
  rewrite He. cbn [fst].
  assert (Hg1 : GInv c s1).
  { destruct Hg as (Hn & Hti). eapply GInv_update with (t := t_id t); [split; [exact Hn|exact Hti]|exact Hle1|exact Hoth1|reflexivity|].
    apply TInvP_cnt; [exact Hp1|]. rewrite Hcnt1, Hun1. apply (ti_cnt _ _ _ (Hti (t_id t))). }
  eapply Rel_other with (t := t_id t) (g := g); [split; [exact Hg|exact Hall]|exact Hg1|lia|lia|exact Hoth1|reflexivity|].
  rewrite Hst1, Hun1. apply Hall.
Qed.

Lemma skipn_cons_S {A} (l : list A) d x r : skipn d l = x :: r -> skipn (S d) l = r /\ (S d <= length l)%nat.
Proof.
  revert l; induction d as [|d IH]; intros l H; destruct l; cbn in *; try discriminate.
  - inversion H; subst. split; [reflexivity|lia].
  - destruct (IH _ H). split; [assumption|lia].
Qed.

Lemma step_ok c m be s g B Bb o : cfg_ok c -> Rel c s g B Bb -> op_ok c o ->
  B + N.of_nat (length (offered o)) <= u64_max -> Bb + sum_len (offered o) <= u64_max ->
  let '(s', r) := step (env_of c m be) s o in
  c01_step_ok g o r = true /\ c15_step_ok g o r = true /\ c03_step_ok (c_max_entries c) g o r = true /\
  Rel c s' (ledger_step g o r) (B + N.of_nat (length (offered o))) (Bb + sum_len (offered o)).
Proof.
  intros Hc Hrel Hok HB HBb. pose proof Hrel as (Hg & Hall).
  destruct o as [t e | t es | t ck | t maxb ck start | t | ]; cbn [step env_of v_cfg v_mode v_backend op_ok offered] in *.
  - (* append *)
    destruct (appendable c t (e_len e)) as [k|] eqn:Eap.
    { (* rejected on its arguments: at most the topic's writer was created *)
      pose proof (ensure_rel c s g B Bb t Hc Hrel) as Hen.
      unfold append. destruct (ensure_writer c s t) as [s1 w]. cbn [fst] in Hen. rewrite Eap.
      cbn [c01_step_ok c15_step_ok c03_step_ok ledger_step].
      split; [reflexivity|]. split; [reflexivity|]. split; [reflexivity|].
      eapply Rel_mono; [exact Hen|lia|lia]. }
    destruct (appendable_none_inv c t _ Hc Eap) as (Hname & Hsz). fold (need c e) in Hsz.
    destruct (Hall (t_id t)) as (Hd & Hs & Hu & Hb1 & Hb2).
    assert (Hcb : cnt (get_ts s (t_id t)) + 1 <= u64_max).
    { destruct Hg as (_ & Hti). rewrite (ti_cnt _ _ _ (Hti (t_id t))), Hu, skipn_length. cbn [length] in HB. lia. }
    destruct (append_spec c s t e Hc Hg Hname Hsz Hcb) as (s' & Ha & Hg' & Hoth & Hst & Hun).
    rewrite Ha. cbn [c01_step_ok c15_step_ok c03_step_ok ledger_step].
    split; [reflexivity|]. split; [reflexivity|]. split; [reflexivity|].
    eapply Rel_other with (t := t_id t); eauto; try lia.
    + intros t' Hne. now apply lget_lset_other.
    + rewrite lget_lset_same. cbn [l_app l_del]. rewrite app_length. cbn [length sum_len fold_right] in *.
      repeat split; try lia.
      * now rewrite Hst, Hs.
      * rewrite Hun, Hu. now rewrite skipn_app_le by lia.
      * rewrite sum_len_app. cbn. unfold sum_len in *. cbn in *. lia.
  - (* batch *)
    destruct (appendable c t (max_len es)) as [k|] eqn:Eap.
    { pose proof (ensure_rel c s g B Bb t Hc Hrel) as Hen.
      unfold batch. destruct (ensure_writer c s t) as [s1 w]. cbn [fst] in Hen.
      assert (Hfin : forall k0, c01_step_ok g (OBatch t es) (RErr k0) = true /\ c15_step_ok g (OBatch t es) (RErr k0) = true /\
                c03_step_ok (c_max_entries c) g (OBatch t es) (RErr k0) = true /\
                Rel c s1 (ledger_step g (OBatch t es) (RErr k0)) (B + N.of_nat (length es)) (Bb + sum_len es)).
      { intros k0. cbn [c01_step_ok c15_step_ok c03_step_ok ledger_step].
        split; [reflexivity|]. split; [reflexivity|]. split; [reflexivity|]. eapply Rel_mono; [exact Hen|lia|lia]. }
      destruct (c_max_entries c <? N.of_nat (length es)); [apply Hfin|].
      destruct (c_max_bytes c <? sum_need c es); [apply Hfin|]. rewrite Eap. apply Hfin. }
    destruct (appendable_none_inv c t _ Hc Eap) as (Hname & Hsz0).
    assert (Hok' : batch_ok c t es) by (split; [exact Hname|now apply max_len_forall]).
    clear Hok. rename Hok' into Hok.
    destruct (Hall (t_id t)) as (Hd & Hs & Hu & Hb1 & Hb2).
    assert (Hcb : cnt (get_ts s (t_id t)) + N.of_nat (length es) <= u64_max).
    { destruct Hg as (_ & Hti). rewrite (ti_cnt _ _ _ (Hti (t_id t))), Hu, skipn_length. lia. }
    destruct (batch_spec c be s t es Hc Hg Hok Hcb) as (s' & r & Ha & Hg' & Hoth & Hres).
    rewrite Ha. destruct Hres as [(-> & Hst & Hun) | (-> & Hst & Hun)]; cbn [c01_step_ok c15_step_ok c03_step_ok ledger_step].
    + split; [reflexivity|]. split; [reflexivity|]. split; [reflexivity|].
      eapply Rel_other with (t := t_id t); eauto; try lia.
      * intros t' Hne. now apply lget_lset_other.
      * rewrite lget_lset_same. cbn [l_app l_del]. rewrite app_length, sum_len_app.
        repeat split; try lia.
        -- now rewrite Hst, Hs.
        -- rewrite Hun, Hu. now rewrite skipn_app_le by lia.
    + split; [reflexivity|]. split; [reflexivity|]. split; [reflexivity|].
      eapply Rel_other with (t := t_id t); eauto; try lia.
      rewrite Hst, Hun. repeat split; auto; lia.
  - (* read_next *)
    destruct Hg as (Hn & Hti).
    destruct (read_next_spec c m s t ck (a_next (s_alloc s)) Hc (Hti (t_id t))) as (ts' & res & Hr & Hinv' & Hst' & _ & Hcase).
    rewrite Hr. destruct (Hall (t_id t)) as (Hd & Hs & Hu & Hb1 & Hb2).
    assert (Hg' : GInv c (set_ts s (t_id t) ts')).
    { eapply GInv_update with (t := t_id t); [split; [exact Hn|exact Hti]| | | |]; cbn [set_ts s_alloc]; try lia.
      - intros t' Hne. now apply get_set_other.
      - apply get_set_same.
      - exact Hinv'. }
    assert (Hoth : others_same s (set_ts s (t_id t) ts') (t_id t)) by (intros t' Hne; now apply get_set_other).
    rewrite Hu in Hcase. cbn [offered length sum_len fold_right N.of_nat] in *. rewrite ?N.add_0_r in *.
    destruct (skipn (l_del (lget g (t_id t))) (l_app (lget g (t_id t)))) as [|e rest] eqn:Esk.
    + destruct Hcase as (-> & Hun'). unfold c01_step_ok, c15_step_ok, c03_step_ok, remaining. rewrite Esk.
      split; [now destruct ck|]. split; [reflexivity|]. split; [reflexivity|].
      assert (Hls : ledger_step g (ORead t ck) RNone = g) by (now destruct ck). rewrite Hls.
      eapply Rel_other with (t := t_id t); eauto; try lia.
      rewrite get_set_same, Hst', Hun', Hs, Esk. repeat split; auto; lia.
    + destruct Hcase as (-> & Hun'). unfold c01_step_ok, c15_step_ok, c03_step_ok, remaining. rewrite Esk.
      split; [destruct ck; [apply out_is_out_of|reflexivity]|]. split; [reflexivity|]. split; [reflexivity|].
      destruct (skipn_cons_S _ _ _ _ Esk) as (Hsk' & Hlen').
      destruct ck; cbn [ledger_step].
      * eapply Rel_other with (t := t_id t); eauto; try lia.
        -- intros t' Hne. now apply lget_lset_other.
        -- rewrite lget_lset_same, get_set_same. cbn [l_app l_del]. rewrite Hst', Hun', Hs, Hsk'. repeat split; auto; lia.
      * eapply Rel_other with (t := t_id t); eauto; try lia.
        rewrite get_set_same, Hst', Hun', Hs, Esk. repeat split; auto; lia.
  - (* batch read *)
    cbn [offered length sum_len fold_right N.of_nat] in *. rewrite ?N.add_0_r in *.
    destruct start as [st0|].
    + destruct (batch_read_stateless c m s t maxb ck st0) as (os & Hr).
      pose proof (batch_read_cap_budget c m s t maxb ck (Some st0) _ _ Hr) as (Hcap & Hbud).
      rewrite Hr. unfold c01_step_ok, c15_step_ok, c03_step_ok.
      split; [now destruct ck|]. split; [reflexivity|].
      assert (Hls : ledger_step g (OBatchRead t maxb ck (Some st0)) (REntries os) = g) by (now destruct ck). rewrite Hls.
      split.
      { apply andb_true_intro. split; [apply andb_true_intro; split|reflexivity].
        - lia.
        - unfold usize_max in Hbud. apply orb_true_intro. destruct Hbud as [Hbud|Hbud]; [left|right]; lia. }
      eapply Rel_other with (t := t_id t); eauto; try lia.
      * destruct Hg as (Hn & Hti). eapply GInv_update with (t := t_id t); [split; [exact Hn|exact Hti]| | | |]; cbn [set_ts s_alloc]; try lia.
        -- intros t' Hne. now apply get_set_other.
        -- apply get_set_same.
        -- apply Hti.
      * intros t' Hne. now apply get_set_other.
      * rewrite get_set_same. apply Hall.
    + destruct Hg as (Hn & Hti).
      destruct (batch_read_spec c m s t maxb ck (a_next (s_alloc s)) Hc (Hti (t_id t))) as (ts' & k & Hr & Hinv' & Hst' & _ & Hk & Hk1 & Hun').
      pose proof (batch_read_cap_budget c m s t maxb ck None _ _ Hr) as (Hcap & Hbud).
      rewrite Hr. destruct (Hall (t_id t)) as (Hd & Hs & Hu & Hb1 & Hb2).
      set (U := unread c (get_ts s (t_id t))) in *.
      assert (Hg' : GInv c (set_ts s (t_id t) ts')).
      { eapply GInv_update with (t := t_id t); [split; [exact Hn|exact Hti]| | | |]; cbn [set_ts s_alloc]; try lia.
        - intros t' Hne. now apply get_set_other.
        - apply get_set_same.
        - exact Hinv'. }
      assert (Hoth : others_same s (set_ts s (t_id t) ts') (t_id t)) by (intros t' Hne; now apply get_set_other).
      assert (Hlenk : length (map out_of (firstn k U)) = k) by (rewrite map_length, firstn_length; lia).
      unfold c01_step_ok, c15_step_ok, c03_step_ok, remaining. rewrite <- Hu.
      split.
      { destruct ck; [|reflexivity].
        destruct (map out_of (firstn k U)) as [|o0 os0] eqn:Eo.
        - destruct U; [reflexivity|]. exfalso. assert (1 <= k)%nat by (apply Hk1; discriminate). cbn in Hlenk. lia.
        - rewrite <- Eo. rewrite map_length, firstn_length. replace (Nat.min k (length U)) with k by lia. apply outs_are_map. }
      split; [reflexivity|].
      split.
      { rewrite Hlenk in *. apply andb_true_intro. split; [apply andb_true_intro; split|].
        - lia.
        - unfold usize_max in Hbud. apply orb_true_intro. destruct Hbud as [Hbud|Hbud]; [left|right]; lia.
        - destruct (map out_of (firstn k U)) as [|o0 os0] eqn:Eo; [|reflexivity].
          destruct U; [reflexivity|]. exfalso. assert (1 <= k)%nat by (apply Hk1; discriminate). cbn in Hlenk. lia. }
      destruct ck; cbn [ledger_step].
      * eapply Rel_other with (t := t_id t); eauto; try lia.
        -- intros t' Hne. now apply lget_lset_other.
        -- rewrite lget_lset_same, get_set_same. cbn [l_app l_del]. rewrite Hst', Hun', Hs, Hlenk.
           rewrite Hu, skipn_skipn. rewrite Hu, skipn_length in Hk. repeat split; auto; lia.
      * eapply Rel_other with (t := t_id t); eauto; try lia.
        rewrite get_set_same, Hst', Hun', Hs. rewrite Hu. repeat split; auto; lia.
  - (* count *)
    cbn [offered length sum_len fold_right N.of_nat] in *. rewrite ?N.add_0_r in *.
    destruct (Hall (t_id t)) as (Hd & Hs & Hu & Hb1 & Hb2).
    unfold c01_step_ok, c15_step_ok, c03_step_ok. cbn [ledger_step].
    split; [reflexivity|]. split; [|split; [reflexivity|exact Hrel]].
    destruct Hg as (_ & Hti). fold (cnt (get_ts s (t_id t))). rewrite (ti_cnt _ _ _ (Hti (t_id t))), Hu, skipn_length. lia.
  - contradiction.
Qed.

(* ------------------------------------------------------------------ every history *)
Fixpoint trace (v : env) (s : st) (ops : list op) : list (op * result) :=
  match ops with
  | [] => []
  | o :: r => let '(s', res) := step v s o in (o, res) :: trace v s' r
  end.

Theorem engine_refines_queue c m be : cfg_ok c -> forall ops s g B Bb,
  Rel c s g B Bb -> Forall (op_ok c) ops ->
  B + N.of_nat (length (offered_all ops)) <= u64_max -> Bb + sum_len (offered_all ops) <= u64_max ->
  c01_ok_from g (trace (env_of c m be) s ops) = true /\
  c15_ok_from g (trace (env_of c m be) s ops) = true /\
  c03_ok_from (c_max_entries c) g (trace (env_of c m be) s ops) = true.
Proof.
  intros Hc. induction ops as [|o r IH]; intros s g B Bb Hrel Hok HB HBb; [cbn; auto|].
  inversion Hok as [|x l Ho Hr]; subst.
  cbn [offered_all] in HB, HBb. rewrite app_length, Nat2N.inj_add in HB. rewrite sum_len_app in HBb.
  pose proof (step_ok c m be s g B Bb o Hc Hrel Ho ltac:(lia) ltac:(lia)) as Hstep.
  cbn [trace]. destruct (step (env_of c m be) s o) as [s' res].
  destruct Hstep as (H1 & H2 & H3 & Hrel').
  destruct (IH s' _ _ _ Hrel' Hr ltac:(lia) ltac:(lia)) as (I1 & I2 & I3).
  cbn [c01_ok_from c15_ok_from c03_ok_from]. rewrite H1, H2, H3, I1, I2, I3. auto.
Qed.

Corollary engine_from_init c m be ops : cfg_ok c -> Forall (op_ok c) ops ->
  N.of_nat (length (offered_all ops)) <= u64_max -> sum_len (offered_all ops) <= u64_max ->
  c01_ok (trace (env_of c m be) init ops) = true /\
  c15_ok (trace (env_of c m be) init ops) = true /\
  c03_ok (c_max_entries c) (trace (env_of c m be) init ops) = true.
Proof.
  intros Hc Hok HB HBb. unfold c01_ok, c15_ok, c03_ok.
  apply (engine_refines_queue c m be Hc ops init [] 0 0 (Rel_init c) Hok); lia.
Qed.

(* the trace is what [run] computes, paired with the operations *)
Lemma trace_run v : forall ops s, map snd (trace v s ops) = run v s ops /\ map fst (trace v s ops) = ops.
Proof.
  induction ops as [|o r IH]; intros s; [split; reflexivity|]. cbn [trace run].
  destruct (step v s o) as [s' res]. cbn [map fst snd]. destruct (IH s') as (A & B). now rewrite A, B.
Qed.
