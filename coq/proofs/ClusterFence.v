(* ClusterFence.v — the fenced scheduler (model/ClusterSys.v: fenced_step) never writes into a
   segment after the writer applied its sealing, for ALL schedules.
   Invariant: at most one task is inside the fenced region of a node; inside it, `expected`
   equals what the node's CURRENT metadata says it owns, after the lease refresh the lease set
   equals that too, and from the passed lease check to the engine append the node's current
   metadata says: this segment is open and mine. *)
From Coq Require Import ZArith ZifyBool ZifyN ZifyNat.
From W Require Import model.Base model.Map model.Bincode model.Meta model.Cluster model.ClusterSys
  spec.StreamSpec proofs.MapP proofs.MetaP proofs.ClusterP.

(* ---------- what the fence guarantees to the task inside ---------- *)
Definition fpc_ok (s : cst) (o : option cpc) : Prop :=
  match o with
  | Some (PUlRead e ex _) | Some (PUlWrite e ex _) => forall x, get_node s e = Some x -> ex = owned (nd_meta x) e
  | Some (PEnsure e _ _) => forall x, get_node s e = Some x -> nd_lease x = owned (nd_meta x) e
  | Some (PWlRead e sg _) | Some (PWlWrite e sg _) | Some (PKeyLock e sg _) | Some (PSpawn e sg _) =>
    forall x, get_node s e = Some x -> owned (nd_meta x) e = Some sg
  | _ => True
  end.

Lemma cev_eq_dec (a b : cev) : {a = b} + {a <> b}.
Proof. decide equality; try apply N.eq_dec; apply Nat.eq_dec. Qed.

Definition is_task (ev : cev) : bool := match ev with EvC _ | EvL _ | EvM _ => true | _ => false end.

Record Inv2 (s : cst) : Prop := {
  i2_inv1 : Inv1 s;
  i2_excl : forall a b e, a <> b -> in_region e (pc_of s a) = true -> in_region e (pc_of s b) = true -> False;
  i2_fpc : forall a, fpc_ok s (pc_of s a)
}.

Lemma in_region_some e o : in_region e o = true -> exists pc, o = Some pc /\ region_node pc = Some e.
Proof.
  destruct o as [pc|]; cbn [in_region]; [|discriminate]. destruct (region_node pc) as [e'|] eqn:E; [|discriminate].
  intros H. apply N.eqb_eq in H. subst. eauto.
Qed.

Lemma not_region_fpc s o : (forall e, in_region e o = false) -> fpc_ok s o.
Proof.
  intros H. destruct o as [pc|]; [|exact I].
  destruct pc; try exact I; specialize (H e); cbn [in_region region_node] in H; rewrite N.eqb_refl in H; discriminate.
Qed.

Lemma pc_of_in_all s a pc : pc_of s a = Some pc -> In (Some pc) (all_pcs s).
Proof.
  unfold all_pcs. destruct a as [i|n|n|n|n]; cbn [pc_of]; intros H; try discriminate.
  - destruct (nth_error (s_clients s) i) as [c|] eqn:E; [|discriminate]. apply in_or_app. left.
    rewrite <- H. apply in_map. eapply nth_error_In; eauto.
  - apply (lookup_In N_cmp_ok) in H. apply in_or_app. right. apply in_or_app. left.
    apply in_map_iff. exists (n, pc). auto.
  - apply (lookup_In N_cmp_ok) in H. apply in_or_app. right. apply in_or_app. right.
    apply in_map_iff. exists (n, pc). auto.
Qed.

Lemma not_busy s e a : region_busy s e = false -> in_region e (pc_of s a) = false.
Proof.
  intros H. destruct (in_region e (pc_of s a)) eqn:E; [|reflexivity].
  destruct (in_region_some _ _ E) as (pc & Hp & _).
  unfold region_busy in H. assert (X : existsb (in_region e) (all_pcs s) = true).
  { apply existsb_exists. exists (Some pc). split; [now apply (pc_of_in_all s a)|now rewrite <- Hp]. }
  congruence.
Qed.

(* fpc_ok of another task survives a step of shape [pc -> s1] unless that step is the lease
   write of the node in whose region the other task is *)
Lemma fpc_frame s pc s1 q :
  shape s pc s1 -> fpc_ok s (Some q) ->
  (forall e ex k, pc = PUlWrite e ex k -> region_node q <> Some e) ->
  fpc_ok s1 (Some q).
Proof.
  intros Hsh Hq Hne.
  destruct Hsh as [->|e x x' Hg -> [Hm Ha] Hl|c k -> ->]; auto.
  - assert (G : forall e0 y, get_node (set_node s e x') e0 = Some y ->
                 exists y0, get_node s e0 = Some y0 /\ nd_meta y = nd_meta y0 /\ (e0 <> e -> y = y0)).
    { intros e0 y Hy. destruct (N.eq_dec e0 e) as [->|Hd].
      - rewrite get_set_same in Hy. inversion Hy. subst y. exists x. split; [exact Hg|]. split; [exact Hm|]. congruence.
      - rewrite get_set_other in Hy by exact Hd. exists y. auto. }
    destruct q; cbn [fpc_ok] in *; auto; intros y Hy; destruct (G _ _ Hy) as (y0 & Hy0 & Hmm & Hsame);
      try (rewrite Hmm; now apply Hq).
    (* PEnsure: the lease of that node must be unchanged *)
    rewrite Hmm. destruct (N.eq_dec e0 e) as [->|Hd].
    + rewrite get_set_same in Hy. inversion Hy. subst y. rewrite Hg in Hy0. inversion Hy0. subst y0.
      destruct Hl as [Hl|(ex & k & Hpc & Hl)].
      * rewrite Hl. now apply Hq.
      * exfalso. apply (Hne _ _ _ Hpc). reflexivity.
    + rewrite (Hsame Hd). now apply Hq.
Qed.

(* ---------- the acting task's next pc ---------- *)
Lemma enter_ul_fpc s x e k : get_node s e = Some x -> fpc_ok s (out_pc (enter_ul x e k)).
Proof. intros Hg. cbn [enter_ul out_pc fpc_ok]. intros y Hy. rewrite Hg in Hy. now inversion Hy. Qed.

Lemma get_set_meta s e x x' y e0 :
  get_node s e = Some x -> nd_meta x' = nd_meta x -> get_node (set_node s e x') e0 = Some y ->
  exists y0, get_node s e0 = Some y0 /\ nd_meta y = nd_meta y0.
Proof.
  intros Hg Hm Hy. destruct (N.eq_dec e0 e) as [->|Hd].
  - rewrite get_set_same in Hy. inversion Hy. subst. eauto.
  - rewrite get_set_other in Hy by exact Hd. eauto.
Qed.

Ltac fin_fpc Hp :=
  let y := fresh "y" in let Hy := fresh "Hy" in
  intros y Hy;
  try rewrite get_set_same in Hy;
  try match goal with E : get_node ?s ?e = Some ?n |- _ =>
        tryif constr_eq n y then fail else
        match type of Hy with get_node s e = Some _ => rewrite E in Hy end end;
  inversion Hy; subst;
  cbn [with_lease with_wl with_kl nd_lease nd_meta];
  try match goal with E : opt_eqb _ _ = true |- _ => apply opt_eqb_eq in E end;
  try match goal with E : get_node _ _ = Some _ |- _ => pose proof (Hp _ E) end;
  try congruence; try reflexivity.

Lemma exec_pc_fpc cfg s p pc s1 out :
  fpc_ok s (Some pc) -> exec_pc cfg s p pc = (s1, out) -> fpc_ok s1 (out_pc out).
Proof.
  intros Hp H.
  destruct pc; cbn [exec_pc] in H; break_match_in H; inversion H; subst;
    try exact I;
    try (match goal with k : ulk |- _ => destruct k end);
    try (match goal with k : ppk |- _ => destruct k end);
    cbn [out_pc after_ul after_propose fpc_ok enter_ul] in *; try exact I;
    try (fin_fpc Hp; fail).
  - match goal with E : _ = (_, ?o) |- fpc_ok _ (out_pc ?o) => break_match_in E; inversion E; subst; exact I end.
  - match goal with E : _ = (_, ?o) |- fpc_ok _ (out_pc ?o) => break_match_in E; inversion E; subst; exact I end.
Qed.

Lemma invoke_fpc s o : fpc_ok s (out_pc (invoke s o)).
Proof.
  destruct o as [h|h]; cbn [invoke].
  - destruct (get_node s h) as [x|] eqn:Hg; [|exact I].
    destruct (topic_of (nd_meta x)) as [t|]; [|exact I].
    destruct (t_leader t =? h); [now apply enter_ul_fpc|]. destruct (has_addr _ _); exact I.
  - destruct (get_node s h); exact I.
Qed.

Lemma fpc_ok_nodes_eq s s' o : s_nodes s' = s_nodes s -> fpc_ok s o -> fpc_ok s' o.
Proof.
  intros E. destruct o as [pc|]; [|auto]. unfold fpc_ok, get_node. rewrite E. auto.
Qed.

Lemma fpc_ok_node s s' o :
  (forall e, in_region e o = true -> get_node s' e = get_node s e) -> fpc_ok s o -> fpc_ok s' o.
Proof.
  intros H. destruct o as [pc|]; [|auto].
  destruct pc; cbn [fpc_ok]; auto; intros Hq y Hy; rewrite H in Hy by (cbn [in_region region_node]; apply N.eqb_refl);
    now apply Hq.
Qed.

Lemma ulwrite_not_finish cfg s p e ex k s1 out :
  exec_pc cfg s p (PUlWrite e ex k) = (s1, out) -> out_pc out <> None.
Proof.
  cbn [exec_pc]. destruct (get_node s e); intros H; inversion H; subst; [destruct k|]; cbn; discriminate.
Qed.

(* ---------- c23_scan along one exec_pc ---------- *)
Definition plain (l : list csub) : Prop :=
  forall u, In u l -> match u with EInv _ _ _ _ => True | EResp _ _ _ => True | _ => False end.

Lemma scan_plain l : plain l -> forall log rest, c23_scan log (l ++ rest) = c23_scan log rest.
Proof.
  induction l as [|u l IH]; intros Hp log rest; [reflexivity|].
  assert (Hu := Hp u (or_introl eq_refl)). cbn [app].
  destruct u; try contradiction; cbn [c23_scan]; apply IH; intros v Hv; apply Hp; now right.
Qed.

Ltac trivscan :=
  try match goal with k : ulk |- _ => destruct k end;
  try match goal with k : ppk |- _ => destruct k end;
  cbn [out_subs set_node s_log c23_scan after_ul after_propose enter_ul app];
  reflexivity.

Lemma exec_pc_scan2 cfg s p pc s1 out :
  nodes_ok s -> fpc_ok s (Some pc) -> exec_pc cfg s p pc = (s1, out) ->
  forall rest, c23_scan (s_log s) (out_subs out ++ rest) = c23_scan (s_log s1) rest.
Proof.
  intros Hn Hp H rest.
  destruct pc; cbn [exec_pc] in H; break_match_in H; inversion H; subst; try trivscan.
  - (* PSpawn *)
    cbn [out_subs set_node s_log c23_scan app fpc_ok] in *.
    match goal with Hg : get_node s e = Some ?x |- _ =>
      destruct (Hn _ _ Hg) as [A B C D]; pose proof (Hp _ Hg) as Ho end.
    match goal with |- context [Nat.ltb ?a ?b] => replace (Nat.ltb a b) with false by (symmetry; apply Nat.ltb_ge; lia) end.
    rewrite <- B. rewrite (owned_not_sealed _ _ _ A Ho), (led_not_foreign _ _ _ (led_owned _ _ _ A Ho)). reflexivity.
  - (* PPropose *)
    cbn [out_subs s_log c23_scan app]. now rewrite Nat.eqb_refl.
  - match goal with E : _ = (_, ?o) |- _ =>
      assert (Ho : out_subs o = []) by (break_match_in E; inversion E; reflexivity) end.
    rewrite Ho. reflexivity.
  - match goal with E : _ = (_, ?o) |- _ =>
      assert (Ho : out_subs o = []) by (break_match_in E; inversion E; reflexivity) end.
    rewrite Ho. reflexivity.
Qed.

(* ---------- anatomy of a task step ---------- *)
Lemma nth_set_nth_same {A} i (a c : A) l : nth_error l i = Some c -> nth_error (set_nth i a l) i = Some a.
Proof. revert i. induction l as [|x l IH]; intros [|i] H; cbn in *; try discriminate; auto. Qed.
Lemma nth_set_nth_other {A} i j (a : A) l : i <> j -> nth_error (set_nth i a l) j = nth_error l j.
Proof.
  revert i j. induction l as [|x l IH]; intros [|i] [|j] H; cbn; auto; try congruence.
  all: try (apply IH; congruence).
Qed.

Record anatomy (cfg : ccfg) (s : cst) (ev : cev) (s' : cst) (t : ctok) (s1 : cst) (out : outcome) : Prop := {
  an_src : (exists pc p, pc_of s ev = Some pc /\ exec_pc cfg s p pc = (s1, out))
           \/ (exists o, pc_of s ev = None /\ s1 = s /\ out = invoke s o);
  an_subs : exists pre post, snd t = pre ++ out_subs out ++ post /\ plain pre /\ plain post;
  an_nodes : s_nodes s' = s_nodes s1;
  an_log : s_log s' = s_log s1;
  an_pc : pc_of s' ev = out_pc out \/ (out_pc out = None /\ pc_of s' ev = pc_of s ev);
  an_others : forall b, b <> ev -> pc_of s' b = pc_of s b
}.

Lemma plain_nil : plain [].
Proof. intros u []. Qed.
Lemma plain_inv a b c d : plain [EInv a b c d].
Proof. intros u [<-|[]]. exact I. Qed.
Lemma plain_resp a b c : plain [EResp a b c].
Proof. intros u [<-|[]]. exact I. Qed.

Lemma client_anatomy cfg s i s' t :
  step_client cfg s i = (s', t) ->
  (s' = s /\ snd t = []) \/ exists s1 out, anatomy cfg s (EvC i) s' t s1 out.
Proof.
  unfold step_client. intros H.
  destruct (nth_error (s_clients s) i) as [c|] eqn:Hc; [|inversion H; now left].
  destruct (cl_ops c) as [|o rest] eqn:Hops; [inversion H; now left|]. right.
  set (ci := N.of_nat i) in *.
  assert (X : exists s1 out pre,
     ((exists pc p, pc_of s (EvC i) = Some pc /\ exec_pc cfg s p pc = (s1, out))
      \/ (exists o, pc_of s (EvC i) = None /\ s1 = s /\ out = invoke s o))
     /\ plain pre /\ s_clients s1 = s_clients s /\ s_lease s1 = s_lease s /\ s_mon s1 = s_mon s
     /\ (s', t) = match out with
       | OYield pc' st subs => (set_clients s1 (set_nth i (mkClient (cl_ops c) (cl_k c) (Some pc')) (s_clients s1)), (st, pre ++ subs))
       | OBlocked subs pc' => (set_clients s1 (set_nth i (mkClient (cl_ops c) (cl_k c) (Some pc')) (s_clients s1)), (SBlocked, pre ++ subs))
       | OFinish r subs =>
         (set_clients s1 (set_nth i (mkClient rest (cl_k c + 1) None) (s_clients s1)),
          (match rest with [] => SDone | _ => SNX end, pre ++ subs ++ [EResp ci (cl_k c) r]))
       end).
  { destruct (cl_pc c) as [pc|] eqn:Hpc.
    - destruct (exec_pc cfg s (ci, cl_k c) pc) as [s1 out] eqn:He.
      exists s1, out, []. destruct (shape_tasks _ _ _ (exec_pc_shape _ _ _ _ _ _ He)) as (T1 & T2 & T3).
      split; [left; exists pc, (ci, cl_k c); split; [cbn [pc_of]; now rewrite Hc|exact He]|].
      split; [apply plain_nil|]. repeat split; auto. rewrite <- H, Hops. reflexivity.
    - exists s, (invoke s o), [EInv ci (cl_k c) (is_put o) (op_node o)].
      split; [right; exists o; split; [cbn [pc_of]; now rewrite Hc|auto]|].
      split; [apply plain_inv|]. repeat split; auto. rewrite <- H, Hops. reflexivity. }
  destruct X as (s1 & out & pre & Src & Ppre & T1 & T2 & T3 & E).
  exists s1, out.
  assert (G : forall c' subs' st' post, snd (st', subs') = pre ++ out_subs out ++ post -> plain post ->
     cl_pc c' = out_pc out ->
     anatomy cfg s (EvC i) (set_clients s1 (set_nth i c' (s_clients s1))) (st', subs') s1 out).
  { intros c' subs' st' post Hs Hpost Hc'. split; auto.
    - exists pre, post. auto.
    - left. cbn [pc_of set_clients s_clients]. rewrite T1, (nth_set_nth_same _ _ _ _ Hc). exact Hc'.
    - intros b Hb. destruct b as [j|n|n|n|n]; cbn [pc_of set_clients s_clients s_lease s_mon]; rewrite ?T1, ?T2, ?T3; auto.
      rewrite nth_set_nth_other by congruence. reflexivity. }
  destruct out as [pc' st subs|r subs|subs pc']; inversion E; subst s' t; cbn [out_pc out_subs] in *.
  - apply (G _ _ _ []); [cbn [snd]; now rewrite app_nil_r|apply plain_nil|reflexivity].
  - apply (G _ _ _ [EResp ci (cl_k c) r]); [reflexivity|apply plain_resp|reflexivity].
  - apply (G _ _ _ []); [cbn [snd]; now rewrite app_nil_r|apply plain_nil|reflexivity].
Qed.

Lemma bg_anatomy cfg s n mon s' t :
  step_bg cfg s n mon = (s', t) ->
  (s' = s /\ snd t = []) \/ exists s1 out, anatomy cfg s (if mon then EvM n else EvL n) s' t s1 out.
Proof.
  unfold step_bg. intros H.
  destruct (lookup N.compare n (if mon then s_mon s else s_lease s)) as [pc|] eqn:Hl; [|inversion H; now left]. right.
  destruct (exec_pc cfg s (0, 0) pc) as [s1 out] eqn:He. exists s1, out.
  destruct (shape_tasks _ _ _ (exec_pc_shape _ _ _ _ _ _ He)) as (T1 & T2 & T3).
  assert (Hpc : pc_of s (if mon then EvM n else EvL n) = Some pc) by (destruct mon; exact Hl).
  assert (G : forall pc' subs' st', subs' = out_subs out -> out_pc out = Some pc' ->
     anatomy cfg s (if mon then EvM n else EvL n) ((if mon then set_mon_pc else set_lease_pc) s1 n pc') (st', subs') s1 out).
  { intros pc' subs' st' -> Ho. split.
    - left. exists pc, (0, 0). auto.
    - exists [], []. cbn [snd app]. rewrite app_nil_r. split; [reflexivity|split; apply plain_nil].
    - destruct mon; reflexivity.
    - destruct mon; reflexivity.
    - left. rewrite Ho. destruct mon; cbn [pc_of set_mon_pc set_lease_pc s_mon s_lease]; apply (lookup_ins_same N_cmp_ok).
    - intros b Hb. destruct mon; destruct b as [j|m|m|m|m]; cbn [pc_of set_mon_pc set_lease_pc s_clients s_mon s_lease];
        rewrite ?T1, ?T2, ?T3; auto; apply (lookup_ins_other N_cmp_ok); congruence. }
  destruct out as [pc' st subs|r subs|subs pc']; inversion H; subst s' t; cbn [out_pc out_subs] in *.
  - now apply G.
  - split.
    + left. exists pc, (0, 0). auto.
    + exists [], []. cbn [snd app out_subs]. rewrite app_nil_r. split; [reflexivity|split; apply plain_nil].
    + reflexivity.
    + reflexivity.
    + right. split; [reflexivity|]. destruct mon; cbn [pc_of]; now rewrite ?T2, ?T3.
    + intros b Hb. destruct b as [j|m|m|m|m]; cbn [pc_of]; now rewrite ?T1, ?T2, ?T3.
  - now apply G.
Qed.

Lemma task_anatomy cfg s ev s' t :
  is_task ev = true -> cl_step cfg s ev = (s', t) ->
  (s' = s /\ snd t = []) \/ exists s1 out, anatomy cfg s ev s' t s1 out.
Proof.
  destruct ev; cbn [is_task cl_step]; try discriminate; intros _ H.
  - now apply client_anatomy.
  - apply (bg_anatomy cfg s n false); exact H.
  - apply (bg_anatomy cfg s n true); exact H.
Qed.

(* ---------- preservation ---------- *)
Lemma accepted_task_step cfg s ev s' t :
  Inv2 s -> is_task ev = true -> cl_step cfg s ev = (s', t) ->
  (forall pc' e, pc_of s' ev = Some pc' -> region_node pc' = Some e ->
     in_region e (pc_of s ev) = true \/ region_busy s e = false) ->
  Inv2 s' /\ forall rest, c23_scan (s_log s) (snd t ++ rest) = c23_scan (s_log s') rest.
Proof.
  intros Hi Ht H Hc. pose proof Hi as [Hi1 Hex Hf].
  destruct (cl_step_good _ _ _ _ _ Hi1 H) as (Hi1' & _ & _).
  destruct (task_anatomy _ _ _ _ _ Ht H) as [[-> Hs]|(s1 & out & A)].
  { split; [exact Hi|]. intros rest. now rewrite Hs. }
  destruct A as [Src (pre & post & Hsubs & Ppre & Ppost) An Al Apc Ao].
  (* facts about the acting exec *)
  assert (K : fpc_ok s1 (out_pc out)
              /\ (forall rest, c23_scan (s_log s) (out_subs out ++ rest) = c23_scan (s_log s1) rest)
              /\ (forall q, fpc_ok s (Some q) ->
                    (forall e, in_region e (pc_of s ev) = true -> region_node q <> Some e) -> fpc_ok s1 (Some q))
              /\ (out_pc out = None -> fpc_ok s1 (pc_of s ev))).
  { destruct Src as [(pc & p & Hpc & He)|(o & Hpc & -> & ->)].
    - pose proof (Hf ev) as Hfe. rewrite Hpc in Hfe.
      pose proof (exec_pc_shape _ _ _ _ _ _ He) as Hsh.
      split; [eapply exec_pc_fpc; eauto|]. split; [eapply exec_pc_scan2; eauto; apply Hi1|]. split.
      + intros q Hq Hne. eapply fpc_frame; eauto. intros e ex k ->. apply Hne. rewrite Hpc. cbn. apply N.eqb_refl.
      + intros Hnone. rewrite Hpc. eapply fpc_frame; eauto. intros e ex k ->. exfalso.
        now apply (ulwrite_not_finish _ _ _ _ _ _ _ _ He).
    - split; [apply invoke_fpc|]. split; [intros rest; destruct (invoke_ok s o (i1_nodes _ Hi1)) as [_ ->]; reflexivity|].
      split; [auto|]. intros _. rewrite Hpc. exact I. }
  destruct K as (K1 & K2 & K3 & K4).
  split; [split|].
  - exact Hi1'.
  - (* mutual exclusion *)
    assert (Half : forall b e, b <> ev -> in_region e (pc_of s' ev) = true -> in_region e (pc_of s' b) = true -> False).
    { intros b e Hb Ha Hbb. rewrite (Ao _ Hb) in Hbb.
      destruct Apc as [Apc|[_ Apc]].
      - destruct (in_region_some _ _ Ha) as (pc' & Hp' & Hr).
        destruct (Hc _ _ Hp' Hr) as [Hin|Hnb].
        + apply (Hex ev b e); auto.
        + rewrite (not_busy _ _ b Hnb) in Hbb. discriminate.
      - rewrite Apc in Ha. apply (Hex ev b e); auto. }
    intros a b e Hab Ha Hb.
    destruct (cev_eq_dec a ev) as [->|Ha']; [apply (Half b e); [congruence|assumption|assumption]|].
    destruct (cev_eq_dec b ev) as [->|Hb']; [apply (Half a e); [congruence|assumption|assumption]|].
    rewrite (Ao _ Ha') in Ha. rewrite (Ao _ Hb') in Hb. now apply (Hex a b e).
  - (* what the fence guarantees *)
    intros a. apply (fpc_ok_nodes_eq s1); [exact An|].
    destruct (cev_eq_dec a ev) as [->|Ha'].
    + destruct Apc as [->|[Hn ->]]; [exact K1|now apply K4].
    + rewrite (Ao _ Ha'). destruct (pc_of s a) as [q|] eqn:Hq; [|exact I].
      apply K3; [rewrite <- Hq; apply Hf|].
      intros e He Hr. apply (Hex ev a e); auto. rewrite Hq. cbn [in_region]. rewrite Hr. apply N.eqb_refl.
  - intros rest. rewrite Hsubs, <- !app_assoc, (scan_plain _ Ppre), K2, (scan_plain _ Ppost), Al. reflexivity.
Qed.

Lemma fenced_task_step cfg s ev s' t :
  Inv2 s -> is_task ev = true -> fenced_step cfg s ev = (s', t) ->
  Inv2 s' /\ forall rest, c23_scan (s_log s) (snd t ++ rest) = c23_scan (s_log s') rest.
Proof.
  intros Hi Ht H.
  assert (Refused : forall st : cstatus, Inv2 s /\ forall rest, c23_scan (s_log s) (snd (st, @nil csub) ++ rest) = c23_scan (s_log s) rest)
    by (intros st; split; [exact Hi|reflexivity]).
  assert (F : fenced_step cfg s ev =
    let '(s1, t1) := cl_step cfg s ev in
    match pc_of s1 ev with
    | Some pc' =>
      match region_node pc' with
      | Some e => if negb (in_region e (pc_of s ev)) && region_busy s e then (s, (SBlocked, [])) else (s1, t1)
      | None => (s1, t1)
      end
    | None => (s1, t1)
    end) by (destruct ev; cbn [is_task] in Ht; try discriminate; reflexivity).
  rewrite F in H. clear F. destruct (cl_step cfg s ev) as [s1 t1] eqn:E.
  destruct (pc_of s1 ev) as [pc'|] eqn:Hpc'.
  - destruct (region_node pc') as [e|] eqn:Hr.
    + destruct (negb (in_region e (pc_of s ev)) && region_busy s e) eqn:Hb.
      * inversion H. subst. apply Refused.
      * inversion H. subst. apply (accepted_task_step cfg s ev); auto.
        intros pc2 e2 Hp2 Hr2. rewrite Hpc' in Hp2. inversion Hp2. subst pc2. rewrite Hr in Hr2. inversion Hr2. subst e2.
        apply andb_false_iff in Hb. destruct Hb as [Hb|Hb]; [left; now apply negb_false_iff in Hb|now right].
    + inversion H. subst. apply (accepted_task_step cfg s ev); auto.
      intros pc2 e2 Hp2 Hr2. rewrite Hpc' in Hp2. inversion Hp2. subst. congruence.
  - inversion H. subst. apply (accepted_task_step cfg s ev); auto. intros pc2 e2 Hp2. congruence.
Qed.

Lemma pc_of_set_node s n x a : pc_of (set_node s n x) a = pc_of s a.
Proof. destruct a; reflexivity. Qed.

Lemma fenced_apply_step cfg s n s' t :
  Inv2 s -> fenced_step cfg s (EvA n) = (s', t) ->
  Inv2 s' /\ forall rest, c23_scan (s_log s) (snd t ++ rest) = c23_scan (s_log s') rest.
Proof.
  intros Hi H. cbn [fenced_step] in H. pose proof Hi as [Hi1 Hex Hf].
  destruct (region_busy s n) eqn:Hb.
  { inversion H. subst. split; [exact Hi|reflexivity]. }
  destruct (cl_step_good _ _ _ _ _ Hi1 H) as (Hi1' & _ & _).
  cbn [cl_step] in H. unfold Cluster.step_apply in H.
  destruct (get_node s n) as [x|] eqn:Hg; [|inversion H; subst; split; [exact Hi|reflexivity]].
  destruct (nth_error (s_log s) (nd_applied x)) as [c|]; [|inversion H; subst; split; [exact Hi|reflexivity]].
  inversion H. subst s' t. split; [split|reflexivity].
  - exact Hi1'.
  - intros a b e. rewrite !pc_of_set_node. apply Hex.
  - intros a. rewrite pc_of_set_node. apply (fpc_ok_node s); [|apply Hf].
    intros e He. apply get_set_other. intros ->. rewrite (not_busy _ _ a Hb) in He. discriminate.
Qed.

Lemma fenced_restart_step cfg s n s' t :
  Inv2 s -> fenced_step cfg s (EvR n) = (s', t) ->
  Inv2 s' /\ forall rest, c23_scan (s_log s) (snd t ++ rest) = c23_scan (s_log s') rest.
Proof.
  intros Hi H. cbn [fenced_step] in H. pose proof Hi as [Hi1 Hex Hf].
  destruct (cl_step_good _ _ _ _ _ Hi1 H) as (Hi1' & _ & _).
  cbn [cl_step] in H. unfold step_restart in H.
  destruct (get_node s n) as [x|] eqn:Hg; [|inversion H; subst; split; [exact Hi|reflexivity]].
  destruct (_ && _); [|inversion H; subst; split; [exact Hi|reflexivity]].
  inversion H. subst s' t. split; [split|reflexivity].
  - exact Hi1'.
  - intros a b e. rewrite !pc_of_set_node. apply Hex.
  - intros a. rewrite pc_of_set_node. specialize (Hf a). destruct (pc_of s a) as [q|]; [|exact I].
    assert (G : forall e y, get_node (set_node s n (mkNode (nd_meta x) (nd_applied x) (owned (nd_meta x) n) [] None false [] [] (nd_q x))) e = Some y ->
       exists y0, get_node s e = Some y0 /\ nd_meta y = nd_meta y0 /\ (e <> n -> y = y0) /\ (e = n -> nd_lease y = owned (nd_meta y0) e)).
    { intros e y Hy. destruct (N.eq_dec e n) as [->|Hd].
      - rewrite get_set_same in Hy. inversion Hy. subst y. exists x. cbn. repeat split; auto. congruence.
      - rewrite get_set_other in Hy by exact Hd. exists y. repeat split; auto. congruence. }
    destruct q; cbn [fpc_ok] in *; auto; intros y Hy; destruct (G _ _ Hy) as (y0 & Hy0 & Hm & Hs & Hl);
      try (rewrite Hm; now apply Hf).
    rewrite Hm. destruct (N.eq_dec e n) as [->|Hd]; [now apply Hl|]. rewrite (Hs Hd). now apply Hf.
Qed.

Lemma fenced_step_inv cfg s ev s' t :
  Inv2 s -> fenced_step cfg s ev = (s', t) ->
  Inv2 s' /\ forall rest, c23_scan (s_log s) (snd t ++ rest) = c23_scan (s_log s') rest.
Proof.
  intros Hi H. destruct ev.
  - now apply (fenced_task_step cfg s (EvC i)).
  - now apply (fenced_apply_step cfg s n).
  - now apply (fenced_task_step cfg s (EvL n)).
  - now apply (fenced_task_step cfg s (EvM n)).
  - now apply (fenced_restart_step cfg s n).
Qed.

Lemma init_pcs cfg a : forall e, in_region e (pc_of (cl_init cfg) a) = false.
Proof.
  intros e. destruct a as [i|n|n|n|n]; cbn [pc_of cl_init s_clients s_lease s_mon]; auto.
  - destruct (nth_error _ i) as [c|] eqn:E; [|reflexivity].
    apply nth_error_In in E. apply in_map_iff in E. destruct E as (ops & <- & _). reflexivity.
  - destruct (lookup _ _ _) as [pc|] eqn:E; [|reflexivity].
    apply (lookup_In N_cmp_ok) in E. apply In_of_list in E. apply in_map_iff in E.
    destruct E as (n' & E & _). inversion E. reflexivity.
  - destruct (lookup _ _ _) as [pc|] eqn:E; [|reflexivity].
    apply (lookup_In N_cmp_ok) in E. apply In_of_list in E. apply in_map_iff in E.
    destruct E as (n' & E & _). inversion E. reflexivity.
Qed.

Lemma Inv2_init cfg : Inv2 (cl_init cfg).
Proof.
  split.
  - apply Inv1_init.
  - intros a b e _ Ha. rewrite init_pcs in Ha. discriminate.
  - intros a. apply not_region_fpc. apply init_pcs.
Qed.

Lemma fenced_run_ok cfg sched : forall s, Inv2 s ->
  c23_scan (s_log s) (events (fst (fenced_run cfg s sched))) = 0.
Proof.
  induction sched as [|e r IH]; intros s Hi; cbn [fenced_run]; [reflexivity|].
  destruct (fenced_step cfg s e) as [s1 t] eqn:E.
  destruct (fenced_step_inv _ _ _ _ _ Hi E) as (Hi1 & Hs).
  specialize (IH s1 Hi1). destruct (fenced_run cfg s1 r) as [ts s2]. cbn [fst] in *.
  unfold events in *. cbn [flat_map]. now rewrite Hs.
Qed.

(* the fence is sufficient: with update_leases - ensure_lease - write atomic with respect to
   apply@n (and to other lease refreshes of n), no engine write follows the writer's apply of
   the sealing, nor goes to a segment of another node — for every schedule *)
Lemma fenced_ok cfg sched : c23_ok cfg (fenced_trace cfg sched) = true.
Proof.
  unfold c23_ok, c23_verdict, fenced_trace. change (boot_log cfg) with (s_log (cl_init cfg)).
  rewrite fenced_run_ok; [reflexivity|apply Inv2_init].
Qed.
