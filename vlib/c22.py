"""C22 — every acknowledged PUT is delivered by GET exactly once, in order.
Theorems: coq/props/C22.v (refutations by evaluated witness schedules; positive theorem over
all schedules of the sequential single-node system).  Check: see vlib/clusterprops.py."""
from . import clusterprops as P

TRUSTED_EXTRA = P.TRUSTED_EXTRA
ASSUMPTIONS = P.ASSUMPTIONS


def run(ctx):
    return P.run_prop(ctx, "C22")


def classify(f, known):
    return P.classify("C22", f, known)
