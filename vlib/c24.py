"""C24 — client protocol stays frame-synchronised and round-trips payloads.
Theorems: props/C24.v.  Correspondence: the unmodified distributed-walrus/src/client.rs
(compiled via #[path] into harness/dwh against shims/tokio and the mock NodeController)
against the extracted model on whole client byte streams (one case = everything one client
sends on one connection; observable = every byte written back); acceptor: the extracted
spec c24_ok(input, implementation output) — output is a sequence of complete response
frames, one per complete request frame (spec framing: header + announced body whatever the
length), malformed frames get their specific error, GET returns the oldest acknowledged
payload byte for byte.

Which model the code is compared with follows known_findings.json: while finding
C24-D12-oversize-body-not-consumed is `open` the model is serve_v0 (`client`), once its
status is "fixed: ..." the model is serve_fixed (`client_fixed`) and nothing is excused."""
import glob
import os
import resource
import struct

from . import common as C

FINDING_ID = "C24-D12-oversize-body-not-consumed"
KNOWN_CLASS = "oversize-header"

TRUSTED_EXTRA = [
    "harness/dwh (Rust): #[path]-includes /repo/distributed-walrus/src/client.rs unchanged; harness/shims/tokio (in-memory TcpStream whose "
    "read_exact fails with UnexpectedEof at end of input, write_all never fails, spawn = run to completion) stands in for tokio",
    "harness/dwh/src/controller.rs: mock NodeController (map topic -> FIFO, topic \"fail\" errors) stands in for the real controller; the model mirrors the mock",
    "modelled, not verified: String::from_utf8, str::trim_end (char::is_whitespace), str::splitn, format! of the Rust standard library "
    "(their behaviour is compared on every generated case, the whitespace set on every scalar value in the thorough tier)",
]
ASSUMPTIONS = [
    "one connection at a time against a fresh controller; the peer sends all its bytes and then closes (no timing, no half-open connections, no write errors)",
    "the controller behind the protocol layer is an ideal per-topic FIFO (the mock); the real NodeController is C22's subject",
    "64-bit target (u32 -> usize is lossless)",
]

MAXF = 65536  # only used to aim the generator; the model takes MAX_FRAME_LEN from gen/Consts.v

# Rust char::is_whitespace (restated here only for the generator and the independent round-trip check)
WS = [0x9, 0xA, 0xB, 0xC, 0xD, 0x20, 0x85, 0xA0, 0x1680] + list(range(0x2000, 0x200B)) + [0x2028, 0x2029, 0x202F, 0x205F, 0x3000]
NEAR_WS = [0x8, 0xE, 0x1C, 0x1D, 0x1E, 0x1F, 0x84, 0x86, 0x9F, 0xA1, 0x180E, 0x1FFF, 0x200B, 0x200C, 0x2027, 0x202A, 0x2060, 0x2FFF, 0x3001, 0xFEFF, 0x0]
ALPHA = [chr(c) for c in WS + NEAR_WS] + list("abzAZ09_-.:") + ["é", "ß", "中", "߿", "ࠀ", "￿", "\U00010000", "\U0001F600", "\U0010FFFF", "퟿", ""]
TOPICS = ["t", "a", "b", "", "fail", "fail2", "Fail", "tópic", "中", "x\t", "t ", " ", "-", "PUT", "t_1", "a" * 40]

# invalid UTF-8, one per error class of the decoder, and the boundary cases that are valid
BAD_UTF8 = [b"\x80", b"\xbf", b"\xc0\x80", b"\xc1\xbf", b"\xc2", b"\xc2\x41", b"\xc2\xc0", b"\xdf", b"\xe0\x80\x80", b"\xe0\x9f\xbf",
            b"\xe0\xa0", b"\xe0\xa0\x41", b"\xe1\x80", b"\xe1\x80\xc0", b"\xe1\x41\x80", b"\xed\xa0\x80", b"\xed\xbf\xbf", b"\xef\xbf",
            b"\xf0\x80\x80\x80", b"\xf0\x8f\xbf\xbf", b"\xf0\x90\x80", b"\xf0\x90\x80\x41", b"\xf0\x90\x41\x80", b"\xf0\x41\x80\x80",
            b"\xf1\x80\x80", b"\xf4\x90\x80\x80", b"\xf4\xbf\xbf\xbf", b"\xf5\x80\x80\x80", b"\xf8\x88\x80\x80\x80", b"\xfe", b"\xff",
            b"\xf4\x8f\xbf", b"\xe2\x82", b"\xc3\x28", b"\xa0\xa1"]
GOOD_EDGE = [b"\xc2\x80", b"\xdf\xbf", b"\xe0\xa0\x80", b"\xed\x9f\xbf", b"\xee\x80\x80", b"\xef\xbf\xbf", b"\xf0\x90\x80\x80",
             b"\xf4\x8f\xbf\xbf", b"\x00", b"\x7f", b"\xef\xbf\xbd"]
BAD_CMDS = ["", " ", "  ", "put t x", "Put t x", "PUT", "PUT ", "PUT t", "PUT t ", "PUT  x", "PUT  ", "PUT   ", "GET", "GET ", "GET  x", "REGISTER",
            "REGISTER ", "STATE", "STATE ", "METRICS extra", "METRICSx", " PUT t x", "\tPUT t x", "PUT\tt x", "PUT t x", "GETx t", "GE", "G",
            "OK", "ERR x", "EMPTY", "PUTT t x", "PU T t", "DELETE t", "　", "PUT t\tx", "REGISTER  ", "STATE fail", "GET fail", "PUT fail x",
            "REGISTER fail", "REGISTER fail x", "METRICS", "METRICS ", "METRICS\n", "STATE a b c", "GET a b c", "REGISTER a b c", "STATE  "]


def hdr(n):
    return struct.pack("<I", n & 0xFFFFFFFF)


def fr(body, declared=None):
    if isinstance(body, str):
        body = body.encode("utf-8")
    return hdr(len(body) if declared is None else declared) + body


def rand_text(rng, n, alpha=ALPHA):
    return "".join(rng.choice(alpha) for _ in range(n))


def rand_payload(rng):
    k = rng.choice([0, 1, 1, 2, 3, 5, 8, 20])
    s = rand_text(rng, k)
    r = rng.random()
    if r < 0.25:
        s += "".join(chr(rng.choice(WS)) for _ in range(rng.randint(1, 3)))
    elif r < 0.35:
        s = "".join(chr(rng.choice(WS)) for _ in range(rng.randint(1, 3))) + s
    elif r < 0.45:
        s += " " + rand_text(rng, rng.randint(0, 4))
    return s


def rand_cmd(rng, topics):
    t = rng.choice(topics)
    r = rng.random()
    if r < 0.34:
        return "PUT %s %s" % (t, rand_payload(rng))
    if r < 0.64:
        return "GET %s%s" % (t, rng.choice(["", "", "", " ", "\t", " x", " "]))
    if r < 0.72:
        return "REGISTER %s" % t
    if r < 0.78:
        return "STATE %s" % t
    if r < 0.82:
        return "METRICS" + rng.choice(["", " ", " x", "\n"])
    return rng.choice(BAD_CMDS)


def oversize_body(rng, n, kind):
    """a body of exactly n bytes for a frame that announces n > MAX_FRAME_LEN"""
    if kind == "smuggle":      # well-formed frames inside, then one in-range frame that is truncated by the end of the body
        inner = fr("PUT t smuggled%d" % rng.randrange(100)) + fr("GET t") + fr(rng.choice(["METRICS", "STATE t", "GET t", "PUT a b"]))
        rest = n - len(inner) - 4
        return inner + hdr(min(MAXF, rest + 1 + rng.randrange(100))) + bytes(rest)
    if kind == "zeros":
        return bytes(n)
    if kind == "tailfr":       # well-formed frames at the very END of the body (a skip loop that stops early leaves them in the stream)
        inner = fr("PUT t tail%d" % rng.randrange(100)) + fr("GET t")
        return bytes(rng.randrange(1, 256) for _ in range(n - len(inner))) + inner
    if kind == "text":
        return (b"PUT t " + b"x" * n)[:n]
    if kind == "quiet":        # first inner header announces an in-range length that the body cannot satisfy -> silence afterwards
        return hdr(MAXF) + bytes(rng.randrange(256) for _ in range(64)) + bytes(n - 68)
    return bytes(rng.randrange(256) for _ in range(n))


def malformed(rng, big_ok):
    """one malformed request frame, complete by the protocol's framing"""
    r = rng.random()
    if r < 0.2:
        return hdr(0)
    if r < 0.5:
        return fr(b"PUT t " + rng.choice([b"", b"ab"]) + rng.choice(BAD_UTF8) + rng.choice([b"", b"z", b" "]))
    if r < 0.6:
        return fr(rng.choice(BAD_UTF8))
    if r < 0.9 or not big_ok:
        return fr(rng.choice(BAD_CMDS))
    n = rng.choice([MAXF + 1, MAXF + 1, MAXF + 2, MAXF + 1 + rng.randrange(300)])
    return hdr(n) + oversize_body(rng, n, rng.choice(["smuggle", "zeros", "text", "quiet", "random", "tailfr"]))


def rand_stream(rng, nframes, p_bad, big_ok, topics):
    parts = []
    for _ in range(nframes):
        if rng.random() < p_bad:
            parts.append(malformed(rng, big_ok))
        else:
            parts.append(fr(rand_cmd(rng, topics)))
    r = rng.random()
    if r < 0.12:      # truncated header
        parts.append(bytes(rng.randrange(256) for _ in range(rng.randint(1, 3))))
    elif r < 0.24:    # truncated body
        b = rand_cmd(rng, topics).encode("utf-8") or b"x"
        parts.append(hdr(len(b) + rng.randint(1, 5)) + b)
    elif r < 0.30:    # over-long announcement that the client never honours
        parts.append(hdr(rng.choice([MAXF + 1, 2**31, 2**32 - 1, 0x01000000, 70000])) + rng.choice([b"", b"x", fr("PUT t late") + fr("GET t"), hdr(0)]))
    return b"".join(parts)


def boundary_streams(rng, tier):
    out = []
    A = out.append
    # the lengths named in the plan: 0, 1, MAX, MAX+1, 2^32-1, on their own and followed by good frames
    tailgood = fr("PUT t after") + fr("GET t")
    full = tier != "quick"
    for n in [0, 1, 2, 3, 4, MAXF - 1, MAXF, MAXF + 1, MAXF + 2, 2 * MAXF, 2**16 + 2**8, 2**24, 2**31 - 1, 2**31, 2**32 - 2, 2**32 - 1]:
        A(hdr(n))
        A(hdr(n) + tailgood)
        A(fr("PUT t before") + hdr(n) + tailgood)
        if 0 < n <= (2 * MAXF if full else MAXF + 2):
            for fill in ((b"x", b" ", b"\x00", b"\xff") if (full or n <= MAXF) else (b"x", b"\x00")):
                A(fr(fill * n) + tailgood)
                A(fr(fill * (n - 1), declared=n) + b"")            # one byte short
            body = (b"PUT t " + b"p" * n)[:n]
            A(fr("GET t") + fr(body) + fr("GET t") + fr("GET t"))
            if n > 8:
                A(fr((b"PUT t " + "é".encode() * n)[:n]) + fr("GET t"))      # may split a 2-byte scalar at the end
                A(fr((b"PUT t " + b"p" * n)[:n - 1] + b" ") + fr("GET t"))
    # oversized frames carrying their full body, every body kind
    for kind in ["smuggle", "zeros", "text", "quiet", "random"]:
        for n in ([MAXF + 1, MAXF + 7] if tier == "quick" else [MAXF + 1, MAXF + 2, MAXF + 7, MAXF + 4096, 3 * MAXF]):
            b = oversize_body(rng, n, kind)
            A(hdr(n) + b)
            A(fr("PUT t pre") + hdr(n) + b + fr("GET t") + fr("GET t"))
            A(hdr(n) + b[:-1])
    # the refused body is skipped in chunks (client.rs discard_exact): announced lengths at and around
    # multiples of every power-of-two chunk size up to 8192, bodies whose LAST bytes are well-formed frames
    # (seeded change c24b-1 — a skip loop that mishandles exact multiples of its chunk — was missed before these)
    for n in ([MAXF + 4096, 2 * MAXF, MAXF + 4096 + 1, 2 * MAXF - 1] if tier == "quick"
              else [MAXF + (1 << k) + d for k in range(6, 14) for d in (-1, 0, 1)] + [2 * MAXF, 2 * MAXF + 1, 3 * MAXF, 4 * MAXF - 4096]):
        if n <= MAXF:
            continue
        for kind in ["tailfr", "zeros"]:
            b = oversize_body(rng, n, kind)
            A(fr("PUT t pre") + hdr(n) + b + fr("GET t") + fr("GET t") + fr("GET t"))
    # every invalid-UTF-8 class at the start, middle and end of a PUT payload and as the whole body
    for bad in BAD_UTF8:
        A(fr(bad) + tailgood)
        A(fr(b"PUT t " + bad) + fr("GET t"))
        A(fr(b"PUT t ab" + bad + b"cd") + fr("GET t"))
        A(fr(b"PUT t " + bad + b" ") + fr("GET t"))
        A(fr("PUT u ok") + fr(b"GET u" + bad) + fr("GET u"))
    for good in GOOD_EDGE:
        A(fr(b"PUT t " + good) + fr("GET t"))
        A(fr(b"PUT t x" + good + b"y ") + fr("GET t"))
        A(fr(b"PUT " + good + b" v") + fr(b"GET " + good))
    for c in BAD_CMDS:
        A(fr(c) + tailgood)
        A(fr("PUT t 1") + fr(c) + fr("GET t") + fr("GET t"))
    # truncations of one good stream at every byte
    s = fr("PUT t héllo") + hdr(0) + fr("GET t") + fr(b"\xff") + fr("GET t")
    for k in range(len(s) + 1):
        A(s[:k])
    # FIFO order and topic isolation
    A(b"".join(fr("PUT %s %d" % (t, i)) for i in range(6) for t in ("a", "b")) + b"".join(fr("GET %s" % t) for _ in range(7) for t in ("b", "a")))
    A(fr("REGISTER a") + fr("GET a") + fr("PUT a x") + fr("REGISTER a") + fr("GET a") + fr("GET a"))
    A(fr("PUT fail x") + fr("GET fail") + fr("REGISTER fail") + fr("STATE fail") + fr("PUT fail2 x") + fr("GET fail2"))
    A(fr("PUT  x") + fr("GET  y") + fr("GET ") + fr("PUT a  b ") + fr("GET a"))
    return out


def ws_sweep(rng, tier):
    """char::is_whitespace over the scalar values: frames "METRICS<c>" (answer METRICS iff c is trimmed),
    "PUT w x<c>" + "GET w" (payload end) ; 1000 scalars per stream"""
    if tier == "quick":
        cps = list(range(0, 0x3100)) + list(range(0x3100, 0x110000, 257)) + [0xD7FF, 0xE000, 0xFEFF, 0xFFFF, 0x10000, 0x10FFFF]
    else:
        cps = list(range(0, 0x110000))
    cps = [c for c in cps if not (0xD800 <= c <= 0xDFFF)]
    out = []
    for i in range(0, len(cps), 1000):
        chunk = cps[i:i + 1000]
        out.append(b"".join(fr("METRICS" + chr(c)) for c in chunk))
        if tier != "quick" or i < 16000:
            out.append(b"".join(fr("PUT w x" + chr(c)) + fr("GET w") for c in chunk))
    return out, len(cps)


def rt_cases(rng, n):
    """PUT t p ; GET t pairs (the round-trip theorem's shape), optionally behind other traffic"""
    out = []
    for _ in range(n):
        t = rng.choice(TOPICS + [rand_text(rng, rng.randint(1, 4), [a for a in ALPHA if a != " "])])
        p = rand_payload(rng)
        pre = b"".join(fr(rand_cmd(rng, ["q", "r"])) for _ in range(rng.choice([0, 0, 1, 3])))
        out.append((pre, t, p))
    return out


def run_par(exe_args, lines, shards=C.NPROC, **kw):
    """like common.run_lines_parallel, but balanced by bytes (a few streams are hundreds of kilobytes)"""
    from concurrent.futures import ThreadPoolExecutor
    if not lines:
        return [], 0, ""
    order = sorted(range(len(lines)), key=lambda k: -len(lines[k]))
    bins = [[] for _ in range(min(shards, len(lines)))]
    load = [0] * len(bins)
    for k in order:
        b = load.index(min(load))
        bins[b].append(k)
        load[b] += len(lines[k]) + 200
    with ThreadPoolExecutor(len(bins)) as ex:
        rs = list(ex.map(lambda idx: C.run_lines(exe_args, [lines[k] for k in idx], **kw), bins))
    out, rc, err = ["<missing>"] * len(lines), 0, ""
    for idx, (o, r, e) in zip(bins, rs):
        for k, x in zip(idx, o):
            out[k] = x
        if len(o) != len(idx):
            rc = rc or r or 1
        rc = rc or r
        err = err or e
    return out, rc, err


def load_corpus():
    cases = []
    for path in sorted(glob.glob(os.path.join(C.VERIF, "corpus", "C24", "*.case"))):
        for line in open(path):
            line = line.strip()
            if line and not line.startswith("#"):
                cases.append(line.split()[0])
    return cases


def parse_resps(out_hex):
    """response bodies of an output (python-side, for the independent round-trip check only)"""
    b = C.unhx(out_hex)
    rs, i = [], 0
    while i + 4 <= len(b):
        n = struct.unpack_from("<I", b, i)[0]
        rs.append(b[i + 4:i + 4 + n])
        i += 4 + n
    return rs


def py_trim_end(s):
    while s and ord(s[-1]) in WS:
        s = s[:-1]
    return s


def run(ctx):
    tier, rng, driver = ctx["tier"], ctx["rng"], ctx["driver"]
    failures, broken = [], []
    # the extracted functions recurse over whole streams (hundreds of kilobytes): lift the soft stack limit for the child processes
    soft, hard = resource.getrlimit(resource.RLIMIT_STACK)
    if soft != hard:
        resource.setrlimit(resource.RLIMIT_STACK, (hard, hard))
    known_open = any(k.get("id") == FINDING_ID for k in C.load_known_findings("C24"))
    model_cmd, other_cmd = ("client", "client_fixed") if known_open else ("client_fixed", "client")
    dwh = C.build_rust("dwh", cfgs=())
    dwh_rel = C.build_rust("dwh", cfgs=(), release=True) if tier != "quick" else None

    cases = []
    if ctx.get("replay"):
        cases += [f["case"] for f in ctx["replay"].get("failing", []) if "case" in f]
        cases += [b["case"] for b in ctx["replay"].get("broken", []) if "case" in b]
    ncorpus = len(cases)
    cases += load_corpus()
    ncorpus = len(cases) - ncorpus
    cases += [C.hx(s) for s in boundary_streams(rng, tier)]
    sweep, nscalars = ws_sweep(rng, tier)
    cases += [C.hx(s) for s in sweep]
    rts = rt_cases(rng, 600 if tier == "quick" else 20000)
    for pre, t, p in rts:
        cases.append(C.hx(pre + fr("PUT %s %s" % (t, p)) + fr("GET %s" % t)))
    nrand = 2500 if tier == "quick" else 60000
    nbig = 40 if tier == "quick" else 600
    for i in range(nrand):
        topics = rng.sample(TOPICS, rng.randint(1, 4))
        cases.append(C.hx(rand_stream(rng, rng.choice([1, 2, 3, 5, 8, 13, 30]), rng.choice([0.0, 0.1, 0.3, 0.6, 1.0]), False, topics)))
    for i in range(nbig):
        cases.append(C.hx(rand_stream(rng, rng.choice([2, 4, 8]), 0.5, True, ["t", "a"])))
    cases = list(dict.fromkeys(cases))

    impl, rc, err = run_par([dwh, "client"], cases)
    model, rc2, err2 = run_par([driver, model_cmd], cases)
    if rc or rc2 or len(impl) != len(cases) or len(model) != len(cases):
        broken.append(dict(kind="correspondence", what="client runs failed rc=%s/%s %s %s" % (rc, rc2, err[-300:], err2[-300:])))
        impl += ["<missing>"] * (len(cases) - len(impl)); model += ["<missing>"] * (len(cases) - len(model))
    if dwh_rel:
        impl_rel, rc3, err3 = run_par([dwh_rel, "client"], cases)
        nrel = sum(1 for a, b in zip(impl, impl_rel) if a != b) + abs(len(impl) - len(impl_rel))
        if rc3 or nrel:
            broken.append(dict(kind="correspondence", what="release and debug builds of client.rs disagree on %d cases (rc=%s)" % (nrel, rc3)))
    diff_idx = [k for k, (i, m) in enumerate(zip(impl, model)) if i != m]
    if diff_idx:
        alt, _, _ = C.run_lines([driver, other_cmd], [cases[k] for k in diff_idx])
        alt_same = sum(1 for k, a in zip(diff_idx, alt) if a == impl[k])
        hint = ""
        if alt_same == len(diff_idx):
            hint = (" — the implementation agrees with the OTHER model (%s) on all of them: the oversized-frame handling of client.rs and the status of %s "
                    "in known_findings.json do not match" % (other_cmd, FINDING_ID))
        for k in diff_idx[:5]:
            broken.append(dict(kind="correspondence", what="model (%s) and implementation disagree on the bytes written back%s" % (model_cmd, hint),
                               case=cases[k], impl=impl[k][:400], model=model[k][:400]))
    # acceptor (spec) over the implementation's outputs; known-class predicate evaluated on the case
    acc, rca, erra = run_par([driver, "accept_c24"], ["%s %s" % (c, i if i != "<missing>" else "panic") for c, i in zip(cases, impl)])
    cls, rcc, errc = run_par([driver, "classify_c24"], cases)
    if rca or rcc or len(acc) != len(cases) or len(cls) != len(cases):
        broken.append(dict(kind="harness", what="acceptor runs failed rc=%s/%s %s %s" % (rca, rcc, erra[-300:], errc[-300:])))
        acc += ["badcase"] * (len(cases) - len(acc)); cls += ["tail=0"] * (len(cases) - len(cls))
    nrej = nknown_cases = nexcusable = 0
    for k, (c, i, m, a) in enumerate(zip(cases, impl, model, acc)):
        in_known = " known=1 " in a
        nknown_cases += in_known
        if not a.startswith("ok "):
            nrej += 1
            excusable = in_known and known_open and i == m     # classify() decides; only these are ever capped
            nexcusable += excusable
            if not excusable or nexcusable <= 50:
                failures.append(dict(kind="acceptor", case=c, impl=i[:2000], verdict=a, classes=[KNOWN_CLASS] if in_known else [],
                                     impl_matches_v0_model=(known_open and i == m),
                                     what="the server's output is not one well-formed response per request frame with FIFO round trip (spec c24_ok)"))
    # independent restatement of the round trip on the PUT/GET pairs (python-side)
    rt_checked = rt_pre_ok = 0
    pos = {c: k for k, c in enumerate(cases)}
    rt_lines = ["%s %s" % (C.hx(t), C.hx(p)) for (_, t, p) in rts]
    rtok, _, _ = run_par([driver, "rtok_c24"], rt_lines)
    for (pre, t, p), ok in zip(rts, rtok):
        h = C.hx(pre + fr("PUT %s %s" % (t, p)) + fr("GET %s" % t))
        rs = parse_resps(impl[pos[h]]) if impl[pos[h]] not in ("panic", "<missing>") else []
        rt_checked += 1
        if ok == "1":
            rt_pre_ok += 1
            want = b"OK " + py_trim_end(p).encode("utf-8")
            if len(rs) < 2 or rs[-2] != b"OK" or rs[-1] != want:
                failures.append(dict(kind="acceptor", case=h, impl=impl[pos[h]][:2000], classes=[], topic=repr(t), payload=repr(p),
                                     what="PUT t p; GET t did not answer OK / OK <p> although c24_rt_ok t p holds"))
    # coverage
    hist = dict(Z=0, O=0, U=0, R=0, P=0, G=0, S=0, M=0, B=0)
    tails = dict(none=0, truncated=0, truncated_oversize=0)
    nontrivial = 0
    nfr_hist = {}
    for c, cl in zip(cases, cls):
        toks = cl.split()
        t = toks[-1]
        body = toks[:-1]
        for x in body:
            hist[x] = hist.get(x, 0) + 1
        tails["none" if t == "tail=0" else ("truncated_oversize" if t.endswith("!") else "truncated")] += 1
        b = "1" if len(body) <= 1 else ("2-4" if len(body) <= 4 else ("5-16" if len(body) <= 16 else (">16")))
        nfr_hist[b] = nfr_hist.get(b, 0) + 1
        has_bad = any(x in "ZOUB" for x in body) or t != "tail=0"
        has_good = any(x in "RPGSM" for x in body)
        if len(body) + (t != "tail=0") >= 2 and has_bad and (has_good or len(set(body)) > 1):
            nontrivial += 1
    cov = dict(
        evaluations=len(cases), distinct_nontrivial=nontrivial,
        rule="one case = the whole byte stream of one connection, de-duplicated; corpus + boundary streams (announced lengths 0,1,..,MAX-1,MAX,MAX+1,..,2^32-1 with "
             "full/short bodies, every invalid-UTF-8 class at start/middle/end of a payload, every unknown/incomplete command, one stream cut at every byte, "
             "oversized frames with their full body of five kinds) + whitespace sweep (%d scalar values, 1000 per stream) + PUT/GET pairs over a scalar alphabet "
             "with every White_Space code point + seeded random pipelines of valid/malformed frames with truncated tails. non-trivial = at least two pieces "
             "(frames or truncated tail), at least one malformed piece (zero/oversized length, invalid UTF-8, bad command, truncation) together with a "
             "well-formed command or a different kind of piece; counted from the extracted spec's classification of each stream" % nscalars,
        traces_validated_against_impl=len(cases),
        samples=[dict(case=c[:300], impl=i[:300], spec_classes=cl, verdict=a) for c, i, cl, a in
                 list(zip(cases, impl, cls, acc))[ncorpus:ncorpus + 3] + list(zip(cases, impl, cls, acc))[-3:]],
        histogram=dict(frames_by_class=hist, tails=tails, frames_per_stream=nfr_hist, streams_with_oversize_header=nknown_cases,
                       acceptor_rejections=nrej, model_impl_disagreements=len(diff_idx), roundtrip_pairs=rt_checked, roundtrip_pairs_in_precondition=rt_pre_ok,
                       corpus_cases=ncorpus, whitespace_sweep_scalars=nscalars, max_stream_bytes=max(len(c) // 2 for c in cases),
                       model_used=model_cmd, release_build_compared=bool(dwh_rel)),
        exhaustive=False,
        whitespace_set_exhaustive=(tier != "quick"),
    )
    return dict(failures=failures, broken=broken, coverage=cov)


def classify(f, known):
    """A rejected trace is the known finding only if the CASE announces an over-long frame (extracted predicate
    c24_known, reported by accept_c24) and the implementation did exactly what the model of the unfixed code does."""
    if KNOWN_CLASS in f.get("classes", []) and f.get("impl_matches_v0_model"):
        for k in known:
            if k.get("id") == FINDING_ID:
                return k
    return None
