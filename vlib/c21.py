"""C21 — Raft log store and peer address book survive any number of restarts.
Theorems: props/C21.v.  Correspondence: harness/owh runs the UNMODIFIED octopii sources
  src/wal/mod.rs (+ octopii's own walrus fork), src/openraft/storage.rs (WalLogStore: WalLogRecord,
  recover_from_wal, persist_record, the five write operations), src/openraft/types.rs, src/state_machine.rs
against stand-in crates, and a text-verified mirror of node.rs's peer-address code, on
  (a) store-level histories (append / truncate / purge / save_vote / save_committed / peer records /
      observations interleaved with 0-4 reopens of both kinds), compared line by line with model/RaftStore.v, and
  (b) wrapper-level histories (append / read_all / reopen, small, empty, and multi-block payload volumes).
Acceptor: the extracted spec c21_ok (every result and observation equals the ideal, never-restarting
store's) over the IMPLEMENTATION's output of every store-level case.

Which model the code is compared with follows known_findings.json: while finding
C21-D11-recovery-read-consumes-log is `open` the model is mode Consuming, once its status is
"fixed: ..." the model is mode Replaying (PROPOSED_FIX.diff) and nothing is excused."""
from . import common as C
from . import raftlib as R

import os
import subprocess

FINDING_ID = R.FINDING_ID
KNOWN_CLASS = R.KNOWN_CLASS
FINDING2_ID = "C21-F2-append-acknowledged-after-failed-write"
KNOWN_CLASS2 = "writes-exceed-filesystem"

TRUSTED_EXTRA = [
    "harness/owh (Rust): #[path]-includes /repo/octopii/src/{wal/mod.rs (+ wal/wal/ fork), openraft/storage.rs, openraft/types.rs, state_machine.rs} unchanged; "
    "the fork is built against io-uring 0.7.10 (it asks for 0.6, not available offline)",
    "stand-in crates harness/shims/{tokio (block_in_place/sleep/async Mutex+RwLock, every future immediately ready, one thread), bincode (wire format re-implemented; "
    "only its round trip matters here), openraft (type shapes and storage-trait signatures copied from the vendored crate, NO consensus), futures (Stream, try_next)}; "
    "the harness plays RaftCore and calls the storage traits directly",
    "harness/owh/src/peerbook.rs mirrors node.rs's peer-address code (node.rs needs quinn and a running Raft): three items verbatim (text compared on every run), "
    "the start-up block and persist_peer_addr_if_needed adapted (tied by source fingerprint) — the weakest tie of this property",
    "modelled, not verified: octopii's walrus fork is abstracted to a queue with a durable consumer position (justified by runs up to multi-block volumes, not by proof); "
    "BTreeMap/HashMap as key-ordered association lists; serde/bincode round trip of records assumed lossless (exercised on every case)",
]
ASSUMPTIONS = [
    "restarts are clean (drop of every handle, or normal process exit); crashes are C07-C10's subject, on the main engine",
    "read_all is called only before the first append of a process lifetime — true of its three callers (recover_from_wal, load_peer_addr_records, "
    "WalBackedStateMachine::replay_wal; the set of callers is checked on every run). A read_all after an append persists a position inside the writer's block "
    "under a block id the next lifetime assigns differently; probes of that path are reported in the histogram, not judged",
    "one record plus its 64-byte header fits one 10 MiB block of the fork (a larger record is lost at the first reopen together with what follows it in the block: "
    "the fork still has the upstream multi-unit recovery defect; probed, reported in the histogram)",
    "no WAL file is reclaimed (needs 1000 MiB written by one process lifetime)",
    "no I/O errors: every append succeeds, so every operation that returns is acknowledged (the acceptor itself treats an error result as 'not acknowledged')",
    "openraft's LogId/Vote/Entry are the stand-in's copies of the vendored definitions (field order and derives copied); LogId order = (term, node_id, index)",
]


def known_open():
    return any(k.get("id") == FINDING_ID for k in C.load_known_findings("C21"))


def build_store_cases(tier, rng):
    q = tier == "quick"
    g = R.StoreGen(rng)
    cases = []
    n = 170 if q else 5000
    for i in range(n):
        nre = rng.choice([0, 1, 1, 2, 2, 2, 3, 3, 4])
        cases.append(g.case("s%d" % i, rng.choice([4, 8, 12, 20] if q else [4, 8, 12, 20, 35, 60]), nre))
    return cases


def build_wal_cases(tier, rng):
    q = tier == "quick"
    cases = []
    for i in range(70 if q else 2000):
        cases.append(R.wal_case(rng, "w%d" % i, rng.choice([0, 1, 2, 2, 3, 4])))
    for i in range(1 if q else 30):
        cases.append(R.wal_case(rng, "wbig%d" % i, rng.choice([1, 2, 3]), big=True))
    # entry cap of one batch read (2000) and many small records
    for i, n in enumerate([2001] if q else [1999, 2000, 2001, 4500]):
        cases.append(["CASE wcap%d" % i] + ["APPEND %04x" % k for k in range(n)] + ["RESTART", "READALL", "REOPEN", "READALL"])
    return cases


def full_fs_probe(owh, driver, rng, mode):
    """Fault injection outside the model (which assumes that appends do not fail): the store on a 256 KiB tmpfs, eight
    40 kB entries.  Judged by the acceptor only: every append whose flush callback reported success must be there after a
    restart.  Needs the right to mount a tmpfs; reported as not run otherwise."""
    base = C.shm_dir("c21full")
    mnt = os.path.join(base, "mnt")
    os.makedirs(mnt, exist_ok=True)
    size_kb, n, plen = 256, 8, 40000
    m = subprocess.run(["mount", "-t", "tmpfs", "-o", "size=%dk" % size_kb, "tmpfs", mnt], capture_output=True, text=True)
    if m.returncode != 0:
        return [], dict(run=False, why="mount -t tmpfs not permitted: " + m.stderr.strip()[:120])
    try:
        case = ["CASE fs-full node=1 bind=127.0.0.1:9321 peers=127.0.0.1:9322 fs_kb=%d mode=%s" % (size_kb, mode), "SV 1.1.1"]
        for i in range(1, n + 1):
            case.append("SA 1.1.%d:N%s" % (i, bytes(rng.randrange(256) for _ in range(plen)).hex()))
        case += ["STATE", "RESTART", "STATE", "PEERS"]
        io, rc, err = C.run_lines([owh, "store", mnt], case, timeout=300)
    finally:
        subprocess.run(["umount", "-l", mnt], capture_output=True)
        import shutil
        shutil.rmtree(base, ignore_errors=True)
    io += ["<missing>"] * (len(case) - len(io))
    acc_in = ["%s => %s" % (case[0], io[0])] + ["%s => %s" % (l, i) for l, i in zip(case[1:], io[1:])] + ["END"]
    acc, rc2, err2 = C.run_lines([driver, "accept_raft"], acc_in, timeout=300)
    verdict = acc[-1] if acc else "c21=REJECT"
    short = lambda x: x if len(x) < 160 else x[:70] + "…" + x[-70:]
    info = dict(run=True, fs_kb=size_kb, entries=n, entry_bytes=plen, acknowledged=sum(1 for i in io if i == "ok:flushed"),
                state_after_restart=short(io[-2]), verdict=verdict)
    fails = []
    if not verdict.startswith("c21=ok"):
        # class from the CASE: the payload volume offered exceeds the file system the store lives on
        in_class = n * plen > size_kb * 1024
        fails.append(dict(kind="acceptor", level="store-fault", case_lines=[short(l) for l in case], impl=[short(x) for x in io], verdict=verdict,
                          classes=[KNOWN_CLASS2] if in_class else [],
                          what="appends acknowledged (flush callback Ok) on a full file system are missing after a restart: the fork's FD backend ignores the result of write_at"))
    return fails, info


def run(ctx):
    tier, rng, driver = ctx["tier"], ctx["rng"], ctx["driver"]
    failures, broken = [], []
    is_open = known_open()
    mode = "consuming" if is_open else "replaying"
    other = "replaying" if is_open else "consuming"
    owh = C.build_rust("owh", cfgs=())

    tb, tie_info = R.source_ties()
    broken += tb

    # ---------------- store level ----------------
    cases = []
    if ctx.get("replay"):
        for f in ctx["replay"].get("failing", []) + ctx["replay"].get("broken", []):
            if "case_lines" in f and f.get("level") == "store":
                cases.append(f["case_lines"])
    ncorpus = len(cases)
    cases += R.load_corpus("C21", "store")
    ncorpus = len(cases) - ncorpus
    cases += build_store_cases(tier, rng)
    mcases = [R.with_mode(c, mode) for c in cases]
    res, transient = R.run_cases_settled(owh, driver, "store", "raftstore", mcases, "c21s")
    ndiff = 0
    diff_idx = []
    for k, (c, (io, mo)) in enumerate(zip(mcases, res)):
        for j, (l, i, m) in enumerate(zip(c, io, mo)):
            if i != m:
                ndiff += 1
                diff_idx.append(k)
                if ndiff <= 4:
                    broken.append(dict(kind="correspondence", level="store", what="model/RaftStore.v (mode %s) and the implementation disagree" % mode,
                                       at_line=j, op=l, impl=i[:400], model=m[:400], case_lines=cases[k][:j + 1]))
                break
    if diff_idx:
        alt = R.run_cases(owh, driver, "store", "raftstore", [R.with_mode(cases[k], other) for k in diff_idx[:200]], "c21alt")
        agree = sum(1 for (io, mo) in alt if io == mo)
        if agree == len(alt):
            broken.append(dict(kind="correspondence", level="store",
                               what="the implementation agrees with the OTHER model (mode %s) on all %d disagreeing cases: the recovery read of wal/mod.rs and the status of %s in "
                                    "known_findings.json do not match" % (other, len(alt), FINDING_ID)))
    # acceptor (spec) over the implementation's outputs; known class evaluated by the extracted predicate on the case
    acc_in, ends = [], []
    for c, (io, mo) in zip(mcases, res):
        acc_in.append("%s => %s" % (c[0], io[0]))
        for l, i in zip(c[1:], io[1:]):
            acc_in.append("%s => %s" % (l, i))
        acc_in.append("END")
        ends.append(len(acc_in) - 1)
    acc_out, rc, err = C.run_lines([driver, "accept_raft"], acc_in, timeout=3000)
    if rc or len(acc_out) != len(acc_in):
        broken.append(dict(kind="harness", what="acceptor run failed rc=%s %s" % (rc, err[-300:])))
        acc_out += ["c21=REJECT c19=REJECT known=0 reopens=0 applies=0"] * (len(acc_in) - len(acc_out))
    nrej = nknown = nexc = 0
    hist_re, hist_ops = {}, {}
    nontrivial = set()
    verdicts = []
    for k, (c, (io, mo), e) in enumerate(zip(cases, res, ends)):
        v = dict(kv.split("=") for kv in acc_out[e].split() if "=" in kv)
        verdicts.append(acc_out[e])
        in_known = v.get("known") == "1"
        nknown += in_known
        hist_re[v.get("reopens", "?")] = hist_re.get(v.get("reopens", "?"), 0) + 1
        wrote = False
        for l, i in zip(c[1:], io[1:]):
            t = l.split()[0]
            hist_ops[t] = hist_ops.get(t, 0) + 1
            if t in ("SA", "ST", "SP", "SV", "SC", "PEER") and i.startswith("ok") and i != "ok:same":
                wrote = True
            if t in ("REOPEN", "RESTART", "KILL") and wrote:
                nontrivial.add("\n".join(c[1:]))
        if v.get("c21") != "ok":
            nrej += 1
            excusable = in_known and is_open and io == mo
            nexc += excusable
            if not excusable or nexc <= 40:
                failures.append(dict(kind="acceptor", level="store", case_lines=c, impl=[x[:300] for x in io], verdict=acc_out[e],
                                     classes=[KNOWN_CLASS] if in_known else [], impl_matches_consuming_model=bool(is_open and io == mo),
                                     what="a reopened store does not report exactly what was acknowledged (spec c21_ok: results and observations of the ideal, never-restarting store)"))

    # ---------------- wrapper level ----------------
    wcases = []
    if ctx.get("replay"):
        for f in ctx["replay"].get("failing", []) + ctx["replay"].get("broken", []):
            if "case_lines" in f and f.get("level") == "wal":
                wcases.append(f["case_lines"])
    wcases += R.load_corpus("C21", "wal")
    wcases += build_wal_cases(tier, rng)
    wcases = [c for c in wcases if R.wal_is_disciplined(c)]
    wm = [R.with_mode(c, mode) for c in wcases]
    wres, wtransient = R.run_cases_settled(owh, driver, "wal", "raftwal", wm, "c21w")
    wdiff = 0
    wnontriv = set()
    wbytes_max = 0
    for c, (io, mo) in zip(wcases, wres):
        for j, (l, i, m) in enumerate(zip(c, io, mo)):
            if i != m:
                wdiff += 1
                if wdiff <= 4:
                    broken.append(dict(kind="correspondence", level="wal", what="the WAL-wrapper model (mode %s) and wal/mod.rs disagree" % mode,
                                       at_line=j, op=l, impl=i[:400], model=m[:400], case_lines=c[:j + 1]))
                break
        seen_app = False
        vol = 0
        for l in c[1:]:
            t = l.split()
            if t[0] == "APPENDG":
                vol += int(t[2]) + 64
            if t[0] in ("APPEND", "APPENDG"):
                seen_app = True
            elif t[0] in ("REOPEN", "RESTART", "KILL") and seen_app:
                wnontriv.add("\n".join(c[1:]))
        wbytes_max = max(wbytes_max, vol)
    ff, full_info = full_fs_probe(owh, driver, rng, mode)
    failures += ff
    # probes outside the model's domain: reported, not judged
    probes = R.UNDISCIPLINED_PROBES + [R.OVERSIZE_PROBE]
    pres = R.run_cases(owh, driver, "wal", "raftwal", [R.with_mode(c, mode) for c in probes], "c21p")
    probe_report = {}
    for c, (io, mo) in zip(probes, pres):
        probe_report[c[0].split()[1]] = dict(ops=c[1:], impl=[x[:80] for x in io[1:]], queue_model=[x.lstrip("?")[:80] for x in mo[1:]],
                                             differs=[x for x in io] != [x.lstrip("?") for x in mo])

    samp = [dict(level="store", case=c[:14], impl=io[:14], verdict=v) for c, (io, mo), v in list(zip(cases, res, verdicts))[ncorpus:ncorpus + 2]]
    samp += [dict(level="wal", case=c[:12], impl=[x[:120] for x in io[:12]]) for c, (io, mo) in list(zip(wcases, wres))[:2]]
    cov = dict(
        evaluations=len(cases) + len(wcases), distinct_nontrivial=len(nontrivial) + len(wnontriv),
        rule="store level: seeded random histories (4-35 operations over SA/ST/SP/SV/SC/PEER/STATE/PEERS/APPLY, 0-4 reopens placed at random, REOPEN = same process, "
             "RESTART = fresh process after a clean exit, KILL = fresh process after SIGKILL between two operations, 0-3 configured peers incl. ids that collide with the node or are 0) + corpus; wrapper level: append/read_all/reopen histories "
             "inside the calling discipline with empty, small, 63/64/65-byte, 70 kB and (a few) multi-block payload volumes, and a >2000-entry backlog. "
             "non-trivial = at least one reopen happens after at least one acknowledged write (store) / append (wrapper); distinct = different operation text",
        traces_validated_against_impl=len(cases),
        samples=samp,
        histogram=dict(store_cases=len(cases), wal_cases=len(wcases), corpus_cases=ncorpus, store_ops=hist_ops, reopens_per_store_case=hist_re,
                       store_cases_in_known_class=nknown, acceptor_rejections=nrej, store_model_impl_disagreements=ndiff, wal_model_impl_disagreements=wdiff,
                       wal_max_generated_bytes_in_one_case=wbytes_max, model_used="mode " + mode, source_ties=tie_info, transient_disagreements=transient + wtransient,
                       probes_outside_model_domain=probe_report, full_filesystem_fault_case=full_info),
        exhaustive=False,
    )
    return dict(failures=failures, broken=broken, coverage=cov)


def classify(f, known):
    """A rejected trace is the known finding only if the CASE has an acknowledged record before its previous reopen
    (extracted predicate c21_known on the case, reported by accept_raft) and the implementation did exactly what the
    model of the unrepaired code does on that case."""
    if KNOWN_CLASS in f.get("classes", []) and f.get("impl_matches_consuming_model"):
        for k in known:
            if k.get("id") == FINDING_ID:
                return k
    if KNOWN_CLASS2 in f.get("classes", []) and f.get("level") == "store-fault":
        for k in known:
            if k.get("id") == FINDING2_ID:
                return k
    return None
