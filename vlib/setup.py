"""./check setup — build the framework once from files on disk (offline)."""
import os
from . import common as C


def main():
    C.gen_consts()
    C.ensure_coq_makefile()
    with C.Lock():
        C.sh(["timeout", "3000", "make", "-j%d" % C.NPROC], cwd=C.COQ, timeout=3100)
    C.build_driver()
    for crate, cfgs, rel in HARNESSES:
        if os.path.isdir(os.path.join(C.VERIF, "harness", crate)):
            C.build_rust(crate, cfgs, release=rel)
    from . import c05
    c05.build_conc_harness()          # wh with --cfg walrus_verif_conc (scheduling-point hook)
    print("setup ok")
    return 0


HARNESSES = [
    ("wh", ("walrus_verif",), False),
    ("wh", ("walrus_verif", "walrus_verif_small"), False),
    ("wh", ("walrus_verif", "walrus_verif_small"), True),      # C11 runs the release profile too
    ("dwh", (), False),
    ("dwh", (), True),
    ("owh", (), False),
    ("cwh", ("walrus_verif", "walrus_verif_small"), False),
]
