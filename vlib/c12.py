"""C12 — file reclamation never removes entries that are still unconsumed.

Theorems: coq/props/C12.v over coq/model/Trk.v (both trackers of allocator.rs + flush_check).
Per run, on the real crate (small geometry: 8 blocks of 4096 bytes per file, reclaim every 3rd
tick of a 1 ms background loop):
  correspondence  the tracker calls traced by the cfg(walrus_verif) hook in every process lifetime
                  are fed to the extracted model; its final state and its deletion requests are
                  compared with the real snapshot (both maps, all counters, flags) and the real
                  request events; files that disappeared from the directory must have been
                  requested (and removed by the reclaimer thread, not by anything else)
  acceptor (1)    c12_trace_ok (Coq) over the traced calls: every deletion request found the file
                  full, all its registered blocks marked, none locked
  acceptor (2)    the end-to-end rule: after everything (and after a final restart in most cases)
                  every topic is drained; the queue acceptor c06alo_ok (spec/Queue.v: nothing lost,
                  nothing skipped, nothing reordered; re-delivery after a restart tolerated) must
                  accept the implementation's whole trace.
Failures are classified by mechanism computed from the trace and the case (never from the
failing output): a block marked while already marked, a block id registered twice in one process
(same-process reopen), a restart after the reclaimer removed a file."""
import os

from . import common as C
from . import trk as T

TRUSTED_EXTRA = [
    "harness/wh (Rust): drives the public walrus API in child processes; ops TRK (tracker snapshot + drained call trace), LS (directory listing), SLEEP; small geometry and 3-tick reclaim via --cfg walrus_verif_small",
    "cfg(walrus_verif) hook: trk_event at the entry of every tracker function of allocator.rs and at the deletion-request send, nesting depth recorded; verif_trk_snapshot reads both maps (observation only)",
    "modelled, not verified: RwLock/atomics of the trackers are used from one client thread at a time (the reclaimer thread only receives requests); HashMap<String,_> keyed by path = association list keyed by a number per path",
    "the end-to-end rule judges reclamation by what a consumer can still read; payload bytes are identified by content (pid, skip, len)",
]
ASSUMPTIONS = [
    "sequential histories, one client thread; concurrency is C05's subject",
    "timing: histories SLEEP long enough (>= 25 ms at 1 ms per tick, reclaim every 3rd tick) before a restart for pending deletions to be carried out; the tracker trace itself is independent of timing",
    "the clause 'a block is marked only when its entries are consumed' is not observed directly at the tracker seam; it is decided by the end-to-end drain",
]

SIZES = [3000, 1700, 1000, 3840, 600]   # 1, 2, 3 entries per 4096-byte block; 3840 fills a block exactly


def per_block(s, B=4096):
    return max(1, B // (s + T.H))


def gen_case(rng, cid, restarts, B=4096):
    ntop = rng.choice([3, 3, 4, 5, 6])
    topics = ["t%d" % (i + 1) for i in range(ntop)]
    size = {t: rng.choice(SIZES) for t in topics}
    mode = rng.choice(["strict", "strict", "strict", "alo:1", "alo:3"])
    hdr = "CASE %s mode=%s backend=%s sched=ms:1 trk=1" % (cid, mode, rng.choice(["fd", "mmap"]))
    lines = [hdr]
    pid = [0]
    heavy = rng.random() < 0.6          # consume-heavy: files really become reclaimable
    nops = rng.choice([50, 80, 120, 160])
    slept = 0

    def app(t):
        lines.append("A %s %d %d" % (t, pid[0], size[t] if rng.random() < 0.85 else rng.choice([0, 100, 127, 128, 500, size[t] // 2])))
        pid[0] += 1

    def block_budget(t):
        return per_block(size[t]) * (size[t] + T.H)

    for _ in range(nops):
        t = rng.choice(topics)
        x = rng.random()
        if x < (0.40 if heavy else 0.50):
            app(t)
        elif x < 0.47:
            n = rng.choice([2, 3, 4])
            lines.append("B %s %s" % (t, ",".join("%d:%d" % (pid[0] + k, size[t]) for k in range(n))))
            pid[0] += n
        elif x < 0.57:
            lines.append("R %s 1" % t)
        elif x < 0.70:
            b = rng.choice([block_budget(t), block_budget(t), size[t] + T.H, 2 * block_budget(t), 10 * B, "max"])
            lines.append("BR %s %s 1 -" % (t, b))
        elif x < 0.74:
            lines.append("R %s 0" % t)
        elif x < 0.79:
            lines.append("BR %s %s 0 -" % (t, rng.choice([block_budget(t), size[t] + T.H, 10 * B])))
        elif x < 0.86:
            # repeated polls at the same position (often an exhausted block or an empty topic)
            k = rng.choice([2, 3, 5, 9])
            op = rng.choice(["BR %s %s 1 -" % (t, block_budget(t)), "BR %s %s 0 -" % (t, block_budget(t)), "R %s 0" % t, "R %s 1" % t,
                             "BR %s %s 1 -" % (t, 10 * B)])
            lines.extend([op] * k)
        elif x < (0.94 if heavy else 0.88):
            # drain one topic
            lines.append("BR %s %s 1 -" % (t, 100 * B))
            lines.append("BR %s %s 1 -" % (t, 100 * B))
            lines.append("R %s 1" % t)
        elif x < 0.96:
            if slept < 120:
                ms = rng.choice([5, 10, 25])
                slept += ms
                lines.append("SLEEP %d" % ms)
                lines.append("TRK")
            else:
                lines.append("C %s" % t)
        elif x < 0.98 and restarts:
            lines.append("SLEEP 30")
            lines.append("TRK")
            lines.append(rng.choice(["REOPEN", "RESTART"]))
        else:
            lines.append("C %s" % t)
    lines.append("SLEEP 30")
    lines.append("TRK")
    lines.append("LS")
    r = rng.random()
    if r < 0.55:
        lines.append("RESTART")
    elif r < 0.75 and restarts:
        lines.append("REOPEN")
    for t in topics:
        for _ in range(4):
            lines.append("BR %s %s 1 -" % (t, 100 * B))
        lines.append("R %s 1" % t)
        lines.append("C %s" % t)
    lines.append("SLEEP 10")
    lines.append("LS")
    lines.append("TRK")
    return lines + probe(topics, B)


def probe(topics, B=4096):
    """Classification probe, not judged by the acceptors: forget every persisted read position
    (RMIDX = process exit, index files removed, fresh process) and read every topic from the
    start: what is still on disk.  An entry the consumer never got that shows up here was
    skipped (cursor); one that does not was removed with its file."""
    out = ["RMIDX"]
    for t in topics:
        out += ["BR %s %d 1 -" % (t, 100 * B)] * 5 + ["R %s 1" % t]
    return out


def boundary_cases(rng, n):
    """Directed histories: one topic runs ahead and is polled/peeked repeatedly at an exhausted
    block while another topic of the same file is unconsumed."""
    out = []
    for k in range(n):
        s1, s2 = rng.choice([3000, 1700, 3840]), rng.choice([3000, 1000])
        lines = ["CASE dir-%d mode=%s backend=%s sched=ms:1 trk=1" % (k, rng.choice(["strict", "alo:2"]), rng.choice(["fd", "mmap"]))]
        pid = 0
        na = rng.choice([2, 3, 4])
        for i in range(12):
            t, s = ("t1", s1) if i % na else ("t2", s2)
            for _ in range(per_block(s)):
                lines.append("A %s %d %d" % (t, pid, s)); pid += 1
        poll = rng.choice(["BR t1 %d 0 -" % (per_block(s1) * (s1 + T.H)), "BR t1 %d 1 -" % (per_block(s1) * (s1 + T.H)), "R t1 0", "BR t1 40960 1 -"])
        for _ in range(rng.choice([3, 6, 12])):
            lines.append("BR t1 %d 1 -" % (per_block(s1) * (s1 + T.H)))
            lines.extend([poll] * rng.choice([1, 2, 4]))
        lines += ["SLEEP 30", "TRK", "LS"]
        lines.append(rng.choice(["RESTART", "RESTART", "REOPEN"]))
        for t in ("t1", "t2"):
            lines += ["BR %s 409600 1 -" % t] * 4 + ["R %s 1" % t, "C %s" % t]
        lines += ["SLEEP 10", "LS", "TRK"] + probe(["t1", "t2"])
        out.append(lines)
    return out


def peek_cases(rng, n):
    """Directed histories: two topics share the blocks of a file; the lagging one consumes a prefix and then only
    PEEKS at its next entry (often the last entry of a sealed block), the other one is drained and both move on
    into the next file.  A block that was only peeked must not count as consumed (seeded change c12b-2 — a mark
    placed before the `if checkpoint` — was missed by the random histories: they hardly ever peek exactly there
    and then consume everything else of the file)."""
    out = []
    for k in range(n):
        s = rng.choice([3000, 3000, 1700, 900])
        pb = per_block(s)
        lines = ["CASE peek-%d mode=%s backend=%s sched=ms:1 trk=1" % (k, rng.choice(["strict", "strict", "alo:2"]), rng.choice(["fd", "mmap"]))]
        pid = 0
        nl = na = 0
        for i in range(8):                       # one file: blocks alternate between the two topics
            t = "t1" if i % 2 == 0 else "t2"
            for _ in range(pb):
                lines.append("A %s %d %d" % (t, pid, s)); pid += 1
                if t == "t1":
                    nl += 1
                else:
                    na += 1
        for i in range(rng.choice([4, 6, 10])):  # both move on into the next file(s)
            t = "t1" if i % 2 == 0 else "t2"
            for _ in range(pb):
                lines.append("A %s %d %d" % (t, pid, s)); pid += 1
        consumed = rng.choice([nl - 1, nl - 1, nl - pb, max(0, nl - pb - 1), rng.randint(0, nl)])
        lines += ["R t1 1"] * consumed
        lines += [rng.choice(["R t1 0", "BR t1 %d 0 -" % (s + T.H), "BR t1 1 0 -"])] * rng.choice([1, 3, 5])
        # the other topic is consumed and polled past with read_next (batch reads do not retire blocks)
        n2 = sum(1 for l in lines if l.startswith("A t2 "))
        lines += (["R t2 1"] * (n2 + 2)) if rng.random() < 0.8 else (["BR t2 409600 1 -"] * 3)
        lines += ["SLEEP 40", "TRK", "LS", rng.choice(["RESTART", "RESTART", "REOPEN"])]
        for t in ("t1", "t2"):
            lines += ["BR %s 409600 1 -" % t] * 4 + ["R %s 1" % t, "C %s" % t]
        lines += ["SLEEP 10", "LS", "TRK"] + probe(["t1", "t2"])
        out.append(lines)
    return out


def rollover_cases(rng, n):
    """Directed histories with as many topics as a file has blocks: a NEW topic's first block is the one that rolls
    over to a fresh file (allocator path get_next_available_block, not the ordinary rotation); that topic then stays
    unconsumed while another topic fills and consumes the rest of the new file and moves on (seeded change c12b-1 —
    the new file's first block registered against the previous file — was missed: the random histories use 2-3 topics)."""
    out = []
    for k in range(n):
        lines = ["CASE roll-%d mode=%s backend=%s sched=ms:1 trk=1" % (k, rng.choice(["strict", "alo:2"]), rng.choice(["fd", "mmap"]))]
        pid = 0
        nt = 8 + rng.choice([0, 0, 1])           # topics t1..t8 take the 8 blocks of the first file (small geometry)
        for i in range(1, nt + 1):
            lines.append("A t%d %d %d" % (i, pid, rng.choice([10, 300, 3000]))); pid += 1
        lag = "t%d" % (nt + 1)                     # its first block opens the next file
        lines.append("A %s %d %d" % (lag, pid, rng.choice([10, 300, 3000]))); pid += 1
        run = "t1"
        for _ in range(rng.choice([7, 8, 10, 16])):   # fills the rest of that file and rolls on
            lines.append("A %s %d 3000" % (run, pid)); pid += 1
        nrun = sum(1 for l in lines if l.startswith("A %s " % run))
        lines += (["R %s 1" % run] * (nrun + 2)) if rng.random() < 0.8 else (["BR %s 409600 1 -" % run] * 4 + ["R %s 1" % run])
        if rng.random() < 0.5:
            for i in range(2, nt + 1):
                lines.append("R t%d 1" % i)
        lines += ["SLEEP 40", "TRK", "LS", rng.choice(["RESTART", "RESTART", "REOPEN"])]
        topics = ["t%d" % i for i in range(1, nt + 2)]
        for t in topics:
            lines += ["BR %s 409600 1 -" % t] * 2 + ["R %s 1" % t, "C %s" % t]
        lines += ["SLEEP 10", "LS", "TRK"] + probe(topics)
        out.append(lines)
    return out


def build_cases(tier, rng):
    q = tier == "quick"
    cases = boundary_cases(rng, 20 if q else 400)
    cases += peek_cases(rng, 16 if q else 300)
    cases += rollover_cases(rng, 10 if q else 200)
    for i in range(100 if q else 4000):
        cases.append(gen_case(rng, "C12-%d" % i, restarts=(i % 3 != 0)))
    return cases


def accept_lines(case, outs):
    """input of the driver's `accept` command for one case (queue acceptors over the
    implementation's own results); instance k's topic tN becomes t(1000k+N)"""
    acc = [case[0]]
    for l, o in zip(case[1:], outs[1:]):
        k, core = T.strip_inst(l)
        t = core.split()
        if t and t[0] == "RMIDX":
            break
        if not t or t[0] in ("TRK", "LS", "SLEEP", "CLOSE", "K", "MC", "MD", "SZ", "CS"):
            continue
        if k > 1 and len(t) > 1 and t[1].startswith("t"):
            t[1] = "t%d" % (1000 * k + int(t[1][1:]))
        if t[0] == "REOPEN" and k > 1:
            continue
        acc.append("%s => %s" % (" ".join(t), canon(o)))
    return acc


def canon(o):
    def sh(tok):
        p = tok.split(":")
        return ":".join(p[:4]) if tok.startswith("e:") else tok
    if o.startswith("["):
        inner = o[1:-1]
        return "[" + ";".join(sh(x) for x in inner.split(";")) + "]" if inner else "[]"
    return sh(o)


def analyse(case, outs, variant):
    """Everything the check needs to know about one executed case, before the model is asked."""
    lts = T.lifetimes_of(case, outs)
    return dict(lifetimes=lts, model_lines=[(i, lt.model_line(variant)) for i, lt in enumerate(lts) if lt.snap is not None])


def toks_of(o):
    o = canon(o)
    if o.startswith("e:"):
        return [o]
    if o.startswith("[") and len(o) > 2:
        return o[1:-1].split(";")
    return []


def loss_analysis(case, outs):
    """(never delivered to the consumer before the probe, of those: not on disk any more) as sets
    of (topic, pid); zero-length payloads cannot be identified and are left out"""
    appended, delivered, scan = set(), set(), set()
    probing = False
    for l, o in zip(case[1:], outs[1:]):
        t = l.split()
        if t[0] == "RMIDX":
            probing = True
            continue
        if t[0] == "A" and o == "ok" and int(t[3]) > 0:
            appended.add((t[1], int(t[2])))
        elif t[0] == "B" and o == "ok":
            for it in t[2].split(","):
                p, n = it.split(":")
                if int(n) > 0:
                    appended.add((t[1], int(p)))
        elif (t[0] == "R" and t[2] == "1") or (t[0] == "BR" and t[3] == "1" and t[4] == "-"):
            for tok in toks_of(o):
                f = tok.split(":")
                if f[1] not in ("_", "X"):
                    (scan if probing else delivered).add((t[1], int(f[1])))
    lost = appended - delivered
    return lost, lost - scan, probing


def restart_after_removal(case, lts):
    """mechanism class: some REOPEN/RESTART happens after flush_check requested the removal of a
    file (the reclaimer carries a request out within three ticks; histories sleep before
    restarting).  Requests are sent synchronously by the client thread, so the TRK dump that
    precedes a restart op holds every earlier request."""
    req_lines = []
    for lt in lts:
        for (j, _, _, nreq) in lt.events_by_dump:
            if nreq > 0:
                req_lines.append(j)
    if not req_lines:
        return False
    first = min(req_lines)
    return any(T.strip_inst(l)[1].split()[:1] in (["REOPEN"], ["RESTART"]) for l in case[first:])


def run(ctx):
    tier, rng, driver = ctx["tier"], ctx["rng"], ctx["driver"]
    failures, broken = [], []
    wh = C.build_rust("wh", ("walrus_verif", "walrus_verif_small"))
    variant = T.mark_variant()
    tick = T.reclaim_tick()
    cases = []
    if ctx.get("replay"):
        for f in ctx["replay"].get("failing", []) + ctx["replay"].get("broken", []):
            if "case_lines" in f:
                cases.append(f["case_lines"])
    cdir = os.path.join(C.VERIF, "corpus", "C12")
    if os.path.isdir(cdir):
        for fn in sorted(os.listdir(cdir)):
            cases.append([l for l in open(os.path.join(cdir, fn)).read().split("\n") if l.strip()])
    cases += build_cases(tier, rng)
    res = T.run_cases(wh, cases, "c12")
    # ---- model over the traced calls of every lifetime
    infos = [analyse(c, o, variant) for c, o in zip(cases, res)]
    mlines, owner = [], []
    for ci, inf in enumerate(infos):
        for li, ml in inf["model_lines"]:
            mlines.append(ml); owner.append((ci, li))
    mout, rc, err = C.run_lines([driver, "trk"], mlines, timeout=1800)
    if len(mout) != len(mlines):
        broken.append(dict(kind="harness", what="model run failed rc=%s %s" % (rc, err[-300:])))
        mout += ["req=- files=- blocks=- contract=0 safe=0 repeat=0 rereg=0"] * (len(mlines) - len(mout))
    models = {}
    for (ci, li), o in zip(owner, mout):
        models[(ci, li)] = T.parse_model(o)
    # ---- end-to-end acceptor
    acc_in = []
    for c, o in zip(cases, res):
        acc_in += accept_lines(c, o)
    acc_out, rc, err = C.run_lines([driver, "accept"], acc_in, timeout=1800)
    if len(acc_out) != len(cases):
        broken.append(dict(kind="harness", what="acceptor run failed rc=%s %s" % (rc, err[-300:])))
        acc_out += [""] * (len(cases) - len(acc_out))
    ndiff = nlt = nreq = nrem = nunsafe = nrej = ncalls = 0
    hist_cls, nontriv, marks_rep, nrereg = {}, 0, 0, 0
    for ci, (c, outs, inf, a) in enumerate(zip(cases, res, infos, acc_out)):
        lts = inf["lifetimes"]
        classes = set()
        unsafe_lt = []
        case_reqs = case_rem = 0
        for li, lt in enumerate(lts):
            if lt.snap is None:
                continue
            nlt += 1
            ncalls += len(lt.calls)
            m = models[(ci, li)]
            d = T.compare_snapshot(lt, m)
            if d:
                ndiff += 1
                if ndiff <= 3:
                    broken.append(dict(kind="correspondence", what="model/Trk.v and the real trackers disagree: " + " | ".join(d),
                                       lifetime=li, variant=variant, case_lines=c, calls=lt.model_line(variant)[:3000]))
            case_reqs += len(lt.reqs); case_rem += len(lt.removed)
            if m["repeat"]:
                marks_rep += 1
            if m["rereg"]:
                nrereg += 1
            ra = T.request_analysis(lt)
            for q in ra:
                classes.update(q["mechanisms"])
            if not m["safe"]:
                unsafe_lt.append(li)
            if not d and any(q["unsafe"] for q in ra) != (not m["safe"]):
                broken.append(dict(kind="harness", what="python request analysis and the Coq acceptor c12_trace_ok disagree", case_lines=c, lifetime=li))
            # removed files must have been requested in this lifetime
            req_base = {p.rsplit("/", 1)[-1] for p in lt.reqs}
            for r in lt.removed:
                if r not in req_base:
                    failures.append(dict(kind="acceptor", acceptor="removed-unrequested", classes=[], case_lines=c,
                                         what="the reclaimer removed %s which flush_check never requested" % r))
        if restart_after_removal(c, lts):
            classes.add("restart-after-removal")
        nreq += case_reqs; nrem += case_rem
        if case_reqs:
            nontriv += 1
        # files that vanished from the directory must be removals of the reclaimer
        lss = [T.listing(o) for l, o in zip(c, outs) if T.strip_inst(l)[1] == "LS"]
        lss = [x for x in lss if x is not None]
        if len(lss) >= 2:
            gone = set(T.wal_files(lss[0])) - set(T.wal_files(lss[-1]))
            # a removal right before a process exit is not in any trace dump; its request is
            allrem = {r for lt in lts for r in lt.removed} | {p.rsplit("/", 1)[-1] for lt in lts for p in lt.reqs}
            for g in sorted(gone - allrem):
                failures.append(dict(kind="acceptor", acceptor="vanished", classes=sorted(classes), case_lines=c,
                                     what="WAL file %s disappeared without a removal event of the reclaimer" % g))
        cols = dict(kv.split("=") for kv in a.split()[1:] if "=" in kv)
        hard = [o for l, o in zip(c, outs) if o in ("panic", "died", "noinstance", "<missing>", "nocase", "badcase")]
        bad = []
        if cols.get("c06alo") != "ok":
            bad.append("c06alo")
        if hard:
            bad.append("hard:" + hard[0])
        if unsafe_lt:
            bad.append("c12_trace_ok")
            nunsafe += 1
        if "c06alo" in bad:
            # name the mechanism of the loss: removed with its file, or only skipped by the cursor
            lost, gone, probed = loss_analysis(c, outs)
            rar = "restart-after-removal" in classes
            classes.discard("restart-after-removal")
            if gone and not unsafe_lt:
                classes.add("unexplained-loss")          # data removed although every request was safe
            if (lost - gone) or not lost:
                classes.add("restart-after-removal" if rar else "unexplained-skip")
            if not probed:
                classes.add("no-probe")
        else:
            classes.discard("restart-after-removal")
        for k in classes:
            hist_cls[k] = hist_cls.get(k, 0) + 1
        if bad:
            nrej += 1
            failures.append(dict(kind="acceptor", acceptor=",".join(bad), classes=sorted(classes), case_lines=c,
                                 unsafe_lifetimes=unsafe_lt, requests=case_reqs, removals=case_rem,
                                 what=("a deletion request was sent while a block of the file was unmarked or locked; " if unsafe_lt else "")
                                      + ("entries lost, skipped or reordered for the consumer (c06alo_ok rejects the implementation trace)" if "c06alo" in bad else "")
                                      + (" hard failure %s" % hard[0] if hard else "")))
    ops = {}
    for c in cases:
        for l in c[1:]:
            k = l.split()[0]
            ops[k] = ops.get(k, 0) + 1
    s = next((i for i, inf in enumerate(infos) if any(lt.reqs for lt in inf["lifetimes"])), 0)
    cov = dict(
        evaluations=len(cases), distinct_nontrivial=nontriv,
        rule="seeded histories over 3-6 topics (entry sizes giving 1, 2, 3 entries per 4096-byte block or filling it exactly), appends, batches, "
             "consuming and peeking read_next/batch reads with block-sized budgets, repeated polls at one position, drains, SLEEPs, REOPEN/RESTART, "
             "final restart + drain; plus directed two-topic histories polling at an exhausted block; sched=ms:1, reclaim every 3rd tick; "
             "non-trivial = flush_check sent at least one deletion request in the case (measured from the trace); cases are distinct by construction",
        traces_validated_against_impl=nlt,
        samples=[dict(case=cases[s][:40], results=[x[:80] for x in res[s][:40]])],
        histogram=dict(ops=ops, lifetimes=nlt, tracker_calls=ncalls, deletion_requests=nreq, files_removed=nrem,
                       model_impl_disagreements=ndiff, lifetimes_with_repeated_mark=marks_rep, lifetimes_with_reregistration=nrereg,
                       cases_with_unsafe_request=nunsafe, traces_rejected=nrej, classes=hist_cls,
                       mark_variant=variant, reclaim_tick_literal=tick),
        exhaustive=False,
    )
    return dict(failures=failures, broken=broken, coverage=cov)


def classify(f, known):
    """Known only by mechanism: the classes are computed from the traced calls and the case
    (which blocks of the requested file were marked how often / registered twice; whether a
    restart follows a removal), and EVERY mechanism involved must be a recorded finding."""
    cls = set(f.get("classes", []))
    acc = f.get("acceptor", "")
    if not cls or acc.startswith(("removed-unrequested", "vanished")) or "hard:" in acc:
        return None
    by_class = {k.get("class"): k for k in known}
    if any(c not in by_class for c in cls):
        return None
    if "c12_trace_ok" in acc and not (cls & {"mark-repeated", "reregistered"}):
        return None
    for c in ("mark-repeated", "reregistered", "restart-after-removal"):
        if c in cls:
            return by_class[c]
    return None
