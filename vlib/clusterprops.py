"""C22 / C23 — shared check logic (the two properties use the same harness, model and cases;
they differ in the acceptor that is run over the implementation's traces).

Tie to the code (variant A of the design): harness/cwh compiles controller/{mod,internal,types}.rs,
bucket.rs, monitor.rs, metadata.rs, rpc.rs, config.rs UNMODIFIED (#[path]) against the
deterministic executor of harness/shims/tokio_sched, the consensus-free harness/shims/octopii_cluster and the
REAL storage engine (through the pass-through tap harness/shims/walrus_tap).  Every case
(configuration + schedule of primitive events) is executed by the real code and by the
extracted model (ocaml driver `cluster`); the two token lines — one token per event: the await
reached, client invocations/answers, engine appends/reads with node/segment/payload, log
appends — must be EQUAL.  The extracted acceptors (c22_verdict / c23_verdict) then judge the
IMPLEMENTATION's token line.  A rejected case is a known finding only if the extracted class
predicate (spec/ClusterClass.v, evaluated on the CASE by the model) names a listed mechanism.
main.rs (binary wiring) cannot be included: the harness copies the RPC-handler closure and the
NodeController initialiser; their source text is fingerprinted (vlib/c22_fingerprint.json)."""
import collections
import glob
import hashlib
import json
import os
import re

from . import common as C
from . import clustergen as G

TRUSTED_EXTRA = [
    "harness/cwh (Rust): #[path]-includes distributed-walrus/src/{controller/mod.rs, controller/internal.rs, controller/types.rs, "
    "bucket.rs, monitor.rs, metadata.rs, rpc.rs, config.rs} unchanged; links the real walrus-rust crate (cfg walrus_verif, walrus_verif_small)",
    "harness/shims/tokio_sched: deterministic single-threaded executor instead of the real scheduler — tasks interleave only at awaits on "
    "tokio::sync::{Mutex,RwLock}, spawn_blocking, propose, RPC request, interval.tick (sequentially consistent, await granularity); "
    "spawn_blocking closures run atomically; timeouts never fire",
    "harness/shims/octopii_cluster: consensus replaced by one shared command log with a fixed leader (node 1) and fixed voters; propose answers after "
    "the leader applied; per-node apply is a schedule event; RPC = direct call of the target's handler; no message loss, no leader change",
    "harness/shims/walrus_tap: pass-through wrapper around the real engine that records (data dir, call, key, payload, result)",
    "harness/shims/bincode (wire format re-implementation; only used for RPC payloads between in-process nodes and metadata commands)",
    "the RPC-handler closure and the NodeController/Storage construction of main.rs::start_node are COPIED into harness/cwh (main.rs cannot "
    "be included); the copied source text is fingerprinted against vlib/c22_fingerprint.json",
    "restart of a node (event r<n>) is modelled only at a quiescent moment and assumes the metadata comes back as applied before (Raft log "
    "replay is C19-C21's subject)",
]
ASSUMPTIONS = [
    "the storage engine delivers each key's entries exactly once in order (C01) — in the MODEL the engine is a FIFO queue per (node, key); "
    "the harness runs the real engine, so a deviation shows up as a model/implementation difference",
    "one topic; node 1 is and stays the Raft leader; membership fixed; every node registered; rollover thresholds 1..4; 1-3 nodes",
    "interleavings at await granularity with sequentially consistent memory; finer interleavings of the multi-threaded tokio runtime "
    "(between two awaits, e.g. between the two metadata reads of append_for_topic and update_leases) are outside model and harness",
]

FP_FILE = os.path.join(os.path.dirname(os.path.abspath(__file__)), "c22_fingerprint.json")
CORE_FILES = ["controller/mod.rs", "controller/internal.rs", "controller/types.rs", "bucket.rs", "monitor.rs", "metadata.rs", "rpc.rs"]


def _norm(s):
    s = re.sub(r"//[^\n]*", "", s)
    return re.sub(r"\s+", " ", s).strip()


def _block_after(src, head):
    """Text from `head` to the brace/paren that closes the first '{' after it."""
    i = src.find(head)
    if i < 0:
        return None
    j = src.find("{", i)
    depth, k = 0, j
    while k < len(src):
        if src[k] == "{":
            depth += 1
        elif src[k] == "}":
            depth -= 1
            if depth == 0:
                return src[i:k + 1]
        k += 1
    return None


def wiring_fingerprint(repo):
    src = open(os.path.join(repo, "distributed-walrus/src/main.rs")).read()

    def h(t):
        return hashlib.sha256(_norm(t).encode()).hexdigest()[:24] if t else "missing"
    items = {}
    items["rpc handler closure"] = h(_block_after(src, "raft.set_custom_rpc_handler(move |req|"))
    items["NodeController initialiser"] = h(_block_after(src, "Arc::new(NodeController {"))
    items["startup lease sync and loops"] = "present" if re.search(
        r"controller\.update_leases\(\)\.await;\s*let sync_controller = controller\.clone\(\);", src) else "missing"
    items["bucket construction"] = "present" if "Arc::new(Storage::new(data_path).await?)" in src else "missing"
    return items


def load_corpus(prop):
    cases = []
    for d in ("C22", "C23"):          # both corpora are run for both properties
        for f in sorted(glob.glob(os.path.join(C.VERIF, "corpus", d, "*.case"))):
            for l in open(f):
                l = l.strip()
                if l and not l.startswith("#"):
                    cases.append((os.path.basename(f), l))
    return cases


def first_diff(case, i, m):
    it, mt = i.split(","), m.split(",")
    ev = case.split("sched=")[1].split(",") if "sched=" in case else []
    for k in range(max(len(it), len(mt))):
        a = it[k] if k < len(it) else "<none>"
        b = mt[k] if k < len(mt) else "<none>"
        if a != b:
            return dict(event_index=k, event=ev[k] if k < len(ev) else None, impl=a, model=b,
                        impl_before=it[max(0, k - 4):k], model_before=mt[max(0, k - 4):k])
    return None


KNOWN_BY_CLASS = {
    "C22": [("reset", "C22-offsets-lost-on-restart"), ("under", "C22-sealed-count-undercount"),
            ("ctw", "C22-stale-lease-write"), ("stale", "C22-stale-lease-write"), ("lag", "C22-reader-lag-empty")],
    "C23": [("ctw", "C23-check-then-write"), ("stale", "C23-stale-lease-refresh")],
}


def classify(prop, f, known):
    """Known finding for a rejected implementation trace: the class comes from the CASE (model
    run with ghost bookkeeping, spec/ClusterClass.v), and the model must predict the verdict."""
    if f.get("kind") != "acceptor" or f.get("model_verdict") != f.get("verdict") or f.get("trace_differs_from_model"):
        return None
    if prop == "C22" and f.get("verdict") not in (3, 4):
        return None
    if prop == "C23" and f.get("verdict") != 1:
        return None
    ids = {k["id"]: k for k in known}
    for cls, kid in KNOWN_BY_CLASS[prop]:
        if cls in f.get("classes", []) and kid in ids:
            return ids[kid]
    return None


def run_prop(ctx, prop):
    tier, rng, driver = ctx["tier"], ctx["rng"], ctx["driver"]
    failures, broken = [], []
    cwh = G.build_cwh()
    # --- wiring fingerprint (main.rs is copied, not included)
    fp = wiring_fingerprint(C.REPO)
    want = json.load(open(FP_FILE)) if os.path.exists(FP_FILE) else {}
    for k, v in fp.items():
        if want.get(k) != v:
            broken.append(dict(kind="correspondence", what="main.rs wiring copied into harness/cwh changed: %s (fingerprint %s, recorded %s) — "
                               "update harness/cwh/src/main.rs and vlib/c22_fingerprint.json" % (k, v, want.get(k))))
    # --- cases
    named = []
    if ctx.get("replay"):
        for f in ctx["replay"].get("failing", []) + ctx["replay"].get("broken", []):
            if "case" in f:
                named.append(("replay", f["case"]))
    named += load_corpus(prop)
    nrand = 220 if tier == "quick" else 6000
    for k in range(nrand):
        named.append(("random", G.random_case(rng, with_restart=(k % 7 == 3))))
    cases = [c for _, c in named]
    impl = G.run_impl(cwh, cases, tag=prop.lower())
    model = G.run_model(driver, "cluster", cases)
    classes = G.run_model(driver, "cluster_classes", cases)
    acc = "accept_c22" if prop == "C22" else "accept_c23"
    wrap = (lambda c, t: t) if prop == "C22" else (lambda c, t: G.cfg_prefix(c) + "|" + t)
    vi = G.run_model(driver, acc, [wrap(c, t) for c, t in zip(cases, impl)])
    vm = G.run_model(driver, acc, [wrap(c, t) for c, t in zip(cases, model)])
    ndiff = 0
    hist = collections.Counter()
    nontrivial = 0
    for (src, c), i, m, k, a, b in zip(named, impl, model, classes, vi, vm):
        cfg = dict(p.split("=", 1) for p in c.split(";") if "=" in p and not p.startswith(("clients", "sched")))
        hist["nodes=%s" % cfg.get("nodes")] += 1
        hist["thr=%s" % cfg.get("thr")] += 1
        hist["source=%s" % src.split("_")[0]] += 1
        hist["impl_verdict=%s" % a] += 1
        for kk in k.split():
            hist["class=%s" % kk] += 1
        differs = i != m
        if differs:
            ndiff += 1
            if ndiff <= 5:
                broken.append(dict(kind="correspondence", what="model and implementation traces differ", case=c,
                                   first_difference=first_diff(c, i, m), source=src))
            if not a.isdigit() or a == "0":
                continue
        elif "+L" in i and ".V:" in i:
            nontrivial += 1
        if not a.isdigit():
            broken.append(dict(kind="correspondence", what="acceptor could not parse the implementation trace: %s" % a, case=c, impl=i[:400]))
            continue
        if a != "0":
            failures.append(dict(kind="acceptor", case=c, source=src, verdict=int(a), model_verdict=int(b) if b.isdigit() else b,
                                 trace_differs_from_model=differs,
                                 classes=[] if k == "-" else k.split(),
                                 what={"C22": {1: "a payload was delivered twice", 2: "a GET returned a payload never PUT",
                                               3: "payloads of one producer delivered out of order",
                                               4: "a GET answered EMPTY while an acknowledged PUT was never returned"},
                                       "C23": {1: "engine append into a segment after the writing node applied its sealing",
                                               2: "engine append into a segment the writer's metadata assigns to another node",
                                               3: "malformed trace"}}[prop].get(int(a), "rejected")))
    # --- the positive theorems on the extracted model (sanity of extraction; model only)
    sample = cases[:: max(1, len(cases) // 120)]
    seq = G.run_model(driver, "cluster_seq", sample)
    seq_ok = G.run_model(driver, "accept_c22", seq)
    fen = G.run_model(driver, "cluster_fenced", sample)
    fen_ok = G.run_model(driver, "accept_c23", [G.cfg_prefix(c) + "|" + t for c, t in zip(sample, fen)])
    for c, v in zip(sample, seq_ok):
        if v != "0":
            broken.append(dict(kind="proof", what="extracted model contradicts c22_sequential_any_nodes_partial", case=c))
    for c, v in zip(sample, fen_ok):
        if v != "0":
            broken.append(dict(kind="proof", what="extracted model contradicts c23_atomic_fence_partial", case=c))
    samples = [dict(case=c[:400] + ("..." if len(c) > 400 else ""), impl=i[:300] + ("..." if len(i) > 300 else ""), verdict=a, classes=k)
               for (s, c), i, a, k in list(zip(named, impl, vi, classes))[:3] + list(zip(named, impl, vi, classes))[-2:]]
    cov = dict(
        evaluations=len(cases), distinct_nontrivial=nontrivial,
        rule="cases = corpus (witness schedules of every confirmed race + accepted boundary schedules) then seeded random: 1-3 nodes, "
             "threshold 1-4, 1-3 producer/consumer clients with 1-4 ops, random interleaving of client steps / apply@n / lease-loop / monitor "
             "steps (uniform, bursty, one lagging node; every 7th with a node restart), then a quiescent suffix and a drain down to EMPTY. "
             "non-trivial = model and implementation agree AND the run contains a rollover proposal and a delivered value",
        traces_validated_against_impl=len(cases) - ndiff,
        samples=samples, histogram=dict(hist), exhaustive=False,
        model_impl_disagreements=ndiff,
        schedule_events_executed=sum(t.count(",") + 1 for t in impl if t),
        restricted_systems_checked_on_model=dict(sequential=len(sample), fenced=len(sample)),
        wiring_fingerprint=fp,
    )
    return dict(failures=failures, broken=broken, coverage=cov)
