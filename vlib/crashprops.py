"""Crash properties C07, C08, C09: crash-point enumeration on the real crate through the
cfg(walrus_verif) I/O event seam (the process _exit()s right before its k-th I/O event; a fresh
process reopens the directory and is drained), judged by the acceptors of coq/spec/Crash.v
(extracted).  Theorems: coq/props/C07.v, C08.v, C09.v."""
import os
import re
import shutil
from concurrent.futures import ThreadPoolExecutor

from . import common as C
from . import enginegen as G

TRUSTED_EXTRA = [
    "harness/wh (Rust) + the cfg(walrus_verif) I/O event seam in /repo (src/wal/verif.rs: counts I/O events of the calling thread, _exit(86) right before the armed event; "
    "inside an io_uring batch the already queued writes are submitted and awaited first) — assumed observation-only when nothing is armed",
    "crash model: process crash, completed syscalls persist (page cache survives); power loss is C10's subject; torn single writes are not produced by the seam",
    "modelled, not verified: payload bytes abstract; recovery theorem is over well-formed file images (coq/proofs/EngineRec.v: dwf)",
]
ASSUMPTIONS = [
    "one client thread; background threads (fsync flusher, clean-marker persister) run freely and their I/O events are not crash points",
    "the workload process is killed at I/O-event boundaries of the client thread",
]

SCHEDS = ["nofsync", "nofsync", "each", "ms:3"]
H = 256


def gen_workload(rng, prop, B):
    """returns (header kvs, op lines, info)"""
    mode = "strict"
    if prop == "C09":
        mode = rng.choice(["strict", "strict", "alo:1", "alo:2", "alo:3", "alo:5", "alo:8"])
    hdr = "mode=%s backend=%s sched=%s" % (mode, rng.choice(["fd", "mmap"]), rng.choice(SCHEDS))
    ntop = rng.choice([1, 2, 3])
    topics = ["t%d" % (i + 1) for i in range(ntop)]
    g = G.Gen(rng, B=B, big=True)
    if prop == "C04" and rng.random() < 0.35:
        # regular streams on the io_uring path: a batch of equal-size entries, then single appends of the
        # same size (they land exactly on the slots a failed batch had planned: stale entries left behind
        # by an incomplete rollback become readable after a restart — seeded change c04b-2 was missed
        # by the random sizes), then another batch
        size = rng.choice([0, 9, 100, 300, 700])
        t = topics[0]
        pid = 0
        ops = []
        for _ in range(rng.choice([0, 1, 2])):
            ops.append("A %s %d %d" % (t, pid, size)); pid += 1
        nb = rng.choice([2, 3, 4, 6])
        ops.append("B %s %s" % (t, ",".join("%d:%d" % (pid + i, size) for i in range(nb)))); pid += nb
        for _ in range(rng.choice([1, 2, 3, 4, 6])):
            ops.append("A %s %d %d" % (t, pid, size)); pid += 1
        if rng.random() < 0.5:
            nb = rng.choice([2, 3])
            ops.append("B %s %s" % (t, ",".join("%d:%d" % (pid + i, size) for i in range(nb)))); pid += nb
        hdr = "mode=strict backend=fd sched=%s" % rng.choice(SCHEDS)
        return hdr, ops, dict(topics=topics, mode=mode, only_read_next=True, regular=True)
    if prop == "C09" and rng.random() < 0.3:
        # regular streams: equal-size entries (one per block, two per block, or small), a consumer that
        # has read part of them with read_next: consecutive persisted positions then share their
        # in-block offset or their block (seeded change c09b-1 — an index write skipped when the
        # offset alone is unchanged — needs exactly this and was missed by the random sizes)
        per = rng.choice([1, 1, 2, 3, 8])
        size = max(0, (B // per) - 64 - rng.choice([0, 0, 1, 7, 40]) if per > 1 else rng.randint(B // 2 + 1, B - 64))
        n = rng.choice([3, 4, 5, 7]) * (1 if per <= 2 else 2)
        t = topics[0]
        ops = ["A %s %d %d" % (t, i, size) for i in range(n)]
        nread = rng.randint(1, n)
        pos = sorted(rng.sample(range(1, n + 1), min(n, rng.choice([0, 1, 2]))))     # a few reads interleaved with the appends
        for j, p in enumerate(pos):
            ops.insert(p + j, "R %s 1" % t)
        ops += ["R %s 1" % t] * max(0, nread - len(pos))
        return hdr, ops, dict(topics=topics, mode=mode, only_read_next=True, regular=True)
    ops, pid = [], 0
    nops = rng.choice([4, 8, 14, 22])
    only_read_next = True
    for _ in range(nops):
        t = rng.choice(topics)
        x = rng.random()
        if prop == "C08":
            batchy = x < 0.7
        else:
            batchy = x < 0.3
        if prop == "C09" and x > 0.55:
            if rng.random() < 0.6:
                ops.append("R %s 1" % t)
            else:
                only_read_next = False
                ops.append("BR %s %s 1 -" % (t, rng.choice([0, 300, 1000, B, 3 * B, "max"])))
            continue
        if batchy:
            n = rng.choice([1, 2, 3, 5, 9, 17, 40]) if prop == "C08" else rng.choice([1, 2, 3, 6])
            items = []
            for _ in range(n):
                s = g.size() if rng.random() < 0.4 else rng.randint(0, 500)
                items.append("%d:%d" % (pid, s)); pid += 1
            ops.append("B %s %s" % (t, ",".join(items)))
        else:
            ops.append("A %s %d %d" % (t, pid, g.size())); pid += 1
    return hdr, ops, dict(topics=topics, mode=mode, only_read_next=only_read_next)


def drain_lines(topics):
    out = []
    for t in topics:
        out += ["BR %s max 1 -" % t, "BR %s max 1 -" % t, "R %s 1" % t, "C %s" % t]
    return out


def run_cases(wh, cases, tag):
    """cases: list of lists of lines; returns list of lists of output lines"""
    base = C.shm_dir(tag)
    shards = C.NPROC
    per = [[] for _ in range(shards)]
    for i, c in enumerate(cases):
        per[i % shards].append(c)

    def run_shard(k):
        lines = [l for c in per[k] for l in c]
        if not lines:
            return []
        d = os.path.join(base, "s%d" % k)
        os.makedirs(d, exist_ok=True)
        out, rc, err = C.run_lines([wh, "engine", d], lines, timeout=3000)
        if len(out) != len(lines):
            out = out + ["<missing>"] * (len(lines) - len(out))
        return out
    with ThreadPoolExecutor(shards) as ex:
        outs = list(ex.map(run_shard, range(shards)))
    res, pos = [None] * len(cases), [0] * shards
    for i, c in enumerate(cases):
        k = i % shards
        res[i] = outs[k][pos[k]:pos[k] + len(c)]
        pos[k] += len(c)
    # an instance that could not even be created (run directory vanished: something outside
    # the engine) is tried once more, alone
    for i, c in enumerate(cases):
        if res[i] and res[i][0] != "ok":
            out, rc, err = C.run_lines([wh, "engine", os.path.join(base, "retry")], c, timeout=600)
            if len(out) == len(c):
                res[i] = out
    shutil.rmtree(base, ignore_errors=True)
    return res


def drift_flags(driver, items):
    """items: list of (hdr, ops up to the crash).  Would a restart at that point change block
    ids (model predicate id_drift, coq/model/Engine.v) or meet a stale provisional tail position
    (stale_tail_b, coq/model/EngineKnown.v)?  Evaluated by the extracted model; returns the class list."""
    lines, idx = [], []
    for hdr, ops in items:
        lines.append("CASE d %s geom=small" % hdr)
        lines += [o for o in ops if o.split()[0] in ("A", "B", "BN", "R", "BR", "C")]
        lines.append("REOPEN")
        idx.append(len(lines) - 1)
    if not lines:
        return []
    out, rc, err = C.run_lines([driver, "engine"], lines, timeout=1800)
    return [[c for c, f in (("id-drift", "!drift"), ("stale-tail", "!stale")) if j < len(out) and f in out[j]] for j in idx]


def entries_of(line):
    t = line.split()
    if t[0] == "A":
        return t[1], ["%s:%s" % (t[2], t[3])]
    if t[0] == "B":
        return t[1], ([] if t[2] == "-" else t[2].split(","))
    return None, []


def toks_of(res):
    res = G.canon_impl(res)
    if res.startswith("e:"):
        return [res]
    if res.startswith("["):
        return [x for x in res[1:-1].split(";") if x]
    return []


def run(ctx):
    prop, tier, rng, driver = ctx["prop"], ctx["tier"], ctx["rng"], ctx["driver"]
    failures, broken = [], []
    wh = C.build_rust("wh", ("walrus_verif", "walrus_verif_small"))
    consts = C.gen_consts()
    B = consts["small"]["DEFAULT_BLOCK_SIZE"]
    q = tier == "quick"
    nwork = {"C07": 40, "C08": 30, "C09": 40, "C04": 40}[prop] * (1 if q else 8)
    workloads = []
    if ctx.get("replay"):
        for f in ctx["replay"].get("failing", []):
            if "workload" in f:
                workloads.append((f["workload"]["hdr"], f["workload"]["ops"], f["workload"]["info"], [f["k"]]))
    cdir = os.path.join(C.VERIF, "corpus", prop)
    if os.path.isdir(cdir):
        for fn in sorted(os.listdir(cdir)):
            ls = [l for l in open(os.path.join(cdir, fn)).read().split("\n") if l.strip()]
            hdr = ls[0].split(None, 2)[2]
            topics = sorted(set(l.split()[1] for l in ls[1:]))
            mode = re.search(r"mode=(\S+)", hdr).group(1)
            workloads.append((hdr, ls[1:], dict(topics=topics, mode=mode,
                                                  only_read_next=not any(l.startswith("BR") for l in ls[1:])), None))
    if prop == "C09":
        # one deterministic family per consistency mode: small equal entries that stay in the writer's
        # active block, more consuming read_next calls than persist_every (AtLeastOnce must persist every
        # persist_every-th of them also at the tail: seeded change c09b-2 — the tail path resetting the
        # counter on every read — was missed by the random workloads), crash points incl. after the last event
        for mode, pe in [("strict", 1), ("alo:1", 1), ("alo:2", 2), ("alo:3", 3), ("alo:5", 5), ("alo:8", 8)]:
            n = 2 * pe + 3
            ops = ["A t1 %d %d" % (i, 40 + 3 * (i % 2)) for i in range(n)] + ["R t1 1"] * (2 * pe + 1)
            workloads.append(("mode=%s backend=%s sched=nofsync" % (mode, rng.choice(["fd", "mmap"])), ops,
                              dict(topics=["t1"], mode=mode, only_read_next=True, regular=True), None))
    if prop in ("C07", "C09"):
        # never-written blocks ("holes") in front of a consumer's block: an append under an over-long topic name is
        # rejected only after its writer has allocated a block.  Recovery must still give the blocks behind the hole
        # the ids the allocator gave them, or a tail position persisted before the crash names another block after it
        # (seeded change c07c-1 — the recovery scan no longer counting all-zero units — was missed: no crash workload
        # had a rejected append).  Position persisted in the block behind the hole, that block filled and rotated,
        # crash points incl. right before / after the last event.
        for mode in (["strict"] if prop == "C07" else ["strict", "alo:1", "alo:2"]):
            for nholes in (1, 2):
                big = (B - 2 * H) // 2 - 40
                ops = ["A L%d %d 5" % (300 + i, 900 + i) for i in range(nholes)]
                ops += ["A t1 0 %d" % big, "A t1 1 60"]
                if prop == "C09":
                    ops += ["R t1 1"]
                ops += ["A t1 2 %d" % big, "A t1 3 %d" % big, "A t1 4 70", "A t2 5 30"]
                if prop == "C09":
                    ops += ["R t1 1"]
                workloads.append(("mode=%s backend=%s sched=nofsync" % (mode, rng.choice(["fd", "mmap"])), ops,
                                  dict(topics=["t1", "t2"], mode=mode, only_read_next=True, regular=True), None))
    for _ in range(nwork):
        hdr, ops, info = gen_workload(rng, prop, B)
        if prop in ("C07", "C09") and not info.get("regular") and rng.random() < 0.3:
            for _ in range(rng.choice([1, 1, 2])):
                ops.insert(rng.randint(0, len(ops)), "A L%d %d 5" % (rng.choice([217, 230, 300]), 9000 + rng.randint(0, 99)))
        workloads.append((hdr, ops, info, None))
    # 1) dry runs: count the I/O events of each workload
    if prop == "C04":
        return run_faults(ctx, wh, workloads, rng, q)
    dry = [["CASE dry%d %s" % (i, w[0]), "EVENTS"] + w[1] + ["EVENTS"] for i, w in enumerate(workloads)]
    dres = run_cases(wh, dry, prop.lower() + "d")
    cases, meta = [], []
    total_events = 0
    for i, (w, r) in enumerate(zip(workloads, dres)):
        try:
            n0, n1 = int(r[1][2:]), int(r[-1][2:])
        except Exception:
            broken.append(dict(kind="harness", what="dry run failed", out=r[:6]))
            continue
        n = n1 - n0
        total_events += n
        if w[3] is not None:
            ks = w[3]
        elif q:
            ks = sorted(set(rng.sample(range(1, n + 1), min(n, 14)))) if n > 0 else []
            if w[2].get("regular") and n > 0:
                ks = sorted(set(ks) | {n, n + 1})      # right before the last event, and after it (a plain restart)
        else:
            ks = list(range(1, n + 2 if w[2].get("regular") else n + 1))
        for k in ks:
            lines = ["CASE %s-w%d-k%d %s" % (prop, i, k, w[0]), "CRASHAT %d" % k] + w[1] + ["RESTART"] + drain_lines(w[2]["topics"])
            cases.append(lines)
            meta.append((i, k))
    res = run_cases(wh, cases, prop.lower())
    # 2) judge every crash run with the extracted acceptor
    acc_lines, acc_meta = [], []
    ninside_batch = 0
    hard = 0
    for (wi, k), lines, out in zip(meta, cases, res):
        hdr, ops, info, _ = workloads[wi]
        nops = len(ops)
        op_out = out[2:2 + nops]
        restart_out = out[2 + nops]
        drain_out = out[3 + nops:]
        died_at = next((j for j, o in enumerate(op_out) if o == "died"), None)
        wl = dict(hdr=hdr, ops=ops, info=info)
        if restart_out != "ok" or any(o in ("panic", "died", "<missing>", "noinstance") or o.startswith("err") for o in drain_out):
            hard += 1
            failures.append(dict(kind="acceptor", acceptor="recovery-failed", k=k, workload=wl, classes=[],
                                 restart=restart_out, drain=drain_out[:8],
                                 what="reopening after the crash did not succeed cleanly"))
            continue
        acked, deliv = {}, {}
        infl_topic, infl_entries, infl_read = None, [], None
        for j, (l, o) in enumerate(zip(ops, op_out)):
            if died_at is not None and j > died_at:
                break
            t, es = entries_of(l)
            if died_at is not None and j == died_at:
                if t is not None:
                    infl_topic, infl_entries = t, es
                elif l.split()[0] in ("R", "BR"):
                    infl_read = (l.split()[1], l.split()[0])
                break
            if t is not None and o == "ok":
                acked.setdefault(t, []).extend(es)
            elif l.split()[0] in ("R", "BR"):
                deliv.setdefault(l.split()[1], []).extend(toks_of(o))
        if infl_topic is not None and len(infl_entries) >= 2:
            ninside_batch += 1
        rec = {}
        dl = drain_lines(info["topics"])
        for l, o in zip(dl, drain_out):
            if l.split()[0] in ("R", "BR"):
                rec.setdefault(l.split()[1], []).extend(toks_of(o))
        for t in info["topics"]:
            a = ",".join(acked.get(t, [])) or "-"
            inf = (",".join(infl_entries) or "-") if infl_topic == t else "-"
            r = "[" + ";".join(rec.get(t, [])) + "]"
            if prop == "C07":
                acc_lines.append("%s | %s | %s" % (a, inf, r)); cmd = "accept_c07"
            elif prop == "C08":
                acc_lines.append("%s | %s | %s" % (a, inf, r)); cmd = "accept_c08"
            else:
                gap = 0
                if infl_read and infl_read[0] == t:
                    gap = 1 if infl_read[1] == "R" else 2000
                mode = info["mode"]
                if mode.startswith("alo") and not info["only_read_next"]:
                    mode = "alo"
                d = "[" + ";".join(deliv.get(t, [])) + "]"
                acc_lines.append("%s | %s | %s | %s | %s | %d" % (mode, a, inf, d, r, gap)); cmd = "accept_c09"
            cls = []
            if infl_topic == t and len(infl_entries) >= 2:
                cls.append("crash-inside-multi-entry-batch")
            acc_meta.append((wi, k, t, cls, acc_lines[-1]))
    cmdname = {"C07": "accept_c07", "C08": "accept_c08", "C09": "accept_c09"}[prop]
    verdicts, rc, err = C.run_lines([driver, cmdname], acc_lines, timeout=1800)
    if len(verdicts) != len(acc_lines):
        broken.append(dict(kind="harness", what="acceptor run failed rc=%s %s" % (rc, err[-300:])))
        verdicts += ["<missing>"] * (len(acc_lines) - len(verdicts))
    rejected = 0
    rej = [(wi, k) for (wi, k, t, cls, line), v in zip(acc_meta, verdicts) if v != "ok"]
    died = {}
    for (wi, k), lines, out in zip(meta, cases, res):
        nops = len(workloads[wi][1])
        died[(wi, k)] = next((j for j, o in enumerate(out[2:2 + nops]) if o == "died"), nops)
    uniq = sorted(set(rej))
    flags = dict(zip(uniq, drift_flags(driver, [(workloads[wi][0], workloads[wi][1][:died[(wi, k)] + 1]) for wi, k in uniq]))) if uniq else {}
    for (wi, k, t, cls, line), v in zip(acc_meta, verdicts):
        if v != "ok":
            rejected += 1
            hdr, ops, info, _ = workloads[wi]
            cls = cls + list(flags.get((wi, k)) or [])
            failures.append(dict(kind="acceptor", acceptor=cmdname, k=k, topic=t, classes=cls, judged=line, verdict=v,
                                 workload=dict(hdr=hdr, ops=ops, info=info),
                                 what="crash at I/O event %d: recovered state rejected by %s" % (k, cmdname)))
    cov = dict(
        evaluations=len(cases), distinct_nontrivial=len(set(meta)),
        rule="workloads (appends, batches%s over 1-3 topics, both backends, fsync schedules nofsync/each/ms) run in a child process that _exit()s right before its k-th I/O event; "
             "a fresh process reopens the directory and is drained; quick: 14 sampled k per workload, thorough: every k. Every (workload, k) pair is distinct and non-trivial by construction (a real process death and recovery)"
             % (", consuming reads" if prop == "C09" else ""),
        traces_validated_against_impl=len(cases),
        samples=[dict(case=c[:10], out=o[:10]) for c, o in list(zip(cases, res))[:2]],
        histogram=dict(workloads=len(workloads), io_events_total=total_events, crash_runs=len(cases), crashes_inside_multi_entry_batches=ninside_batch,
                       acceptor_judgements=len(acc_lines), rejected=rejected, recovery_failed=hard),
        exhaustive=(not q),
    )
    return dict(failures=failures, broken=broken, coverage=cov)


FAULT_KINDS = ("write", "flush", "uring_cqe")   # uring_sqe: a push cannot fail (the ring is sized for the batch)


def run_faults(ctx, wh, workloads, rng, q):
    """C04, injected I/O failures: the k-th I/O event of the client thread reports failure
    (storage write skipped as a failed pwrite, flush/fsync error, io_uring push failure, failed
    io_uring completion).  Whatever each operation then RETURNS decides what must be readable:
    exactly the entries of the operations that returned Ok, in order — in the running process
    and after a restart."""
    prop, driver = ctx["prop"], ctx["driver"]
    failures, broken = [], []
    dry = [["CASE dry%d %s" % (i, w[0]), "EVENTS", "TRACE"] + w[1] + ["TRACEEND"] for i, w in enumerate(workloads)]
    dres = run_cases(wh, dry, "c04d")
    cases, meta = [], []
    kinds_hist = {}
    rotated = {}
    Bsz = C.gen_consts()["small"]["DEFAULT_BLOCK_SIZE"]
    for i, (w, r) in enumerate(zip(workloads, dres)):
        try:
            n0 = int(r[1][2:])
            tr = r[-1][len("trace:"):].split("|") if r[-1].startswith("trace:") else []
        except Exception:
            broken.append(dict(kind="harness", what="dry run failed", out=r[:6]))
            continue
        cand = []
        evs = [e.split() for e in tr]
        for j, p in enumerate(evs):
            if len(p) >= 2 and p[0] != "0" and p[1] in FAULT_KINDS:
                if p[1] == "write" and "backend=mmap" in w[0]:
                    continue        # a store into the mapping cannot report failure
                cand.append((int(p[0]) - n0, p[1]))
                if p[1] == "uring_cqe":
                    # mechanism of the batch this completion belongs to: did its plan cross a block boundary?
                    # (uring_cqe / uring_submit records carry no path: the plan is read off the uring_sqe records
                    #  of the same submission, which directly precede it)
                    lo = j
                    while lo > 0 and len(evs[lo - 1]) >= 2 and (evs[lo - 1][0] in ("0", "T")      # background-thread and tracker records interleave freely
                                                              or evs[lo - 1][1] in ("uring_sqe", "uring_cqe", "uring_submit")):
                        lo -= 1
                    sq = [e for e in evs[lo:j] if len(e) >= 5 and e[0] not in ("0", "T") and e[1] == "uring_sqe"]
                    blocks = set((e[2], int(e[3]) // Bsz) for e in sq)
                    # rotated: the plan spans several blocks, or its first write starts a fresh block (the
                    # old one was sealed before anything was written)
                    rotated[(i, int(p[0]) - n0)] = len(blocks) > 1 or (bool(sq) and int(sq[0][3]) % Bsz == 0)
        if w[3] is not None:
            cand = [c for c in cand if c[0] in w[3]]
        elif q and len(cand) > 10:
            keep = [c for c in cand if c[1] == "uring_cqe"] if w[2].get("regular") else []     # every completion of a regular batch
            rest = [c for c in cand if c not in keep]
            cand = sorted(keep[:12] + rng.sample(rest, min(len(rest), max(0, 10 - len(keep)))))
        for k, kind in cand:
            kinds_hist[kind] = kinds_hist.get(kind, 0) + 1
            for variant in ("inproc", "restart"):
                lines = ["CASE C04-w%d-k%d-%s %s" % (i, k, variant, w[0]), "FAILAT %d" % k] + w[1] + \
                        (["RESTART"] if variant == "restart" else []) + drain_lines(w[2]["topics"])
                cases.append(lines)
                meta.append((i, k, kind, variant))
    res = run_cases(wh, cases, "c04")
    acc_lines, acc_meta = [], []
    nerr_ops = 0
    for (wi, k, kind, variant), lines, out in zip(meta, cases, res):
        hdr, ops, info, _ = workloads[wi]
        nops = len(ops)
        op_out = out[2:2 + nops]
        rest = out[2 + nops:]
        if variant == "restart":
            restart_out, drain_out = rest[0], rest[1:]
        else:
            restart_out, drain_out = "ok", rest
        wl = dict(hdr=hdr, ops=ops, info=info)
        cls = ["fault:" + kind + (":" + re.search(r"backend=(\w+)", hdr).group(1)) + (":" + re.search(r"sched=(\w+)", hdr).group(1))]
        if kind == "uring_cqe":
            # the open finding is about batches that ROTATED blocks; a failure inside a one-block batch is a different mechanism
            cls.append("fault:uring_cqe:rotated" if rotated.get((wi, k)) else "fault:uring_cqe:one-block")
        else:
            cls.append("fault:" + kind)
        if restart_out != "ok" or any(o in ("panic", "died", "<missing>", "noinstance") for o in op_out + drain_out):
            failures.append(dict(kind="acceptor", acceptor="fault-crashed", k=k, fault=kind, variant=variant, workload=wl, classes=cls,
                                 ops_out=op_out, restart=restart_out, drain=drain_out[:8],
                                 what="an injected %s failure made the engine panic, die or fail to reopen" % kind))
            continue
        acked = {}
        for l, o in zip(ops, op_out):
            t, es = entries_of(l)
            if t is not None:
                if o == "ok":
                    acked.setdefault(t, []).extend(es)
                elif o.startswith("err"):
                    nerr_ops += 1
        rec, dl = {}, drain_lines(info["topics"])
        bad_drain = [o for o in drain_out if o.startswith("err")]
        for l, o in zip(dl, drain_out):
            if l.split()[0] in ("R", "BR"):
                rec.setdefault(l.split()[1], []).extend(toks_of(o))
        for t in info["topics"]:
            a = ",".join(acked.get(t, [])) or "-"
            acc_lines.append("%s | - | [%s]" % (a, ";".join(rec.get(t, []))))
            acc_meta.append((wi, k, kind, variant, t, cls, acc_lines[-1], op_out, bad_drain))
    verdicts, rc, err = C.run_lines([driver, "accept_c07"], acc_lines, timeout=1800)
    if len(verdicts) != len(acc_lines):
        broken.append(dict(kind="harness", what="acceptor run failed rc=%s %s" % (rc, err[-300:])))
        verdicts += ["<missing>"] * (len(acc_lines) - len(verdicts))
    rejected = 0
    for (wi, k, kind, variant, t, cls, line, op_out, bad_drain), v in zip(acc_meta, verdicts):
        if v != "ok" or bad_drain:
            rejected += 1
            hdr, ops, info, _ = workloads[wi]
            failures.append(dict(kind="acceptor", acceptor="accept_c04_fault", k=k, fault=kind, variant=variant, topic=t, classes=cls,
                                 judged=line, verdict=v, ops_out=op_out, read_errors=bad_drain[:3],
                                 workload=dict(hdr=hdr, ops=ops, info=info),
                                 what="injected %s failure at I/O event %d (%s): readable entries differ from the entries of the operations that returned Ok" % (kind, k, variant)))
    cov = dict(evaluations=len(cases), distinct_nontrivial=len(set(meta)),
               rule="single-fault enumeration: for each generated workload the k-th I/O event of kind write/flush/uring_sqe/uring_cqe reports failure (quick: 10 sampled events per workload, thorough: all), "
                    "once drained in the running process and once after a restart; every (workload, k, variant) is distinct and non-trivial (a fault was really injected)",
               traces_validated_against_impl=len(cases), samples=[dict(case=c[:10], out=o[:10]) for c, o in list(zip(cases, res))[:2]],
               histogram=dict(workloads=len(workloads), fault_runs=len(cases), by_kind=kinds_hist, ops_that_returned_errors=nerr_ops,
                              acceptor_judgements=len(acc_lines), rejected=rejected), exhaustive=(not q))
    return dict(failures=failures, broken=broken, coverage=cov)


def classify(f, known):
    cls = set(f.get("classes", []))
    for k in known:
        if k.get("class") in cls and f.get("acceptor") == k.get("acceptor", f.get("acceptor")):
            return k
    return None
