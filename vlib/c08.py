"""C08 — crash-point enumeration; see vlib/crashprops.py and coq/props/C08.v."""
from .crashprops import run, classify, TRUSTED_EXTRA, ASSUMPTIONS  # noqa: F401
