"""Shared machinery of C12/C13: histories that make the background reclaimer run, the tracker-call
trace of every process lifetime (hook `trk_event` in src/wal/verif.rs), the extracted tracker
model (coq/model/Trk.v through the driver's `trk` command), snapshots, directory listings."""
import os
import re
import shutil
from concurrent.futures import ThreadPoolExecutor

from . import common as C

H = 256
KIND = {"register": "R", "regfile": "G", "addblock": "A", "lock": "L", "unlock": "U", "mark": "M", "full": "F", "flush": "X"}


def mark_variant():
    """Which set_checkpointed_true does the tree under test have?  'fixed' when the flag is
    swapped and only the first call counts (the proposed fix), else 'v0' (every call counts)."""
    src = open(os.path.join(C.REPO, "src/wal/runtime/allocator.rs")).read()
    m = re.search(r"fn set_checkpointed_true\(.*?\n    }\n", src, re.S)
    body = m.group(0) if m else ""
    return "fixed" if re.search(r"is_checkpointed\s*\.\s*swap\(", body) else "v0"


def reclaim_tick():
    src = open(os.path.join(C.REPO, "src/wal/runtime/background.rs")).read()
    m = re.search(r"if n >= (\d+)", src)
    return int(m.group(1)) if m else None


def strip_inst(line):
    t = line.split()
    if t and t[0].startswith("@"):
        return int(t[0][1:]), " ".join(t[1:])
    return 1, line


def run_cases(wh, cases, tag, shards=C.NPROC, timeout=3000):
    """Run cases (lists of lines, first = CASE line) through `wh engine`; returns per case the
    list of result lines aligned with the case lines."""
    base = C.shm_dir(tag)
    per = [[] for _ in range(shards)]
    for i, c in enumerate(cases):
        per[i % shards].append(c)

    def run_shard(k):
        lines = [l for c in per[k] for l in c]
        if not lines:
            return []
        d = os.path.join(base, "s%d" % k)
        os.makedirs(d, exist_ok=True)
        out, rc, err = C.run_lines([wh, "engine", d], lines, timeout=timeout)
        if len(out) != len(lines):
            out = out + ["<missing>"] * (len(lines) - len(out))
        return out
    with ThreadPoolExecutor(shards) as ex:
        outs = list(ex.map(run_shard, range(shards)))
    shutil.rmtree(base, ignore_errors=True)
    res, pos = [None] * len(cases), [0] * shards
    for i, c in enumerate(cases):
        k = i % shards
        res[i] = outs[k][pos[k]:pos[k] + len(c)]
        pos[k] += len(c)
    return res


class Lifetime:
    """One process lifetime of a case: the depth-0 tracker calls in order, the deletion requests
    the code sent, the files it removed, the last snapshot, and where in the case it happened."""
    def __init__(self, first_line):
        self.first_line = first_line
        self.calls = []          # (kind letter, id, path) depth-0 tracker calls
        self.reqs = []           # paths, in order (kind "req")
        self.req_pos = []        # number of depth-0 calls made when each request was sent
        self.removed = []        # basenames removed by the reclaimer thread
        self.snap = None         # (files dict path -> (locked, ckpt, total, full), blocks dict id -> (path, flag))
        self.snap_at = None      # number of calls when the snapshot was taken
        self.reqs_at = None
        self.marks = []          # (line index of the op during which the dump was taken, ...) unused
        self.events_by_dump = []  # (line index of the TRK op, number of calls so far, number of removals so far, number of reqs so far)

    def numbering(self):
        num = {}
        for k, i, p in self.calls:
            if p != "-" and p not in num:
                num[p] = len(num) + 1
        for p in self.reqs:
            if p not in num:
                num[p] = len(num) + 1
        if self.snap:
            for p in self.snap[0]:
                if p not in num:
                    num[p] = len(num) + 1
        return num

    def model_line(self, variant, upto=None):
        num = self.numbering()
        toks = []
        for k, i, p in (self.calls if upto is None else self.calls[:upto]):
            if k == "R":
                toks.append("R:%d:%d" % (i, num[p]))
            elif k in "GAFX":
                toks.append("%s:%d" % (k, num[p]))
            else:
                toks.append("%s:%d" % (k, i))
        return variant + " " + " ".join(toks)


def parse_trk(out):
    """`trk:<files>|<blocks>#<trace lines>` -> (files, blocks, trace lines)"""
    if not out.startswith("trk:"):
        return None
    body, _, tr = out[4:].partition("#")
    fpart, _, bpart = body.partition("|")
    files, blocks = {}, {}
    for it in filter(None, fpart.split(";")):
        p, l, c, t, a = it.rsplit(":", 4)
        files[p] = (int(l), int(c), int(t), int(a))
    for it in filter(None, bpart.split(";")):
        i, rest = it.split(":", 1)
        p, fl = rest.rsplit(":", 1)
        blocks[int(i)] = (p, int(fl))
    return files, blocks, [l for l in tr.split("|") if l]


def lifetimes_of(case, outs):
    """Split a case into process lifetimes (RESTART = fresh process = fresh trackers; REOPEN keeps
    them) and collect the trace."""
    lts = [Lifetime(0)]
    for j, (l, o) in enumerate(zip(case, outs)):
        _, core = strip_inst(l)
        t = core.split()
        if not t:
            continue
        if t[0] in ("RESTART", "RMIDX"):
            lts.append(Lifetime(j))
        elif t[0] == "TRK":
            p = parse_trk(o)
            if p is None:
                continue
            files, blocks, tr = p
            lt = lts[-1]
            for line in tr:
                w = line.split(" ")
                if w[0] == "T":
                    depth, kind, bid, path = int(w[1]), w[2], int(w[3]), w[4]
                    if kind == "req":
                        lt.reqs.append(path)
                        lt.req_pos.append(len(lt.calls))
                    elif depth == 0:
                        lt.calls.append((KIND[kind], bid, path))
                elif len(w) >= 3 and w[1] == "remove":
                    lt.removed.append(w[2])
            lt.snap, lt.snap_at, lt.reqs_at = (files, blocks), len(lt.calls), len(lt.reqs)
            lt.events_by_dump.append((j, len(lt.calls), len(lt.removed), len(lt.reqs)))
    return lts


def parse_model(line):
    d = dict(kv.split("=", 1) for kv in line.split())
    files, blocks = {}, {}
    if d.get("files", "-") != "-":
        for it in d["files"].split(";"):
            f, l, c, t, a = it.split(":")
            files[int(f)] = (int(l), int(c), int(t), int(a))
    if d.get("blocks", "-") != "-":
        for it in d["blocks"].split(";"):
            i, f, fl = it.split(":")
            blocks[int(i)] = (int(f), int(fl))
    reqs = [] if d.get("req", "-") == "-" else [int(x) for x in d["req"].split(",")]
    return dict(files=files, blocks=blocks, reqs=reqs, contract=d.get("contract") == "1", safe=d.get("safe") == "1",
                repeat=d.get("repeat") == "1", rereg=d.get("rereg") == "1")


def compare_snapshot(lt, m):
    """model result m (parse_model) vs the real snapshot and request events of lifetime lt.
    Returns a list of differences (empty = correspondence holds)."""
    num = lt.numbering()
    diffs = []
    files = {num[p]: v for p, v in lt.snap[0].items()}
    blocks = {i: (num[p], fl) for i, (p, fl) in lt.snap[1].items()}
    if files != m["files"]:
        ks = sorted(set(files) | set(m["files"]))
        diffs.append("file tracker: " + "; ".join("file %d impl=%s model=%s" % (k, files.get(k), m["files"].get(k))
                                                   for k in ks if files.get(k) != m["files"].get(k))[:400])
    if blocks != m["blocks"]:
        ks = sorted(set(blocks) | set(m["blocks"]))
        diffs.append("block tracker: " + "; ".join("block %d impl=%s model=%s" % (k, blocks.get(k), m["blocks"].get(k))
                                                    for k in ks if blocks.get(k) != m["blocks"].get(k))[:400])
    reqs = [num[p] for p in lt.reqs]
    if reqs != m["reqs"]:
        diffs.append("deletion requests: impl=%s model=%s" % (reqs, m["reqs"]))
    return diffs


def listing(out):
    """`ls:a:1,b:2` -> dict name -> size"""
    if not out.startswith("ls:"):
        return None
    d = {}
    for it in filter(None, out[3:].split(",")):
        n, s = it.rsplit(":", 1)
        d[n] = s
    return d


def wal_files(ls):
    return sorted(n for n in (ls or {}) if n.isdigit())


def request_analysis(lt):
    """Mechanism of every deletion request of one lifetime, from the traced calls alone (the
    accept/reject decision is the Coq acceptor's; this only names the mechanism).  Per request:
    dict(file, unsafe, mechanisms).  unsafe = some block whose FIRST registration names the file
    was never marked, or is locked, when the request is sent."""
    out = []
    for path, pos in zip(lt.reqs, lt.req_pos):
        first, rereg, marks, locked = {}, set(), {}, {}
        for k, i, p in lt.calls[:pos]:
            if k == "R":
                if i in first:
                    rereg.add(i)
                else:
                    first[i] = p
            elif k == "M" and i in first:
                marks[i] = marks.get(i, 0) + 1
            elif k == "L" and i in first:
                locked[i] = locked.get(i, 0) + 1
            elif k == "U" and i in first:
                locked[i] = locked.get(i, 0) - 1
        mine = [i for i, p in first.items() if p == path]
        unsafe = any(marks.get(i, 0) == 0 for i in mine) or any(locked.get(i, 0) > 0 for i in mine)
        mech = set()
        if unsafe:
            if any(marks.get(i, 0) >= 2 for i in mine):
                mech.add("mark-repeated")         # the file's counter was inflated by marking a block again
            elif any(i in rereg for i in mine):
                mech.add("reregistered")          # only explanation left: an id of this file was registered again
            else:
                mech.add("unexplained-unsafe-request")
        out.append(dict(file=path, unsafe=unsafe, mechanisms=sorted(mech)))
    return out
