"""C11 — opening damaged WAL state never crashes and never returns corrupt data.

Theorems: coq/props/C11.v over the byte-level model coq/model/Hdr.v (V0 = the code as it
stands: unchecked rkyv::archived_root, unbounded payload window; V1 = PROPOSED_FIX.diff).

What a run does
  1. engine-produced directories (harness/wh `engine`, small geometry, WH_KEEP): "pure" bases
     (appends only) and "consumed" bases (reads persisted, clean markers written);
  2. encoder correspondence: every header the engine wrote is decoded by the model and
     re-encoded (hdr_c11 / hdrenc_c11): the bytes must be identical;
  3. mutants: byte-level damage of copies of those directories (per header field, payload,
     truncation, zeroed ranges, stray files, *.tmp leftovers, index and marker files);
  4. every mutant is opened in a FRESH process (CASE ... adopt=<dir>) in debug and release
     builds, FD and mmap backends, drained with read_next and with batch reads, a sample under
     valgrind memcheck;
  5. correspondence: for WAL damage of pure bases the model's recovery scan (scan_c11) predicts
     per topic the delivered payloads (length, FNV-32) and the counts, or says that the code
     leaves defined behaviour (ub-*/pastend) — then nothing is compared;
  6. acceptor c11_ok (extracted) over the implementation's observation: clean end of every
     process and no payload that was not appended to that topic.
Known-finding classes are computed from the CASE by the model (never from the output)."""
import json
import os
import random
import resource
import shutil
import signal
import struct
import subprocess
import time
from concurrent.futures import ThreadPoolExecutor

from . import common as C
from .enginegen import pbyte

TRUSTED_EXTRA = [
    "harness/wh (Rust): `engine` dispatcher with CASE adopt=<dir> (copy of a prepared directory), REG, DRAIN, END (exit status of the lifetime), WH_VALGRIND; drives the public walrus API in child processes, small geometry via --cfg walrus_verif_small, debug and release profiles",
    "valgrind 3.19 memcheck (--error-exitcode=99 --exit-on-first-error=yes) as the witness of out-of-bounds heap reads on a sample",
    "modelled, not verified: rkyv 0.7.45 archive layout of Metadata (size_32, little endian; observed and compared on every header the engine writes), rkyv::check_archived_root's acceptance condition (V1: transcribed from validation/validators/archive.rs and string/mod.rs), Rust debug/release and FD/mmap differences for a payload window past the end of the file",
    "payload identification: harness payload bytes are a fixed function of (pid, index); a returned byte string is 'appended to the topic' iff it equals a whole registered payload of that topic",
]
ASSUMPTIONS = [
    "damage happens while no instance has the directory open; the directory is opened once, by a fresh process",
    "WAL-file damage is applied to directories without a persisted read position (the model predicts the full per-topic stream); index/marker damage and stray files are applied to directories with intact WAL files; combinations are not generated",
    "multi-byte damage is sampled, not enumerated; the theorems cover exactly-one-byte payload damage and zeroed suffixes in full, anything else only through c11_outside_known",
]

_T0 = [time.time()]


def _t(label):
    now = time.time()
    C.log("  [c11 %5.1fs] %s" % (now - _T0[0], label))
    _T0[0] = now


H = 256
CONFIGS = [("debug", "fd"), ("debug", "mmap"), ("release", "fd"), ("release", "mmap")]


# ----------------------------------------------------------------------------- helpers
def payload(pid, ln):
    return bytes(pbyte(pid, i) for i in range(ln))


def fnv64(data):
    h = 0xcbf29ce484222325
    for b in data:
        h ^= b
        h = (h * 0x100000001b3) & 0xFFFFFFFFFFFFFFFF
    return h


def topic_bytes(tok):
    if tok.startswith("h:"):
        return bytes.fromhex(tok[2:])
    if tok.startswith("L"):
        n = int(tok[1:])
        s = "L"
        while len(s) < n:
            s += chr(ord("a") + len(s) % 26)
        return s.encode()
    return tok.encode()


def sparse_spec(data):
    """<len>;<off>:<hex>;...  zero runs of 32+ bytes are left out"""
    segs, i, n = [], 0, len(data)
    while i < n:
        if data[i] == 0:
            i += 1
            continue
        j = i
        while j < n and (data[j] != 0 or any(data[j:j + 32])):
            j += 1
        segs.append("%d:%s" % (i, data[i:j].hex()))
        i = j
    return ";".join([str(n)] + segs)


def _no_core():
    resource.setrlimit(resource.RLIMIT_CORE, (0, 0))


def run_case(exe, base, lines, env_extra=None, timeout=30):
    """one `wh engine` process for one case; returns (output lines, timed_out)"""
    env = dict(C.ENV)
    if env_extra:
        env.update(env_extra)
    p = subprocess.Popen([exe, "engine", base], stdin=subprocess.PIPE, stdout=subprocess.PIPE,
                         stderr=subprocess.DEVNULL, text=True, env=env, start_new_session=True,
                         preexec_fn=_no_core)
    try:
        out, _ = p.communicate("\n".join(lines) + "\n", timeout=timeout)
        return out.split("\n")[:-1], False
    except subprocess.TimeoutExpired:
        try:
            os.killpg(p.pid, signal.SIGKILL)
        except ProcessLookupError:
            pass
        try:
            out, _ = p.communicate(timeout=5)
        except Exception:
            out = ""
        return out.split("\n")[:-1], True


# ----------------------------------------------------------------------------- bases
def gen_base_ops(rng, kind, idx):
    """op lines (without CASE) producing a directory; kind = pure | consumed"""
    names = ["ab", "cb", "t7bytes", "t8bytes_", "longtopicname", "h:c3a97a", "L40", "L216"]
    rng.shuffle(names)
    topics = ["ab"] + [n for n in names if n != "ab"][:rng.choice([1, 2, 3])]
    ops, pid = [], idx * 1000
    nblocks_target = rng.choice([2, 3, 5]) if idx % 4 != 3 else 10       # idx%4==3: a second WAL file
    budget = nblocks_target * 4096
    written = 0
    while written < budget:
        t = rng.choice(topics)
        r = rng.random()
        if r < 0.70:
            ln = rng.choice([1, 2, 3, 5, 8, 13, 21, 34, 55])
        elif r < 0.93:
            ln = rng.choice([100, 127, 128, 129, 300, 700])
        else:
            ln = rng.choice([1500, 3000, 3839, 3840])
        if rng.random() < 0.15:
            n = rng.choice([2, 3, 6])
            items = ",".join("%d:%d" % (pid + k, rng.choice([1, 4, 9, 40])) for k in range(n))
            ops.append("B %s %s" % (t, items))
            written += sum(H + int(x.split(":")[1]) for x in items.split(","))
            pid += n
        else:
            ops.append("A %s %d %d" % (t, pid, ln))
            written += H + ln
            pid += 1
    if idx % 4 == 2:
        # multi-unit blocks: a large entry alone, one followed by small ones, one inside a batch
        t = topics[-1]
        ops += ["A %s %d 5000" % (t, pid), "A %s %d 9" % (t, pid + 1), "A %s %d 2000" % (t, pid + 2),
                "B %s %d:9,%d:5000,%d:9" % (t, pid + 3, pid + 4, pid + 5), "A %s %d 13" % (t, pid + 6)]
        pid += 7
    if kind == "consumed":
        if idx % 2 == 1:
            # a restart before the reads: the persisted positions are then SEALED positions (chain index,
            # offset) instead of tail positions (seeded change c11b-2 — a lost clamp of the chain index at
            # start-up — needs a sealed position; the first version of the bases had none)
            ops.append("RESTART")
        for t in topics:
            for _ in range(rng.choice([1, 2, 5])):
                ops.append(rng.choice(["R %s 1" % t, "BR %s %d 1 -" % (t, rng.choice([1, 200, 5000]))]))
        ops.append("MC %s" % topics[0])
        ops.append("SLEEP 30")
        if rng.random() < 0.5:
            ops.append("MD %s" % topics[0])
            ops.append("SLEEP 30")
    return ops


def registry(ops):
    """topic bytes -> list of (pid, len), and REG lines"""
    reg, lines = {}, []
    for l in ops:
        t = l.split()
        items = []
        if t[0] == "A":
            items = [(int(t[2]), int(t[3]))]
        elif t[0] == "B" and t[2] != "-":
            items = [tuple(int(x) for x in it.split(":")) for it in t[2].split(",")]
        for pid, ln in items:
            reg.setdefault(topic_bytes(t[1]), []).append((pid, ln))
            lines.append("REG %s %d %d" % (t[1], pid, ln))
    return reg, lines


def make_base(wh, shm, name, ops):
    work = os.path.join(shm, "mk-" + name)
    shutil.rmtree(work, ignore_errors=True)
    os.makedirs(work)
    out, to = run_case(wh, work, ["CASE %s mode=strict backend=fd sched=nofsync" % name] + ops + ["END"],
                       {"WH_KEEP": "1"}, timeout=120)
    dirs = [d for d in os.listdir(work) if d.startswith("c")]
    if to or len(dirs) != 1 or not out or out[0] != "ok" or out[-1] != "exit:0" or "panic" in out or "died" in out:
        raise RuntimeError("base directory %s could not be produced: %r" % (name, out[-5:]))
    dst = os.path.join(shm, "base-" + name)
    shutil.rmtree(dst, ignore_errors=True)
    shutil.move(os.path.join(work, dirs[0]), dst)
    shutil.rmtree(work, ignore_errors=True)
    return dst


def wal_files(d):
    """what startup_chore scans, in its order (full-path string sort == name sort in one dir)"""
    k = os.path.join(d, "k")
    out = []
    for f in sorted(os.listdir(k)):
        p = os.path.join(k, f)
        if os.path.isdir(p) or f.endswith("_index.db") or f.endswith("_index.db.tmp"):
            continue
        out.append(f)
    return out


def walk_entries(data, B, FSZ):
    """entry positions of an engine-written file, by the on-disk read_size (python mirror used
    only to AIM mutations; never an oracle)"""
    ents, boff = [], 0
    while boff + B <= FSZ:
        if not any(data[boff:boff + 8]):
            boff += B
            continue
        off, limit, first = 0, B, True
        while boff + off + H <= FSZ:
            h = data[boff + off:boff + off + H]
            ml = h[0] | (h[1] << 8)
            if ml < 32 or ml > 254:
                break
            root = 2 + ml - 32
            rs = struct.unpack_from("<I", h, root + 24)[0]
            ents.append(dict(pos=boff + off, boff=boff, first=first, ml=ml, root=root, rs=rs))
            c = H + rs
            if off + c > limit:
                limit = -(-(off + c) // B) * B
            off += c
            first = False
            if off >= limit:
                break
        boff += limit
    return ents


# ----------------------------------------------------------------------------- mutations
def edit(fileref, off, bs):
    return dict(op="patch", file=fileref, off=off, hex=bytes(bs).hex())


def gen_wal_mutants(rng, base, tier):
    """mutation descriptors for a pure base: list of dict(kind, edits)"""
    B, FSZ = base["B"], base["FSZ"]
    muts = []
    files = base["wal"]
    ents = [(fi, e) for fi, f in enumerate(files) for e in base["entries"][fi]]
    firsts = [x for x in ents if x[1]["first"]]
    others = [x for x in ents if not x[1]["first"]]
    def pick():
        return rng.choice(firsts if (rng.random() < 0.5 or not others) else others)
    def add(kind, edits):
        muts.append(dict(kind=kind, edits=edits if isinstance(edits, list) else [edits]))
    reps = 1 if tier == "quick" else 6
    huge_done = base["id"] != 0            # one 4 GiB window per run is enough
    for _ in range(reps):
        # --- meta_len
        # every value once on the first header of a block (decoded by startup_chore itself) and
        # once on a later entry (decoded by Block::read)
        for v in [0, 1, 5, 31, 33, 40, 254, 255, 256, 0xffff]:
            for grp in (firsts, others or firsts):
                fi, e = rng.choice(grp)
                add("meta_len=%d" % v, edit("wal:%d" % fi, e["pos"], struct.pack("<H", v)))
        fi, e = pick()
        data = base["data"][fi]
        add("meta_len-bitflip", edit("wal:%d" % fi, e["pos"], [data[e["pos"]] ^ (1 << rng.randrange(8))]))
        # --- name repr
        for v in [8, 20, 32, 33, 100, 127, 0x80, 0xff]:
            fi, e = pick()
            add("repr-byte7=%d" % v, edit("wal:%d" % fi, e["pos"] + e["root"] + 7, [v]))
        for ln, off in [(0, -8), (1, -8), (8, -8), (64, -8), (0xffffffff, -16), (8, -0x40000000), (4, -1),
                        (8, None), (9, None), (3, None)]:
            fi, e = pick()
            back = (e["root"] - 2) if off is None else -off          # None: exactly the start of the buffer
            add("repr-ool len=%d back=%d" % (ln, back),
                edit("wal:%d" % fi, e["pos"] + e["root"], struct.pack("<Ii", ln, -back if back else -1)))
        # --- name bytes (topic re-assignment, invalid UTF-8, NUL)
        for v in ["other", "new", 0xff, 0x00, 0xc3]:
            fi, e = rng.choice(firsts)
            data = base["data"][fi]
            inline = data[e["pos"] + e["root"] + 7] < 128
            npos = e["pos"] + (e["root"] if inline else 2)
            if v == "other":
                nb = [data[npos] ^ 0x02]            # 'a' <-> 'c': topics ab / cb both exist in most bases
            elif v == "new":
                nb = [data[npos] ^ 0x01]
            else:
                nb = [v]
            add("name-byte=%s" % v, edit("wal:%d" % fi, npos, nb))
        # --- next_block_start, checksum, padding, bytes behind the archive
        fi, e = pick()
        add("nbs-flip", edit("wal:%d" % fi, e["pos"] + e["root"] + 8 + rng.randrange(8), [rng.randrange(1, 256)]))
        for _k in range(2):
            fi, e = pick()
            p = e["pos"] + e["root"] + 16 + rng.randrange(8)
            add("checksum-flip", edit("wal:%d" % fi, p, [base["data"][fi][p] ^ (1 << rng.randrange(8))]))
        fi, e = pick()
        add("padding-flip", edit("wal:%d" % fi, e["pos"] + e["root"] + 28 + rng.randrange(4), [rng.randrange(1, 256)]))
        fi, e = pick()
        add("behind-archive", edit("wal:%d" % fi, e["pos"] + 2 + e["ml"] + rng.randrange(0, 254 - e["ml"]), [rng.randrange(1, 256)]))
        # --- read_size
        for fv in [lambda e: 0, lambda e: max(0, e["rs"] - 1), lambda e: e["rs"] + 1, lambda e: e["rs"] + H,
                   lambda e: FSZ - (e["pos"] + H), lambda e: FSZ - (e["pos"] + H) + 1, lambda e: 40000, lambda e: 300000]:
            fi, e = pick()
            v = fv(e)
            add("read_size=%d" % v, edit("wal:%d" % fi, e["pos"] + e["root"] + 24, struct.pack("<I", v)))
        if not huge_done:
            # up to 4 GiB - 1: allocation and hashing of the whole window in a release/FD build
            fi, e = pick()
            add("read_size=huge", edit("wal:%d" % fi, e["pos"] + e["root"] + 24, struct.pack("<I", rng.choice([0x7fffffff, 0xffffffff]))))
        # --- payload
        for where in ["first", "mid", "last"]:
            cands = [x for x in ents if x[1]["rs"] > 0]
            fi, e = rng.choice(cands)
            k = dict(first=0, mid=e["rs"] // 2, last=e["rs"] - 1)[where]
            p = e["pos"] + H + k
            add("payload-1byte-%s" % where, edit("wal:%d" % fi, p, [base["data"][fi][p] ^ (1 << rng.randrange(8))]))
        fi, e = rng.choice([x for x in ents if x[1]["rs"] >= 2])
        add("payload-2bytes", [edit("wal:%d" % fi, e["pos"] + H, [0]), edit("wal:%d" % fi, e["pos"] + H + e["rs"] - 1, [0])])
        # forged: payload and checksum rewritten together (same length; then a shorter one with read_size)
        fi, e = rng.choice([x for x in ents if x[1]["rs"] >= 2])
        forged = bytes(rng.randrange(1, 256) for _ in range(e["rs"]))
        add("forged-same-len", [edit("wal:%d" % fi, e["pos"] + H, forged),
                                edit("wal:%d" % fi, e["pos"] + e["root"] + 16, struct.pack("<Q", fnv64(forged)))])
        fi, e = rng.choice([x for x in ents if x[1]["rs"] >= 2])
        forged = bytes(rng.randrange(1, 256) for _ in range(e["rs"] - 1))
        add("forged-shorter", [edit("wal:%d" % fi, e["pos"] + H, forged),
                               edit("wal:%d" % fi, e["pos"] + e["root"] + 16, struct.pack("<Q", fnv64(forged))),
                               edit("wal:%d" % fi, e["pos"] + e["root"] + 24, struct.pack("<I", len(forged)))])
        # --- zeroed ranges
        fi, e = pick()
        add("zero-from-entry", dict(op="zero", file="wal:%d" % fi, off=e["pos"], len=FSZ - e["pos"]))
        fi, e = pick()
        add("zero-header", dict(op="zero", file="wal:%d" % fi, off=e["pos"], len=H))
        fi, e = rng.choice(firsts)
        add("zero-probe8", dict(op="zero", file="wal:%d" % fi, off=e["pos"], len=8))
        fi, e = rng.choice(firsts)
        add("zero-block", dict(op="zero", file="wal:%d" % fi, off=e["boff"], len=B))
        fi, e = rng.choice([x for x in ents if x[1]["rs"] >= 4])
        add("zero-payload-part", dict(op="zero", file="wal:%d" % fi, off=e["pos"] + H + 1, len=max(1, e["rs"] // 2)))
        fi, e = pick()
        a = rng.randrange(0, FSZ - 600)
        add("zero-random-range", dict(op="zero", file="wal:%d" % fi, off=a, len=rng.choice([1, 16, 300, 600])))
        # --- truncation (the file becomes shorter than MAX_FILE_SIZE) and extension
        fi, e = pick()
        for cut in [e["pos"], e["pos"] + H, e["pos"] + H + e["rs"] // 2, e["boff"] + B, 0, FSZ - 1]:
            add("truncate@%d" % cut, dict(op="truncate", file="wal:%d" % rng.randrange(len(files)), len=cut))
        add("extend-garbage", dict(op="append", file="wal:%d" % rng.randrange(len(files)),
                                   hex=bytes(rng.randrange(256) for _ in range(rng.choice([1, 300, 4096]))).hex()))
        # --- random byte noise
        for n in [1, 4, 32]:
            fi = rng.randrange(len(files))
            used_hi = max(e["pos"] + H + e["rs"] for e in base["entries"][fi]) if base["entries"][fi] else B
            add("noise-%d" % n, [edit("wal:%d" % fi, rng.randrange(0, used_hi), [rng.randrange(256)]) for _ in range(n)])
        # --- stray files next to intact WAL files
        junk = bytes(rng.randrange(256) for _ in range(FSZ))
        for nm in ["0stray", "zstray.bin"]:
            add("stray-big-random:" + nm, dict(op="create", name=nm, random=rng.randrange(1 << 30), size=FSZ))
        add("stray-big-garbage-headers", dict(op="create", name="zz_garbage", garbage_headers=rng.randrange(1 << 30), size=FSZ, block=B))
        add("stray-big-zero", dict(op="create", name="zero.img", hex="", size=FSZ))
        add("stray-small", dict(op="create", name="notes.txt", hex=b"hello".hex()))
        add("stray-empty", dict(op="create", name="1", hex=""))
        add("stray-wal-copy", dict(op="copy", src="wal:0", name=base["wal"][0] + ".bak"))
        add("stray-dir", dict(op="mkdir", name="9999999999999"))
        add("tmp-leftover-index", dict(op="create", name="read_offset_idx_index.db.tmp", hex=junk[:77].hex()))
        add("tmp-leftover-clean", dict(op="create", name="topic_clean_index.db.tmp", hex=junk[:FSZ].hex()))
    return muts


def gen_index_mutants(rng, base, tier):
    muts = []
    def add(kind, edits):
        muts.append(dict(kind=kind, edits=edits if isinstance(edits, list) else [edits]))
    for ref in ["idx", "clean"]:
        data = base["aux"].get(ref)
        if data is None:
            continue
        n = len(data)
        for cut in sorted(set([0, 1, 7, 8, n // 2, n - 1])):
            add("%s-truncate@%d" % (ref, cut), dict(op="truncate", file=ref, len=cut))
        positions = list(range(n)) if tier != "quick" else sorted(rng.sample(range(n), min(n, 6)))
        for p in positions:
            add("%s-flip@%d" % (ref, p), edit(ref, p, [data[p] ^ (1 << rng.randrange(8))]))
        for p in [max(0, n - 4), max(0, n - 8), max(0, n - 12), 0]:
            add("%s-ff@%d" % (ref, p), edit(ref, p, b"\xff\xff\xff\x7f"[:n - p]))
        # field-shaped damage: every aligned 8-byte word that looks like a position field (a small number,
        # or one carrying the tail flag in its top bit) is nudged up/down, made huge, and has the flag toggled
        words = []
        for p in range(0, n - 7, 8):
            v = int.from_bytes(data[p:p + 8], "little")
            if v < 4096 or (v >> 63) == 1:
                words.append((p, v))
        if tier == "quick" and len(words) > 8:
            words = sorted(rng.sample(words, 8))
        for p, v in words:
            for nv, tag in ((v + 1, "inc"), (v + 2, "inc2"), ((v & ~(1 << 63)) + 1000, "big"), (v ^ (1 << 63), "flag"), ((1 << 62) + 5, "huge"), (max(0, (v & ~(1 << 63)) - 1) | (v & (1 << 63)), "dec")):
                nv &= (1 << 64) - 1
                if nv != v:
                    add("%s-word-%s@%d" % (ref, tag, p), edit(ref, p, list(nv.to_bytes(8, "little"))))
        add("%s-garbage" % ref, dict(op="replace", file=ref, hex=bytes(rng.randrange(256) for _ in range(rng.choice([3, 40, 200]))).hex()))
        add("%s-zeroed" % ref, dict(op="zero", file=ref, off=0, len=n))
        add("%s-extended" % ref, dict(op="append", file=ref, hex=bytes(rng.randrange(256) for _ in range(5)).hex()))
    if "idx" in base["aux"] and "clean" in base["aux"]:
        add("idx-clean-swapped", [dict(op="replace", file="idx", hex=base["aux"]["clean"].hex()),
                                  dict(op="replace", file="clean", hex=base["aux"]["idx"].hex())])
    add("tmp-leftover-index", dict(op="create", name="read_offset_idx_index.db.tmp", hex=bytes(rng.randrange(256) for _ in range(50)).hex()))
    add("stray-small", dict(op="create", name="core", hex=b"\x7fELF".hex()))
    return muts


AUX = {"idx": "read_offset_idx_index.db", "clean": "topic_clean_index.db"}


def snapshot(d):
    k = os.path.join(d, "k")
    return {f: open(os.path.join(k, f), "rb").read() for f in os.listdir(k) if os.path.isfile(os.path.join(k, f))}


def restore_base(b):
    """write the engine-produced directory again from the bytes read when it was produced"""
    shutil.rmtree(b["dir"], ignore_errors=True)
    os.makedirs(os.path.join(b["dir"], "k"))
    for f, data in b["files"].items():
        with open(os.path.join(b["dir"], "k", f), "wb") as fh:
            fh.write(data)


def apply_mutation(base, mut, dst):
    shutil.copytree(base["dir"], dst)
    k = os.path.join(dst, "k")
    def path(ref):
        if ref.startswith("wal:"):
            return os.path.join(k, base["wal"][int(ref[4:])])
        return os.path.join(k, AUX[ref])
    for e in mut["edits"]:
        op = e["op"]
        if op == "patch":
            with open(path(e["file"]), "r+b") as f:
                f.seek(e["off"] if e["off"] >= 0 else max(0, os.path.getsize(path(e["file"])) + e["off"]))
                f.write(bytes.fromhex(e["hex"]))
        elif op == "zero":
            with open(path(e["file"]), "r+b") as f:
                f.seek(e["off"])
                f.write(bytes(e["len"]))
        elif op == "truncate":
            with open(path(e["file"]), "r+b") as f:
                f.truncate(e["len"])
        elif op == "append":
            with open(path(e["file"]), "ab") as f:
                f.write(bytes.fromhex(e["hex"]))
        elif op == "replace":
            with open(path(e["file"]), "wb") as f:
                f.write(bytes.fromhex(e["hex"]))
        elif op == "create":
            with open(os.path.join(k, e["name"]), "wb") as f:
                if "random" in e:
                    r2 = random.Random(e["random"])
                    f.write(bytes(r2.randrange(256) for _ in range(e["size"])))
                elif "garbage_headers" in e:
                    # plausible length prefixes followed by garbage archives, one per block
                    r2 = random.Random(e["garbage_headers"])
                    buf = bytearray(e["size"])
                    for o in range(0, e["size"], e["block"]):
                        buf[o:o + 2] = struct.pack("<H", r2.choice([8, 32, 40, 48, 200, 254]))
                        buf[o + 2:o + H] = bytes(r2.randrange(256) for _ in range(H - 2))
                    f.write(bytes(buf))
                else:
                    f.write(bytes.fromhex(e["hex"]))
                if e.get("size"):
                    f.truncate(e["size"])
        elif op == "copy":
            shutil.copy(path(e["src"]), os.path.join(k, e["name"]))
        elif op == "mkdir":
            os.makedirs(os.path.join(k, e["name"]), exist_ok=True)
        else:
            raise ValueError(op)


# ----------------------------------------------------------------------------- model side
def parse_scan(line):
    """-> dict(stops=[...], blocks=[(file, name bytes, [(len, h32)...], stop)], ub=bool, pastend=int|None)"""
    stops, blocks = [], []
    for tok in line.split():
        if tok.startswith("F"):
            stops.append(tok.split(":", 1)[1])
        elif tok.startswith("B:"):
            p = tok.split(":")
            name = b"" if p[2] == "-" else bytes.fromhex(p[2])
            ents = [] if p[7] == "-" else [(int(x.split(".")[0]), x.split(".")[1]) for x in p[7].split(",")]
            blocks.append((int(p[1]), name, ents, p[6]))
    ub = any(s.startswith("ub-") for s in stops)
    pe = [int(s.split("=")[1]) for s in stops if s.startswith("pastend=")]
    return dict(stops=stops, blocks=blocks, ub=ub, pastend=(pe[0] if pe else None), raw=line)


def streams_of(scan):
    out = {}
    for _, name, ents, _ in scan["blocks"]:
        if name:
            out.setdefault(name, []).extend(ents)
    return out


def is_utf8(b):
    try:
        b.decode("utf-8")
        return True
    except UnicodeDecodeError:
        return False


# ----------------------------------------------------------------------------- implementation side
def parse_drain(line):
    """drain:<hex>=<ident>,...,<end>|...  -> {topic bytes: ([ident...], end)}"""
    out = {}
    if not line.startswith("drain:"):
        return None
    body = line[6:]
    if not body:
        return out
    for part in body.split("|"):
        t, _, items = part.partition("=")
        items = items.split(",")
        out[C.unhx(t)] = (items[:-1], items[-1])
    return out


def ident_pid(tok, reg_t):
    """e:pid:skip:len:hash -> pid if the bytes are a whole registered payload of the topic"""
    p = tok.split(":")
    if len(p) != 5 or p[1] in ("X",):
        return None
    if p[1] == "_":
        for pid, ln in reg_t:
            if ln == 0:
                return pid
        return None
    pid, skip, ln = int(p[1]), int(p[2]), int(p[3])
    if skip != 0:
        return None
    return pid if (pid, ln) in reg_t else None


def observe(out, timed_out, nreg):
    """reduce the harness output of one run to what the acceptor and the diff need"""
    o = dict(open=None, counts=None, drain=None, after=None, end=None, timeout=timed_out, raw=out[-6:])
    body = out[1 + nreg:] if len(out) > nreg else []
    o["open"] = out[0] if out else "<missing>"
    for l in body:
        if l.startswith("counts:"):
            o["counts"] = l
        elif l.startswith("drain:"):
            o["drain"] = parse_drain(l)
        elif l.startswith(("exit:", "signal:")):
            o["end"] = l
    o["lines"] = body
    return o


def unclean_reasons(o, valgrind):
    r = []
    if o["timeout"]:
        r.append("timeout")
    if o["open"] == "panic":
        r.append("panic-at-open")
    if o["open"] == "died" or any(l == "died" for l in o["lines"]):
        r.append("process-died")
    if any(l == "panic" for l in o["lines"]):
        r.append("panic")
    if o["end"] is not None and o["end"] != "exit:0":
        r.append(("memcheck-error" if (valgrind and o["end"] == "exit:99") else "abnormal-end:" + o["end"]))
    if o["end"] is None and not o["timeout"]:
        r.append("no-exit-status")
    if o["drain"]:
        for t, (items, end) in o["drain"].items():
            if end == "panic":
                r.append("panic-in-read")
            if not is_utf8(t):
                r.append("non-utf8-topic-name")
    if o["counts"]:
        body = o["counts"][7:]
        for kv in (body.split(",") if body else []):
            if not is_utf8(C.unhx(kv.split("=")[0])):
                r.append("non-utf8-topic-name")
    return sorted(set(r))


# ----------------------------------------------------------------------------- the run
def detect_variant():
    src = open(os.path.join(C.REPO, "src/wal/block.rs")).read()
    hdr_fixed = "check_archived_root" in src and "archived_root::<Metadata>" not in src.replace("check_archived_root::<Metadata>", "")
    isrc = open(os.path.join(C.REPO, "src/wal/runtime/index.rs")).read() + open(os.path.join(C.REPO, "src/wal/runtime/topic_clean.rs")).read()
    idx_fixed = "check_archived_root" in isrc
    return ("1" if hdr_fixed else "0"), idx_fixed


def run(ctx):
    tier, rng, driver = ctx["tier"], ctx["rng"], ctx["driver"]
    quick = tier == "quick"
    failures, broken = [], []
    t_start = time.time()
    cfgs = ("walrus_verif", "walrus_verif_small")
    exes = {"debug": C.build_rust("wh", cfgs), "release": C.build_rust("wh", cfgs, release=True)}
    consts = C.gen_consts()
    B, FSZ = consts["small"]["DEFAULT_BLOCK_SIZE"], consts["small"]["MAX_FILE_SIZE"]
    variant, idx_fixed = detect_variant()
    shm = C.shm_dir("c11")
    _T0[0] = time.time()
    hist = dict(mutation_kinds={}, first_header_class={}, model_stop={}, impl_unclean={}, configs={})
    try:
        # ---------------- 1. bases
        bases = []
        nb_pure, nb_cons = (4, 2) if quick else (10, 6)
        for i in range(nb_pure + nb_cons):
            kind = "pure" if i < nb_pure else "consumed"
            ops = gen_base_ops(rng, kind, i)
            d = make_base(exes["debug"], shm, "%s%d" % (kind, i), ops)
            reg, reglines = registry(ops)
            wal = wal_files(d)
            data = [open(os.path.join(d, "k", f), "rb").read() for f in wal]
            aux = {}
            for ref, fn in AUX.items():
                p = os.path.join(d, "k", fn)
                if os.path.exists(p) and os.path.getsize(p) > 0:
                    aux[ref] = open(p, "rb").read()
            if kind == "pure" and "idx" in aux:
                raise RuntimeError("pure base has a read-offset index")
            bases.append(dict(kind=kind, dir=d, ops=ops, reg=reg, reglines=reglines, wal=wal, data=data, aux=aux,
                              B=B, FSZ=FSZ, entries=[walk_entries(x, B, FSZ) for x in data], id=i, files=snapshot(d)))
        _t("bases")
        # ---------------- 2. encoder correspondence on every header the engine wrote
        hdrs = []
        for b in bases:
            for fi, ents in enumerate(b["entries"]):
                for e in ents:
                    hdrs.append(b["data"][fi][e["pos"]:e["pos"] + H])
        hdrs = list(dict.fromkeys(hdrs))
        dec, rc, err = C.run_lines([driver, "hdr_c11"], [h.hex() for h in hdrs])
        enc_in = []
        for h, d in zip(hdrs, dec):
            f = dict(kv.split("=") for kv in d.split()[0].split(",")[1:]) if d.startswith("v0=valid") else None
            enc_in.append("%s %s %s %s" % (f["name"], f["rs"], f["nbs"], f["ck"]) if f else "- 0 0 0")
        enc, rc2, err2 = C.run_lines([driver, "hdrenc_c11"], enc_in)
        n_enc_bad = 0
        for h, d, e in zip(hdrs, dec, enc):
            if not d.startswith("v0=valid") or " v1=valid" not in d or e != h.hex():
                n_enc_bad += 1
                if n_enc_bad <= 3:
                    broken.append(dict(kind="correspondence", what="header written by Block::write is not what model encode_hdr/decode_hdr say",
                                       case=dict(header=h.hex()), model_decode=d, model_encode=e[:80]))
        if len(dec) != len(hdrs) or len(enc) != len(hdrs):
            broken.append(dict(kind="correspondence", what="hdr_c11/hdrenc_c11 failed rc=%s/%s %s %s" % (rc, rc2, err[-200:], err2[-200:])))
        _t("encoder correspondence")
        # ---------------- 3. mutants
        mutants = []          # dict(base, mut, id)
        corpus_dir = os.path.join(C.VERIF, "corpus", "C11")
        corpus = []
        if os.path.isdir(corpus_dir):
            for fn in sorted(os.listdir(corpus_dir)):
                corpus.append(json.load(open(os.path.join(corpus_dir, fn))))
        replay_cases = []
        if ctx.get("replay"):
            for f in ctx["replay"].get("failing", []) + ctx["replay"].get("broken", []):
                if isinstance(f.get("case"), dict) and "base_ops" in f["case"]:
                    replay_cases.append(f["case"])
        for ci, cc in enumerate(replay_cases + corpus):
            # a corpus/replay case carries its own base workload
            name = "corpus%d" % ci
            d = make_base(exes["debug"], shm, name, cc["base_ops"])
            reg, reglines = registry(cc["base_ops"])
            wal = wal_files(d)
            data = [open(os.path.join(d, "k", f), "rb").read() for f in wal]
            aux = {ref: open(os.path.join(d, "k", fn), "rb").read() for ref, fn in AUX.items()
                   if os.path.exists(os.path.join(d, "k", fn)) and os.path.getsize(os.path.join(d, "k", fn)) > 0}
            kind = "consumed" if "idx" in aux else "pure"
            b = dict(kind=kind, dir=d, ops=cc["base_ops"], reg=reg, reglines=reglines, wal=wal, data=data, aux=aux,
                     B=B, FSZ=FSZ, entries=[walk_entries(x, B, FSZ) for x in data], id=name, files=snapshot(d))
            mutants.append(dict(base=b, mut=cc["mutation"], corpus=True))
        for b in bases:
            ms = gen_wal_mutants(rng, b, tier) if b["kind"] == "pure" else gen_index_mutants(rng, b, tier)
            if quick and b["kind"] == "pure":
                # every mutation kind once per run, spread over the bases (thorough: all kinds on all bases)
                ms = [x for j, x in enumerate(ms) if j % nb_pure == b["id"] % nb_pure]
            ms.insert(0, dict(kind="identity", edits=[]))
            for m in ms:
                mutants.append(dict(base=b, mut=m, corpus=False))
        for i, m in enumerate(mutants):
            m["id"] = i
            m["dir"] = os.path.join(shm, "m%d" % i)
            try:
                apply_mutation(m["base"], m["mut"], m["dir"])
            except Exception as ex:
                raise RuntimeError("mutation could not be applied: %r: %r" % (m["mut"], ex))
            k = m["mut"]["kind"].split("=")[0].split("@")[0].split(":")[0]
            hist["mutation_kinds"][k] = hist["mutation_kinds"].get(k, 0) + 1
        _t("mutants applied: %d" % len(mutants))
        # ---------------- 4. model: recovery scan of every mutated directory
        spec_cache = {}
        def model_lines(m, v, lenient):
            if "specs" not in m:
                specs = []
                for f in wal_files(m["dir"]):
                    data = open(os.path.join(m["dir"], "k", f), "rb").read()
                    if data not in spec_cache:
                        spec_cache[data] = sparse_spec(data)
                    specs.append(spec_cache[data])
                m["specs"] = " ".join(specs) if specs else "0"
            return "%s %d %d %d %s" % (v, lenient, FSZ, B, m["specs"])
        def run_model(chunk):
            out, rc, err = C.run_lines([driver, "scan_c11"], chunk, timeout=3000)
            if len(out) != len(chunk):
                out = out + ["<missing %s>" % err[-100:]] * (len(chunk) - len(out))
            return out
        def model_batch(jobs):
            """jobs: (mutant id, key, line); identical lines (same directory content) are run once"""
            uniq = list(dict.fromkeys(j[2] for j in jobs))
            uniq.sort(key=len, reverse=True)
            shards = [uniq[i::C.NPROC] for i in range(C.NPROC)]
            with ThreadPoolExecutor(C.NPROC) as ex:
                outs = list(ex.map(run_model, shards))
            res = {}
            for sh, oo in zip(shards, outs):
                res.update(zip(sh, oo))
            for mid, which, line in jobs:
                mutants[mid]["scan_" + which] = parse_scan(res[line])
            return len(uniq)
        jobs = []
        for m in mutants:
            jobs.append((m["id"], "cur", model_lines(m, variant, 0)))
            if variant == "0":
                jobs.append((m["id"], "v1", model_lines(m, "1", 0)))
        nscans = model_batch(jobs)
        # lenient variant only where the strict scan met a window past the end
        jobs = [(m["id"], "len", model_lines(m, variant, 1)) for m in mutants if m["scan_cur"]["pastend"] is not None]
        if jobs:
            nscans += model_batch(jobs)
        # first-header classes (coverage of the decode outcome classes)
        first_hdrs = []
        for m in mutants:
            for e in m["mut"]["edits"]:
                if e.get("op") == "patch" and e["file"].startswith("wal:"):
                    fi = int(e["file"][4:])
                    data = open(os.path.join(m["dir"], "k", m["base"]["wal"][fi]), "rb").read()
                    cands = [x for x in m["base"]["entries"][fi] if x["pos"] <= e["off"] < x["pos"] + H]
                    if cands and len(data) >= cands[0]["pos"] + H:
                        first_hdrs.append((m["id"], data[cands[0]["pos"]:cands[0]["pos"] + H].hex()))
                    break
        hc, _, _ = C.run_lines([driver, "hdr_c11"], [h for _, h in first_hdrs])
        for (mid, _), line in zip(first_hdrs, hc):
            cls = line.split()[0].split(",")[0][3:] if line else "?"
            mutants[mid]["hdr_class"] = cls
            hist["first_header_class"][cls] = hist["first_header_class"].get(cls, 0) + 1
        # ---------------- classes of every mutant (from the case, through the model)
        for m in mutants:
            m["classes"] = sorted(classes_of(m, variant, idx_fixed))
            s = m["scan_cur"]
            key = "ub" if s["ub"] else ("pastend" if s["pastend"] is not None else "defined")
            hist["model_stop"][key] = hist["model_stop"].get(key, 0) + 1
        _t("model scans")
        # ---------------- 5. implementation runs
        runs = []     # (mutant id, profile, backend, drain, valgrind)
        combos = [(p, b, "R") for p, b in CONFIGS] + [("release", "fd", "BR"), ("debug", "mmap", "BR")]
        for m in mutants:
            risky = m["scan_cur"]["ub"] or m["scan_cur"]["pastend"] is not None or m["corpus"]
            if quick and not risky:
                # two of the six (profile, backend, drain API) combinations per mutant, rotating
                sel = [combos[(2 * m["id"]) % 6], combos[(2 * m["id"] + 3) % 6]]
            elif quick:
                sel = combos[:4]
            else:
                sel = combos
            for prof, be, drain in sel:
                runs.append((m["id"], prof, be, drain, False))
        vg_pool = [m for m in mutants if m["scan_cur"]["ub"]] + [m for m in mutants if m["base"]["kind"] == "consumed" and "index-archive-unchecked" in m["classes"]]
        vg_rest = [m for m in mutants if not m["scan_cur"]["ub"] and m["scan_cur"]["pastend"] is None]
        nvg = 16 if quick else 200
        vg_sel = vg_pool[:nvg * 2 // 3]
        vg_sel += rng.sample(vg_rest, min(len(vg_rest), nvg - len(vg_sel)))
        for m in vg_sel:
            runs.append((m["id"], "release", "fd", "R", True))

        def do_run(r):
            mid, prof, be, drain, vg = r
            m = mutants[mid]
            b = m["base"]
            t0 = sorted(b["reg"].keys())[0]
            lines = ["CASE m%d mode=strict backend=%s sched=nofsync adopt=%s" % (mid, be, m["dir"])] + b["reglines"] + \
                    ["CS", "DRAIN %s 5000" % drain, "A h:%s 999999 7" % t0.hex(), "R h:%s 1" % t0.hex(), "END"]
            env = {}
            if vg:
                env["WH_VALGRIND"] = os.path.join(shm, "vg-%d" % mid)
            # where the model says the code has left defined behaviour (garbage sizes of up to 4 GiB are
            # allocated and hashed) a short limit is enough: a timeout is then one of the expected outcomes
            risky = m["scan_cur"]["ub"] or m["scan_cur"]["pastend"] is not None
            out, to = run_case(exes[prof], os.path.join(shm, "run"), lines, env, timeout=(240 if vg else (15 if risky else 60)))
            return observe(out, to, len(b["reglines"]))
        os.makedirs(os.path.join(shm, "run"), exist_ok=True)
        with ThreadPoolExecutor(C.NPROC) as ex:
            obs = list(ex.map(do_run, runs))
        _t("implementation runs: %d" % len(runs))
        # ---------------- 6. diff + acceptor
        def judge(r, o):
            """diff against the model's prediction and acceptor input for one run"""
            mid, prof, be, drain, vg = r
            m = mutants[mid]
            b = m["base"]
            cfgname = "%s/%s/%s%s" % (prof, be, drain, "/valgrind" if vg else "")
            reasons = unclean_reasons(o, vg)
            compared, bad = False, None
            lenient = (prof == "release" and be == "fd" and variant == "0")
            scan = m["scan_cur"]
            if lenient and scan["pastend"] is not None:
                scan = m.get("scan_len", scan)
            case = dict(base_ops=b["ops"], mutation=m["mut"], config=cfgname, variant="V" + variant)
            # correspondence: only where the model says the code stays in defined behaviour
            if b["kind"] == "pure" and not scan["ub"] and scan["pastend"] is None and "<missing" not in scan["raw"]:
                compared = True
                exp = streams_of(scan)
                topics = set(exp) | set(b["reg"])
                exp_counts = "counts:" + ",".join("%s=%d" % (C.hx(t), len(exp[t])) for t in sorted(exp))
                got_drain = {}
                if o["drain"] is not None:
                    for t, (items, end) in o["drain"].items():
                        got_drain[t] = ([(int(x.split(":")[3]), x.split(":")[4]) for x in items], end)
                exp_drain = {t: (exp.get(t, []), "none") for t in topics}
                if o["open"] != "ok":
                    bad = "open: impl=%s model=ok" % o["open"]
                elif o["counts"] != exp_counts:
                    bad = "counts: impl=%s model=%s" % (o["counts"], exp_counts)
                elif got_drain != exp_drain:
                    bad = "delivered streams differ"
            # acceptor input
            app = dict(b["reg"])
            t0 = sorted(b["reg"].keys())[0]
            app_s = ";".join("%s=%s" % (C.hx(t), ",".join(str(p) for p, _ in v) + (",999999" if t == t0 else "")) for t, v in sorted(app.items()))
            deliv = []
            if o["drain"]:
                for t, (items, end) in sorted(o["drain"].items()):
                    ids = []
                    for x in items:
                        pid = ident_pid(x, b["reg"].get(t, []))
                        ids.append("X" if pid is None else str(pid))
                    if ids:
                        deliv.append("%s=%s" % (C.hx(t), ",".join(ids)))
            # liveness probe after the drain: an append and a consuming read on a registered topic must
            # not panic, and what the read returns is one more delivered payload of that topic
            if o["open"] == "ok" and len(o["lines"]) >= 4:
                a, rd = o["lines"][-3], o["lines"][-2]
                if a == "panic" or rd == "panic":
                    reasons = sorted(set(reasons + ["panic-after-open"]))
                if rd.startswith("e:"):
                    pid = ident_pid(rd, b["reg"].get(t0, []) + [(999999, 7)])
                    deliv.append("%s=%s" % (C.hx(t0), "X" if pid is None else str(pid)))
            foreign = [tok for tok in deliv if "X" in tok.split("=")[-1].split(",")]
            return dict(r=r, o=o, reasons=reasons, case=case, cfgname=cfgname, compared=compared, bad=bad, scan=scan,
                        foreign=foreign, acc_line="%d %s %s" % (0 if reasons else 1, app_s or "-", ";".join(deliv) or "-"))

        def unexplained(j):
            m = mutants[j["r"][0]]
            if j["bad"]:
                return True
            if j["reasons"] or j["foreign"]:
                f = dict(reasons=j["reasons"], foreign=j["foreign"])
                return not any(explains(c, f) for c in m["classes"])
            return False

        judged = [judge(r, o) for r, o in zip(runs, obs)]
        # A disagreement or a failure outside every class is confirmed on a freshly rebuilt copy of the
        # mutated directory before it is reported (the run directories live in a shared tmpfs and the
        # machine may be overloaded: a vanished file or a child that could not be spawned is not a finding).
        redo = [i for i, j in enumerate(judged) if unexplained(j)]
        hist["runs_repeated_for_confirmation"] = len(redo)
        if redo:
            os.makedirs(os.path.join(shm, "run"), exist_ok=True)
            for bid in set(id(mutants[runs[i][0]]["base"]) for i in redo):
                restore_base([mutants[runs[i][0]]["base"] for i in redo if id(mutants[runs[i][0]]["base"]) == bid][0])
            for mid in set(runs[i][0] for i in redo):
                m = mutants[mid]
                shutil.rmtree(m["dir"], ignore_errors=True)
                apply_mutation(m["base"], m["mut"], m["dir"])
            with ThreadPoolExecutor(4) as ex:
                again = list(ex.map(do_run, [runs[i] for i in redo]))
            for i, o2 in zip(redo, again):
                judged[i] = judge(runs[i], o2)
        acc_lines, acc_meta = [], []
        ndiff = ncompared = nskipped = 0
        for j in judged:
            m = mutants[j["r"][0]]
            hist["configs"][j["cfgname"]] = hist["configs"].get(j["cfgname"], 0) + 1
            for x in j["reasons"]:
                hist["impl_unclean"][x] = hist["impl_unclean"].get(x, 0) + 1
                if x == "timeout":
                    kk = "%s %s" % (m["mut"]["kind"], j["cfgname"])
                    hist.setdefault("timeouts", {})[kk] = hist.setdefault("timeouts", {}).get(kk, 0) + 1
            if j["compared"]:
                ncompared += 1
            else:
                nskipped += 1
            if j["bad"]:
                ndiff += 1
                if ndiff <= 5:
                    o = j["o"]
                    broken.append(dict(kind="correspondence", what="model/Hdr.v recovery scan and the implementation disagree: " + j["bad"],
                                       case=j["case"], impl=dict(open=o["open"], counts=o["counts"], tail=o["raw"]),
                                       model=j["scan"]["raw"][:600]))
            acc_lines.append(j["acc_line"])
            acc_meta.append((j["r"], j["o"], j["reasons"], j["case"]))
        acc_out, rc, err = C.run_lines_parallel([driver, "accept_c11"], acc_lines)
        if len(acc_out) != len(acc_lines):
            broken.append(dict(kind="harness", what="accept_c11 failed rc=%s %s" % (rc, err[-300:])))
            acc_out += ["<missing>"] * (len(acc_lines) - len(acc_out))
        nrej = 0
        for (r, o, reasons, case), a, line in zip(acc_meta, acc_out, acc_lines):
            if a == "ok":
                continue
            nrej += 1
            m = mutants[r[0]]
            foreign = [tok for tok in line.split()[2].split(";") if "X" in tok.split("=")[-1].split(",")] if line.split()[2] != "-" else []
            what = []
            if reasons:
                what.append("unclean: " + ",".join(reasons))
            if foreign:
                what.append("payload never appended to the topic delivered on %d topic(s)" % len(foreign))
            failures.append(dict(kind="acceptor", acceptor="c11_ok", classes=m["classes"], case=case,
                                 mutation_kind=m["mut"]["kind"], reasons=reasons, foreign=foreign[:3],
                                 impl_tail=o["raw"], model=m["scan_cur"]["raw"][:300],
                                 what="; ".join(what) or "rejected"))
        _t("diff + acceptor")
        # ---------------- coverage
        nontriv = sum(1 for m in mutants if m["mut"]["edits"])
        defined_changed = sum(1 for m in mutants if m["base"]["kind"] == "pure" and m["mut"]["edits"]
                              and not m["scan_cur"]["ub"] and m["scan_cur"]["pastend"] is None)
        samples = []
        for (r, o, reasons, case), a in list(zip(acc_meta, acc_out))[:2] + [x for x in zip(acc_meta, acc_out) if x[1] != "ok"][:3]:
            samples.append(dict(case=dict(mutation=case["mutation"], config=case["config"], base_ops=case["base_ops"][:6]),
                                impl=dict(open=o["open"], end=o["end"], counts=(o["counts"] or "")[:120]), acceptor=a, unclean=reasons))
        hist.update(bases=len(bases), pure_bases=nb_pure, consumed_bases=nb_cons, engine_written_headers_checked=len(hdrs),
                    header_encoder_disagreements=n_enc_bad, mutants=len(mutants), implementation_runs=len(runs),
                    valgrind_runs=len(vg_sel), runs_compared_with_model=ncompared, runs_not_compared=nskipped,
                    model_scans=nscans, model_impl_disagreements=ndiff, traces_rejected=nrej, model_variant="V" + variant,
                    index_decoding_checked_in_source=idx_fixed, wall_s=round(time.time() - t_start, 1))
        cov = dict(
            evaluations=len(runs), distinct_nontrivial=nontriv,
            rule="mutants = byte-level edits of engine-produced directories (small geometry: block %d, file %d): per header field (meta_len, name repr inline/out-of-line, "
                 "name bytes, next_block_start, checksum, read_size, padding), payload (1 byte at first/middle/last position, 2 bytes, forged with checksum), zeroed ranges "
                 "(from an entry boundary, header only, probe bytes, whole block, random), truncation at structural boundaries, extension, noise, stray files (random, garbage headers, "
                 "zero image, WAL copy, directory, *.tmp leftovers), index and clean-marker damage (truncation, bit flips, garbage, swap). distinct_nontrivial = mutants with at least one edit "
                 "(each has its own descriptor; %d of them leave the code in defined behaviour and are compared with the model's prediction); evaluations = process runs "
                 "(4 profile/backend configurations, two drain APIs, memcheck sample)" % (B, FSZ, defined_changed),
            traces_validated_against_impl=len(runs),
            samples=samples, histogram=hist, exhaustive=False,
        )
        return dict(failures=failures, broken=broken, coverage=cov)
    finally:
        shutil.rmtree(shm, ignore_errors=True)


# ----------------------------------------------------------------------------- classes
def classes_of(m, variant, idx_fixed):
    """Known-finding classes a mutant belongs to, decided from the mutated directory by the
    extracted model (and from which files the mutation touches) — never from the run's output."""
    cls = set()
    b = m["base"]
    cur = m["scan_cur"]
    v1 = m.get("scan_v1", cur)
    if variant == "0":
        if cur["ub"]:
            cls.add("hdr-archive-unchecked")          # short root / name slice outside the buffer
        if cur["pastend"] is not None:
            cls.add("payload-window-unbounded")
        # archives that only the unchecked decoder accepts (inline length 8..32, non-UTF-8 names)
        if not cur["ub"] and cur["pastend"] is None and [x[:3] for x in cur["blocks"]] != [x[:3] for x in v1["blocks"]]:
            cls.add("hdr-archive-unchecked")
        if not idx_fixed and any(e.get("file") in ("idx", "clean") for e in m["mut"]["edits"]):
            cls.add("index-archive-unchecked")
    # what even the checked decoder lets through: a payload under a topic it was not appended to
    # (the header is not covered by the checksum) or a forged payload (the checksum is not a MAC)
    want = {}
    for t, v in b["reg"].items():
        want[t] = set((ln, "%08x" % (fnv64(payload(pid, ln)) & 0xFFFFFFFF)) for pid, ln in v)
    for t, ents in streams_of(v1).items():
        if any(e not in want.get(t, set()) for e in ents):
            cls.add("hdr-unauthenticated")
    return cls


PANICS = {"panic-at-open", "panic", "panic-in-read"}


def explains(cls, f):
    """is the observed failure the one the model predicts for the class?"""
    reasons, foreign = set(f.get("reasons", [])), f.get("foreign", [])
    if cls in ("hdr-archive-unchecked", "index-archive-unchecked"):
        return True                     # undefined behaviour / rkyv's own debug panics: anything goes
    if cls == "payload-window-unbounded":
        # debug build or mmap backend: panic; release + FD: gigabytes allocated and hashed
        return not foreign and reasons <= (PANICS | {"timeout"})
    if cls == "hdr-unauthenticated":
        return bool(foreign) and not reasons
    return False


def classify(f, known):
    cls = set(f.get("classes", []))
    for k in known:
        if k.get("class") in cls and explains(k["class"], f):
            return k
    return None
