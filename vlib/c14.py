"""C14 — a namespace key always maps to a private directory inside the data dir.
Theorem: props/C14.v (c14_component_safe, for every key).  Correspondence: the real
sanitize_namespace (hook accessor) and the real constructors (instances actually built
in a scratch data dir) against the extracted model; acceptor safe_component on every
component the implementation produced."""
import itertools
import os
import shutil

from . import common as C

TRUSTED_EXTRA = [
    "harness/wh (Rust): calls walrus_rust::wal::verif::sanitize_namespace (cfg(walrus_verif) accessor) and the public constructors",
    "modelled, not verified: PathBuf::push semantics on Linux (a component without '/' and NUL that is not '.', '..' or empty names a direct child)",
]
ASSUMPTIONS = [
    "keys are Rust &str (valid UTF-8); the model works on scalar values and converts with its own UTF-8 codec",
    "WALRUS_INSTANCE_KEY cannot carry NUL (OS limitation), those cases are skipped for the env constructor",
]

CORPUS = ["", ".", "..", "...", "_", "__", "._", "_.", "._.", "a/b", "/", "\0", "é", "../", "/..", "../x",
          "..\0", ". .", " ", "\t", "-", "a", "tenant-123", "A.b_c-9", "..a", "a..", " ", "\U0001F600",
          "./.", "_._", ".__.", "\\", "..\\", "..%2f", "~", "con", "ns_cbf29ce484222325"]
ALPHA = [".", "_", "-", "a", "/", " ", "\0", "é"]


def gen_keys(tier, rng):
    keys = list(CORPUS)
    maxlen = 4 if tier == "quick" else 5
    for n in range(0, maxlen + 1):
        for t in itertools.product(ALPHA, repeat=n):
            keys.append("".join(t))
    # single scalars
    step = 53 if tier == "quick" else 1
    for cp in itertools.chain(range(0, 0x800), range(0x800, 0x110000, step),
                              [0xD7FF, 0xE000, 0xFFFF, 0x10000, 0x10FFFF]):
        if 0xD800 <= cp <= 0xDFFF:
            continue
        keys.append(chr(cp))
    nrand = 3000 if tier == "quick" else 60000
    pool = ALPHA + ["b", "Z", "0", "9", " ", "中", "\U00010348", ":", "\\", "\n"]
    for _ in range(nrand):
        n = rng.choice([1, 2, 3, 5, 8, 13, 40, 200])
        keys.append("".join(rng.choice(pool) for _ in range(rng.randint(0, n))))
    seen, out = set(), []
    for k in keys:
        if k not in seen:
            seen.add(k); out.append(k)
    return out


def run(ctx):
    tier, rng, driver = ctx["tier"], ctx["rng"], ctx["driver"]
    failures, broken = [], []
    wh = C.build_rust("wh")
    keys = []
    if ctx.get("replay"):
        for f in ctx["replay"].get("failing", []):
            if "key_hex" in f:
                keys.append(C.unhx(f["key_hex"]).decode("utf-8"))
    keys += gen_keys(tier, rng)
    hexkeys = [C.hx(k) for k in keys]
    impl, rc, err = C.run_lines_parallel([wh, "sanitize"], hexkeys)
    model, rc2, err2 = C.run_lines_parallel([driver, "sanitize"], hexkeys)
    if rc or rc2 or len(impl) != len(keys) or len(model) != len(keys):
        broken.append(dict(kind="correspondence", what="sanitize runs failed rc=%s/%s %s %s" % (rc, rc2, err, err2)))
        impl = impl + ["<missing>"] * (len(keys) - len(impl))
        model = model + ["<missing>"] * (len(keys) - len(model))
    acc, _, _ = C.run_lines_parallel([driver, "accept_c14"], [x if x != "<missing>" else "-" for x in impl])
    ndiff = 0
    fallback = 0
    for k, hk, i, m, a in zip(keys, hexkeys, impl, model, acc):
        if i.startswith("6e735f"):
            fallback += 1
        if a != "ok":
            failures.append(dict(kind="acceptor", key_hex=hk, key_repr=repr(k), impl_component_hex=i,
                                 what="sanitize_namespace(key) is not a private path component"))
        if i != m:
            ndiff += 1
            if ndiff <= 5:
                broken.append(dict(kind="correspondence", what="model and implementation disagree on sanitize_namespace",
                                   key_hex=hk, key_repr=repr(k), impl=i, model=m))
    # real constructors
    base = C.shm_dir("c14")
    ctors = ["builder", "forkey", "cons", "env"]
    nk = 120 if tier == "quick" else 1500
    kd_keys = list(dict.fromkeys(CORPUS + [k for k in keys[:50]] + rng.sample(keys, min(nk, len(keys)))))
    cases = []
    for k in kd_keys:
        for c in (ctors if (tier != "quick" or k in CORPUS) else [rng.choice(ctors)]):
            cases.append((c, k))
    lines = ["%s %s" % (c, C.hx(k)) for c, k in cases]
    # shard over processes (each process builds real instances in /dev/shm)
    from concurrent.futures import ThreadPoolExecutor
    shards = [lines[i::8] for i in range(8)]
    with ThreadPoolExecutor(8) as ex:
        rs = list(ex.map(lambda s: C.run_lines([wh, "keydir", base], s, timeout=1200), shards))
    kd_out = {}
    for s, (o, r, e) in zip(shards, rs):
        if len(o) != len(s):
            broken.append(dict(kind="harness", what="keydir shard died rc=%s %s" % (r, e[-300:])))
        for l, x in zip(s, o):
            kd_out[l] = x
    shutil.rmtree(base, ignore_errors=True)
    model_of = dict(zip(hexkeys, model))
    kd_checked = 0
    comps = []
    for (c, k), l in zip(cases, lines):
        o = kd_out.get(l)
        if o is None or o == "skip-nul":
            continue
        kd_checked += 1
        exp = "dirs:" + C.hx(b"data/" + C.unhx(model_of[C.hx(k)]))
        ok_shape = False
        if o.startswith("dirs:") and "," not in o and o != "dirs:":
            d = C.unhx(o[5:])
            if d.startswith(b"data/") and b"/" not in d[5:] and len(d) > 5:
                comps.append((c, k, C.hx(d[5:])))
                ok_shape = True
        if not ok_shape:
            failures.append(dict(kind="acceptor", key_hex=C.hx(k), key_repr=repr(k), ctor=c, impl=o,
                                 what="instance files are not in one directory strictly inside the data dir"))
        elif o != exp:
            broken.append(dict(kind="correspondence", what="constructor %s put files elsewhere than the model predicts" % c,
                               key_hex=C.hx(k), impl=o, model=exp))
    acc2, _, _ = C.run_lines([driver, "accept_c14"], [x[2] for x in comps])
    for (c, k, comp), a in zip(comps, acc2):
        if a != "ok":
            failures.append(dict(kind="acceptor", key_hex=C.hx(k), key_repr=repr(k), ctor=c, impl_component_hex=comp,
                                 what="constructor root is not a private path component"))
    cov = dict(
        evaluations=len(keys) + kd_checked,
        distinct_nontrivial=sum(1 for k, i in zip(keys, impl) if C.hx(k) != i),
        rule="keys: corpus + all strings of length <= %d over %r + single scalars (step %d above U+0800) + seeded random; "
             "non-trivial = sanitisation changed the key (replacement or ns_<hash> fallback); distinct keys only" % (
                 4 if tier == "quick" else 5, ALPHA, 53 if tier == "quick" else 1),
        traces_validated_against_impl=len(keys) + kd_checked,
        samples=[dict(key=repr(k), impl_component=C.unhx(i).decode("utf-8", "replace")) for k, i in list(zip(keys, impl))[:6]]
                + [dict(ctor=c, key=repr(k), impl=kd_out.get(l)) for (c, k), l in list(zip(cases, lines))[:4]],
        histogram=dict(keys=len(keys), fallback_to_hash=fallback, instances_built=kd_checked,
                       model_impl_disagreements=ndiff),
        exhaustive=(tier != "quick"),
    )
    return dict(failures=failures, broken=broken, coverage=cov)
