"""C23 — a segment is never written after the node holding it applied its sealing.
Theorems: coq/props/C23.v (first clause refuted by evaluated witness schedules; second clause
proved for all schedules; both clauses proved for all schedules of the fenced scheduler).
Check: see vlib/clusterprops.py."""
from . import clusterprops as P

TRUSTED_EXTRA = P.TRUSTED_EXTRA
ASSUMPTIONS = P.ASSUMPTIONS


def run(ctx):
    return P.run_prop(ctx, "C23")


def classify(f, known):
    return P.classify("C23", f, known)
