"""Shared machinery of C21 and C19: case generation for harness/owh (`wal` and `store` modes), sharded
implementation / model runs, source-text ties for the one file that cannot be compiled (node.rs)."""
import glob
import hashlib
import os
import re
import shutil
from concurrent.futures import ThreadPoolExecutor

from . import common as C

FINDING_ID = "C21-D11-recovery-read-consumes-log"
KNOWN_CLASS = "ack-before-previous-reopen"

OCT = "octopii/src"

# sha256 of the normalised text (comments stripped, whitespace collapsed) the model and the harness
# mirror (harness/owh/src/peerbook.rs) were written from.  A mismatch = the tie to node.rs is broken.
FINGERPRINTS = {
    "node.rs:persist_peer_addr_if_needed": "8ed8ef8d048713e5d659dae0b1755c1a804cd4f3b6812aed5c8a20e75e054ab7",
    "node.rs:startup-peer-block": "e59c0b1e65205adab6d5e2286d7e198e9ff5928d81bdf600e8226066c416e9c3",
}
READ_ALL_CALLERS = {"openraft/node.rs": 1, "openraft/storage.rs": 1, "state_machine.rs": 1}


# ------------------------------------------------------------------ source-text ties
def norm_rust(text):
    text = re.sub(r"//[^\n]*", "", text)
    return re.sub(r"\s+", " ", text).strip()


def rust_item(src, pattern):
    """text of the item starting at the first match of `pattern` up to its closing brace"""
    m = re.search(pattern, src)
    if not m:
        return None
    i = src.index("{", m.start())
    depth, j = 0, i
    while j < len(src):
        if src[j] == "{":
            depth += 1
        elif src[j] == "}":
            depth -= 1
            if depth == 0:
                return src[m.start():j + 1]
        j += 1
    return None


def between(src, a, b):
    i = src.find(a)
    if i < 0:
        return None
    j = src.find(b, i)
    if j < 0:
        return None
    return src[i:j + len(b)]


def source_ties():
    """-> (broken entries, info dict).  node.rs cannot be compiled here (quinn, RPC layer, a running Raft):
    its three free-standing peer-record items are copied verbatim into the harness and compared as text,
    the two pieces that had to be adapted are tied by fingerprint; read_all's callers are counted."""
    broken, info = [], {}
    node_p = os.path.join(C.REPO, OCT, "openraft/node.rs")
    node = open(node_p).read()
    mirror = open(os.path.join(C.VERIF, "harness/owh/src/peerbook.rs")).read()
    mv = between(mirror, "// BEGIN VERBATIM node.rs", "// END VERBATIM node.rs") or ""
    same = 0
    for name, pat in [("PeerAddrRecord", r"struct\s+PeerAddrRecord\b"),
                      ("load_peer_addr_records", r"async\s+fn\s+load_peer_addr_records\b"),
                      ("append_peer_addr_record", r"async\s+fn\s+append_peer_addr_record\b")]:
        a, b = rust_item(node, pat), rust_item(mv, pat)
        if a is None or b is None or norm_rust(a) != norm_rust(b):
            broken.append(dict(kind="correspondence", what="node.rs item `%s` differs from the copy the harness runs (harness/owh/src/peerbook.rs); "
                               "the peer-address model is no longer tied to the source" % name,
                               source=(a or "<not found>")[:600], mirror=(b or "<not found>")[:600]))
        else:
            same += 1
    info["verbatim_items_identical"] = same
    fps = {
        "node.rs:persist_peer_addr_if_needed": rust_item(node, r"async\s+fn\s+persist_peer_addr_if_needed\b"),
        "node.rs:startup-peer-block": between(node, "let mut initial_peer_map = load_peer_addr_records", "let peer_addrs = Arc::new(RwLock::new(initial_peer_map));"),
    }
    got = {}
    for k, t in fps.items():
        h = hashlib.sha256(norm_rust(t).encode()).hexdigest() if t else "<not found>"
        got[k] = h
        if h != FINGERPRINTS[k]:
            broken.append(dict(kind="correspondence", what="source fingerprint of %s changed: the text the model (model/RaftStore.v: peer_upsert, peer_assert, node_open) "
                               "and the harness mirror were written from is no longer the text in /repo" % k,
                               expected=FINGERPRINTS[k], found=h, text=(t or "")[:800]))
    info["fingerprints"] = got
    # the calling discipline the wrapper model relies on: read_all only from the three start-up paths
    callers = {}
    base = os.path.join(C.REPO, OCT)
    for p in glob.glob(os.path.join(base, "**/*.rs"), recursive=True):
        rel = os.path.relpath(p, base)
        if rel.startswith("wal/"):
            continue
        n = len(re.findall(r"\.read_all\(\)", norm_rust(open(p).read())))
        if n:
            callers[rel] = n
    info["read_all_callers"] = callers
    if callers != READ_ALL_CALLERS:
        broken.append(dict(kind="correspondence", what="WriteAheadLog::read_all has callers other than the three start-up paths the model's domain is stated for",
                           expected=READ_ALL_CALLERS, found=callers))
    # constants of octopii's walrus fork that bound the model's domain (one record fits one block)
    cfg = open(os.path.join(C.REPO, OCT, "wal/wal/config.rs")).read()
    try:
        k = C.parse_rust_consts(os.path.join(C.REPO, OCT, "wal/wal/config.rs"), ["DEFAULT_BLOCK_SIZE", "PREFIX_META_SIZE", "BLOCKS_PER_FILE"])
    except Exception as e:  # noqa: BLE001
        k = {}
        broken.append(dict(kind="correspondence", what="constants of octopii's walrus fork not found: %r" % (e,)))
    info["fork_consts"] = k
    m = re.search(r"ReadConsistency::(\w+)", between(open(os.path.join(C.REPO, OCT, "wal/mod.rs")).read(), "with_consistency_and_schedule_for_key(", ");") or "")
    info["wrapper_read_consistency"] = m.group(1) if m else "<not found>"
    if info["wrapper_read_consistency"] != "StrictlyAtOnce":
        broken.append(dict(kind="correspondence", what="wal/mod.rs no longer opens Walrus with StrictlyAtOnce; the wrapper model (durable consuming cursor) was written for that mode",
                           found=info["wrapper_read_consistency"]))
    return broken, info


# ------------------------------------------------------------------ running cases
def run_cases(owh, driver, hmode, dcmd, cases, tag, shards=C.NPROC, timeout=3000):
    """cases: list of lists of lines (first = CASE line).  -> [(impl lines, model lines)] aligned with the case lines."""
    base = C.shm_dir(tag)
    # balance by number of process lifetimes + bytes
    order = sorted(range(len(cases)), key=lambda i: -sum(len(l) + 400 for l in cases[i]))
    per = [[] for _ in range(max(1, min(shards, len(cases))))]
    load = [0] * len(per)
    for i in order:
        k = load.index(min(load))
        per[k].append(i)
        load[k] += sum(len(l) + 400 for l in cases[i])

    def run_shard(k):
        lines = [l for i in per[k] for l in cases[i]]
        if not lines:
            return [], []
        d = os.path.join(base, "s%d" % k)
        os.makedirs(d, exist_ok=True)
        out, rc, err = C.run_lines([owh, hmode, d], lines, timeout=timeout)
        if len(out) != len(lines):
            out = out + ["<missing>"] * (len(lines) - len(out))
        mout, rc2, err2 = C.run_lines([driver, dcmd], lines, timeout=timeout)
        if len(mout) != len(lines):
            mout = mout + ["<missing:%s>" % err2[-200:].replace("\n", " ")] * (len(lines) - len(mout))
        return out, mout

    with ThreadPoolExecutor(len(per)) as ex:
        outs = list(ex.map(run_shard, range(len(per))))
    shutil.rmtree(base, ignore_errors=True)
    res = [None] * len(cases)
    for k, idxs in enumerate(per):
        pos = 0
        for i in idxs:
            n = len(cases[i])
            res[i] = (outs[k][0][pos:pos + n], outs[k][1][pos:pos + n])
            pos += n
    return res


def run_cases_settled(owh, driver, hmode, dcmd, cases, tag):
    """run_cases, then every case on which implementation and model disagree is run again on its own (one process tree,
    nothing else of this check running).  -> (results, transient) where `transient` lists the cases whose disagreement did
    not reproduce: their second result replaces the first, and they are REPORTED (evidence histogram, stderr), because an
    acknowledged write that is lost once is still a loss — but a disagreement that does not reproduce cannot be a statement
    about model and code (seen once under a load average of 50 with eight other builds sharing /dev/shm; the fork's FD
    backend ignores the result of write_at, so a transient ENOSPC/ENOMEM there silently drops acknowledged appends)."""
    res = run_cases(owh, driver, hmode, dcmd, cases, tag)
    transient = []
    bad = [k for k, (io, mo) in enumerate(res) if [x for x in io] != [x.lstrip("?") for x in mo]]
    for k in bad[:25]:
        again = run_cases(owh, driver, hmode, dcmd, [cases[k]], tag + "r", shards=1)[0]
        if [x for x in again[0]] == [x.lstrip("?") for x in again[1]]:
            first_bad = next((j for j, (i, m) in enumerate(zip(res[k][0], res[k][1])) if i != m.lstrip("?")), -1)
            transient.append(dict(case_lines=cases[k], at_line=first_bad, impl_first_run=res[k][0][first_bad][:300] if first_bad >= 0 else "",
                                  model=res[k][1][first_bad][:300] if first_bad >= 0 else ""))
            C.log("TRANSIENT: implementation and model disagreed once on case %s and agreed on the re-run" % cases[k][0].split()[1])
            res[k] = again
    return res, transient


def load_corpus(prop, prefix):
    cases = []
    d = os.path.join(C.VERIF, "corpus", prop)
    for path in sorted(glob.glob(os.path.join(d, prefix + "*.case"))):
        lines = [l.strip() for l in open(path) if l.strip() and not l.startswith("#")]
        cur = None
        for l in lines:
            if l.startswith("CASE "):
                cur = [l]
                cases.append(cur)
            elif cur is not None:
                cur.append(l)
    return cases


def with_mode(case, mode):
    return [case[0] + " mode=" + mode] + case[1:]


# ------------------------------------------------------------------ generators
ADDRS = ["127.0.0.1:9321", "127.0.0.1:9322", "127.0.0.1:9323", "10.0.0.4:9324", "10.0.0.7:9330", "10.1.2.3:65535", "192.168.0.9:19", "10.0.0.5:9322"]


def hexb(rng, n, first=None):
    b = bytes(rng.randrange(256) for _ in range(n))
    if first is not None and n:
        b = bytes([first]) + b[1:]
    return b.hex() if b else "-"


class StoreGen:
    """histories of the nine log-store / peer operations, observations, APPLY calls and reopens of both kinds"""

    def __init__(self, rng, apply_heavy=False):
        self.rng = rng
        self.apply_heavy = apply_heavy

    def logid(self, idx=None):
        r = self.rng
        return "%d.%d.%d" % (r.choice([0, 1, 1, 2, 3]), r.choice([1, 2, 3]), r.randrange(0, self.next + 2) if idx is None else idx)

    def payload(self, bang=0.0):
        r = self.rng
        x = r.random()
        if x < 0.2:
            return "B"
        if x < 0.3:
            return "M%d" % r.randrange(1, 9)
        if r.random() < bang:
            return "N" + hexb(r, r.choice([1, 2, 4]), first=0x21)
        n = r.choice([0, 1, 2, 3, 6, 20])
        h = hexb(r, n)
        if n and h.startswith("21") and bang == 0.0:
            h = "22" + h[2:]
        return "N" + h

    def case(self, cid, nops, nreopen):
        r = self.rng
        node = r.choice([1, 1, 2, 3])
        peers = r.sample(ADDRS, r.choice([0, 1, 2, 3]))
        hdr = "CASE %s node=%d bind=127.0.0.1:932%d" % (cid, node, node)
        if peers:
            hdr += " peers=" + ",".join(peers)
        lines = [hdr]
        self.next = 1
        slots = sorted(r.sample(range(nops + 1), min(nreopen, nops + 1))) if nreopen else []
        applied_next = 1
        for k in range(nops + 1):
            while slots and slots[0] == k:
                slots.pop(0)
                lines.append(reopen_kind(r))
                applied_next = 1
                if r.random() < 0.8:
                    lines.append("STATE")
                if r.random() < 0.6:
                    lines.append("PEERS")
            if k == nops:
                break
            x = r.random()
            if self.apply_heavy and x < 0.5:
                x = 0.95
            if x < 0.30:
                n = r.choice([1, 1, 2, 3])
                es = []
                for _ in range(n):
                    idx = self.next if r.random() < 0.85 else r.randrange(0, self.next + 1)
                    es.append("%d.%d.%d:%s" % (r.choice([1, 1, 2]), r.choice([1, 2]), idx, self.payload()))
                    self.next = max(self.next, idx + 1)
                lines.append("SA " + ",".join(es))
            elif x < 0.40:
                lines.append("SV %d.%d.%d" % (r.randrange(0, 5), r.choice([1, 2, 3]), r.choice([0, 1])))
            elif x < 0.50:
                lines.append("SC " + (("-") if r.random() < 0.15 else self.logid()))
            elif x < 0.57:
                lines.append("ST " + self.logid())
            elif x < 0.66:
                lines.append("SP " + self.logid())
            elif x < 0.78:
                lines.append("PEER %d %s" % (r.choice([1, 2, 3, 4, 5, 9, 0]), r.choice(ADDRS)))
            elif x < 0.86:
                lines.append("STATE")
            elif x < 0.90:
                lines.append("PEERS")
            else:
                n = r.choice([1, 2, 3, 5])
                es = []
                for _ in range(n):
                    es.append("%d.1.%d:%s%s" % (r.choice([1, 2]), applied_next, self.payload(bang=0.12), r.choice(["", "+"])))
                    applied_next += 1
                lines.append("APPLY " + ",".join(es))
        lines += ["STATE", "PEERS"]
        return lines


def reopen_kind(rng):
    """a fresh process costs ~50-100 ms on a loaded machine, a reopen inside the process ~10 ms; both are exercised"""
    x = rng.random()
    return "RESTART" if x < 0.2 else ("KILL" if x < 0.33 else "REOPEN")


def wal_case(rng, cid, nlife, big=False):
    """disciplined wrapper-level history: read_all only before the first append of a lifetime"""
    lines = ["CASE " + cid]
    pid = 0
    for life in range(nlife + 1):
        x = rng.random()
        if x < 0.65:
            lines.append("READALL")
            if rng.random() < 0.2:
                lines.append("READALL")
        for _ in range(rng.choice([0, 1, 1, 2, 3, 6] if not big else [9, 11, 14])):
            y = rng.random()
            if big:
                pid += 1
                lines.append("APPENDG %d %d" % (pid, rng.choice([1048576, 1048576, 3000000, 700000])))
            elif y < 0.08:
                lines.append("APPEND -")
            elif y < 0.75:
                lines.append("APPEND " + hexb(rng, rng.choice([1, 2, 4, 8, 40])))
            else:
                pid += 1
                lines.append("APPENDG %d %d" % (pid, rng.choice([1, 63, 64, 65, 1000, 70000])))
        lines.append(reopen_kind(rng))
    lines.append("READALL")
    if rng.random() < 0.3:
        lines += [reopen_kind(rng), "READALL"]
    return lines


def wal_is_disciplined(case):
    fresh = True
    for l in case[1:]:
        t = l.split()[0]
        if t in ("APPEND", "APPENDG"):
            fresh = False
        elif t in ("REOPEN", "RESTART", "KILL"):
            fresh = True
        elif t == "READALL" and not fresh:
            return False
    return True


UNDISCIPLINED_PROBES = [
    ["CASE probe-midlife-1", "APPEND 61", "READALL", "APPEND 62", "RESTART", "READALL"],
    ["CASE probe-midlife-2", "APPEND 61", "RESTART", "APPEND 62", "READALL", "APPEND 63", "REOPEN", "READALL"],
    ["CASE probe-midlife-3", "APPEND 61", "READALL", "RESTART", "APPEND 62", "RESTART", "READALL"],
]
OVERSIZE_PROBE = ["CASE probe-oversize", "APPENDG 1 11000000", "APPENDG 2 10", "RESTART", "READALL"]
