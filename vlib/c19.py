"""C19 — all nodes apply the same metadata commands in the same order: THE REPOSITORY-OWNED SLICE.
Theorems: props/C19.v.  Consensus (openraft) is neither run nor modelled; what is checked against the code:
  (a) MemStateMachine::apply of the UNMODIFIED octopii/src/openraft/storage.rs (harness/owh, stand-in openraft/futures/tokio)
      is fed entry streams (blank / normal / membership payloads, with and without a waiting client, commands the
      application refuses) and compared with model/RaftStore.v:sm_apply; the extracted specification apply_spec is run
      over the IMPLEMENTATION's output of every APPLY call (commands handed to the application, responses, last_applied);
  (c) the premise of (b), a log store that keeps what it acknowledged, is tested on restart histories through C21's
      acceptor; its failure is finding C19-D11-log-store-contract (the same defect as C21-D11), excused only while open."""
from . import common as C
from . import raftlib as R

FINDING_ID = "C19-D11-log-store-contract"
KNOWN_CLASS = R.KNOWN_CLASS

TRUSTED_EXTRA = [
    "harness/owh (Rust): #[path]-includes /repo/octopii/src/openraft/{storage.rs, types.rs}, state_machine.rs, wal/mod.rs unchanged; stand-in crates "
    "harness/shims/{openraft (type shapes + storage traits copied from the vendored crate, NO consensus), futures, tokio, bincode}; the harness plays RaftCore: "
    "it builds the entry stream and the responders itself",
    "the application state machine behind the adapter is the harness's recorder (refuses commands starting with '!', answers \"r:\" ++ command); "
    "distributed-walrus's Metadata state machine is C18/C20's subject",
    "NOT covered by any theorem or run: openraft itself (election, replication, commit), the network, the real tokio scheduler. c19_prefix_given_contract is "
    "conditional on an explicit premise (both nodes are fed prefixes of one committed log) that only openraft on top of a contract-keeping log store provides",
]
ASSUMPTIONS = [
    "openraft feeds RaftStateMachine::apply committed entries in index order, each once (its documented contract); the slice proves what the adapter does with them",
    "one apply call at a time per node (the adapter holds its write lock across the call)",
    "the application's accept/refuse decision and response depend on the command only (true of the recorder; c19_adapter_order/prefix hold for any application)",
]


def known_open():
    return any(k.get("id") == FINDING_ID for k in C.load_known_findings("C19"))


def run(ctx):
    tier, rng, driver = ctx["tier"], ctx["rng"], ctx["driver"]
    failures, broken = [], []
    q = tier == "quick"
    is_open = known_open()
    # which wrapper is in /repo is recorded once, by the status of C21's finding
    c21_open = any(k.get("id") == R.FINDING_ID for k in C.load_known_findings("C21"))
    mode = "consuming" if c21_open else "replaying"
    is_open = is_open and c21_open
    owh = C.build_rust("owh", cfgs=())

    cases = []
    if ctx.get("replay"):
        for f in ctx["replay"].get("failing", []) + ctx["replay"].get("broken", []):
            if "case_lines" in f:
                cases.append(f["case_lines"])
    ncorpus = len(cases)
    cases += R.load_corpus("C19", "")
    cases += R.load_corpus("C21", "store")
    ncorpus = len(cases) - ncorpus
    g = R.StoreGen(rng, apply_heavy=True)
    for i in range(220 if q else 3000):
        cases.append(g.case("a%d" % i, rng.choice([4, 8, 16, 30]), rng.choice([0, 0, 1, 2])))
    g2 = R.StoreGen(rng)
    for i in range(40 if q else 500):
        cases.append(g2.case("r%d" % i, rng.choice([6, 12]), rng.choice([2, 3])))
    mcases = [R.with_mode(c, mode) for c in cases]
    res, transient = R.run_cases_settled(owh, driver, "store", "raftstore", mcases, "c19")
    ndiff = napply = nrefused = nresp = 0
    shapes, nontrivial = set(), set()
    for k, (c, (io, mo)) in enumerate(zip(cases, res)):
        for j, (l, i, m) in enumerate(zip(c, io, mo)):
            if l.startswith("APPLY "):
                napply += 1
                es = [] if l.split()[1] == "-" else l.split()[1].split(",")
                nrefused += i.startswith("err")
                nresp += sum(1 for e in es if e.endswith("+"))
                kinds = "".join(e.split(":")[1][0] + ("+" if e.endswith("+") else "") + ("!" if ":N21" in e else "") for e in es)
                if len(es) >= 2 and len(set(kinds.replace("+", "").replace("!", ""))) >= 2:
                    shapes.add(kinds)
                    nontrivial.add("\n".join(c[1:]))
            if i != m:
                ndiff += 1
                if ndiff <= 4:
                    broken.append(dict(kind="correspondence", what="model/RaftStore.v and the implementation disagree (mode %s)" % mode,
                                       at_line=j, op=l, impl=i[:400], model=m[:400], case_lines=c[:j + 1]))
                break
    acc_in, ends = [], []
    for c, (io, mo) in zip(mcases, res):
        acc_in.append("%s => %s" % (c[0], io[0]))
        for l, i in zip(c[1:], io[1:]):
            acc_in.append("%s => %s" % (l, i))
        acc_in.append("END")
        ends.append(len(acc_in) - 1)
    acc_out, rc, err = C.run_lines([driver, "accept_raft"], acc_in, timeout=3000)
    if rc or len(acc_out) != len(acc_in):
        broken.append(dict(kind="harness", what="acceptor run failed rc=%s %s" % (rc, err[-300:])))
        acc_out += ["c21=REJECT c19=REJECT known=0 reopens=0 applies=0"] * (len(acc_in) - len(acc_out))
    nrej19 = nrej21 = nexc = nchecked = 0
    verdicts = []
    for c, (io, mo), e in zip(cases, res, ends):
        v = dict(kv.split("=") for kv in acc_out[e].split() if "=" in kv)
        verdicts.append(acc_out[e])
        nchecked += int(v.get("applies", "0"))
        if v.get("c19") != "ok":
            nrej19 += 1
            failures.append(dict(kind="acceptor", case_lines=c, impl=[x[:300] for x in io], verdict=acc_out[e], classes=[],
                                 what="MemStateMachine::apply did not hand the application exactly the Normal payloads of the entries given, in order, once "
                                      "(or responses / last_applied differ from the specification apply_spec)"))
        if v.get("c21") != "ok":
            nrej21 += 1
            in_known = v.get("known") == "1"
            excusable = in_known and is_open and io == mo
            nexc += excusable
            if not excusable or nexc <= 20:
                failures.append(dict(kind="acceptor", case_lines=c, impl=[x[:300] for x in io], verdict=acc_out[e],
                                     classes=[KNOWN_CLASS] if in_known else [], impl_matches_consuming_model=bool(is_open and io == mo),
                                     what="the log store under the adapter did not keep what it acknowledged across restarts (premise of c19_prefix_given_contract)"))
    cov = dict(
        evaluations=len(cases), distinct_nontrivial=len(nontrivial),
        rule="store-level cases from the seeded generator with half of the operations APPLY calls (1-5 entries: blank / normal 0-20 bytes / membership, "
             "each with or without a waiting client, 12% of normal payloads refused by the application), adapter state carried across calls within a lifetime, "
             "0-2 reopens; plus restart histories for the store contract. non-trivial = the case contains an APPLY call with at least two entries of "
             "at least two different payload kinds; distinct = different operation text (the number of distinct APPLY shapes is in the histogram)",
        traces_validated_against_impl=len(cases),
        samples=[dict(case=c[:10], impl=io[:10], verdict=v) for c, (io, mo), v in list(zip(cases, res, verdicts))[ncorpus:ncorpus + 3]],
        histogram=dict(cases=len(cases), corpus_cases=ncorpus, apply_calls=napply, distinct_apply_shapes=len(shapes), apply_calls_checked_by_spec=nchecked, apply_calls_refused_by_application=nrefused,
                       entries_with_waiting_client=nresp, model_impl_disagreements=ndiff, adapter_rejections=nrej19, store_contract_rejections=nrej21,
                       model_used="mode " + mode, transient_disagreements=transient),
        exhaustive=False,
    )
    return dict(failures=failures, broken=broken, coverage=cov)


def classify(f, known):
    if KNOWN_CLASS in f.get("classes", []) and f.get("impl_matches_consuming_model"):
        for k in known:
            if k.get("id") == FINDING_ID:
                return k
    return None
