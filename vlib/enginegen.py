"""Case generation and execution for the engine properties (C01, C02, C03, C06, C15, C16 ...).
A case is a list of op lines in the grammar shared by harness/wh `engine` and the OCaml
driver's `engine` command.  Every random choice comes from the rng passed in."""
import os
import shutil
from concurrent.futures import ThreadPoolExecutor

from . import common as C

H = 256


def size_pool(B):
    """payload sizes aimed at the planner's case splits: double-peek threshold, block fill"""
    cap = B - H  # largest payload that fits one block
    return [0, 0, 1, 5, 100, 127, 128, 129, 300, 1000, cap // 2, cap // 2 + 1, cap - H - 1, cap - H, cap - 1, cap,
            cap + 1, B, B + 500, 2 * B + 17]


def budget_pool(B):
    return [0, 1, 127, 128, 129, 255, 256, 257, 300, 500, 1000, 1256, 2000, B - H, B, B + 1, 3 * B, 10 * B,
            2 ** 31, 2 ** 63, "max"]


class Gen:
    def __init__(self, rng, B=4096, max_alloc=16384, restarts=False, peeks=True, offsets=False, rejects=False,
                 long_names=False, big=True):
        self.rng, self.B = rng, B
        self.max_alloc = max_alloc
        self.restarts, self.peeks, self.offsets, self.rejects, self.long_names, self.big = restarts, peeks, offsets, rejects, long_names, big
        self.pid = 0

    def size(self):
        r = self.rng
        pool = size_pool(self.B)
        if not self.big:
            pool = [x for x in pool if x <= self.B - H]
        x = r.random()
        if x < 0.55:
            s = r.choice(pool)
        elif x < 0.85:
            s = r.randint(0, 600)
        else:
            s = r.randint(0, self.B)
        return min(s, self.max_alloc - H)  # larger ones are rejections, generated separately

    def case(self, cid, nops, header):
        r = self.rng
        lines = ["CASE %s %s" % (cid, header)]
        ntop = r.choice([1, 1, 2, 3])
        topics = ["t%d" % (i + 1) for i in range(ntop)]
        self.pid = 0
        for _ in range(nops):
            t = r.choice(topics)
            x = r.random()
            if x < 0.38:
                lines.append("A %s %d %d" % (t, self.pid, self.size())); self.pid += 1
            elif x < 0.50:
                n = r.choice([1, 2, 3, 5, 9, 20])
                items = []
                for _ in range(n):
                    s = self.size() if r.random() < 0.6 else r.randint(0, 400)
                    items.append("%d:%d" % (self.pid, s)); self.pid += 1
                lines.append("B %s %s" % (t, ",".join(items)))
            elif x < 0.66:
                ck = 1 if (not self.peeks or r.random() < 0.8) else 0
                lines.append("R %s %d" % (t, ck))
            elif x < 0.90:
                ck = 1 if (not self.peeks or r.random() < 0.8) else 0
                b = r.choice(budget_pool(self.B)) if r.random() < 0.7 else r.randint(0, 3 * self.B)
                st = "-"
                if self.offsets and r.random() < 0.35:
                    st = str(r.choice([0, 1, 255, 256, 257, 300, 1000, self.B - 1, self.B, 2 * self.B, r.randint(0, 4 * self.B)]))
                lines.append("BR %s %s %d %s" % (t, b, ck, st))
            elif x < 0.95:
                lines.append("C %s" % t)
            else:
                if self.restarts and (not self.rejects or r.random() < 0.5):
                    lines.append(r.choice(["REOPEN", "RESTART"]))
                elif self.rejects:
                    k = r.random()
                    if self.long_names and k < 0.25:
                        ln = "L%d" % r.choice([216, 217, 218, 230, 300])
                        lines.append(r.choice(["A %s %d 5" % (ln, self.pid), "B %s %d:5,%d:6" % (ln, self.pid, self.pid + 1)])); self.pid += 2
                    elif k < 0.3:
                        lines.append("B %s -" % t)
                    elif k < 0.6:
                        lines.append("A %s %d %d" % (t, self.pid, self.max_alloc - H + 1 + r.randint(0, 50))); self.pid += 1
                    else:
                        lines.append("BN %s %d 2001 1" % (t, self.pid)); self.pid += 2001
                else:
                    lines.append("C %s" % t)
        # drain everything at the end so that losses become visible
        for t in topics:
            lines.append("C %s" % t)
            for _ in range(3):
                lines.append("BR %s %s 1 -" % (t, 100 * self.B))
            lines.append("R %s 1" % t)
            lines.append("C %s" % t)
        return lines


def run_engine(wh_exe, driver, cases, geom, tag, shards=C.NPROC):
    """cases: list of lists of lines (first is the CASE line). Returns (impl_lines, model_lines)
    per case, aligned with the input lines."""
    base = C.shm_dir(tag)
    flat = [l for c in cases for l in c]
    # shard by whole cases
    per = [[] for _ in range(shards)]
    for i, c in enumerate(cases):
        per[i % shards].append(c)
    def run_shard(k):
        lines = [l for c in per[k] for l in c]
        if not lines:
            return []
        d = os.path.join(base, "s%d" % k)
        os.makedirs(d, exist_ok=True)
        out, rc, err = C.run_lines([wh_exe, "engine", d], lines, timeout=3000)
        if len(out) != len(lines):
            out = out + ["<missing>"] * (len(lines) - len(out))
        return out
    with ThreadPoolExecutor(shards) as ex:
        outs = list(ex.map(run_shard, range(shards)))
    shutil.rmtree(base, ignore_errors=True)
    # model: add geom to the CASE line
    def mline(l):
        return l + " geom=" + geom if l.startswith("CASE ") else l
    mout_flat, rc, err = C.run_lines_parallel([driver, "engine"], [mline(l) for l in flat]) if False else (None, 0, "")
    # the model is stateful per case, so shard by cases as well
    def run_model(k):
        lines = [mline(l) for c in per[k] for l in c]
        if not lines:
            return []
        out, rc, err = C.run_lines([driver, "engine"], lines, timeout=3000)
        if len(out) != len(lines):
            out = out + ["<missing:%s>" % err[-200:].replace("\n", " ")] * (len(lines) - len(out))
        return out
    with ThreadPoolExecutor(shards) as ex:
        mouts = list(ex.map(run_model, range(shards)))
    res = [None] * len(cases)
    pos = [0] * shards
    for i, c in enumerate(cases):
        k = i % shards
        n = len(c)
        res[i] = (outs[k][pos[k]:pos[k] + n], mouts[k][pos[k]:pos[k] + n])
        pos[k] += n
    # A case whose instance could not even be created (its run directory vanished or could not
    # be made: something outside the engine) is run once more, alone; if that works the first
    # attempt was an environment hiccup, otherwise the second attempt's output stands.
    redo = [i for i, c in enumerate(cases) if res[i][0] and res[i][0][0] != "ok" and _retry_ok]
    if redo and _retry_ok:
        base2 = C.shm_dir(tag + "r")
        for i in redo:
            out, rc, err = C.run_lines([wh_exe, "engine", base2], cases[i], timeout=600)
            if len(out) == len(cases[i]):
                res[i] = (out, res[i][1])
        shutil.rmtree(base2, ignore_errors=True)
    return res


_retry_ok = True


def strip_hash(tok):
    """e:pid:skip:len:hash -> e:pid:skip:len"""
    if tok.startswith("e:"):
        p = tok.split(":")
        return ":".join(p[:4])
    return tok


def canon_impl(line):
    if line.startswith("["):
        inner = line[1:-1]
        return "[" + ";".join(strip_hash(x) for x in inner.split(";")) + "]" if inner else "[]"
    return strip_hash(line)


M64 = (1 << 64) - 1


def pbyte(pid, i):
    """must equal harness/wh/src/engine.rs::pbyte"""
    x = (pid * 0x9E3779B97F4A7C15 + i * 0xBF58476D1CE4E5B9) & M64
    x ^= x >> 29
    x = (x * 0x94D049BB133111EB) & M64
    x ^= x >> 32
    return 1 + x % 255


def fnv32(data):
    h = 0xcbf29ce484222325
    for b in data:
        h ^= b
        h = (h * 0x100000001b3) & 0xFFFFFFFFFFFFFFFF
    return h & 0xFFFFFFFF


def entries_equal(impl_tok, model_tok):
    """impl token carries a hash of the returned bytes; equal if ids agree or the model's
    claimed (pid, skip, len) has exactly those bytes"""
    if strip_hash(impl_tok) == model_tok:
        return True
    pi, pm = impl_tok.split(":"), model_tok.split(":")
    if len(pi) != 5 or len(pm) != 4 or pi[3] != pm[3] or pm[1] == "_":
        return False
    pid, skip, ln = int(pm[1]), int(pm[2]), int(pm[3])
    if ln > 1 << 20:
        return False
    return "%08x" % fnv32(bytes(pbyte(pid, skip + j) for j in range(ln))) == pi[4]


def adopt_model_tokens(impl, model):
    """Returned bytes are mapped back to (pid, skip) by content, which is ambiguous for very
    short front-trimmed payloads.  Where the model's (pid, skip, len) has exactly the bytes the
    implementation returned (hash equal), use the model's naming for the acceptor."""
    def one(a, b):
        return b if (a.startswith("e:") and b.startswith("e:") and entries_equal(a, b)) else strip_hash(a)
    if impl.startswith("[") and model.startswith("["):
        a = impl[1:-1].split(";") if len(impl) > 2 else []
        b = model[1:-1].split(";") if len(model) > 2 else []
        if len(a) == len(b):
            return "[" + ";".join(one(x, y) for x, y in zip(a, b)) + "]"
        return canon_impl(impl)
    if impl.startswith("e:") and model.startswith("e:"):
        return one(impl, model)
    return canon_impl(impl)


def strip_flags(model):
    """Remove the known-class flags the model driver appends to a restart line."""
    return model.replace("!drift", "").replace("!stale", "")


def model_classes(model_lines):
    """Known-finding classes the extracted model predicates (id_drift, stale_tail_b) flag for a case."""
    cls = []
    if any("!drift" in m for m in model_lines):
        cls.append("id-drift")
    if any("!stale" in m for m in model_lines):
        cls.append("stale-tail")
    return cls


def lines_equal(impl, model):
    model = strip_flags(model)
    if impl == model or canon_impl(impl) == model:
        return True
    if impl.startswith("[") and model.startswith("["):
        a = impl[1:-1].split(";") if len(impl) > 2 else []
        b = model[1:-1].split(";") if len(model) > 2 else []
        return len(a) == len(b) and all(entries_equal(x, y) for x, y in zip(a, b))
    if impl.startswith("e:") and model.startswith("e:"):
        return entries_equal(impl, model)
    return False
