"""C13 — instances with different namespaces are fully isolated.

Theorems: coq/props/C13.v over coq/model/Trk.v (the trackers are process-global and keyed by
block id alone): c13_refuted_block_id_collision, c13_tracker_isolated_if_ids_disjoint.
Per run, on the real crate: two or three instances in ONE process (same data dir and different
keys, or different data dirs and the same key), interleaved generated ops including close /
reopen of single instances, whole-process restarts and reclaimer activity (small geometry,
sched=ms:1).  Instance 1's ops are run a second time ALONE; compared on the implementation:
every result of instance 1 (entries, counts, clean markers), its final directory listing, and
the projection of the tracker snapshot onto its files.  The joint tracker trace is fed to the
extracted model and compared with the real snapshot (correspondence), and the model theorem's
prediction (no shared block id => projection equals the run alone) is checked on the traces."""
import os

from . import common as C
from . import trk as T
from .c12 import per_block, canon, toks_of

TRUSTED_EXTRA = [
    "harness/wh (Rust): multi-instance mode (header inst=N, ops prefixed @k; instances differ by key or, with idirs=1, by data dir), TRK / LS ops; small geometry",
    "cfg(walrus_verif) hook: trk_event / verif_trk_snapshot (observation only)",
    "run-alone vs run-together are two executions of the real crate; WAL file names (wall-clock ms) are compared by count and size, never by name",
]
ASSUMPTIONS = [
    "one client thread drives all instances in turn; concurrent use of several instances is not explored",
    "histories SLEEP before restarts/reopens so that pending deletions are carried out (listings are taken after a SLEEP)",
    "clean-marker queries are compared only before instance 1's first reopen/restart: what the asynchronous marker persister had written at shutdown is timing dependent (C17)",
]

SIZES = [3000, 1700, 1000, 3840]


def gen_stream(rng, k, nops, B=4096):
    """op lines (without the @k prefix) of one instance"""
    topics = ["t%d" % (i + 1) for i in range(rng.choice([1, 2, 3]))]
    size = {t: rng.choice(SIZES) for t in topics}
    pid = [k * 100000]
    out = []
    heavy = rng.random() < 0.7
    for _ in range(nops):
        t = rng.choice(topics)
        x = rng.random()
        bb = per_block(size[t]) * (size[t] + T.H)
        if x < (0.42 if heavy else 0.55):
            out.append("A %s %d %d" % (t, pid[0], size[t])); pid[0] += 1
        elif x < 0.48:
            n = rng.choice([2, 3])
            out.append("B %s %s" % (t, ",".join("%d:%d" % (pid[0] + j, size[t]) for j in range(n)))); pid[0] += n
        elif x < 0.60:
            out.append("R %s 1" % t)
        elif x < 0.74:
            out.append("BR %s %s 1 -" % (t, rng.choice([bb, bb, 2 * bb, 10 * B])))
        elif x < 0.78:
            out.append(rng.choice(["R %s 0" % t, "BR %s %d 0 -" % (t, bb)]))
        elif x < 0.86:
            out += ["BR %s %d 1 -" % (t, 100 * B)] * 2
        elif x < 0.90:
            out.append("C %s" % t)
        elif x < 0.94:
            out.append(rng.choice(["K %s" % t, "MC %s" % t, "MD %s" % t, "K %s" % t]))
        elif x < 0.97:
            out.append("REOPEN")
        else:
            out.append("C %s" % t)
    tail = []
    for t in topics:
        tail += ["BR %s %d 1 -" % (t, 100 * B)] * 3 + ["R %s 1" % t, "C %s" % t, "K %s" % t]
    return out, tail


KEY_FAMILIES = [
    ["###", "@@@", "$$$", "!!!", "___", "   "], ["_/_", "_:_", "_ _", "___"], ["a/b", "a:b", "a b", "a_b", "a\\b"],
    ["\u00e9", "\u00fc", "\u4e16", "e"], ["Ab", "aB", "ab", "AB"], [".", "..", "...", " .", ". ", "._", "../", "./"],
    ["k", "k_", "k/", "k ", "_k", "/k"], ["", " ", "_", "/"], ["x" * 200 + "a", "x" * 200 + "b", "x" * 300, "x" * 255],
    ["ns_1", "ns_2", "ns_", "ns"], ["tmp", "TMP", "t\u006dp", "t m p"],
]
KEYSETS = []          # filled by run(): groups of keys whose MODEL components differ pairwise


def gen_case(rng, cid):
    n = rng.choice([2, 2, 2, 3])
    idirs = rng.random() < 0.4
    extra = ""
    r = rng.random()
    if KEYSETS and r < 0.35:
        # namespace keys that sanitise differently (by the model of sanitize_namespace) but look alike:
        # symbol-only keys of equal length, case variants, dot names, ... (seeded change c13b-1 — the
        # fallback hash taken over the sanitised string — was missed with the fixed keys k, k2, k3)
        ks = rng.choice([g for g in KEYSETS if len(g) >= n])
        ks = rng.sample(ks, n)
        extra = " keys=" + ",".join(k.encode().hex() or "00"[:0] for k in ks)
        if any(k == "" for k in ks):
            extra = ""
    elif r < 0.55:
        # instances that differ by DATA DIRECTORY taken from the environment at construction time (same key)
        idirs = True
        extra = " envdir=1"
    hdr = "CASE %s mode=%s backend=%s sched=ms:1 trk=1 inst=%d%s%s" % (
        cid, rng.choice(["strict", "strict", "alo:2"]), rng.choice(["fd", "mmap"]), n, " idirs=1" if idirs else "", extra)
    streams, tails = {}, {}
    for k in range(1, n + 1):
        quiet = k > 1 and rng.random() < 0.12          # an instance that only reads: no block ids of its own
        nops = rng.choice([25, 40, 60])
        s, tl = gen_stream(rng, k, nops)
        if quiet:
            s = [l for l in s if l.split()[0] not in ("A", "B")]
        streams[k], tails[k] = s, tl
    lines = [hdr]
    idx = {k: 0 for k in streams}
    live = [k for k in streams if streams[k]]
    since_sleep = 0
    while live:
        k = rng.choice(live)
        op = streams[k][idx[k]]
        idx[k] += 1
        if idx[k] >= len(streams[k]):
            live.remove(k)
        if op == "REOPEN":
            lines += ["SLEEP 30", "TRK"]
            if rng.random() < 0.25:
                lines.append("RESTART")
            elif rng.random() < 0.3:
                lines += ["@%d CLOSE" % k, "@%d OPEN" % k]
            else:
                lines.append("@%d REOPEN" % k)
            continue
        lines.append("@%d %s" % (k, op))
        since_sleep += 1
        if since_sleep > 25 and rng.random() < 0.2:
            lines += ["SLEEP 10", "TRK"]
            since_sleep = 0
    lines += ["SLEEP 30", "TRK"] + ["@%d LS" % k for k in streams]
    r = rng.random()
    if r < 0.4:
        lines.append("RESTART")
    elif r < 0.7:
        lines.append("@1 REOPEN")
    for k in streams:
        lines += ["@%d %s" % (k, l) for l in tails[k]]
    lines += ["SLEEP 30", "TRK"] + ["@%d LS" % k for k in streams]
    return lines


def alone(case, k=1):
    """instance k's ops alone (inst=1; only instance 1 is ever projected)"""
    hdr = " ".join(w for w in case[0].split() if not w.startswith(("inst=", "idirs=")))
    out = [hdr]
    for l in case[1:]:
        i, core = T.strip_inst(l)
        if l.startswith("@"):
            if i == k:
                out.append(l)
        else:
            out.append(l)
    return out


def ls_shape(o, requested=()):
    """listing reduced to (sizes of the WAL files whose removal has not been requested, other
    entries); a requested file may or may not be gone yet (reclaimer timing), so it never counts"""
    d = T.listing(o)
    if d is None:
        return None
    # the clean-marker file is written by an asynchronous persister: whether it exists yet and how
    # large it is at a given moment is timing (C17), so it is left out
    return (sorted(s for n, s in d.items() if n.isdigit() and n not in requested),
            sorted((n, s) for n, s in d.items() if not n.isdigit() and not n.startswith("topic_clean")))


def ns_of(path):
    """namespace directory of a traced path `<data dir>/<key dir>/<file>`"""
    return path.rsplit("/", 1)[0]


def projection(lt, ns):
    """tracker snapshot restricted to the files of namespace ns, names replaced by
    first-registration order"""
    if lt.snap is None:
        return None
    order = []
    for k, i, p in lt.calls:
        if p != "-" and ns_of(p) == ns and p not in order:
            order.append(p)
    for p in sorted(lt.snap[0]):
        if ns_of(p) == ns and p not in order:
            order.append(p)
    num = {p: j for j, p in enumerate(order)}
    files = [(num[p],) + v for p, v in lt.snap[0].items() if p in num]
    blocks = [(i, num[p], fl) for i, (p, fl) in lt.snap[1].items() if p in num]
    return sorted(files), sorted(blocks)


def own_requests(lts):
    """deletion requests for files of instance 1's namespace, as (lifetime, ordinal of the file
    among that namespace's files in first-registration order)"""
    out = []
    for li, lt in enumerate(lts):
        ns = first_ns(lt)
        order = []
        for k, i, p in lt.calls:
            if p != "-" and ns_of(p) == ns and p not in order:
                order.append(p)
        for p in lt.reqs:
            if ns_of(p) == ns:
                out.append((li, order.index(p) if p in order else -1))
    return out


def ls_explained(ls_j, ls_a, lts_j, lts_a):
    """A listing difference is reclamation-shaped when the non-WAL entries agree and the numbers
    of WAL files differ by no more than the numbers of instance-1 files requested for removal in
    either run (a request may or may not have been carried out yet)."""
    for a, b in zip(ls_j, ls_a):
        if a is None or b is None or a[1] != b[1]:
            return False
        if len(set(a[0] + b[0])) > 1:       # WAL files all have the one file size
            return False
        slack = len(own_requests(lts_j)) + len(own_requests(lts_a))
        if abs(len(a[0]) - len(b[0])) > slack:
            return False
    return True


def first_ns(lt):
    for k, i, p in lt.calls:
        if p != "-":
            return ns_of(p)
    return None


def collisions(lt):
    """block ids registered under two different namespaces in one process lifetime"""
    seen, col = {}, set()
    for k, i, p in lt.calls:
        if k == "R":
            ns = ns_of(p)
            if i in seen and seen[i] != ns:
                col.add(i)
            seen.setdefault(i, ns)
    return col


def build_cases(tier, rng):
    q = tier == "quick"
    return [gen_case(rng, "C13-%d" % i) for i in range(60 if q else 2500)]


def run(ctx):
    tier, rng, driver = ctx["tier"], ctx["rng"], ctx["driver"]
    failures, broken = [], []
    wh = C.build_rust("wh", ("walrus_verif", "walrus_verif_small"))
    variant = T.mark_variant()
    cases = []
    if ctx.get("replay"):
        for f in ctx["replay"].get("failing", []) + ctx["replay"].get("broken", []):
            if "case_lines" in f:
                cases.append(f["case_lines"])
    cdir = os.path.join(C.VERIF, "corpus", "C13")
    if os.path.isdir(cdir):
        for fn in sorted(os.listdir(cdir)):
            cases.append([l for l in open(os.path.join(cdir, fn)).read().split("\n") if l.strip()])
    # key groups for gen_case: the model's directory component of every candidate key; a group keeps one key per component
    flat = sorted(set(k for fam in KEY_FAMILIES for k in fam if k != ""))
    comp, rc0, err0 = C.run_lines([driver, "sanitize"], [k.encode().hex() for k in flat])
    if len(comp) == len(flat):
        cmap = dict(zip(flat, comp))
        del KEYSETS[:]
        for fam in KEY_FAMILIES:
            seen, grp = set(), []
            for k in fam:
                if k != "" and cmap[k] not in seen:
                    seen.add(cmap[k]); grp.append(k)
            if len(grp) >= 2:
                KEYSETS.append(grp)
    else:
        broken.append(dict(kind="harness", what="model sanitize failed rc=%s %s" % (rc0, err0[-200:])))
    cases += build_cases(tier, rng)
    solo = [alone(c) for c in cases]
    res = T.run_cases(wh, cases + solo, "c13")
    rj, ra = res[:len(cases)], res[len(cases):]
    # model over the joint traces and over the solo traces
    ltj = [T.lifetimes_of(c, o) for c, o in zip(cases, rj)]
    lta = [T.lifetimes_of(c, o) for c, o in zip(solo, ra)]
    mlines, owner = [], []
    for tag, ltss in (("j", ltj), ("a", lta)):
        for ci, lts in enumerate(ltss):
            for li, lt in enumerate(lts):
                if lt.snap is not None:
                    mlines.append(lt.model_line(variant)); owner.append((tag, ci, li))
    mout, rc, err = C.run_lines([driver, "trk"], mlines, timeout=1800)
    if len(mout) != len(mlines):
        broken.append(dict(kind="harness", what="model run failed rc=%s %s" % (rc, err[-300:])))
        mout += ["req=- files=- blocks=- contract=0 safe=0 repeat=0 rereg=0"] * (len(mlines) - len(mout))
    ndiff = nlt = 0
    for (tag, ci, li), o in zip(owner, mout):
        lt = (ltj if tag == "j" else lta)[ci][li]
        nlt += 1
        d = T.compare_snapshot(lt, T.parse_model(o))
        if d:
            ndiff += 1
            if ndiff <= 3:
                broken.append(dict(kind="correspondence", what="model/Trk.v and the real trackers disagree (%s run): %s" % ("joint" if tag == "j" else "solo", " | ".join(d)),
                                   lifetime=li, variant=variant, case_lines=(cases if tag == "j" else solo)[ci], calls=lt.model_line(variant)[:3000]))
    ncol = nproj_diff = nres_diff = nls_diff = npred = nrej = nforeign = 0
    for ci, (c, s, oj, oa) in enumerate(zip(cases, solo, rj, ra)):
        col = set()
        for lt in ltj[ci]:
            col |= collisions(lt)
        classes = ["block-id-collision"] if col else []
        if col:
            ncol += 1
        # results of instance 1, aligned on its own lines
        mine_j = [(j, l, o) for j, (l, o) in enumerate(zip(c, oj)) if l.startswith("@1 ")]
        mine_a = [(j, l, o) for j, (l, o) in enumerate(zip(s, oa)) if l.startswith("@1 ")]
        first = None
        reopened = False
        rq_j = {p.rsplit("/", 1)[-1] for lt in ltj[ci] for p in lt.reqs}
        rq_a = {p.rsplit("/", 1)[-1] for lt in lta[ci] for p in lt.reqs}
        for n, ((j1, l1, o1), (j2, l2, o2)) in enumerate(zip(mine_j, mine_a)):
            core = l1.split()[1]
            if core in ("REOPEN", "OPEN", "CLOSE"):
                reopened = True
            if core == "K" and (reopened or "RESTART" in c[:j1]):
                # whether a marker change reached the disk before a shutdown depends on the timing of
                # the asynchronous marker persister (C17's subject), not on the other instance
                continue
            if core == "LS":
                a, b = ls_shape(o1, rq_j), ls_shape(o2, rq_a)
            else:
                a, b = canon(o1), canon(o2)
            if a != b:
                first = (n, j1, l1, str(a)[:200], str(b)[:200])
                break
        # direct isolation acceptor: an instance is only ever handed payloads it appended itself
        # (instance k appends payload ids k*100000 ...)
        for l, o in zip(c, oj):
            k, core = T.strip_inst(l)
            t = core.split()
            if l.startswith("@") and t and t[0] in ("R", "BR"):
                foreign = [tok for tok in toks_of(o) if tok.split(":")[1] not in ("_",) and (tok.split(":")[1] == "X" or int(tok.split(":")[1]) // 100000 != k)]
                if foreign:
                    nforeign += 1
                    failures.append(dict(kind="acceptor", acceptor="foreign-entries", classes=[], case_lines=c,
                                         what="instance %d was handed %s, which it never appended (another instance's entry or unknown bytes)" % (k, foreign[0])))
                    break
        # did the reclamation decisions about instance 1's files differ between the two runs?
        ls_j = [ls_shape(o, rq_j) for j, l, o in mine_j if l.split()[1] == "LS"]
        ls_a = [ls_shape(o, rq_a) for j, l, o in mine_a if l.split()[1] == "LS"]
        reclaim_differs = (ls_j != ls_a) or (own_requests(ltj[ci]) != own_requests(lta[ci]))
        # tracker projection onto instance 1's namespace, lifetime by lifetime
        proj_differs = False
        for lj, la in zip(ltj[ci], lta[ci]):
            if lj.snap is None or la.snap is None:
                continue
            # instance 1 is opened first in every lifetime: the first traced path is in its namespace
            nj, na = first_ns(lj), first_ns(la)
            if nj is None or na is None:
                continue
            if projection(lj, nj) != projection(la, na):
                proj_differs = True
        if proj_differs:
            nproj_diff += 1
            if not col:
                # the theorem c13_tracker_isolated_if_ids_disjoint predicts equality here
                npred += 1
                failures.append(dict(kind="acceptor", acceptor="projection-without-collision", classes=[], case_lines=c,
                                     what="no block id is shared between the instances, yet the tracker state of instance 1's files differs from its run alone"))
        if first is not None:
            n, j1, l1, a, b = first
            is_ls = l1.split()[1] == "LS"
            if is_ls:
                nls_diff += 1
            else:
                nres_diff += 1
            # a result can differ through reclamation only after instance 1 re-read its directory
            # (REOPEN / OPEN / RESTART) once the reclamation decisions about its files differed
            reopened_before = any(T.strip_inst(l)[1].split()[0] in ("REOPEN", "OPEN", "RESTART") and (l.startswith("@1") or not l.startswith("@"))
                                  for l in c[1:j1])
            reclaim_shaped = reclaim_differs and (reopened_before or (is_ls and ls_explained(ls_j, ls_a, ltj[ci], lta[ci])))
            nrej += 1
            failures.append(dict(kind="acceptor", acceptor="alone-vs-together", classes=classes if reclaim_shaped else [],
                                 case_lines=c, first_difference=dict(op=l1, line=j1, together=a, alone=b, index_among_instance1_ops=n),
                                 context=[l for l in c[max(1, j1 - 60):j1 + 1] if not l.startswith("@") or l.startswith("@1")][-20:],
                                 what="instance 1 behaves differently when another instance lives in the same process: "
                                      + ("its directory listing differs (a WAL file removed or kept by the other instance's bookkeeping)" if is_ls
                                         else "an operation result differs")))
    ops = {}
    for c in cases:
        for l in c[1:]:
            k = T.strip_inst(l)[1].split()[0]
            ops[k] = ops.get(k, 0) + 1
    cov = dict(
        evaluations=len(cases), distinct_nontrivial=ncol,
        rule="seeded interleavings of 2-3 instances in one process (same data dir + keys k/k2/k3, or data dirs d2/d3 + same key), each with 1-3 topics "
             "(same topic names in every instance, disjoint payload ids), appends, batches, consuming/peeking reads, counts, clean markers, single-instance "
             "close/reopen, process restarts, SLEEPs; instance 1's ops re-run alone; non-trivial = the joint trace registers some block id under two "
             "namespaces (measured); cases distinct by construction",
        traces_validated_against_impl=nlt,
        samples=[dict(case=cases[0][:30], together=[x[:80] for x in rj[0][:30]])],
        histogram=dict(ops=ops, lifetimes_modelled=nlt, model_impl_disagreements=ndiff, cases_with_shared_block_ids=ncol,
                       tracker_projection_differs=nproj_diff, projection_differs_without_shared_ids=npred,
                       first_difference_in_listing=nls_diff, first_difference_in_result=nres_diff, pairs_rejected=nrej, foreign_entries=nforeign, mark_variant=variant),
        exhaustive=False,
    )
    return dict(failures=failures, broken=broken, coverage=cov)


def classify(f, known):
    cls = set(f.get("classes", []))
    for k in known:
        if k.get("class") in cls:
            return k
    return None
