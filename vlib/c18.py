"""C18 — cluster metadata keeps an immutable, contiguous segment history.
Theorems: coq/props/C18.v (invariant by induction over ALL byte-string sequences, immutability
between any two points, no panic outside the sum-overflow class, c18_refuted_sum_overflow).
Correspondence: the unmodified distributed-walrus/src/metadata.rs (compiled via #[path] into
harness/dwh, dev profile = overflow checks on, release profile = wrapping) against the
extracted model (`driver meta_oc` / `driver meta`), same case lines, outputs diffed.
Acceptor: extracted c18_ok (cluster_ok + cluster_ext over consecutive dumps) over the
IMPLEMENTATION's dumps, plus "no panic token"."""
import itertools
import os

from . import common as C

TRUSTED_EXTRA = [
    "harness/dwh (Rust): #[path]-includes /repo/distributed-walrus/src/metadata.rs unchanged; both cargo profiles are built (dev: overflow-checks on, release: off)",
    "harness/shims/bincode: from-scratch serde data format implementing bincode 1.3's default configuration (the real crate is not available offline); "
    "harness/shims/octopii: verbatim copy of the StateMachineTrait declaration (compared with /repo/octopii/src/state_machine.rs on every C20 run)",
    "modelled, not verified: std HashMap insert/get/contains_key, RwLock poisoning, serde derive for the three types (their behaviour is compared on every generated case)",
    "ocaml/cmd_meta.ml: case parsing, dump printing/parsing (sorted maps come from the model's canonical lists)",
]
ASSUMPTIONS = [
    "fewer than 2^64 - 1 commands are applied (hypothesis of the theorems; the only way current_segment += 1 can overflow)",
    "the state is observed through snapshot()/get_topic_state (dump = decode of snapshot()); a poisoned lock shows as the empty state",
    "single-threaded use of Metadata (apply is serialised by Raft; concurrent readers only take the read lock)",
]

U64 = 2**64 - 1
T1, T2 = "t", "éx"          # 74, c3a978
COUNTS = [0, 1, 2**63, U64]
ROLLED = "=ok:524f4c4c4544"


def alphabet_full():
    a = []
    for t in (T1, T2):
        for n in (1, 2, 3):
            a.append("C:%s:%d" % (C.hx(t), n))
            for c in COUNTS:
                a.append("R:%s:%d:%d" % (C.hx(t), n, c))
    for n in (1, 2, 3):
        a.append("U:%d:%s" % (n, C.hx("h%d:1" % n)))
    a.append("A:ff000000")            # variant index out of range
    a.append("A:0100000001")          # truncated
    return a


def alphabet_small():
    a = ["C:%s:1" % C.hx(T1), "C:%s:2" % C.hx(T2)]
    for n in (1, 2):
        for c in COUNTS:
            a.append("R:%s:%d:%d" % (C.hx(T1), n, c))
    a += ["R:%s:3:1" % C.hx(T2), "R:%s:3:%d" % (C.hx(T2), U64), "U:1:%s" % C.hx("a"), "A:-"]
    return a


def with_dumps(cmds, final_q=True):
    out = []
    for c in cmds:
        out += [c, "D"]
    if final_q:
        out += ["Q:" + C.hx(T1), "Q:" + C.hx(T2)]
    return " ".join(out)


def enc_u64(n):
    return int(n).to_bytes(8, "little")


def enc_str(b):
    return enc_u64(len(b)) + b


def enc_cmd(kind, name=b"t", a=1, b=0):
    if kind == 0:
        return (0).to_bytes(4, "little") + enc_str(name) + enc_u64(a)
    if kind == 1:
        return (1).to_bytes(4, "little") + enc_str(name) + enc_u64(a) + enc_u64(b)
    return (2).to_bytes(4, "little") + enc_u64(a) + enc_str(name)


def mutate(rng, b):
    b = bytearray(b)
    k = rng.randrange(8)
    if k == 0 and b:
        i = rng.randrange(len(b)); b[i] ^= 1 << rng.randrange(8)
    elif k == 1 and b:
        del b[rng.randrange(len(b)):]
    elif k == 2:
        b += bytes(rng.randrange(256) for _ in range(rng.randint(1, 9)))
    elif k == 3 and len(b) >= 12:
        b[4:12] = enc_u64(rng.choice([0, 1, len(b), 2**32, 2**63, U64, rng.randrange(2**64)]))
    elif k == 4 and len(b) >= 4:
        b[0:4] = rng.choice([0, 1, 2, 3, 255, 2**31, 2**32 - 1]).to_bytes(4, "little")
    elif k == 5 and len(b) > 12:
        b[12] = rng.choice([0x80, 0xc0, 0xc1, 0xed, 0xf5, 0xff, 0xe0])
    elif k == 6 and b:
        i = rng.randrange(len(b)); b[i:i] = bytes([rng.randrange(256)])
    else:
        rng.shuffle(b)
    return bytes(b)


NAMES = [b"t", b"\xc3\xa9x", b"", b"topic-with-a-longer-name_s_1", "\U0001F600".encode(), b"a\x00b", "中".encode() * 3]


def random_cmd(rng, names):
    r = rng.random()
    name = rng.choice(names)
    node = rng.choice([0, 1, 2, 3, 2**63, U64])
    if r < 0.25:
        return "C:%s:%d" % (C.hx(name), node)
    if r < 0.8:
        cnt = rng.choice([0, 1, 2, 7, 1000, 2**31, 2**62, 2**63 - 1] + ([2**63, U64, rng.randrange(2**64)] if rng.random() < 0.15 else []))
        return "R:%s:%d:%d" % (C.hx(name), node, cnt)
    if r < 0.9:
        return "U:%d:%s" % (node, C.hx(rng.choice(NAMES)))
    valid = enc_cmd(rng.randrange(3), rng.choice(NAMES), rng.randrange(2**64), rng.randrange(2**64))
    if rng.random() < 0.3:
        return "A:" + C.hx(valid + bytes(rng.randrange(256) for _ in range(rng.randint(0, 5))))   # trailing bytes
    return "A:" + C.hx(mutate(rng, valid))


def gen_cases(tier, rng):
    """Returns (cases, info). Every case applies commands only (C/R/U/A) with a dump after each."""
    full, small = alphabet_full(), alphabet_small()
    cases = []
    corpus_dir = os.path.join(C.VERIF, "corpus", "C18")
    ncorpus = 0
    if os.path.isdir(corpus_dir):
        for fn in sorted(os.listdir(corpus_dir)):
            for l in open(os.path.join(corpus_dir, fn)):
                l = l.strip()
                if l and not l.startswith("#"):
                    cases.append(l); ncorpus += 1
    spaces = []
    ex_full = 2 if tier == "quick" else 3
    ex_small = 3 if tier == "quick" else 4
    for n in range(0, ex_full + 1):
        for tup in itertools.product(full, repeat=n):
            cases.append(with_dumps(tup))
    spaces.append("all sequences of length <= %d over the %d-command alphabet (2 topics x 3 nodes x counts {0,1,2^63,2^64-1}, 3 nodes, 2 undecodable)" % (ex_full, len(full)))
    for n in range(ex_full + 1, ex_small + 1):
        for tup in itertools.product(small, repeat=n):
            cases.append(with_dumps(tup))
    spaces.append("all sequences of length %d..%d over the %d-command sub-alphabet" % (ex_full + 1, ex_small, len(small)))
    nsample = 4000 if tier == "quick" else 150000
    for _ in range(nsample):
        n = rng.choice([4, 5, 6] if tier == "quick" else [5, 6, 7, 8])
        cases.append(with_dumps([rng.choice(full) for _ in range(n)]))
    nlong = 150 if tier == "quick" else 4000
    for _ in range(nlong):
        names = rng.sample(NAMES, rng.randint(1, 3))
        n = rng.choice([20, 50, 120, 300])
        cmds = ["C:%s:%d" % (C.hx(nm), rng.randint(1, 3)) for nm in names] + [random_cmd(rng, names) for _ in range(n)]
        cases.append(with_dumps(cmds, final_q=False))
    nbytes = 3000 if tier == "quick" else 100000
    for _ in range(nbytes):
        pre = ["C:%s:1" % C.hx(T1)] if rng.random() < 0.7 else []
        k = rng.randint(1, 4)
        items = []
        for _ in range(k):
            if rng.random() < 0.2:
                items.append("A:" + C.hx(bytes(rng.randrange(256) for _ in range(rng.randint(0, 40)))))
            else:
                items.append("A:" + C.hx(mutate(rng, enc_cmd(rng.randrange(3), rng.choice(NAMES), rng.choice([0, 1, 2, U64]), rng.choice(COUNTS)))))
        cases.append(with_dumps(pre + items))
    cases = list(dict.fromkeys(cases))
    return cases, dict(corpus=ncorpus, spaces=spaces)


def source_variant():
    """Which of the two modelled versions of the RolloverTopic arm the source has: 'unfixed'
    (`last_sealed_entry_offset += n`, model Meta.apply) or 'fixed' (PROPOSED_FIX.diff: checked_add
    before anything is touched, model Meta.apply_fx).  A wrong answer cannot go unnoticed: the
    corpus overflow cases then disagree between model and implementation."""
    import re
    src = open(os.path.join(C.REPO, "distributed-walrus/src/metadata.rs")).read()
    src = re.sub(r"//[^\n]*", "", src)
    plus = re.search(r"last_sealed_entry_offset\s*\+=", src) is not None
    checked = re.search(r"last_sealed_entry_offset\s*\.\s*checked_add\s*\(", src) is not None
    if plus and not checked:
        return "unfixed"
    if checked and not plus:
        return "fixed"
    return "unknown"


def model_cmds():
    v = source_variant()
    if v == "fixed":
        return v, {"dev": "meta_fx", "release": "meta_fx"}
    return v, {"dev": "meta_oc", "release": "meta"}


def run_profile(dwh, driver, model_cmd, cases, label, failures, broken, known_of, rejected):
    impl, rc, err = C.run_lines_parallel([dwh, "meta"], cases)
    model, rc2, err2 = C.run_lines_parallel([driver, model_cmd], cases)
    if rc or rc2 or len(impl) != len(cases) or len(model) != len(cases):
        broken.append(dict(kind="correspondence", what="meta runs failed (%s) rc=%s/%s %s %s" % (label, rc, rc2, err[-300:], err2[-300:])))
        impl += ["<missing>"] * (len(cases) - len(impl)); model += ["<missing>"] * (len(cases) - len(model))
    acc, rc3, err3 = C.run_lines_parallel([driver, "accept_c18"], [i if i != "<missing>" else "" for i in impl])
    if rc3 or len(acc) != len(cases):
        broken.append(dict(kind="harness", what="accept_c18 failed rc=%s %s" % (rc3, err3[-300:])))
        acc += ["REJECT missing"] * (len(cases) - len(acc))
    ndiff = nrej = 0
    seen = {}
    for c, i, m, a in zip(cases, impl, model, acc):
        if i != m:
            ndiff += 1
            if ndiff <= 5:
                broken.append(dict(kind="correspondence", profile=label, case=c, impl=i[:2000], model=m[:2000],
                                   what="model and implementation disagree on Metadata::apply / dump (%s profile)" % label))
        if a != "ok":
            nrej += 1
            rejected.add(c)
            cls = known_of.get(c, "?")
            seen[cls] = seen.get(cls, 0) + 1
            if seen[cls] > 40:        # all are counted, the first 40 per class and profile are kept
                continue
            failures.append(dict(kind="acceptor", profile=label, case=c, impl=i[:4000], verdict=a, classes=[known_of.get(c, "?")],
                                 what="implementation trace rejected by c18_ok (%s profile): %s" % (label, a)))
    return impl, dict(disagreements=ndiff, rejected=nrej)


def classify(f, known):
    """Known-finding class, computed from the CASE by the extracted Coq predicate sum_overflow
    (driver known_c18), never from the output."""
    if "sum_overflow" in f.get("classes", []):
        for k in known:
            if k.get("class") == "sum_overflow":
                return k
    return None


def minimise(failures, limit=3):
    """Keep the shortest failing cases first (readable replay files)."""
    failures.sort(key=lambda f: len(f.get("case", "")))
    return failures


def run(ctx):
    tier, rng, driver = ctx["tier"], ctx["rng"], ctx["driver"]
    failures, broken = [], []
    dwh_dbg = C.build_rust("dwh", cfgs=(), release=False)
    dwh_rel = C.build_rust("dwh", cfgs=(), release=True)
    cases = []
    if ctx.get("replay"):
        cases += [f["case"] for f in ctx["replay"].get("failing", []) if "case" in f]
        cases += [b["case"] for b in ctx["replay"].get("broken", []) if "case" in b]
    gen, info = gen_cases(tier, rng)
    cases = list(dict.fromkeys(cases + gen))
    kn, rc, err = C.run_lines_parallel([driver, "known_c18"], cases)
    if rc or len(kn) != len(cases):
        broken.append(dict(kind="harness", what="known_c18 failed rc=%s %s" % (rc, err[-300:])))
        kn += ["?"] * (len(cases) - len(kn))
    known_of = dict(zip(cases, kn))
    rejected_cases = set()
    variant, mcmd = model_cmds()
    if variant == "unknown":
        broken.append(dict(kind="correspondence", what="metadata.rs: the RolloverTopic arm is neither of the two modelled versions "
                                                       "(`last_sealed_entry_offset += n` / checked_add of PROPOSED_FIX.diff)"))
    impl_d, st_d = run_profile(dwh_dbg, driver, mcmd["dev"], cases, "dev", failures, broken, known_of, rejected_cases)
    impl_r, st_r = run_profile(dwh_rel, driver, mcmd["release"], cases, "release", failures, broken, known_of, rejected_cases)
    # the class predicate must agree with what happens: an implementation panic outside the class, or
    # a clean pass inside it, is reported (the second as broken: the model's class would be wrong)
    inside = sum(1 for k in kn if k == "sum_overflow")
    for c, k in zip(cases, kn):
        if variant != "fixed" and k == "sum_overflow" and c not in rejected_cases:
            broken.append(dict(kind="correspondence", case=c, what="case is in the known class (sum_overflow) but both profiles passed the acceptor"))
            break
    minimise(failures)
    nontrivial = sum(1 for i in impl_r if ROLLED in i)
    tok = lambda s: sum(l.count(s) for l in impl_d)
    lens = {}
    for c in cases:
        n = sum(1 for t in c.split() if t[0] in "CRUA")
        b = "0-2" if n <= 2 else "3-6" if n <= 6 else "7-50" if n <= 50 else ">50"
        lens[b] = lens.get(b, 0) + 1
    kinds = {k: sum(c.count(" " + k + ":") + (1 if c.startswith(k + ":") else 0) for c in cases) for k in "CRUA"}
    cov = dict(
        evaluations=2 * len(cases),
        distinct_nontrivial=nontrivial,
        rule="distinct case lines (de-duplicated), each run on both build profiles; generation: corpus, then %s, then seeded random sequences of "
             "length 4-8 over the full alphabet, random long sequences (20-300 commands, up to 3 topics incl. empty/non-ASCII/NUL names, "
             "random u64 counts), and raw/mutated byte strings through A:<hex> (bit flips, truncation, trailing bytes, length and variant "
             "fields, invalid UTF-8). non-trivial = the case contains at least one RolloverTopic that the implementation applied (ROLLED)"
             % "; ".join(info["spaces"]),
        traces_validated_against_impl=2 * len(cases),
        samples=[dict(case=c, impl_dev=i) for c, i in list(zip(cases, impl_d))[:2] + list(zip(cases, impl_d))[2000:2002] + list(zip(cases, impl_d))[-2:]],
        histogram=dict(cases=len(cases), corpus_cases=info["corpus"], commands_by_kind=kinds, case_length=lens,
                       in_known_class=inside,
                       dev=dict(ok=tok("=ok:") + tok(" ok:"), err=tok("=err") + tok(" err"), panic=tok("=panic") + tok(" panic"), **st_d),
                       release=st_r),
        source_variant=variant, model_commands=mcmd,
        exhaustive=(tier != "quick"),
        exhaustive_space="; ".join(info["spaces"]),
    )
    return dict(failures=failures, broken=broken, coverage=cov)
