"""C17 — topic clean/dirty markers reflect the latest change, across restarts.
Theorems: props/C17.v (model/Clean.v, spec/CleanSpec.v, proofs/CleanP.v, proofs/CleanAccP.v).

Tie to the code (harness/wh `engine` mode over the unmodified crate, small geometry):
 * free-running runs: histories of A / MC / MD / K / REOPEN / RESTART with the shutdown issued
   immediately after the last call (the race) or after WAITSYNC (the persister has caught up),
   each case repeated; the store file is read (DUMP) at chosen points.  The persister is a real
   thread, so the model does not predict ONE outcome: the extracted acceptor k_accept (proved to
   accept exactly the runs the model produces under some placement of persister steps) judges
   every run; a run outside that set is a failure of class "outside-model" (never a known
   finding).  The extracted literal acceptor k_c17_ok (answer = last value set) judges the same
   run: its rejections are C17 failures, classified by mechanism from the CASE.
 * gated runs (only when /repo carries the verif hook clean_gate_*, see HOOK.diff): the
   persister threads are stepped by the harness (TU = receive+upgrade, TS = snapshot, TB = TU+TS, TE = file write,
   TICK, OL k = late write of a dropped instance's persister), the schedule is deterministic and
   the model (driver `clean`) must give the same answer on every line (K, DUMP, phases).
Which model variant is compared: `pinned` (no flush when the instance is dropped) unless the
sources contain the proposed fix (impl Drop for Walrus + flush_and_close) -> `flush`;
VERIF_C17_VARIANT overrides."""
import collections
import glob
import itertools
import os
import re
from concurrent.futures import ThreadPoolExecutor

from . import common as C

TRUSTED_EXTRA = [
    "harness/wh (Rust): drives the public API of the real crate (append_for_topic, mark_topic_clean/dirty, topic_is_clean, drop + builder) "
    "and reads topic_clean_index.db with rkyv through a mirror of CleanMarkerRecord (harness/wh/src/clean.rs)",
    "verif hook clean_gate_* (HOOK.diff, cfg(walrus_verif) only, when present): holds the persister thread at its loop top and before its file write; changes timing only",
    "modelled, not verified: std::sync::mpsc (every sent topic is received once, also after the sender is gone), Arc/Weak upgrade, "
    "atomic rename of the marker file, rkyv round trip of the map (compared through DUMP on every run that reads the file)",
]
ASSUMPTIONS = [
    "one client thread (the property's histories are sequential); concurrent markers from several threads are outside the claim",
    "no I/O errors while persisting markers (a failed write drops that round's pending set in the code; not modelled)",
    "the two atomic loads of TopicCleanState::snapshot (generation, flag) are treated as one step",
    "a persister thread that has something to do does it within 5 s: a WAITSYNC that times out is read as 'nothing is queued, received or "
    "in flight any more and the file still differs from the reported state' (observation BStuck)",
    "clean shutdown = the Walrus value is dropped (REOPEN: same process; RESTART: stdin closed, instance dropped, process exits); a killed process is C07-C09's subject",
]

TOPICS = ["t1", "t2", "t3", "h:c3a9", "h:-"]


def topic_hex(tok):
    if tok.startswith("h:"):
        return tok[2:]
    return C.hx(tok)


def repo_has_hook():
    try:
        return "pub fn clean_gate_top" in open(os.path.join(C.REPO, "src/wal/verif.rs")).read()
    except OSError:
        return False


def repo_variant():
    v = os.environ.get("VERIF_C17_VARIANT")
    if v in ("pinned", "flush"):
        return v
    try:
        w = open(os.path.join(C.REPO, "src/wal/runtime/walrus.rs")).read()
        t = open(os.path.join(C.REPO, "src/wal/runtime/topic_clean.rs")).read()
    except OSError:
        return "pinned"
    if re.search(r"impl\s+Drop\s+for\s+Walrus", w) and "fn flush_and_close" in t:
        return "flush"
    return "pinned"


# ------------------------------------------------------------------------------- cases
CHANGE = ("A", "MC", "MD")


def gen_free(rng, n):
    """histories with shutdowns right after the last call or after WAITSYNC"""
    cases = []
    pid = 0
    for _ in range(n):
        ops, touched = [], []
        topics = rng.sample(TOPICS, rng.randint(1, 3))
        for _ep in range(rng.randint(1, 3)):
            changed = []
            for _ in range(rng.randint(1, 4)):
                t = rng.choice(topics)
                k = rng.choice(["A", "MC", "MD", "MD", "MC"])
                if k == "A":
                    ops.append("A %s %d %d" % (t, pid, rng.choice([1, 10, 200])))
                    pid += 1
                else:
                    ops.append("%s %s" % (k, t))
                changed.append(t)
                if t not in touched:
                    touched.append(t)
                r = rng.random()
                if r < 0.15:
                    ops.append("K %s" % rng.choice(topics))
                elif r < 0.25:
                    ops.append("DUMP")
            style = rng.random()
            if style < 0.45:
                ops.append("WAITSYNC " + " ".join(touched))
                if rng.random() < 0.6:
                    ops.append("DUMP")
            elif style < 0.55:
                ops.append("WAITSYNC " + " ".join(dict.fromkeys(changed[:1])))
            ops.append(rng.choice(["REOPEN", "REOPEN", "RESTART"]))
            for t in touched:
                ops.append("K %s" % t)
            if rng.random() < 0.5:
                ops.append("DUMP")
        cases.append(dict(mode="free", ops=ops))
    return cases


GATED_ALPHA = ["MD t1", "MC t1", "MD t2", "TU", "TB", "TE", "REOPEN", "OL 0"]
GATED_TAIL = ["K t1", "K t2", "DUMP", "REOPEN", "K t1", "K t2", "DUMP"]


def gen_gated_systematic(maxlen):
    cases = []
    for n in range(1, maxlen + 1):
        for tup in itertools.product(GATED_ALPHA, repeat=n):
            if not any(x.split()[0] in CHANGE for x in tup):
                continue
            cases.append(dict(mode="gated", ops=["GATE 1"] + list(tup) + GATED_TAIL))
    return cases


def gen_gated_random(rng, n):
    cases = []
    pid = 0
    for _ in range(n):
        ops = ["GATE 1"]
        topics = rng.sample(TOPICS, rng.randint(1, 3))
        for _ in range(rng.randint(4, 14)):
            r = rng.random()
            t = rng.choice(topics)
            if r < 0.12:
                ops.append("A %s %d %d" % (t, pid, 10)); pid += 1
            elif r < 0.30:
                ops.append("MD %s" % t)
            elif r < 0.45:
                ops.append("MC %s" % t)
            elif r < 0.55:
                ops.append("K %s" % t)
            elif r < 0.60:
                ops.append("TU")
            elif r < 0.62:
                ops.append("TS")
            elif r < 0.65:
                ops.append("TB")
            elif r < 0.72:
                ops.append("TE")
            elif r < 0.80:
                ops.append("TICK")
            elif r < 0.86:
                ops.append("OL %d" % rng.choice([0, 0, 1]))
            elif r < 0.90:
                ops.append("DUMP")
            elif r < 0.97:
                ops.append("REOPEN")
            else:
                ops += ["RESTART", "GATE 1"]
        for t in topics:
            ops.append("K %s" % t)
        ops += ["DUMP", "REOPEN"] + ["K %s" % t for t in topics] + ["OL 0", "DUMP"]
        cases.append(dict(mode="gated", ops=ops))
    return cases


def load_corpus():
    out = []
    for p in sorted(glob.glob(os.path.join(C.VERIF, "corpus", "C17", "*.case"))):
        lines = [l.strip() for l in open(p) if l.strip() and not l.startswith("#")]
        if not lines or not lines[0].startswith("MODE "):
            continue
        out.append(dict(mode=lines[0].split()[1], ops=lines[1:], name=os.path.basename(p)))
    return out


# ------------------------------------------------------------------------------- classes
def case_classes(ops):
    """the necessary condition of the known class, computed from the case alone: a clean
    shutdown that follows a marker change of the same instance (the change may still be queued,
    received or being written), and - same process only - a later observation while the
    persister of such a dropped instance may still write.  WAITSYNC does not clear it (equal
    flags do not prove that nothing is in flight); in gated cases a completed TICK/TE does."""
    classes = set()
    unsynced = False        # a change of this instance that may not have reached the file
    old_writer = False      # a dropped instance's persister may still land its image (same process)
    gated = any(op.split()[0] == "GATE" for op in ops)
    for op in ops:
        k = op.split()[0]
        if k in CHANGE:
            unsynced = True
        elif gated and k in ("TICK", "TE"):
            unsynced = False
        elif k in ("REOPEN", "RESTART"):
            if unsynced:
                classes.add("shutdown-before-persist")
                if k == "REOPEN":
                    old_writer = True
            if k == "RESTART":
                old_writer = False
            unsynced = False
        elif k in ("K", "DUMP") and old_writer:
            classes.add("late-write-of-dropped-instance")
    return [c for c in ("shutdown-before-persist", "late-write-of-dropped-instance") if c in classes]


def spec_answers(ops):
    """C17 literally, on a case: the last value set per topic (never touched = clean)"""
    st, out = {}, []
    for op in ops:
        p = op.split()
        if p[0] in ("A", "MD"):
            st[p[1]] = "b:0"
        elif p[0] == "MC":
            st[p[1]] = "b:1"
        elif p[0] == "K":
            out.append(st.get(p[1], "b:1"))
    return out


def k_answers(ops, res):
    return [r for op, r in zip(ops, res) if op.split()[0] == "K"]


def gated_classes(variant, driver, cases):
    """precise classes of deterministic cases through the model: would the answers be wrong
    without any late write (=> shutdown-before-persist), and do the late writes change an
    answer (=> late-write-of-dropped-instance)?  Computed from the case, not from the output."""
    if not cases:
        return []
    no_ol = [[op for op in ops if op.split()[0] != "OL"] for ops in cases]
    m1, _, _ = C.run_lines([driver, "clean"], [model_line(variant, ops) for ops in no_ol])
    m2, _, _ = C.run_lines([driver, "clean"], [model_line(variant, ops) for ops in cases])
    out = []
    for ops, nops, a, b in zip(cases, no_ol, m1, m2):
        a1 = k_answers(nops, a.split(" | ")[0].split(";"))
        a2 = k_answers(ops, b.split(" | ")[0].split(";"))
        cl = []
        if a1 != a2:
            cl.append("late-write-of-dropped-instance")
        if a1 != spec_answers(ops):
            cl.append("shutdown-before-persist")
        out.append(cl)
    return out


def classify(f, known):
    cl = f.get("classes", [])
    if "outside-model" in cl or f.get("kind") != "acceptor":
        return None
    for c in cl:                      # the case's classes, most specific first
        for k in known:
            if k.get("class") == c:
                return k
    return None


# ------------------------------------------------------------------------------- running
def run_engine(wh, cases, tag):
    """cases: list of op lists; returns list of result lists (one per op), CASE line dropped"""
    if not cases:
        return []
    nsh = min(8 if len(cases) < 3000 else C.NPROC, max(1, len(cases) // 4))
    shards = [cases[i::nsh] for i in range(nsh)]

    def one(arg):
        i, sh = arg
        base = C.shm_dir("%s-%d" % (tag, i))
        lines = []
        for j, ops in enumerate(sh):
            lines.append("CASE %d" % j)
            lines += ops
        out, rc, err = C.run_lines([wh, "engine", base], lines, timeout=14400)
        res, k = [], 0
        for ops in sh:
            chunk = out[k:k + 1 + len(ops)]
            k += 1 + len(ops)
            chunk += ["<missing>"] * (1 + len(ops) - len(chunk))
            res.append(chunk[1:] if chunk[0] == "ok" else ["open:" + chunk[0]] * len(ops))
        try:
            os.rmdir(base)
        except OSError:
            pass
        return res
    with ThreadPoolExecutor(nsh) as ex:
        rs = list(ex.map(one, enumerate(shards)))
    out = [None] * len(cases)
    for i, r in enumerate(rs):
        for j, x in enumerate(r):
            out[i + j * nsh] = x
    return out


def obs_line(variant, ops, res):
    """observation tokens for accept_c17, or (None, why) when the run itself went wrong"""
    toks = []
    for op, r in zip(ops, res):
        p = op.split()
        k = p[0]
        if k in CHANGE:
            if r != "ok":
                return None, "%s answered %s" % (op, r)
            toks.append("%s:%s" % (k, topic_hex(p[1])))
        elif k == "K":
            if r not in ("b:0", "b:1"):
                return None, "%s answered %s" % (op, r)
            toks.append("K:%s:%s" % (topic_hex(p[1]), r[2]))
        elif k in ("REOPEN", "RESTART"):
            if r != "ok":
                return None, "%s answered %s" % (op, r)
            toks.append("RO" if k == "REOPEN" else "RS")
        elif k == "DUMP":
            if not r.startswith("store:") or r.startswith("store:err"):
                return None, "%s answered %s" % (op, r)
            toks.append("D:" + r[len("store:"):])
        elif k == "WAITSYNC":
            if r not in ("ok", "timeout"):
                return None, "%s answered %s" % (op, r)
            # timeout (5 s): read as "every persister is done and the file still differs" (BStuck)
            toks.append(("W:" if r == "ok" else "X:") + ",".join(topic_hex(t) for t in p[1:]))
        # gate ops carry no observation for the acceptor
    return "%s | %s" % (variant, ";".join(toks)), None


def model_line(variant, ops):
    toks = []
    for op in ops:
        p = op.split()
        k = p[0]
        if k in CHANGE or k == "K":
            toks.append("%s:%s" % (k, topic_hex(p[1])))
        elif k == "REOPEN":
            toks.append("RO")
        elif k == "RESTART":
            toks.append("RS")
        elif k == "OL":
            toks.append("OL:%s" % p[1])
        elif k in ("TB", "TE", "TU", "TS", "TICK", "DUMP"):
            toks.append(k)
        elif k == "GATE":
            toks.append("GATE")
        else:
            toks.append("BAD")
    return "%s | %s" % (variant, ";".join(toks))


def nontrivial(ops):
    seen_change = False
    for op in ops:
        k = op.split()[0]
        if k in CHANGE:
            seen_change = True
        elif k in ("REOPEN", "RESTART") and seen_change:
            return True
    return False


def run(ctx):
    tier, rng, driver = ctx["tier"], ctx["rng"], ctx["driver"]
    failures, broken = [], []
    variant = repo_variant()
    hook = repo_has_hook()
    wh = C.build_rust("wh", ("walrus_verif", "walrus_verif_small"))
    quick = tier == "quick"

    free_cases, gated_cases = [], []
    if ctx.get("replay"):
        for f in ctx["replay"].get("failing", []) + ctx["replay"].get("broken", []):
            c = f.get("case")
            if isinstance(c, dict) and "ops" in c:
                (gated_cases if c.get("mode") == "gated" else free_cases).append(dict(c, reps=60))
    corpus = load_corpus()
    for c in corpus:
        if c["mode"] == "gated":
            gated_cases.append(c)
        else:
            free_cases.append(dict(c, reps=40 if quick else 200))
    for c in gen_free(rng, 70 if quick else 400):
        free_cases.append(dict(c, reps=6 if quick else 12))
    if hook:
        gated_cases += gen_gated_systematic(3 if quick else 4)
        gated_cases += gen_gated_random(rng, 150 if quick else 1500)

    hist = collections.Counter()
    samples = []
    distinct = set()
    n_eval = n_validated = 0

    # ---- free-running runs, judged by the two acceptors
    runs = []
    for ci, c in enumerate(free_cases):
        for _ in range(c.get("reps", 1)):
            runs.append(ci)
    res = run_engine(wh, [free_cases[ci]["ops"] for ci in runs], "c17f")
    lines, owners = [], []
    for ri, (ci, r) in enumerate(zip(runs, res)):
        c = free_cases[ci]
        n_eval += 1
        line, why = obs_line(variant, c["ops"], r)
        if line is None:
            broken.append(dict(kind="harness", what="free-running run went wrong: " + why, case=dict(mode="free", ops=c["ops"]), impl=r))
            continue
        if "timeout" in r:
            hist["waitsync_timeouts"] += 1
        lines.append(line)
        owners.append((ci, r))
    acc, rc, err = C.run_lines_parallel([driver, "accept_c17"], lines)
    if rc or len(acc) != len(lines):
        broken.append(dict(kind="correspondence", what="accept_c17 failed rc=%s %s" % (rc, err[-300:])))
        acc += ["<missing>"] * (len(lines) - len(acc))
    outcome = collections.defaultdict(collections.Counter)
    for (ci, r), line, a in zip(owners, lines, acc):
        c = free_cases[ci]
        n_validated += 1
        key = tuple(c["ops"])
        if nontrivial(c["ops"]):
            distinct.add(key)
        for op in c["ops"]:
            hist["op_" + op.split()[0]] += 1
        outcome[ci][" ".join(x for x, op in zip(r, c["ops"]) if op.startswith("K"))] += 1
        parts = a.split()
        if len(parts) != 2 or parts[0] not in ("ok", "REJECT"):
            broken.append(dict(kind="correspondence", what="acceptor could not judge the run: " + a, case=dict(mode="free", ops=c["ops"]), impl=r))
            continue
        classes = case_classes(c["ops"])
        if parts == ["ok", "REJECT"] and "late-write-of-dropped-instance" in classes:
            # does the run need a late write of a dropped instance's persister to be explained?
            # (the same observations with every same-process reopen taken as a process restart,
            # where no such persister survives, judged by the same extracted acceptor)
            head, toks = line.split(" | ", 1)
            line2 = head + " | " + ";".join("RS" if t == "RO" else t for t in toks.split(";"))
            a2, _, _ = C.run_lines([driver, "accept_c17"], [line2])
            if a2 and a2[0].split()[:1] == ["REJECT"]:
                classes = ["late-write-of-dropped-instance", "shutdown-before-persist"]
            else:
                classes = ["shutdown-before-persist"]
        if parts[0] == "REJECT":
            hist["runs_outside_model"] += 1
            failures.append(dict(kind="acceptor", case=dict(mode="free", ops=c["ops"]), impl=r, classes=["outside-model"],
                                 what="no placement of persister steps makes the %s model produce this run (k_accept)" % variant))
        elif parts[1] == "REJECT":
            hist["runs_violating_c17"] += 1
            for cl in classes:
                hist["c17_failure_class_" + cl] += 1
            failures.append(dict(kind="acceptor", case=dict(mode="free", ops=c["ops"]), impl=r, classes=classes or ["unclassified"],
                                 what="topic_is_clean did not answer the last value set (k_c17_ok)"))
        else:
            hist["runs_satisfying_c17"] += 1
    races = sum(1 for ci in outcome if len(outcome[ci]) > 1)
    hist["free_cases_with_more_than_one_outcome"] = races
    for ci in list(outcome)[:3]:
        samples.append(dict(mode="free", ops=free_cases[ci]["ops"], outcomes=dict(outcome[ci])))

    # ---- gated runs: implementation against the model, line by line
    if gated_cases and not hook:
        hist["gated_cases_skipped_no_hook"] = len(gated_cases)
        gated_cases = []
    if gated_cases:
        # GATE 1: a drop never waits for the persister (code as it is); GATE 2: a drop waits for a
        # write in flight (flush on drop), so the harness lets that write go when it drops
        gmode = "GATE 2" if variant == "flush" else "GATE 1"
        gres = run_engine(wh, [[gmode if op == "GATE 1" else op for op in c["ops"]] for c in gated_cases], "c17g")
        mlines = [model_line(variant, c["ops"]) for c in gated_cases]
        mres, rc, err = C.run_lines_parallel([driver, "clean"], mlines)
        if rc or len(mres) != len(mlines):
            broken.append(dict(kind="correspondence", what="driver clean failed rc=%s %s" % (rc, err[-300:])))
            mres += ["<missing>"] * (len(mlines) - len(mres))
        olines, oown = [], []
        ndiff = 0
        for c, r, m in zip(gated_cases, gres, mres):
            n_eval += 1
            n_validated += 1
            if nontrivial(c["ops"]):
                distinct.add(tuple(c["ops"]))
            for op in c["ops"]:
                hist["op_" + op.split()[0]] += 1
            mm = m.split(" | ")[0].split(";")
            if mm != r:
                ndiff += 1
                hist["gated_model_impl_disagreements"] += 1
                if ndiff <= 5:
                    broken.append(dict(kind="correspondence", what="gated run: model (%s) and implementation disagree" % variant,
                                       case=dict(mode="gated", ops=c["ops"]), impl=r, model=mm))
                continue
            hist["gated_agree"] += 1
            if m.endswith("quiet=0"):
                hist["gated_end_state_not_quiet"] += 1
            line, why = obs_line(variant, c["ops"], r)
            if line is not None:
                olines.append(line)
                oown.append((c, r))
        acc, rc, err = C.run_lines_parallel([driver, "accept_c17"], olines)
        acc += ["<missing>"] * (len(olines) - len(acc))
        bad = [c["ops"] for (c, r), a in zip(oown, acc) if a.split()[-1:] == ["REJECT"] and a.split()[:1] == ["ok"]]
        precise = dict(zip((tuple(o) for o in bad), gated_classes(variant, driver, bad)))
        for (c, r), a in zip(oown, acc):
            parts = a.split()
            if len(parts) != 2:
                broken.append(dict(kind="correspondence", what="acceptor could not judge the gated run: " + a, case=dict(mode="gated", ops=c["ops"])))
            elif parts[0] == "REJECT":
                # the deterministic run equals the model's run, so the acceptor must admit it
                broken.append(dict(kind="correspondence", what="k_accept rejects a run that the model itself produces", case=dict(mode="gated", ops=c["ops"]), impl=r))
            elif parts[1] == "REJECT":
                hist["gated_runs_violating_c17"] += 1
                classes = precise.get(tuple(c["ops"])) or case_classes(c["ops"])
                for cl in classes:
                    hist["c17_failure_class_" + cl] += 1
                failures.append(dict(kind="acceptor", case=dict(mode="gated", ops=c["ops"]), impl=r, classes=classes or ["unclassified"],
                                     what="topic_is_clean did not answer the last value set (k_c17_ok), deterministic schedule"))
            else:
                hist["gated_runs_satisfying_c17"] += 1
        for c, r in list(zip(gated_cases, gres))[:2] + list(zip(gated_cases, gres))[-1:]:
            samples.append(dict(mode="gated", ops=c["ops"], impl=r))

    hist["free_distinct_cases"] = len(free_cases)
    hist["gated_cases"] = len(gated_cases)
    cov = dict(
        evaluations=n_eval, distinct_nontrivial=len(distinct),
        rule="free-running: corpus/C17 + seeded random histories over topics %r (1-3 epochs of 1-4 changes, K/DUMP interleaved, shutdown by REOPEN or "
             "RESTART either at once or after WAITSYNC), each repeated (%d x generated, %d x corpus); gated (hook %s): all sequences of length <= %d over %r "
             "+ seeded random ones with A/MC/MD/K/TU/TS/TB/TE/TICK/OL/DUMP/REOPEN/RESTART.  non-trivial = a shutdown follows at least one marker change; "
             "distinct = distinct op sequences" % (TOPICS, 6 if quick else 12, 40 if quick else 200, "present" if hook else "ABSENT: gated part skipped",
                                                   3 if quick else 4, GATED_ALPHA),
        traces_validated_against_impl=n_validated,
        samples=samples,
        histogram=dict(hist, variant=variant, hook_present=hook),
        exhaustive=False,
        model_variant=variant, hook_present=hook,
    )
    return dict(failures=failures, broken=broken, coverage=cov)
