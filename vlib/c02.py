"""C02 — decided through model/Engine.v; see vlib/engine_props.py and coq/props/C02.v."""
from .engine_props import run, classify, TRUSTED_EXTRA, ASSUMPTIONS  # noqa: F401
