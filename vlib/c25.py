"""C25 — segment storage keys map one-to-one to (topic, segment).
Theorems: props/C25.v.  Correspondence: the unmodified controller/types.rs (compiled via
#[path] into harness/dwh) against the extracted model on encoder cases (K) and raw
decoder inputs (P); acceptor: parse(key) must give back exactly (topic, segment)."""
import itertools

from . import common as C

TRUSTED_EXTRA = [
    "harness/dwh (Rust): #[path]-includes /repo/distributed-walrus/src/controller/types.rs unchanged",
    "modelled, not verified: str::rsplitn/strip_prefix/u64::from_str/format! of the Rust standard library (their behaviour is compared on every generated case)",
]
ASSUMPTIONS = ["topics are Rust &str (valid UTF-8); matching on scalar values equals matching on UTF-8 bytes because the patterns are ASCII"]

ALPHA = ["t", "s", "_", "0", "9", "+"]
SEGS = [0, 1, 9, 10, 99, 100, 2**32, 2**63, 2**64 - 2, 2**64 - 1]
CORPUS_T = ["", "_s_", "t_", "_s_9", "a_s_", "_s", "s_", "t__s_9_s_", "_s__s_", "x_s_+5", "é_s_", "_s_\U0001F600", "t_t_", " ", "\0"]
CORPUS_P = ["t_a_s_+5", "t_a_s_-0", "t_a_s_", "t_a_s_+", "t_a_s_00007", "t_a_s_18446744073709551616", "t_a_s_18446744073709551615",
            "a_s_5", "t__s_5", "_s_5", "t_a_s_5_s_", "t_a_s_5 ", "t_a_s_٣", "t_a_s_5_s_6", "", "t_", "_s_", "t_a_S_5", "t_a_s_+0", "t_a_s_++1",
            "t_a_s_1_000", "t_a_s_0x10", "T_a_s_1", "t_a_s__s_1", "t_as_s_1_s"]


def gen_cases(tier, rng):
    cases = []
    for t in CORPUS_T:
        for s in SEGS:
            cases.append("K %s %d" % (C.hx(t), s))
    maxlen = 4 if tier == "quick" else 6
    for n in range(0, maxlen + 1):
        for tup in itertools.product(ALPHA, repeat=n):
            t = "".join(tup)
            cases.append("K %s %d" % (C.hx(t), rng.choice(SEGS) if n > 2 else SEGS[len(t) % len(SEGS)]))
            cases.append("P %s" % C.hx(t))
            cases.append("P %s" % C.hx("t_" + t))
    for p in CORPUS_P:
        cases.append("P %s" % C.hx(p))
    pool = ALPHA + ["_s_", "t_", "é", "中", "\U00010348", " ", "a", "-"]
    nrand = 4000 if tier == "quick" else 100000
    for _ in range(nrand):
        t = "".join(rng.choice(pool) for _ in range(rng.randint(0, 12)))
        seg = rng.choice(SEGS + [rng.randrange(2**64), rng.randrange(1000)])
        cases.append("K %s %d" % (C.hx(t), seg))
        if rng.random() < 0.3:
            cases.append("P %s" % C.hx(t + rng.choice(["", "_s_", "_s_12", "_s_+1", "_s_99999999999999999999"])))
    return list(dict.fromkeys(cases))


def run(ctx):
    tier, rng, driver = ctx["tier"], ctx["rng"], ctx["driver"]
    failures, broken = [], []
    dwh = C.build_rust("dwh", cfgs=())
    cases = []
    if ctx.get("replay"):
        cases += [f["case"] for f in ctx["replay"].get("failing", []) if "case" in f]
        cases += [b["case"] for b in ctx["replay"].get("broken", []) if "case" in b]
    cases += gen_cases(tier, rng)
    impl, rc, err = C.run_lines_parallel([dwh, "walkey"], cases)
    model, rc2, err2 = C.run_lines_parallel([driver, "walkey"], cases)
    if rc or rc2 or len(impl) != len(cases) or len(model) != len(cases):
        broken.append(dict(kind="correspondence", what="walkey runs failed rc=%s/%s %s %s" % (rc, rc2, err[-300:], err2[-300:])))
        impl += ["<missing>"] * (len(cases) - len(impl)); model += ["<missing>"] * (len(cases) - len(model))
    ndiff = nk = nontrivial = 0
    keys_seen = {}
    for c, i, m in zip(cases, impl, model):
        parts = c.split()
        if parts[0] == "K":
            nk += 1
            exp = "%s:%s" % (parts[1], parts[2])
            ip = i.split(" ")
            # acceptor on the implementation's own output: decode(encode(topic, seg)) = (topic, seg)
            if len(ip) != 2 or ip[1] != exp:
                failures.append(dict(kind="acceptor", case=c, impl=i, what="parse_wal_key(wal_key(topic, segment)) != (topic, segment)"))
            elif len(ip) == 2:
                prev = keys_seen.setdefault(ip[0], exp)
                if prev != exp:
                    failures.append(dict(kind="acceptor", case=c, impl=i, what="two (topic, segment) pairs share one storage key", other=prev))
            t = C.unhx(parts[1])
            if b"_s_" in t or t.startswith(b"t_") or any(ch in t for ch in b"0123456789+"):
                nontrivial += 1
        if i != m:
            ndiff += 1
            if ndiff <= 5:
                broken.append(dict(kind="correspondence", what="model and implementation disagree on wal_key/parse_wal_key", case=c, impl=i, model=m))
    cov = dict(
        evaluations=len(cases), distinct_nontrivial=nontrivial,
        rule="K cases: corpus x boundary segments + all topics of length <= %d over %r + seeded random with '_s_'/'t_' fragments and non-ASCII; "
             "P cases: raw decoder inputs. non-trivial = topic contains '_s_', starts with 't_', or contains digits/'+'; cases are de-duplicated" % (4 if tier == "quick" else 6, ALPHA),
        traces_validated_against_impl=len(cases),
        samples=[dict(case=c, impl=i) for c, i in list(zip(cases, impl))[:4] + list(zip(cases, impl))[-3:]],
        histogram=dict(encode_cases=nk, decode_only_cases=len(cases) - nk, model_impl_disagreements=ndiff,
                       decode_none=sum(1 for i in impl if i.endswith("none"))),
        exhaustive=False,
    )
    return dict(failures=failures, broken=broken, coverage=cov)
