"""Shared check body for the engine properties decided through model/Engine.v:
theorems in props/<Cnn>.v, differential correspondence (real crate vs extracted model on
the same op sequences), and extracted acceptors over the implementation's traces."""
import os
import re

from . import common as C
from . import enginegen as G

TRUSTED_EXTRA = [
    "harness/wh (Rust): drives the public walrus API (builder, append_for_topic, batch_append_for_topic, read_next, batch_read_for_topic, get_topic_entry_count) in child processes, small geometry via --cfg walrus_verif_small",
    "modelled, not verified: payload bytes are abstract (pid, len); the checksum is assumed to match exactly the entry it was written with; file system = completed writes are visible to later reads; single-threaded use of one instance",
    "model/Engine.v is hand-written from the Rust source; ts_unmodelled marks failure paths (allocation refused mid-batch, multi-unit blocks at recovery) the model does not represent — those lines are excluded from the diff and judged by the acceptors only",
]
ASSUMPTIONS = [
    "sequential histories (one caller at a time); concurrency is C05's subject",
    "clean shutdown = drop of the instance or normal process exit",
]

MODES = ["strict", "strict", "alo:1", "alo:3", "alo:8"]


def classes_of_case(lines, B=4096, max_alloc=16384, H=256):
    """Known-finding classes a case belongs to (mechanism-shaped, decided from the ops)."""
    cls = set()
    first_written = {}
    big_seen = False
    empty_first = False
    for l in lines[1:]:
        t = l.split()
        if t[0] in ("A", "B", "BN"):
            topic = t[1]
            if t[0] == "A":
                sizes = [int(t[3])]
            elif t[0] == "BN":
                sizes = [int(t[4])] * int(t[3])
            else:
                sizes = [] if t[2] == "-" else [int(x.split(":")[1]) for x in t[2].split(",")]
            nlen = int(topic[1:]) if topic.startswith("L") else len(topic)
            mlen = 32 + (0 if nlen <= 7 else ((nlen + 7) // 8) * 8)
            if mlen > 254:
                cls.add("badname")
            if any(s + H > max_alloc for s in sizes):
                cls.add("oversize")
            if any(s + H > B for s in sizes):
                big_seen = True
            rejected = (len(sizes) == 0) or len(sizes) > 2000 or any(s + H > max_alloc for s in sizes) or mlen > 254
            if topic not in first_written:
                if rejected or (sizes and sizes[0] + H > B):
                    empty_first = True       # the topic's first block stays all-zero
                first_written[topic] = True
        elif t[0] in ("REOPEN", "RESTART"):
            if big_seen:
                cls.add("multiunit-restart")
            if empty_first:
                cls.add("zero-block-restart")
    return cls


def build_cases(prop, tier, rng):
    q = tier == "quick"
    cases = []
    def add(n, gen, nops_choices, modes=MODES, backends=("fd", "mmap")):
        for _ in range(n):
            cid = "%s-%d" % (prop, len(cases))
            hdr = "mode=%s backend=%s sched=nofsync" % (rng.choice(modes), rng.choice(backends))
            cases.append(gen.case(cid, rng.choice(nops_choices), hdr))
    if prop in ("C01", "C15"):
        add(600 if q else 12000, G.Gen(rng, peeks=True), [5, 10, 20, 40, 80])
        add(200 if q else 3000, G.Gen(rng, peeks=True, offsets=True), [10, 30])
        if prop == "C15":   # "in StrictlyAtOnce mode this still holds after a restart"
            add(250 if q else 4000, G.Gen(rng, restarts=True, peeks=True), [10, 20, 40], modes=["strict"])
    elif prop == "C03":
        add(600 if q else 12000, G.Gen(rng, peeks=True, offsets=True), [5, 10, 20, 40])
        for k in range(2 if q else 8):   # entry-cap cases: more than 2000 tiny entries
            cid = "%s-cap%d" % (prop, k)
            n1 = rng.choice([1999, 2000, 2001, 2500])
            lines = ["CASE %s mode=%s backend=%s sched=nofsync" % (cid, rng.choice(MODES), rng.choice(["fd", "mmap"]))]
            lines.append("BN t1 0 %d %d" % (min(n1, 2000), rng.choice([0, 1, 3])))
            lines.append("BN t1 5000 %d %d" % (rng.choice([1, 700, 2000]), rng.choice([0, 2])))
            for _ in range(4):
                lines.append("BR t1 %s %d -" % (rng.choice(["max", 2 ** 40, 10 ** 7]), rng.choice([0, 1])))
                lines.append("C t1")
            lines.append("BR t1 max 1 0")
            cases.append(lines)
    elif prop == "C16":
        add(500 if q else 8000, G.Gen(rng, peeks=True, offsets=True, rejects=True), [5, 10, 20, 40], backends=("fd",))
        add(150 if q else 2000, G.Gen(rng, restarts=True, big=False), [10, 30], backends=("fd",))
    elif prop == "C04":
        add(400 if q else 8000, G.Gen(rng, peeks=True, rejects=True, long_names=True), [5, 10, 20, 40])
        add(200 if q else 4000, G.Gen(rng, restarts=True, rejects=True, long_names=True), [10, 20, 40], modes=["strict"])
    elif prop == "C02":
        add(600 if q else 10000, G.Gen(rng, peeks=True, offsets=True), [5, 10, 20, 40])
    elif prop == "C06":
        add(500 if q else 8000, G.Gen(rng, restarts=True, big=False), [5, 10, 20, 40])
        add(100 if q else 1500, G.Gen(rng, restarts=True, big=True), [10, 20])
    return cases


COLUMNS = {
    "C01": ["c01"],
    "C03": ["c03"],
    "C15": ["c15"],
    "C16": [],
    "C04": ["c01", "c15"],
    "C02": ["c02b", "c02c"],
    "C06": [],          # decided per mode below
}


def run(ctx):
    prop, tier, rng, driver = ctx["prop"], ctx["tier"], ctx["rng"], ctx["driver"]
    failures, broken = [], []
    wh = C.build_rust("wh", ("walrus_verif", "walrus_verif_small"))
    consts = C.gen_consts()
    B, MA = consts["small"]["DEFAULT_BLOCK_SIZE"], consts["small"]["MAX_ALLOC"]
    cases = []
    if ctx.get("replay"):
        for f in ctx["replay"].get("failing", []) + ctx["replay"].get("broken", []):
            if "case_lines" in f:
                cases.append(f["case_lines"])
    corpus_dir = os.path.join(C.VERIF, "corpus", prop)
    if os.path.isdir(corpus_dir):
        for fn in sorted(os.listdir(corpus_dir)):
            cases.append([l for l in open(os.path.join(corpus_dir, fn)).read().split("\n") if l.strip()])
    cases += build_cases(prop, tier, rng)
    res = G.run_engine(wh, driver, cases, "small", prop.lower())
    # correspondence
    ndiff = nunm = nlines = 0
    for c, (io, mo) in zip(cases, res):
        for j, (l, i, m) in enumerate(zip(c, io, mo)):
            nlines += 1
            if m.startswith("?"):
                nunm += 1
                break
            if not G.lines_equal(i, m):
                ndiff += 1
                if ndiff <= 3:
                    broken.append(dict(kind="correspondence", what="model/Engine.v and the implementation disagree",
                                       at_line=j, op=l, impl=i[:300], model=m[:300], case_lines=c[:j + 1]))
                break
    # acceptors over implementation traces
    acc_in = []
    for c, (io, mo) in zip(cases, res):
        acc_in.append(c[0])
        for l, i, m in zip(c[1:], io[1:], mo[1:]):
            acc_in.append("%s => %s" % (l, G.adopt_model_tokens(i, G.strip_flags(m.lstrip("?")))))
    acc_out, rc, err = C.run_lines([driver, "accept"], acc_in, timeout=1800)
    if len(acc_out) != len(cases):
        broken.append(dict(kind="harness", what="acceptor run failed rc=%s %s" % (rc, err[-300:])))
        acc_out += [""] * (len(cases) - len(acc_out))
    rejected = 0
    for c, (io, mo), a in zip(cases, res, acc_out):
        cols = dict(kv.split("=") for kv in a.split()[1:] if "=" in kv)
        want = list(COLUMNS.get(prop, []))
        if prop == "C06":
            want = ["c01", "c15"] if "mode=strict" in c[0] else ["c06alo"]
        bad = [k for k in want if cols.get(k) != "ok"]
        hard = [i for i in io if i in ("panic", "died", "noinstance", "<missing>")]
        if prop == "C06" and hard:
            bad.append("restart-failed:" + hard[0])
        if bad:
            rejected += 1
            mcls = G.model_classes(mo)
            failures.append(dict(kind="acceptor", acceptor=",".join(bad), classes=sorted(classes_of_case(c, B, MA)) + mcls,
                                 case_lines=c, impl=[x[:200] for x in io],
                                 what="implementation trace rejected by %s" % ",".join(bad)))
    extra = {}
    if prop == "C16":
        # second run of every case with the other backend, separate processes
        flipped = [[c[0].replace("backend=fd", "backend=mmap")] + c[1:] for c in cases]
        res2 = G.run_engine(wh, driver, flipped, "small", "c16b")
        nb = 0
        for c, (io, mo), (io2, mo2) in zip(cases, res, res2):
            for j, (l, a, b) in enumerate(zip(c, io, io2)):
                if G.canon_impl(a) != G.canon_impl(b):
                    nb += 1
                    failures.append(dict(kind="acceptor", acceptor="backend-diff", classes=sorted(classes_of_case(c, B, MA)),
                                         case_lines=c[:j + 1], fd=a[:300], mmap=b[:300],
                                         what="FD and mmap backends returned different results"))
                    break
        extra["backend_pairs_compared"] = len(cases)
        extra["backend_differences"] = nb
    if prop in ("C02", "C06"):
        # metamorphic erasure on the implementation itself
        def erase(c):
            out = [c[0]]
            for l in c[1:]:
                t = l.split()
                if prop == "C02" and ((t[0] == "R" and t[2] == "0") or (t[0] == "BR" and (t[3] == "0" or t[4] != "-"))):
                    continue
                if prop == "C06" and t[0] in ("REOPEN", "RESTART"):
                    continue
                out.append(l)
            return out
        sel = [c for c in cases if (prop == "C02" or "mode=strict" in c[0])]
        er = [erase(c) for c in sel]
        res_e = G.run_engine(wh, driver, er, "small", prop.lower() + "e")
        res_map = {id(c): r for c, r in zip(cases, res)}
        ne = 0
        for c, ce, (ioe, moe) in zip(sel, er, res_e):
            io = res_map[id(c)][0]
            kept = [i for l, i in zip(c, io) if l in ce] if False else None
            # align: walk original, keep results of non-erased lines
            keep_res = []
            it = iter(ce)
            nxt = next(it, None)
            for l, i in zip(c, io):
                if nxt is not None and l == nxt:
                    keep_res.append(i)
                    nxt = next(it, None)
            if prop == "C06":
                # Restarts may legitimately change how a budgeted batch read chunks the stream
                # (recovered blocks are sealed, the writer starts a fresh block), so what is
                # compared is what the property names: per topic the delivered stream and the
                # final count, not each intermediate result.
                def delivered(lines, outs):
                    d, lastc = {}, {}
                    for l, o in zip(lines, outs):
                        t = l.split()
                        if (t[0] == "R" and t[2] == "1") or (t[0] == "BR" and t[3] == "1" and t[4] == "-"):
                            o = G.canon_impl(o)
                            toks = [o] if o.startswith("e:") else ([x for x in o[1:-1].split(";") if x] if o.startswith("[") else [])
                            d.setdefault(t[1], []).extend(toks)
                        elif t[0] == "C":
                            lastc[t[1]] = o
                    return d, lastc
                da, ca = delivered(ce, keep_res)
                db, cb = delivered(ce, ioe)
                if da != db or ca != cb:
                    ne += 1
                    mo_c = res_map[id(c)][1]
                    failures.append(dict(kind="acceptor", acceptor="erasure",
                                         classes=sorted(classes_of_case(c, B, MA)) + G.model_classes(mo_c),
                                         case_lines=c, with_restarts=dict(delivered=da, final_counts=ca),
                                         without_restarts=dict(delivered=db, final_counts=cb),
                                         what="restarts changed the delivered stream or the final counts"))
                continue
            for j, (l, a, b) in enumerate(zip(ce, keep_res, ioe)):
                if G.canon_impl(a) != G.canon_impl(b):
                    ne += 1
                    # a C02 corpus case may contain restarts: the model's known-class flags of both runs count
                    failures.append(dict(kind="acceptor", acceptor="erasure",
                                         classes=sorted(set(classes_of_case(c, B, MA)) | set(G.model_classes(res_map[id(c)][1])) | set(G.model_classes(moe))),
                                         case_lines=c, erased_case=ce[:j + 1], with_ops=a[:300], without_ops=b[:300],
                                         what=("peeks/offset reads changed a later result" if prop == "C02"
                                               else "restarts changed a later result")))
                    break
        extra["erasure_pairs_compared"] = len(sel)
        extra["erasure_differences"] = ne
    nontriv = 0
    for c in cases:
        sizes = [int(x) for l in c for x in re.findall(r"^A \S+ \d+ (\d+)", l)]
        if sum(s + 256 for s in sizes) > B or any(l.startswith(("RE", "BN")) for l in c):
            nontriv += 1
    hist = {}
    for c in cases:
        for l in c[1:]:
            k = l.split()[0]
            hist[k] = hist.get(k, 0) + 1
    cov = dict(
        evaluations=len(cases), distinct_nontrivial=nontriv,
        rule="op sequences over 1-3 topics from a seeded generator (payload sizes around the 128-byte peek threshold and the block capacity, "
             "budgets from 0 to usize::MAX, both read APIs, peeks, offset reads, StrictlyAtOnce/AtLeastOnce, both backends), small geometry "
             "(block %d, %d blocks/file); non-trivial = the case rotates at least one block, uses a >2000-entry batch or restarts; cases are distinct by construction (fresh pids)" % (B, consts["small"]["BLOCKS_PER_FILE"]),
        traces_validated_against_impl=len(cases),
        samples=[dict(case=c[:8], impl=io[:8]) for c, (io, mo) in list(zip(cases, res))[:2]],
        histogram=dict(ops=hist, op_lines=nlines, model_impl_disagreements=ndiff, cases_leaving_the_model=nunm,
                       traces_rejected=rejected, **extra),
        exhaustive=False,
    )
    return dict(failures=failures, broken=broken, coverage=cov)


def classify(f, known):
    """A failure is a known finding only if the case is in the finding's class."""
    cls = set(f.get("classes", []))
    for k in known:
        if k.get("class") in cls:
            return k
    return None
