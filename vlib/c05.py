"""C05 — concurrent producers and consumers get exactly-once, ordered delivery.

Theorems: coq/props/C05.v over model/Conc.v (segment-level concurrent model sharing the
sequential model's state).  Correspondence: harness/wh `conc` runs REAL threads over one
walrus instance and lets exactly one of them run between two scheduling points
(`yield_point`, cfg(walrus_verif), HOOK.diff = hooks/C05.diff + hooks/C05-verif.rs), following a schedule list; the extracted
model runs the same programs under the same schedule.  Compared per case: status (followed /
blocked at step k), the sequence of (thread, scheduling point reached) — hence the segment
count of every call —, every call's result, the drain, the final counts.  The extracted
acceptor c05_run_ok judges the IMPLEMENTATION's results.  The class of a rejected case is
computed by the extracted monitor (model/Conc.v: kstep) from programs + schedule."""
import hashlib
import os
import re
import shutil
from concurrent.futures import ThreadPoolExecutor

from . import common as C

TRUSTED_EXTRA = [
    "harness/wh `conc` (Rust, cfg walrus_verif_conc): real threads on the public API of the real crate; turnstile in src/wal/verif.rs (hooks/C05.diff, add-only, cfg(walrus_verif)): between two scheduling points exactly one registered thread runs",
    "the scheduling points are where hooks/C05.diff puts them: after every release and before every acquisition of the column lock, the writer mutexes, the batch flag and the un-nested index lock in append/batch append/read_next/batch_read_for_topic; code between two points is atomic in every explored run",
    "model/Conc.v is hand-written from the Rust source; payload bytes abstract (pid, len); sequentially consistent memory; fault-free I/O; a batch's writes land together (no scheduling point between the io_uring completions)",
    "ocaml/cmd_conc.ml: parsing, printing, schedule enumeration (a generator only), the drain loop after the threads have finished",
    "when /repo does not contain the hook yet, the harness is built against a copy of /repo's tracked working tree with hooks/C05.diff applied (cfg-guarded, add-only: no change to the code paths when the controller is not installed)",
]
ASSUMPTIONS = [
    "threads interleave only at the scheduling points; data races inside a segment, weak-memory effects of the Relaxed/Acquire atomics and io_uring completion order are not explored",
    "one process lifetime, no restart inside a concurrent run; payload ids are distinct and payloads non-empty (entries are identified by content)",
    "small geometry (block 4096, 8 blocks/file) so that block rotation happens within a few appends",
]

H = 256
KNOWN_CLASSES = ("two-readers", "seal-in-read", "seal-in-batch-read")


# --------------------------------------------------------------------------- builds
def _tracked_tree_hash(repo):
    h = hashlib.sha256()
    for root, dirs, files in os.walk(os.path.join(repo, "src")):
        dirs.sort()
        for fn in sorted(files):
            p = os.path.join(root, fn)
            h.update(p.encode())
            h.update(open(p, "rb").read())
    for fn in ("Cargo.toml", "Cargo.lock"):
        p = os.path.join(repo, fn)
        if os.path.exists(p):
            h.update(open(p, "rb").read())
    for fn in ("C05.diff", "C05-verif.rs"):
        h.update(open(os.path.join(C.VERIF, "hooks", fn), "rb").read())
    return h.hexdigest()


def hooked_repo():
    """The repository the harness is built against: REPO itself when it already contains the
    scheduling-point hook (HOOK.diff merged), else a copy of its tracked working tree with the hook
    applied: hooks/C05.diff (the yield_point call sites in walrus_read.rs / writer.rs /
    walrus_write.rs) and hooks/C05-verif.rs (the turnstile, appended to src/wal/verif.rs)."""
    vr = os.path.join(C.REPO, "src/wal/verif.rs")
    if os.path.exists(vr) and "pub fn yield_point" in open(vr).read():
        return C.REPO, False
    dst = os.path.join(C.WORK, "c05-repo")
    stamp = os.path.join(C.WORK, "c05-repo.stamp")
    want = _tracked_tree_hash(C.REPO)
    with C.Lock("c05-repo"):
        if os.path.isdir(dst) and os.path.exists(stamp) and open(stamp).read() == want:
            return dst, True
        shutil.rmtree(dst, ignore_errors=True)
        os.makedirs(dst)
        files = C.sh(["git", "-C", C.REPO, "ls-files"]).stdout.split("\n")
        keep = [f for f in files if f and (f.startswith("src/") or f.startswith("benchmarks/") or f.startswith("tests/")
                                            or f in ("Cargo.toml", "Cargo.lock"))]
        lst = os.path.join(C.WORK, "c05-repo.files")
        open(lst, "w").write("\n".join(keep) + "\n")
        C.sh(["rsync", "-a", "--files-from=" + lst, C.REPO + "/", dst + "/"])
        p = C.sh(["patch", "-p1", "--no-backup-if-mismatch", "-i", os.path.join(C.VERIF, "hooks", "C05.diff")], cwd=dst, check=False)
        if p.returncode != 0:
            raise RuntimeError("hooks/C05.diff does not apply to %s: %s" % (C.REPO, p.stdout[-800:]))
        with open(os.path.join(dst, "src/wal/verif.rs"), "a") as f:
            f.write(open(os.path.join(C.VERIF, "hooks", "C05-verif.rs")).read())
        open(stamp, "w").write(want)
    return dst, True


def build_conc_harness():
    repo, copied = hooked_repo()
    cfgs = ("walrus_verif", "walrus_verif_small", "walrus_verif_conc")
    if not copied:
        return C.build_rust("wh", cfgs), repo
    # harness copy whose /repo paths point at the hooked copy
    src = os.path.join(C.VERIF, "harness")
    dst = os.path.join(C.WORK, "harness-c05")
    with C.Lock("cargo-wh-c05"):
        C.sh(["rsync", "-a", "--delete", "--exclude", "target", src + "/", dst + "/"])
        for root, _, files in os.walk(dst):
            for fn in files:
                if fn.endswith((".rs", ".toml")):
                    pth = os.path.join(root, fn)
                    txt = open(pth).read()
                    new = txt.replace('"/repo/', '"%s/' % repo).replace('path = "/repo"', 'path = "%s"' % repo)
                    if new != txt:
                        open(pth, "w").write(new)
        tdir = os.path.join(C.WORK, "target-wh-c05")
        env = dict(C.ENV)
        env["CARGO_TARGET_DIR"] = tdir
        env["RUSTFLAGS"] = " ".join("--cfg " + c for c in cfgs) + " -Awarnings"
        C.sh(["cargo", "build", "--offline", "-q"], cwd=os.path.join(dst, "wh"), env=env, timeout=1800)
    return os.path.join(tdir, "debug", "wh"), repo


# --------------------------------------------------------------------------- cases
def case_line(cid, hdr, progs, sched=None, drain=(), extra=""):
    secs = ["CONC %s %s%s" % (cid, hdr, (" " + extra) if extra else "")]
    for p in progs:
        secs.append("T: " + " ; ".join(p))
    if sched is not None:
        secs.append("S: " + " ".join(str(x) for x in sched))
    secs.append("D: " + " ".join(drain))
    return " | ".join(secs)


def topics_of(progs):
    ts = []
    for p in progs:
        for c in p:
            t = c.split()[1]
            if t not in ts:
                ts.append(t)
    return ts


class ProgGen:
    """Thread programs from the rng.  Every payload id is fresh, every payload non-empty."""
    SIZES = [100, 300, 1000, 1000, 1000, 1600, 1600, 3000, 3840, 5000]

    def __init__(self, rng):
        self.rng = rng
        self.pid = 0

    def entry(self, size=None):
        s = size if size is not None else self.rng.choice(self.SIZES)
        p = self.pid
        self.pid += 1
        return p, s

    def append(self, t, size=None):
        p, s = self.entry(size)
        return "A %s %d %d" % (t, p, s)

    def batch(self, t, sizes=None):
        sizes = sizes or [self.rng.choice([100, 300, 1000, 1600]) for _ in range(self.rng.choice([2, 2, 3, 4]))]
        return "B %s %s" % (t, ",".join("%d:%d" % self.entry(s) for s in sizes))

    def random_programs(self, mode):
        r = self.rng
        self.pid = 0
        nthreads = r.choice([2, 2, 2, 3, 3, 4])
        topics = ["t1"] if r.random() < 0.75 else ["t1", "t2"]
        progs = []
        roles = ["prod", "cons"] + [r.choice(["prod", "cons", "mixed"]) for _ in range(nthreads - 2)]
        r.shuffle(roles)
        pre = r.choice([0, 0, 1, 2, 3, 4])
        for i in range(nthreads):
            calls = []
            for _ in range(r.choice([1, 2, 2, 3])):
                t = r.choice(topics)
                role = roles[i] if roles[i] != "mixed" else r.choice(["prod", "cons"])
                if role == "prod":
                    calls.append(self.append(t) if r.random() < 0.75 else self.batch(t))
                else:
                    ck = 1 if r.random() < 0.85 else 0
                    if r.random() < 0.6:
                        calls.append("R %s %d" % (t, ck))
                    else:
                        if mode != "strict":
                            ck = 1
                        calls.append("BR %s %s %d" % (t, r.choice(["max", "max", 1200, 2600, 0]), ck))
            progs.append(calls)
        # serial prologue: thread 0 first appends a few entries (so that rotations are near)
        prologue = [self.append(r.choice(topics), r.choice([1000, 1000, 1600, 300])) for _ in range(pre)]
        progs[0] = prologue + progs[0]
        return progs, pre


def families(rng):
    """Two-thread program pairs aimed at every pair of call kinds, with a serial prologue that
    puts the next append at / away from a block rotation.  Yields (name, progs, prologue calls)."""
    out = []
    g = ProgGen(rng)

    def fam(name, pro_sizes, t0, t1):
        g.pid = 0
        pro = [g.append("t1", s) for s in pro_sizes]
        def mk(spec):
            calls = []
            for c in spec:
                if c[0] == "A":
                    calls.append(g.append("t1", c[1]))
                elif c[0] == "B":
                    calls.append(g.batch("t1", list(c[1])))
                else:
                    calls.append(c[0])
            return calls
        out.append((name, [pro + mk(t0), mk(t1)], len(pro)))

    R, P, BR, BRS = ("R t1 1",), ("R t1 0",), ("BR t1 max 1",), ("BR t1 1200 1",)
    for pro in ([], [1000, 1000], [1000, 1000, 1000], [1600, 1600]):
        tag = "p" + "-".join(str(x) for x in pro) if pro else "p0"
        fam("A|R " + tag, pro, [("A", 1000)], [R])
        fam("A|RR " + tag, pro, [("A", 1000)], [R, R])
        fam("AA|R " + tag, pro, [("A", 1000), ("A", 1000)], [R])
        fam("A|BR " + tag, pro, [("A", 1000)], [BR])
        fam("A|BR,R " + tag, pro, [("A", 1000)], [BR, R])
        fam("A|BRs " + tag, pro, [("A", 1600)], [BRS])
        fam("B|R " + tag, pro, [("B", (1000, 1000, 1000))], [R])
        fam("B|BR " + tag, pro, [("B", (1000, 1600))], [BR])
        fam("A|P " + tag, pro, [("A", 1000)], [P])
    # two consumers (the prologue thread only appends)
    for pro in ([1000, 1000], [1000, 1000, 1000, 1000]):
        tag = "p" + "-".join(str(x) for x in pro)
        g.pid = 0
        prog0 = [g.append("t1", s) for s in pro]
        out.append(("R|R " + tag, [prog0 + ["R t1 1"], ["R t1 1"]], len(pro)))
        g.pid = 0
        prog0 = [g.append("t1", s) for s in pro]
        out.append(("R|BR " + tag, [prog0 + ["R t1 1"], ["BR t1 max 1"]], len(pro)))
        g.pid = 0
        prog0 = [g.append("t1", s) for s in pro]
        out.append(("BR|BR " + tag, [prog0 + ["BR t1 1200 1"], ["BR t1 max 1"]], len(pro)))
        g.pid = 0
        prog0 = [g.append("t1", s) for s in pro]
        out.append(("RR|R " + tag, [prog0 + ["R t1 1", "R t1 1"], ["R t1 1"]], len(pro)))
    # a consumer against a thread that rotates the block AND consumes (second consumer): the first consumer is
    # overtaken while it sits between its snapshots and its commit, the sealed block is drained and stepped past
    # by the other thread, then it commits (seeded change c05b-1 — the commit-time re-check `>=` weakened to `>` —
    # needs exactly this; no family had an appender that also reads).  Generated with <= 1 preemption, all kept.
    for pro, nread, last in (([1000, 1000, 1000], 3, "R t1 1"), ([1000, 1000, 1000], 3, "R t1 0"), ([1600, 1600], 2, "R t1 1"),
                             ([1000, 1000, 1000], 3, "BR t1 max 1"), ([1000, 1000, 1000], 4, "R t1 1")):
        g.pid = 0
        prog0 = [g.append("t1", x) for x in pro] + ["R t1 1"]
        prog1 = [g.append("t1", 1000)] + ["R t1 1"] * nread + [last]
        out.append(("R|A%s%s p%s" % ("R" * nread, {"R t1 1": "R", "R t1 0": "P", "BR t1 max 1": "BR"}[last], "-".join(str(x) for x in pro)), [prog0, prog1], len(pro)))
    # two producers
    g.pid = 0
    out.append(("A|A", [[g.append("t1", 1000), g.append("t1", 1000)], [g.append("t1", 1600), g.append("t1", 1600)]], 0))
    g.pid = 0
    out.append(("B|A", [[g.batch("t1", [1000, 1000, 1000, 1000])], [g.append("t1", 300), g.append("t1", 300)]], 0))
    g.pid = 0
    out.append(("B|B", [[g.batch("t1", [1000, 1600])], [g.batch("t1", [1600, 1000])]], 0))
    return out


# --------------------------------------------------------------------------- running
def canon(s):
    """implementation output -> the model's naming: drop the content hash of returned entries"""
    return re.sub(r"(e:[0-9_X]+:\d+:\d+):[0-9a-f]{8}", r"\1", s)


def fields(line):
    d = {}
    for kv in line.split():
        if "=" in kv:
            k, v = kv.split("=", 1)
            d[k] = v
    return d


def run_sharded(exe_args_of_shard, lines, shards=12, timeout=3000, env=None):
    if not lines:
        return []
    n = len(lines)
    shards = max(1, min(shards, n))
    chunks = [lines[i::shards] for i in range(shards)]
    def one(k):
        out, rc, err = C.run_lines(exe_args_of_shard(k), chunks[k], timeout=timeout, env=env)
        if len(out) != len(chunks[k]):
            out = out + ["<missing>"] * (len(chunks[k]) - len(out))
        return out
    with ThreadPoolExecutor(shards) as ex:
        outs = list(ex.map(one, range(shards)))
    res = [None] * n
    for k in range(shards):
        for j, o in enumerate(outs[k]):
            res[k + j * shards] = o
    return res


def model_lines(driver, cmd, lines):
    return run_sharded(lambda k: [driver, cmd], lines)


def impl_lines(wh, base, lines, shards=12, step_timeout_ms=None):
    env = None
    if step_timeout_ms:
        env = dict(C.ENV)
        env["WH_CONC_TIMEOUT_MS"] = str(step_timeout_ms)
    return run_sharded(lambda k: [wh, "conc", os.path.join(base, "s%d" % k)], lines, shards=shards, env=env)


CMP_KEYS = ("status", "steps", "res", "drain", "counts")


def compare(m, i):
    """first differing observable between a model line and a (canonicalised) implementation line"""
    fm, fi = fields(m), fields(canon(i))
    if fm.get("status", "").startswith("blocked"):
        # the blocked step itself is printed by the harness only; results after it are not determined
        if fi.get("status") != fm.get("status"):
            return "status", fm.get("status"), fi.get("status")
        si = [x for x in fi.get("steps", "").split(",") if not x.endswith(":BLOCKED")]
        if ",".join(si) != fm.get("steps"):
            return "steps", fm.get("steps"), fi.get("steps")
        return None
    for k in CMP_KEYS:
        if fm.get(k) != fi.get(k):
            return k, fm.get(k), fi.get(k)
    return None


def set_fx(line, fx):
    return line.replace("CONC ", "CONC ", 1).replace(" | ", " fx=%d | " % fx, 1)


def load_corpus():
    d = os.path.join(C.VERIF, "corpus", "C05")
    out = []
    if os.path.isdir(d):
        for fn in sorted(os.listdir(d)):
            for l in open(os.path.join(d, fn)).read().split("\n"):
                l = l.strip()
                if l and not l.startswith("#"):
                    out.append(l)
    return out


def run(ctx):
    tier, rng, driver = ctx["tier"], ctx["rng"], ctx["driver"]
    q = tier == "quick"
    failures, broken = [], []
    wh, repo_used = build_conc_harness()
    base = C.shm_dir("c05")
    hist = dict(families={}, modes={}, classes={}, call_kinds={}, threads={}, steps={}, blocked_cases=0)

    # ---- 0. which code is this: with or without the proposed fix?  Decided by correspondence on
    #         the corpus witnesses (the two model variants differ on them).
    corpus = load_corpus()
    if ctx.get("replay"):
        for f in ctx["replay"].get("failing", []) + ctx["replay"].get("broken", []):
            if "case" in f:
                corpus.insert(0, f["case"])
    fx = 0
    if corpus:
        ci = impl_lines(wh, base, corpus)
        agree = {}
        for v in (0, 1):
            cm = model_lines(driver, "conc", [set_fx(l, v) for l in corpus])
            agree[v] = sum(1 for m, i in zip(cm, ci) if compare(m, i) is None)
        fx = 1 if agree[1] > agree[0] else 0
        hist["variant_agreement_on_corpus"] = {"unfixed": agree[0], "fixed": agree[1], "corpus": len(corpus)}
    hist["model_variant"] = "fixed (PROPOSED_FIX.diff applied)" if fx else "code as it is (no fix)"

    # ---- 1. cases: corpus, then schedule enumeration / sampling from the model
    cases = []          # (family, complete case line)
    for l in corpus:
        cases.append(("corpus", set_fx(l, fx)))
    exhaustive_fams, sampled_fams = [], []
    gen_req = []        # (family, header, progs, drain, gen line)
    modes = ["strict", "strict", "alo:1", "alo:3"]
    fams = families(rng)
    per_fam_quick = 8
    limit = 400 if q else 800
    for name, progs, pre in fams:
        mode = rng.choice(modes) if not name.startswith("A|P") else "strict"
        hdr = "mode=%s backend=%s" % (mode, rng.choice(["fd", "mmap"]))
        extra = "fx=%d gen=enum:%d pre=0:%d" % (fx, limit, pre)
        if name.startswith("R|A"):
            extra = "fx=%d gen=pb:1:%d pre=0:%d" % (fx, limit, pre)
        gen_req.append((name, hdr, progs, case_line("g", hdr, progs, None, topics_of(progs), extra)))
    gl = model_lines(driver, "conc_gen", [g[3] for g in gen_req])
    redo = []
    for (name, hdr, progs, _), out in zip(gen_req, gl):
        if out.startswith("badcase") or " total=" not in out:
            broken.append(dict(kind="harness", what="schedule generator failed: " + out[:200], family=name))
            continue
        body, tot, comp = out.rsplit(" ", 2)
        scheds = [] if body == "-" else body.split("/")
        complete = comp == "complete=1"
        if name.startswith("R|A"):
            sampled_fams.append(name)          # all schedules with at most one preemption, none dropped
        elif complete and (not q or len(scheds) <= 3 * per_fam_quick):
            exhaustive_fams.append((name, len(scheds)))
        else:
            if not complete:
                redo.append((name, hdr, progs))
                scheds = []
            elif q:
                scheds = rng.sample(scheds, per_fam_quick)
            sampled_fams.append(name)
        for s in scheds:
            cases.append((name, case_line("c%d" % len(cases), hdr + " fx=%d" % fx, progs, s.split(","), topics_of(progs))))
    # families too large to enumerate: every schedule with at most 2 preemptions, plus random ones
    gen2 = []
    for name, hdr, progs in redo:
        pre = int(0)
        gen2.append((name, hdr, progs, case_line("g", hdr, progs, None, topics_of(progs),
                                                 "fx=%d gen=pb:2:%d" % (fx, limit))))
        gen2.append((name, hdr, progs, case_line("g", hdr, progs, None, topics_of(progs),
                                                 "fx=%d gen=rand:%d:%d" % (fx, 8 if q else 200, rng.randrange(1 << 30)))))
    for (name, hdr, progs, _), out in zip(gen2, model_lines(driver, "conc_gen", [g[3] for g in gen2])):
        if " total=" not in out:
            broken.append(dict(kind="harness", what="schedule generator failed: " + out[:200], family=name))
            continue
        body = out.rsplit(" ", 2)[0]
        scheds = [] if body == "-" else body.split("/")
        if q and len(scheds) > per_fam_quick:
            scheds = rng.sample(scheds, per_fam_quick)
        for s in scheds:
            cases.append((name, case_line("c%d" % len(cases), hdr + " fx=%d" % fx, progs, s.split(","), topics_of(progs))))
    # random programs with 2-4 threads, random schedules
    g = ProgGen(rng)
    nrand = 40 if q else 1500
    rreq = []
    for _ in range(nrand):
        mode = rng.choice(modes)
        progs, pre = g.random_programs(mode)
        hdr = "mode=%s backend=%s" % (mode, rng.choice(["fd", "mmap"]))
        rreq.append((hdr, progs, case_line("g", hdr, progs, None, topics_of(progs),
                                           "fx=%d gen=rand:%d:%d pre=0:%d" % (fx, 2 if q else 4, rng.randrange(1 << 30), pre))))
    for (hdr, progs, _), out in zip(rreq, model_lines(driver, "conc_gen", [x[2] for x in rreq])):
        if " total=" not in out:
            broken.append(dict(kind="harness", what="schedule generator failed: " + out[:200]))
            continue
        body = out.rsplit(" ", 2)[0]
        for s in ([] if body == "-" else body.split("/")):
            cases.append(("random", case_line("c%d" % len(cases), hdr + " fx=%d" % fx, progs, s.split(","), topics_of(progs))))
    # a few schedules the model says CANNOT be followed (a thread needs writer mutexes that a
    # parked thread holds): the implementation must get stuck at the same step
    g.pid = 0
    bp = [[g.append("t1", 1000), g.append("t1", 1000), g.batch("t1", [1000, 1000, 1000])], ["R t1 1"]]
    cases.append(("blocked", case_line("blk1", "mode=strict backend=fd fx=%d" % fx, bp, [0] * 8 + [1, 1, 1], ["t1"])))
    g.pid = 0
    bp = [[g.append("t1", 1000), g.append("t1", 1000), g.append("t1", 1000), g.append("t1", 1000)], ["BR t1 max 1"]]
    cases.append(("blocked", case_line("blk2", "mode=strict backend=mmap fx=%d" % fx, bp, [0] * 9 + [0, 0, 1], ["t1"])))

    # ---- 2. model and implementation on the same cases
    lines = [c for _, c in cases]
    ml = model_lines(driver, "conc", lines)
    # the implementation follows the model's COMPLETED schedule
    full = []
    for l, m in zip(lines, ml):
        sch = fields(m).get("sched", "-")
        if fields(m).get("status", "").startswith("blocked") or "status" not in fields(m):
            full.append(l)      # cannot be followed: the implementation gets the schedule as given
            continue
        secs = l.split(" | ")
        secs = [s for s in secs if not s.startswith("S:")]
        secs.insert(len(secs) - 1, "S: " + ("" if sch == "-" else sch.replace(",", " ")))
        full.append(" | ".join(secs))
    il = impl_lines(wh, base, full)
    # "blocked" is decided by a time limit in the harness; on a loaded machine a step can be
    # slow.  A case the implementation reports as blocked while the model says it can be followed
    # is run again alone with a long limit before it counts as a disagreement.
    slow = [k for k, (m, i) in enumerate(zip(ml, il))
            if not fields(m).get("status", "").startswith("blocked") and fields(i).get("status", "ok") != "ok"]
    hist["slow_steps_rerun"] = len(slow)
    if slow and len(slow) <= 200:
        again = impl_lines(wh, base, [full[k] for k in slow], shards=2, step_timeout_ms=20000)
        for k, o in zip(slow, again):
            il[k] = o
    shutil.rmtree(base, ignore_errors=True)
    ndiff = nunm = 0
    for (fam, _), l, m, i in zip(cases, full, ml, il):
        fm = fields(m)
        if m.startswith("badcase") or "status" not in fm:
            broken.append(dict(kind="harness", what="model run failed: " + m[:200], case=l))
            continue
        if fm.get("unm") == "1":
            nunm += 1
            continue
        if fm["status"].startswith("blocked"):
            hist["blocked_cases"] += 1
        d = compare(m, i)
        if d is not None:
            ndiff += 1
            if ndiff <= 3:
                broken.append(dict(kind="correspondence", what="model/Conc.v and the implementation disagree on '%s' (segment sequence, per-call results, drain, counts must all agree)" % d[0],
                                   model=str(d[1])[:400], impl=str(d[2])[:400], case=l, family=fam))
    # ---- 3. acceptor over the implementation's results
    acc_in = ["%s => %s" % (l, canon(i)) for l, i in zip(full, il)]
    al = model_lines(driver, "conc_accept", acc_in)
    rejected = 0
    for (fam, _), l, m, i, a in zip(cases, full, ml, il, al):
        fm = fields(m)
        if fm.get("status", "").startswith("blocked") or fm.get("unm") == "1":
            continue
        cls = [] if fm.get("class", "-") == "-" else fm["class"].split("+")
        for c in cls:
            hist["classes"][c] = hist["classes"].get(c, 0) + 1
        if a != "ok":
            rejected += 1
            failures.append(dict(kind="acceptor", acceptor="c05_run_ok", verdict=a, classes=cls, case=l, family=fam,
                                 impl=canon(i)[:600],
                                 what="implementation results rejected by the exactly-once / per-producer order / batch contiguity acceptor"))
    # ---- coverage
    nontrivial = 0
    for (fam, _), l, m in zip(cases, full, ml):
        hist["families"][fam] = hist["families"].get(fam, 0) + 1
        mode = re.search(r"mode=(\S+)", l).group(1)
        hist["modes"][mode] = hist["modes"].get(mode, 0) + 1
        nthr = l.count("| T:")
        hist["threads"][str(nthr)] = hist["threads"].get(str(nthr), 0) + 1
        for k in re.findall(r"(?:T:|;) *(A|BR|B|R) ", l):
            hist["call_kinds"][k] = hist["call_kinds"].get(k, 0) + 1
        steps = fields(m).get("steps", "-")
        tids = [s.split(":")[0] for s in steps.split(",")] if steps != "-" else []
        switches = sum(1 for a, b in zip(tids, tids[1:]) if a != b)
        b = str(min(len(tids) // 10 * 10, 60))
        hist["steps"][b] = hist["steps"].get(b, 0) + 1
        if switches >= 2:
            nontrivial += 1
    distinct = len(set(full))
    cov = dict(
        evaluations=len(cases), distinct_nontrivial=min(nontrivial, distinct),
        rule="a case = thread programs + a complete schedule at segment granularity. Two-thread families over every pair of call kinds "
             "(append / batch append / read_next / peek / batch read, with serial prologues that put the next append at a block rotation): "
             "ALL schedules when the family has at most %d of them (%s), else all schedules with <= 2 preemptions (capped at the same number) plus random ones; "
             "plus random programs with 2-4 threads on 1-2 topics under random schedules; plus schedules the model says cannot be followed. "
             "non-trivial = at least two thread switches inside the schedule; %d distinct case lines" % (limit, "quick tier: sampled down to %d per family" % per_fam_quick if q else "thorough tier", distinct),
        traces_validated_against_impl=len(cases) - nunm,
        samples=[dict(case=l, impl=canon(i)[:500]) for l, i in list(zip(full, il))[:2] + list(zip(full, il))[-2:]],
        histogram=dict(hist, model_impl_disagreements=ndiff, traces_rejected=rejected, cases_leaving_the_model=nunm,
                       families_enumerated_exhaustively=[dict(family=n, schedules=k) for n, k in exhaustive_fams],
                       families_sampled=sampled_fams, repo_built=("copy of the working tree + hooks/C05.diff" if repo_used != C.REPO else "/repo (hook present)")),
        exhaustive=(not q) and not sampled_fams,
    )
    return dict(failures=failures, broken=broken, coverage=cov)


def classify(f, known):
    """A rejected run is a known finding only if the extracted monitor put its case (programs +
    schedule) into the finding's class."""
    cls = set(f.get("classes", []))
    for k in known:
        if k.get("class") in cls:
            return k
    return None
