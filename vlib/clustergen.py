"""Case generation and running for C22 / C23 (cluster harness `cwh` vs. extracted model).

A case is one line  nodes=N;thr=T;lead=L;clients=<ops>/<ops>/...;sched=<ev>,<ev>,...
(syntax documented in harness/cwh/src/main.rs).  The LAST client is the drain client: its
GETs are scheduled only in the quiescent suffix, so a run always ends with: every client
operation answered, every committed command applied everywhere, leases synced, and one node
reading the topic down to EMPTY — which is what lets the C22 acceptor decide "delivered by
exactly one GET" from its EMPTY clause."""
import os
import subprocess
from concurrent.futures import ThreadPoolExecutor

from . import common as C

STEPS_PER_OP = 16


def case_line(nodes, thr, lead, clients, sched):
    return "nodes=%d;thr=%d;lead=%d;clients=%s;sched=%s" % (
        nodes, thr, lead, "/".join(".".join(c) for c in clients), ",".join(sched))


def quiesce_suffix(nodes, clients, drain_idx, rounds=None):
    """Deterministic suffix: finish every in-flight operation, apply everything, sync leases,
    then let the drain client read to EMPTY."""
    work = [i for i in range(len(clients)) if i != drain_idx]
    maxops = max([len(clients[i]) for i in work] + [1])
    rounds = rounds or (STEPS_PER_OP * maxops + 8)
    s = []
    for _ in range(rounds):
        for n in range(1, nodes + 1):
            s += ["a%d" % n]
        for i in work:
            s.append("c%d" % i)
        for n in range(1, nodes + 1):
            s += ["m%d" % n, "l%d" % n]
    for _ in range(4):
        for n in range(1, nodes + 1):
            s += ["a%d" % n, "a%d" % n, "m%d" % n, "l%d" % n, "l%d" % n, "l%d" % n]
    nd = len(clients[drain_idx])
    for _ in range(nd * 9 + 12):
        s.append("c%d" % drain_idx)
        # the drain's own reads never propose anything, but keep everything applied
    return s


def random_restart_case(rng):
    """One sequential producer, restarts between (and, refused, inside) its operations."""
    nodes = rng.choice([1, 1, 2])
    thr = rng.choice([2, 2, 3])
    lead = rng.randint(1, nodes)
    ops = ["P%d" % rng.randint(1, nodes) for _ in range(rng.randint(3, 6))]
    dnode = rng.randint(1, nodes)
    clients = [ops, ["G%d" % dnode] * (len(ops) + 2)]
    body = []
    for _ in ops:
        k = rng.choice([9, 10, 11, 12, 14, 16, 20])
        for j in range(k):
            body.append("c0")
            if rng.random() < 0.25:
                body.append("a%d" % rng.randint(1, nodes))
            if rng.random() < 0.05:
                body.append("r%d" % rng.randint(1, nodes))
        for n in range(1, nodes + 1):
            body += ["a%d" % n] * rng.randint(0, 2)
        if rng.random() < 0.6:
            body.append("r%d" % rng.randint(1, nodes))
    return case_line(nodes, thr, lead, clients, body + quiesce_suffix(nodes, clients, 1))


def random_case(rng, nodes=None, thr=None, max_clients=3, max_ops=4, body_scale=1.0, with_restart=False):
    if with_restart:
        return random_restart_case(rng)
    nodes = nodes or rng.choice([1, 1, 2, 2, 3])
    thr = thr or rng.choice([1, 1, 2, 2, 3, 4])
    lead = rng.randint(1, nodes)
    clients = []
    nprod = rng.randint(1, max_clients)
    for _ in range(nprod):
        ops = []
        for _ in range(rng.randint(1, max_ops)):
            ops.append("%s%d" % (rng.choice("PPPG"), rng.randint(1, nodes)))
        clients.append(ops)
    nputs = sum(1 for c in clients for o in c if o[0] == "P")
    dnode = rng.randint(1, nodes)
    clients.append(["G%d" % dnode] * (nputs + 2))
    drain = len(clients) - 1
    body = []
    budget = int(sum(len(c) for c in clients[:drain]) * STEPS_PER_OP * body_scale)
    style = rng.choice(["uniform", "bursty", "lagging"])
    lag = rng.randint(1, nodes) if style == "lagging" else 0
    for _ in range(budget):
        r = rng.random()
        if r < 0.66:
            i = rng.randrange(drain)
            body.append("c%d" % i)
            if style == "bursty":
                body += ["c%d" % i] * rng.randint(0, 5)
        elif r < 0.82:
            n = rng.randint(1, nodes)
            if n == lag and rng.random() < 0.85:
                continue
            body.append("a%d" % n)
        elif r < 0.91:
            body.append("l%d" % rng.randint(1, nodes))
        else:
            body.append("m%d" % rng.randint(1, nodes))
    sched = body + quiesce_suffix(nodes, clients, drain)
    return case_line(nodes, thr, lead, clients, sched)


def build_cwh():
    return C.build_rust("cwh", cfgs=("walrus_verif", "walrus_verif_small"))


def run_impl(cwh, cases, tag="c22"):
    """Run cases on the real code, sharded over NPROC `cwh run` processes."""
    if not cases:
        return []
    base = C.shm_dir(tag)
    shards = min(C.NPROC, len(cases))
    chunks = [cases[i::shards] for i in range(shards)]

    def one(k):
        d = os.path.join(base, "s%d" % k)
        os.makedirs(d, exist_ok=True)
        out, rc, err = C.run_lines([cwh, "run", d], chunks[k], timeout=1800)
        if len(out) != len(chunks[k]):
            out = out + ["<missing>"] * (len(chunks[k]) - len(out))
        return out
    with ThreadPoolExecutor(shards) as ex:
        outs = list(ex.map(one, range(shards)))
    subprocess.run(["rm", "-rf", base])
    res = [None] * len(cases)
    for k in range(shards):
        for j, o in enumerate(outs[k]):
            res[k + j * shards] = o
    return res


def run_model(driver, cmd, lines):
    out, rc, err = C.run_lines_parallel([driver, cmd], lines)
    if len(out) != len(lines):
        out = out + ["<missing>"] * (len(lines) - len(out))
    return out


def cfg_prefix(case):
    """`nodes=..;thr=..;lead=..` part of a case (what the C23 acceptor needs)."""
    return ";".join(p for p in case.split(";") if p.split("=")[0] in ("nodes", "thr", "lead"))
