"""C20 — metadata replicas converge, including via snapshot transfer.
Theorems: coq/props/C20.v.
 (a) state machine's own snapshot/restore: c20_codec_roundtrip (any map iteration order),
     c20_restore_reproduces, c20_then_equal, c20_snapshot_converges (all command sequences).
     Correspondence: unmodified metadata.rs + shims/bincode in harness/dwh (both profiles)
     against the extracted model on cases with `S` (snapshot -> fresh restore) at every
     point and `X:<hex>` (restore of model-encoded listings in shuffled order, mutated
     snapshot bytes); snapshot bytes are compared after canonicalisation (HashMap iteration
     order is arbitrary) and the extracted acceptor c20_snap_ok decodes the IMPLEMENTATION's
     own snapshot bytes with the model's decoder.
 (b) Raft adapter (octopii/src/openraft/storage.rs): cannot be compiled offline.  The model
     (coq/model/Adapter.v) is tied to the source by a FINGERPRINT of the relevant items
     (vlib/c20_fingerprint.json) — the weakest tie in the framework.  The refutation
     c20_refuted_adapter is re-run on the extracted model; a fingerprint mismatch is a
     broken correspondence."""
import hashlib
import json
import os
import re

from . import common as C
from . import c18 as G

TRUSTED_EXTRA = G.TRUSTED_EXTRA + [
    "octopii/src/openraft/storage.rs is NOT executed: model/Adapter.v was written from its text; the check compares a whitespace-normalised "
    "SHA-256 of StateMachineData, MemStateMachine, MemStateMachine::new, build_snapshot, applied_state, apply, begin_receiving_snapshot, "
    "install_snapshot, get_current_snapshot, get_snapshot_builder and of every line of octopii/src/openraft/*.rs that mentions the adapter's "
    "data map with vlib/c20_fingerprint.json",
    "openraft's handling of an Err from install_snapshot (fatal storage error) and its choice of when to build/install snapshots are outside the model",
]
ASSUMPTIONS = [
    "string and map lengths fit a u64 and every integer field is a u64 (hypothesis cluster_wf of the codec theorems; proved for all reachable states: c20_reachable_in_domain)",
    "snapshots that reach install_snapshot were produced by build_snapshot of an adapter of the same code (the areach closure of the adapter theorems)",
    "the real bincode crate behaves like harness/shims/bincode (1.3 default configuration)",
]

FP_FILE = os.path.join(os.path.dirname(os.path.abspath(__file__)), "c20_fingerprint.json")
STORAGE = "octopii/src/openraft/storage.rs"
ITEMS = ["struct StateMachineData", "struct MemStateMachine", "fn new", "fn build_snapshot", "fn applied_state", "fn apply",
         "fn begin_receiving_snapshot", "fn install_snapshot", "fn get_current_snapshot", "fn get_snapshot_builder"]


def _norm(s):
    s = re.sub(r"//[^\n]*", "", s)
    return re.sub(r"\s+", " ", s).strip()


def _item(src, head):
    """Text of the item starting at `head` (word-bounded) up to its matching closing brace."""
    m = re.search(r"\b" + re.escape(head) + r"\b", src)
    if not m:
        return None
    i = src.find("{", m.end())
    if i < 0:
        return None
    depth, j = 0, i
    while j < len(src):
        if src[j] == "{":
            depth += 1
        elif src[j] == "}":
            depth -= 1
            if depth == 0:
                return src[m.start():j + 1]
        j += 1
    return None


def fingerprint(repo):
    path = os.path.join(repo, STORAGE)
    src = open(path).read()
    a = src.find("// --- State Machine Store ---")
    b = src.find("pub struct WalLogStore")
    if a < 0 or b < 0 or b < a:
        raise RuntimeError("storage.rs: state machine section not found")
    sec = src[a:b]
    items = {}
    for h in ITEMS:
        t = _item(sec, h)
        items[h] = hashlib.sha256(_norm(t).encode()).hexdigest() if t is not None else "missing"
    # every line in the module that touches the adapter's private map or its container
    d = os.path.join(repo, "octopii/src/openraft")
    lines = []
    for fn in sorted(os.listdir(d)):
        if fn.endswith(".rs"):
            for l in open(os.path.join(d, fn)):
                if re.search(r"StateMachineData|state_machine\w*\s*\.\s*data\b|\bsm\s*\.\s*data\b|updated_state_machine_data", l):
                    lines.append(fn + ": " + _norm(l))
    items["lines mentioning the adapter's data map"] = hashlib.sha256("\n".join(lines).encode()).hexdigest()
    # the trait the shim copies
    tr = _item(open(os.path.join(repo, "octopii/src/state_machine.rs")).read(), "pub trait StateMachineTrait")
    sh = _item(open(os.path.join(C.VERIF, "harness/shims/octopii/src/lib.rs")).read(), "pub trait StateMachineTrait")
    items["StateMachineTrait equals shim copy"] = "yes" if tr is not None and sh is not None and _norm(tr) == _norm(sh) else "NO"
    return items, lines


# --------------------------------------------------------------------------- case generation
def rand_name(rng):
    return rng.choice(G.NAMES + [b"n%d" % rng.randrange(5)])


def rand_u64(rng):
    return rng.choice([0, 1, 2, 3, 7, 2**32, 2**63, G.U64, rng.randrange(2**64)])


def rand_pairs(rng, maxn, dup=False):
    n = rng.randint(0, maxn)
    ks = [rng.choice([1, 2, 3, 4, 5, 2**63, G.U64]) if dup else k for k in rng.sample(range(1, 40), n)]
    return ["%d:%d" % (k, rand_u64(rng)) for k in ks]


def rand_dump(rng, dup=False):
    """A state in dump syntax with its maps in random order (a listing).  With dup: repeated keys."""
    nt = rng.randint(0, 4)
    names = [rand_name(rng) for _ in range(nt)] if dup else rng.sample(G.NAMES + [b"n1", b"n2"], nt)
    topics = []
    for nm in names:
        topics.append("%s=%d,%d,%d,[%s],[%s]" % (C.hx(nm), rand_u64(rng), rand_u64(rng), rand_u64(rng),
                                                 ";".join(rand_pairs(rng, 5, dup)), ";".join(rand_pairs(rng, 5, dup))))
    nn = rng.randint(0, 4)
    ids = [rng.choice([1, 2, G.U64]) for _ in range(nn)] if dup else rng.sample([0, 1, 2, 3, 9, 2**63, G.U64], nn)
    nodes = ["%d:%s" % (i, C.hx(rand_name(rng))) for i in ids]
    return "state{%s|%s}" % ("/".join(topics), "/".join(nodes))


def snap_variants(cmds):
    """base `D c1 D c2 D ...` and, for every position k, the same with `S D` after the k-th dump."""
    base = ["D"]
    for c in cmds:
        base += [c, "D"]
    out = []
    for k in range(len(cmds) + 1):
        v = []
        v += ["D"]
        if k == 0:
            v += ["S", "D"]
        for i, c in enumerate(cmds, 1):
            v += [c, "D"]
            if i == k:
                v += ["S", "D"]
        out.append(" ".join(v))
    return " ".join(base), out


def gen_cases(tier, rng, driver, broken):
    singles, pairs = [], []       # pairs: (base case, variant case)
    corpus_dir = os.path.join(C.VERIF, "corpus", "C20")
    ncorpus = 0
    if os.path.isdir(corpus_dir):
        for fn in sorted(os.listdir(corpus_dir)):
            for l in open(os.path.join(corpus_dir, fn)):
                l = l.strip()
                if l and not l.startswith("#"):
                    singles.append(l); ncorpus += 1
    small = [c for c in G.alphabet_small() if not c.startswith("A:")]
    import itertools
    exn = 3 if tier == "quick" else 4
    seqs = []
    for n in range(0, exn + 1):
        seqs += [list(t) for t in itertools.product(small, repeat=n)]
    if tier == "quick":
        seqs = seqs[:200] + rng.sample(seqs[200:], 1300)
    nlong = 120 if tier == "quick" else 3000
    for _ in range(nlong):
        names = rng.sample(G.NAMES, rng.randint(1, 3))
        n = rng.choice([6, 12, 25, 40])
        seqs.append(["C:%s:%d" % (C.hx(nm), rng.randint(1, 3)) for nm in names] + [G.random_cmd(rng, names) for _ in range(n)])
    for cmds in seqs:
        base, vs = snap_variants(cmds)
        if len(vs) > 8:
            vs = [vs[0], vs[-1]] + rng.sample(vs[1:-1], 6)
        for v in vs:
            pairs.append((base, v))
    # restore of listings encoded by the MODEL in shuffled order, then snapshot by the implementation
    nstates = 4000 if tier == "quick" else 60000
    dumps = [rand_dump(rng, dup=(rng.random() < 0.15)) for _ in range(nstates)]
    enc, rc, err = C.run_lines_parallel([driver, "encode_state"], dumps)
    if rc or len(enc) != len(dumps) or any(e == "badcase" for e in enc):
        broken.append(dict(kind="harness", what="encode_state failed rc=%s %s" % (rc, err[-300:])))
        enc = [e for e in enc if e != "badcase"]
    for h in enc:
        singles.append("X:%s D S D" % h)
        r = rng.random()
        b = C.unhx(h)
        if r < 0.35:      # mutated snapshot bytes: must be rejected or accepted identically by both
            singles.append("C:74:1 D X:%s D S D" % C.hx(G.mutate(rng, b)))
        elif r < 0.45:
            singles.append("X:%s D S D" % C.hx(b + bytes(rng.randrange(256) for _ in range(rng.randint(1, 12)))))   # trailing bytes
        elif r < 0.5:
            singles.append("X:%s D" % C.hx(b[:rng.randrange(len(b) + 1)]))
    # a poisoned lock and snapshots (dev profile panics, release wraps)
    singles += ["C:74:1 D R:74:2:18446744073709551615 D R:74:3:1 D S D C:74:5 D S D",
                "C:74:1 R:74:2:18446744073709551615 R:74:3:1 X:00000000000000000000000000000000 D"]
    return list(dict.fromkeys(singles)), list(dict.fromkeys(pairs)), dict(corpus=ncorpus, sequences=len(seqs), listings=len(enc))


ADAPTER_CASES = [
    "C:74:1 R:74:2:5 ; ",                          # the Coq witness (c20_refuted_adapter): fresh receiver
    "C:74:1 R:74:2:5 U:1:61 ; C:74:1",             # receiver lags
    "C:74:1 ; C:74:1",                             # receiver already equal: outside the known class
    " ; ",                                         # both fresh: outside
    "C:74:1 R:74:2:5 ; C:75:9 R:75:1:1",           # receiver diverged
]


def run(ctx):
    tier, rng, driver = ctx["tier"], ctx["rng"], ctx["driver"]
    failures, broken = [], []
    dwh = {"dev": C.build_rust("dwh", cfgs=(), release=False), "release": C.build_rust("dwh", cfgs=(), release=True)}
    variant, mcmd = G.model_cmds()
    singles, pairs, info = gen_cases(tier, rng, driver, broken)
    if ctx.get("replay"):
        singles = [f["case"] for f in ctx["replay"].get("failing", []) + ctx["replay"].get("broken", []) if "case" in f and "||" not in f["case"]] + singles
    cases = list(dict.fromkeys(singles + [b for b, _ in pairs] + [v for _, v in pairs]))
    stats = {}
    nsnap = 0
    for prof in ("dev", "release"):
        impl, rc, err = C.run_lines_parallel([dwh[prof], "meta"], cases)
        model, rc2, err2 = C.run_lines_parallel([driver, mcmd[prof]], cases)
        if rc or rc2 or len(impl) != len(cases) or len(model) != len(cases):
            broken.append(dict(kind="correspondence", what="meta runs failed (%s) rc=%s/%s %s %s" % (prof, rc, rc2, err[-300:], err2[-300:])))
            impl += ["<missing>"] * (len(cases) - len(impl)); model += ["<missing>"] * (len(cases) - len(model))
        ci, _, _ = C.run_lines_parallel([driver, "meta_canon"], impl)
        cm, _, _ = C.run_lines_parallel([driver, "meta_canon"], model)
        acc, rc3, err3 = C.run_lines_parallel([driver, "accept_c20"], impl)
        if len(ci) != len(cases) or len(cm) != len(cases) or len(acc) != len(cases):
            broken.append(dict(kind="harness", what="meta_canon/accept_c20 failed %s" % err3[-300:]))
            continue
        out_of = dict(zip(cases, impl))
        ndiff = nrej = nraw = 0
        for c, i, m, x, y, a in zip(cases, impl, model, ci, cm, acc):
            if i != m:
                nraw += 1
            if x != y:
                ndiff += 1
                if ndiff <= 5:
                    broken.append(dict(kind="correspondence", profile=prof, case=c, impl=i[:2000], model=m[:2000],
                                       what="model and implementation disagree on snapshot/restore/apply (%s profile, snapshot bytes canonicalised)" % prof))
            if not a.startswith("ok"):
                nrej += 1
                if nrej <= 20:
                    failures.append(dict(kind="acceptor", profile=prof, case=c, impl=i[:4000], verdict=a, classes=["snapshot_restore"],
                                         what="snapshot restored into a fresh state machine does not reproduce the state (c20_snap_ok, %s profile): %s" % (prof, a)))
            else:
                nsnap += int(a.split()[1])
        # then-equal: inserting a snapshot/restore at any point changes nothing that follows
        plines = [out_of[b] + " || " + out_of[v] for b, v in pairs]
        pacc, rc4, err4 = C.run_lines_parallel([driver, "accept_c20_pair"], plines)
        npr = 0
        for (b, v), a in zip(pairs, pacc):
            if a != "ok":
                npr += 1
                if npr <= 20:
                    failures.append(dict(kind="acceptor", profile=prof, case=v, base_case=b, impl=out_of[v][:4000], impl_base=out_of[b][:4000], verdict=a,
                                         classes=["then_equal"],
                                         what="run with a snapshot/restore inserted differs from the run without it (%s profile)" % prof))
        # a run whose lock was poisoned by the C18 overflow (dev profile) is "healed" to the empty state by S
        tofix = [f for f in failures if f.get("profile") == prof and f.get("classes") == ["then_equal"]]
        if tofix:
            kn, _, _ = C.run_lines([driver, "known_c18"], [f["case"] for f in tofix])
            for f, k in zip(tofix, kn):
                if k == "sum_overflow" and prof == "dev":
                    f["classes"] = ["poisoned_by_sum_overflow"]
        stats[prof] = dict(disagreements=ndiff, raw_textual_differences_before_canonicalisation=nraw, snapshot_rejections=nrej,
                           pair_rejections=npr, restore_ok=sum(l.count("restore:ok") for l in impl),
                           restore_err=sum(l.count("restore:err") for l in impl), panics=sum(l.count("panic") for l in impl))
        sample_impl = impl
    # ---- (b) adapter: fingerprint + model-level refutation
    fp_now, lines = fingerprint(C.REPO)
    fp_ok = False
    try:
        rec = json.load(open(FP_FILE))
        diff = [k for k in sorted(set(fp_now) | set(rec["items"])) if fp_now.get(k) != rec["items"].get(k)]
        fp_ok = not diff
        if diff:
            broken.append(dict(kind="correspondence", what="source fingerprint of the Raft adapter changed: %s — coq/model/Adapter.v was written from the "
                                                           "recorded text of %s and no longer describes this code (re-read the source, update the model, "
                                                           "re-record with `python3 -m vlib.c20 record`)" % (", ".join(diff), STORAGE), items=diff))
    except Exception as e:
        broken.append(dict(kind="correspondence", what="cannot read %s: %r" % (FP_FILE, e)))
    aout, rc5, err5 = C.run_lines([driver, "adapter"], ADAPTER_CASES)
    aacc, _, _ = C.run_lines([driver, "accept_c20_adapter"], aout)
    arej = 0
    for c, o, a in zip(ADAPTER_CASES, aout, aacc):
        differs = ("sender=" in o) and (re.search(r"sender=(\S+)", o).group(1) != re.search(r"receiver_before=(\S+)", o).group(1))
        if a != "ok":
            arej += 1
            if fp_ok:
                failures.append(dict(kind="model-refutation", case="adapter " + c, model=o, verdict=a,
                                     classes=["adapter_states_differ"] if differs else ["adapter_install_error_only"],
                                     on="extracted model of storage.rs (the file cannot be compiled offline; tied by fingerprint)",
                                     what="installing the snapshot built by the sender's adapter does not give the receiver the sender's application metadata"))
    failures.sort(key=lambda f: len(f.get("case", "")))
    cov = dict(
        evaluations=2 * len(cases) + 2 * len(pairs) + len(ADAPTER_CASES),
        distinct_nontrivial=sum(1 for c in cases if (" S " in " " + c + " " and ("R:" in c or "X:" in c))),
        rule="distinct case lines, each on both build profiles: corpus; command sequences (all of length <= %d over %d commands%s, plus seeded random "
             "sequences of 6-40 commands over up to 3 topics) with a snapshot -> fresh restore inserted at every position (up to 8 positions for long "
             "ones), each compared with the same sequence without it; %d random ClusterState listings (maps shuffled, 15%% with repeated keys, boundary "
             "u64 values, empty/non-ASCII names) encoded by the MODEL and restored by the implementation, then snapshotted by the implementation and "
             "decoded by the model; mutated / truncated / extended snapshot bytes. non-trivial = the case takes a snapshot of a state reached by at "
             "least one rollover or by a restore" % (3 if tier == "quick" else 4, len([c for c in G.alphabet_small() if not c.startswith('A:')]),
                                                      " (the first 200 and 1300 sampled in the quick tier)" if tier == "quick" else "", info["listings"]),
        traces_validated_against_impl=2 * len(cases) + 2 * len(pairs),
        snapshots_validated=nsnap,
        samples=[dict(case=c, impl=i[:1500]) for c, i in list(zip(cases, sample_impl))[:2] + list(zip(cases, sample_impl))[len(singles) // 2:len(singles) // 2 + 2]]
                + [dict(adapter_case=c, model=o) for c, o in list(zip(ADAPTER_CASES, aout))[:2]],
        histogram=dict(cases=len(cases), pairs=len(pairs), corpus_cases=info["corpus"], base_sequences=info["sequences"], listings=info["listings"],
                       source_variant=variant, adapter_model_cases=len(ADAPTER_CASES), adapter_model_rejections=arej, fingerprint_matches=fp_ok, **stats),
        adapter_fingerprint=fp_now,
        exhaustive=False,
    )
    return dict(failures=failures, broken=broken, coverage=cov)


def classify(f, known):
    """The class is computed from the case: for the adapter, whether sender and receiver
    application states differ at install time (the KnownClass of c20_outside_known)."""
    cl = f.get("classes", [])
    for k in known:
        if k.get("class") in cl:
            return k
    return None


if __name__ == "__main__":
    import sys
    if len(sys.argv) > 1 and sys.argv[1] == "record":
        items, lines = fingerprint(C.REPO)
        json.dump(dict(file=STORAGE, normalisation="// comments removed, whitespace runs collapsed; SHA-256 of each item's text from its keyword to its closing brace",
                       items=items, lines_mentioning_data_map=lines), open(FP_FILE, "w"), indent=1)
        print("recorded", FP_FILE)
    else:
        print(json.dumps(fingerprint(C.REPO)[0], indent=1))
