"""C04 — rejected or failed appends leave no trace; batches are all-or-nothing.
Part A (rejections: every cause, interleaved with everything else, with restarts): the engine
model + queue acceptors (vlib/engine_props.py, generator with rejects and restarts).
Part B (injected I/O failures): single-fault enumeration through the I/O event seam
(vlib/crashprops.py::run_faults).  Theorems: coq/props/C04.v."""
from . import crashprops, engine_props

TRUSTED_EXTRA = engine_props.TRUSTED_EXTRA + [x for x in crashprops.TRUSTED_EXTRA if x not in engine_props.TRUSTED_EXTRA]
ASSUMPTIONS = engine_props.ASSUMPTIONS + ["faults are injected one at a time; file-creation faults are not injected (a failed creation leaves the allocator's spin lock held: the next allocation never returns — noted in DESIGN, not exercised because it hangs the harness)"]


def run(ctx):
    a = engine_props.run(ctx)
    b = crashprops.run(ctx)
    cov = dict(a["coverage"])
    cov["evaluations"] += b["coverage"]["evaluations"]
    cov["distinct_nontrivial"] += b["coverage"]["distinct_nontrivial"]
    cov["traces_validated_against_impl"] += b["coverage"]["traces_validated_against_impl"]
    cov["rule"] = "A: " + cov["rule"] + " | B: " + b["coverage"]["rule"]
    cov["samples"] = cov["samples"][:1] + b["coverage"]["samples"][:1]
    cov["histogram"] = dict(rejections=cov["histogram"], faults=b["coverage"]["histogram"])
    cov["exhaustive"] = False
    return dict(failures=a["failures"] + b["failures"], broken=a["broken"] + b["broken"], coverage=cov)


def classify(f, known):
    cls = set(f.get("classes", []))
    for k in known:
        if k.get("class") in cls:
            return k
    return None
